#!/bin/bash
# usage: ./run.sh <Cxx> quick|thorough
# Static check of one property against /repo's current working tree. Exit 0 ok, 1 VIOLATION, 2 checker error.
set -u
PROP="${1:?property id}"; TIER="${2:-quick}"
HERE="$(cd "$(dirname "$0")" && pwd)"
REPO="${H5SA_REPO:-/repo}"
export PATH=/opt/veriftools/go1.26.8/bin:$PATH
export GOTOOLCHAIN=local GOFLAGS=-mod=mod GOPROXY=off GOSUMDB=off GONOSUMDB='*' GONOSUMCHECK=1 CGO_ENABLED=0
unset GOWORK
if [ ! -x "$HERE/bin/h5sa" ] || [ -n "$(find "$HERE/sa" -newer "$HERE/bin/h5sa" -name '*.go' -print -quit 2>/dev/null)" ]; then
  "$HERE/setup.sh" >&2 || { echo "CHECKER-ERROR property=$PROP cannot build h5sa"; exit 2; }
fi
SELF=""
if [ "$TIER" = thorough ] && [ -d "$HERE/seeded" -o -d "$HERE/mutants" ]; then
  SELF="$(mktemp /dev/shm/h5sa-selftest.XXXXXX.json 2>/dev/null || mktemp)"
  "$HERE/selftest.sh" "$PROP" "$SELF" >&2 || true
  export H5SA_SELFTEST_JSON="$SELF"
  # maintenance: keep a copy for gen_catch_table.py (ST_DIR) so that the self-test is not run twice
  [ -n "${H5SA_KEEP_SELFTEST:-}" ] && cp "$SELF" "$H5SA_KEEP_SELFTEST/$PROP.json" 2>/dev/null
fi
"$HERE/bin/h5sa" -prop "$PROP" -tier "$TIER" -repo "$REPO" -verif "$HERE"
rc=$?
[ -n "$SELF" ] && rm -f "$SELF"
exit $rc
