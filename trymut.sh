#!/bin/bash
# usage: trymut.sh <patch.diff> <prop> [<prop>...] — apply a seeded change to /repo, run the quick checks, undo it.
P="$1"; shift
cd /repo || exit 2
if [ -n "$(git status --porcelain)" ]; then echo "repo dirty"; exit 2; fi
git apply "$P" || { echo "patch does not apply"; exit 2; }
for prop in "$@"; do
  out=$(/verif/bin/h5sa -prop "$prop" -repo /repo -verif /verif -no-evidence 2>&1); rc=$?
  echo "--- $prop rc=$rc"; echo "$out" | grep -E "FINDING|CHECKER" | cut -c1-400
done
git checkout -- . && git clean -fdq
