#!/bin/bash
# usage: trymut.sh <patch.diff> <prop> [<prop>...] — apply a seeded change to /repo, run the quick checks, undo it.
P="$(readlink -f "$1")"; shift
cd /repo || exit 2
if [ -n "$(git status --porcelain)" ]; then echo "repo dirty"; exit 2; fi
if ! git apply "$P" 2>/dev/null; then
  git apply --3way "$P" >/dev/null 2>&1
  if git diff | grep -q '^[ +-]*<<<<<<<' || [ -z "$(git status --porcelain)" ]; then
    echo "patch does not apply"; git checkout -q HEAD -- . ; git reset -q; exit 2
  fi
  git reset -q
fi
for prop in "$@"; do
  out=$(/verif/bin/h5sa -prop "$prop" -repo /repo -verif /verif -no-evidence 2>&1); rc=$?
  echo "--- $prop rc=$rc"; echo "$out" | grep -E "FINDING|CHECKER" | cut -c1-400
done
git checkout -- . && git clean -fdq
