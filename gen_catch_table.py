#!/usr/bin/env python3
"""Runs selftest.sh for every claimed property and writes /verif/CATCH_TABLE.md (which rule reports which change)."""
import json, subprocess, os, tempfile
claims = json.load(open('/verif/claims.json'))
rows = []
# ONLY=C01,C11 re-runs (or re-reads from ST_DIR) these properties and keeps the rows of the others as they are in CATCH_TABLE.md
only = [x for x in os.environ.get('ONLY', '').split(',') if x]
kept = {}
if only and os.path.exists('/verif/CATCH_TABLE.md'):
    for line in open('/verif/CATCH_TABLE.md').read().splitlines()[2:]:
        cells = [c.strip() for c in line.strip().strip('|').split(' | ')]
        if len(cells) == 4 and cells[0] not in only:
            kept.setdefault(cells[0], []).append(tuple(cells))
for pid in sorted(claims):
    if not claims[pid].get('claimed'):
        continue
    if only and pid not in only:
        rows.extend(kept.get(pid, []))
        continue
    pre = os.path.join(os.environ.get('ST_DIR', '/nonexistent'), pid + '.json')
    if os.path.exists(pre):  # selftests already run (in parallel) with the same binary
        d = json.load(open(pre))
    else:
        out = tempfile.mktemp(suffix='.json', dir='/dev/shm')
        subprocess.run(['/verif/selftest.sh', pid, out], stderr=subprocess.DEVNULL)
        d = json.load(open(out)); os.remove(out)
    for x in d['details']:
        if x['id'] == 'control':
            rows.append((pid, 'control (unchanged copy)', 'clean' if x['exit'] == 0 else 'NOT CLEAN', ''))
            continue
        what = ''
        if x['id'].startswith('seeded/'):
            nd = f"/verif/seeded/{x['id'][7:]}/notes.md"
            if os.path.exists(nd):
                for line in open(nd):
                    line = line.strip().lstrip('#').strip()
                    if line:
                        what = line[:110]; break
        else:
            c = x['id'].split('-')[-1]
            what = subprocess.run(['git', '-C', '/repo', 'log', '-1', '--format=%s', c], capture_output=True, text=True).stdout.strip()[:110]
        st = 'stale patch' if not x['applies'] else ('reported' if x['exit'] == 1 else ('checker error' if x['exit'] == 2 else 'NOT reported'))
        rows.append((pid, x['id'], st + (': ' + x['rules'] if x['rules'] else ''), what))
with open('/verif/CATCH_TABLE.md', 'w') as f:
    f.write('| property | change | outcome of that property\'s check | what the change is |\n|---|---|---|---|\n')
    for r in rows:
        f.write('| ' + ' | '.join(s.replace('|', '/') for s in r) + ' |\n')
n = sum(1 for r in rows if r[1] != 'control (unchanged copy)')
k = sum(1 for r in rows if r[2].startswith('reported'))
print(f'{k} of {n} changes reported')
