#!/bin/bash
# usage: benign_eval.sh <dir>  : every property's check on a scratch copy for every B*.diff in dir
DIR=$1
ALL=$(/verif/bin/h5sa -list | cut -d' ' -f1 | tr '\n' ' ')
one() {
  f=$1
  out=$(/verif/evalpatch.sh $f $ALL 2>&1 | grep -v WARNING | grep "^FINDING\|CHECKER-ERROR\|DOES-NOT" | cut -c1-300)
  echo "== $(basename $f): $(echo "$out" | grep -c . ) report(s)"
  [ -n "$out" ] && echo "$out"
}
export -f one
export ALL
ls $DIR/B*.diff | xargs -P 4 -I{} bash -c 'one {}'
