#!/bin/bash
# builds /verif/bin/h5sa offline from /verif/sa (x/tools v0.50.0 from the module cache, go1.26.8)
set -eu
HERE="$(cd "$(dirname "$0")" && pwd)"
export PATH=/opt/veriftools/go1.26.8/bin:$PATH
export GOTOOLCHAIN=local GOFLAGS=-mod=mod GOPROXY=off GOSUMDB=off CGO_ENABLED=0
unset GOWORK
mkdir -p "$HERE/bin" "$HERE/evidence"
cd "$HERE/sa"
go build -o "$HERE/bin/h5sa" .
echo "built $HERE/bin/h5sa"
