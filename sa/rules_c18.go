package main

import (
	"go/token"
	"go/types"
	"sort"
	"strings"

	"golang.org/x/tools/go/ssa"
)

func init() {
	register("C18", PropMeta{
		Title: "Independent handles and background rebalancing are race-free and stop cleanly",
		Explanation: "Lock-set analysis (must-hold sets per instruction, entry sets of unexported helpers = intersection over their static call sites) against a frozen guarded-by table; " +
			"goroutine-shared state: every field touched both by code reachable from a `go` target and by foreground code, with at least one write outside constructors, must be accessed under its owner's mutex on every access; " +
			"pooled buffers (utils.GetBuffer) that are released must not be stored, returned or appended on any path that does not re-acquire them; package-level variables are written only by initialisers; " +
			"each `go` statement has a deferred completion signal, a stop function that signals and then waits for it, and a start flag set under the lock.",
		DoesNotDecide: "equality of parallel and sequential results; races that need aliasing between distinct handles; anything the race detector would need a schedule for",
		Rules: map[string]string{
			"C18.1":  "a pooled buffer that is released does not escape (store to field/element/map, return, append into a kept slice) before or after the release without being re-acquired",
			"C18.15": "a pooled buffer goes back to the pool once: for every utils.GetBuffer no path passes two releases of that buffer (explicit, or explicit and deferred) without acquiring it again (ReleaseBuffer(buf) for ReleaseBuffer(entryBuf) in the entry loop of ReadBTreeEntries puts the node header's buffer into the pool once per entry and once more on return: two handles reading in parallel receive the same backing array)",
			"C18.2":  "no package-level variable of the library is written outside its declaration or init (handles share no mutable global state)",
			"C18.4":  "guarded-by: every access to a field of the frozen guarded table holds the owner's mutex (constructor writes to a fresh object excepted)",
			"C18.5":  "state shared between a background goroutine and foreground calls is accessed under a common lock on both sides",
			"C18.6":  "goroutine lifecycle: deferred completion signal, stop = signal then wait, start flag tested and set under the lock, stop cannot signal twice",
		},
	}, ruleC18Guarded, ruleC18Shared, ruleC18Pool, ruleC18Globals, ruleC18Lifecycle)

	except("C18", "C18.4", "rebalancing.SmartRebalancer.Stop#rebalancing.SmartRebalancer.currentMode#read-unlocked", "read after wg.Wait(): the only other writer is the goroutine that has just been joined, and started=false (set under the lock) keeps Start from spawning another")
	except("C18", "C18.5", "rebalancing.SmartRebalancer.currentMode#shared-with-goroutine-unlocked", "the only unlocked access is the read in Stop after wg.Wait(), when the writing goroutine has been joined (same reason as the C18.4 exception)")
	except("C18", "C18.5", "rebalancing.SmartRebalancer.ctx#shared-with-goroutine-unlocked", "the only unlocked access is the goroutine's own read of ctx, which Start wrote under the lock before the go statement (same reason as the C18.4 exception)")
	except("C18", "C18.4", "rebalancing.SmartRebalancer.monitorLoop#rebalancing.SmartRebalancer.ctx#read-unlocked", "ctx is written once in Start under the lock before the `go` statement that creates this goroutine (happens-before), and never again while it runs")
}

// frozen guarded-by table (confirmed by reading; statistics only suggested the candidates)
var guardedFields = map[string]bool{
	"structures.IncrementalRebalancer.nodesRebalanced": true, "structures.IncrementalRebalancer.running": true,
	"structures.IncrementalRebalancer.lastSessionTime": true, "structures.IncrementalRebalancer.estimatedTimeETA": true,
	"rebalancing.SmartRebalancer.started": true, "rebalancing.SmartRebalancer.ctx": true, "rebalancing.SmartRebalancer.cancel": true,
	"rebalancing.SmartRebalancer.currentMode": true, "rebalancing.SmartRebalancer.lastDecision": true, "rebalancing.SmartRebalancer.lastModeChange": true,
	"rebalancing.SmartRebalancer.stats":   true,
	"rebalancing.WorkloadDetector.closed": true, "rebalancing.WorkloadDetector.events": true, "rebalancing.WorkloadDetector.head": true, "rebalancing.WorkloadDetector.size": true,
}

func guarded(key string) bool {
	if guardedFields[key] {
		return true
	}
	// every counter of MetricsCollector except its mutex
	return strings.HasPrefix(key, "rebalancing.MetricsCollector.")
}

// freshObject: the base object was allocated in this function (constructor / composite literal).
func freshObject(v ssa.Value) bool {
	switch x := v.(type) {
	case *ssa.Alloc:
		return true
	case *ssa.FieldAddr:
		return freshObject(x.X)
	}
	return false
}

// underConstruction: fn is an option closure or constructor working on an object that is not shared yet.
func (c *Ctx) underConstruction(fn *ssa.Function) bool {
	n := c.Name(fn)
	if fn.Parent() != nil && strings.HasPrefix(c.Name(fn.Parent()), "rebalancing.With") {
		return true
	}
	return strings.Contains(n, ".New")
}

func ruleC18Guarded(c *Ctx, r *Result) {
	seen := map[string]bool{}
	for _, fn := range c.LibFuncs() {
		held := c.heldAtAllCallSites(fn, 0)
		for _, a := range c.LockedAccesses(fn, held) {
			if !guarded(a.Key) {
				continue
			}
			seen[a.Key] = true
			kind := "read"
			if a.Write {
				kind = "write"
			}
			construct := c.Name(fn) + "#" + a.Key
			switch {
			case a.Locked:
				r.Hold("C18.4", construct+"#"+kind, c.InstrPos(a.In), "owner's mutex held")
			case freshObject(a.Base) || c.underConstruction(fn):
				r.Hold("C18.4", construct+"#"+kind+"-constructor", c.InstrPos(a.In), "object under construction, not shared yet")
			default:
				r.Viol("C18.4", construct+"#"+kind+"-unlocked", c.InstrPos(a.In), "field is guarded by the owner's mutex (frozen table) but this "+kind+" does not hold it")
			}
		}
	}
	for k := range guardedFields {
		if !seen[k] {
			r.Errorf("guarded-by table names %s, which is never accessed (renamed or removed?)", k)
		}
	}
	r.Floor("C18.4", 60)
}

// goTargets: functions started by go statements, with the statements.
func (c *Ctx) goStatements() []*ssa.Go {
	var out []*ssa.Go
	for _, f := range c.LibFuncs() {
		instrs(f, func(in ssa.Instruction) {
			if g, ok := in.(*ssa.Go); ok {
				out = append(out, g)
			}
		})
	}
	sortInstrs(out)
	return out
}

func ruleC18Shared(c *Ctx, r *Result) {
	var roots []*ssa.Function
	for _, g := range c.goStatements() {
		roots = append(roots, c.Callees(g)...)
	}
	if len(roots) < 2 {
		r.Errorf("expected >= 2 goroutine targets, found %d", len(roots))
	}
	stop := func(f *ssa.Function) bool { return !libPackage(fnPkgPath(f)) }
	bg := c.Reach(roots, stop)
	// foreground: everything reachable from exported functions and methods that are not goroutine targets
	var fgRoots []*ssa.Function
	isRoot := map[*ssa.Function]bool{}
	for _, r0 := range roots {
		isRoot[r0] = true
	}
	for _, fn := range c.LibFuncs() {
		if fn.Parent() == nil && fn.Object() != nil && fn.Object().Exported() && !isRoot[fn] {
			fgRoots = append(fgRoots, fn)
		}
	}
	fg := c.Reach(fgRoots, func(f *ssa.Function) bool { return stop(f) || isRoot[f] })
	type acc struct {
		bgR, bgW, fgR, fgW int
		unlocked           []string
		firstPos           string
	}
	fields := map[string]*acc{}
	for _, fn := range c.LibFuncs() {
		pk := shortPkg(fnPkgPath(fn))
		if pk != "structures" && pk != "rebalancing" {
			continue
		}
		inBG := bg[fn]
		held := c.heldAtAllCallSites(fn, 0)
		li := LocksIn(fn, lockSet{})
		_ = li
		// all field accesses (not only of mutex-carrying structs)
		locked := map[ssa.Instruction]bool{}
		for _, a := range c.LockedAccesses(fn, held) {
			locked[a.In] = a.Locked
		}
		anyLockHeld := func(in ssa.Instruction) bool {
			entry := lockSet{}
			if held && len(fn.Params) > 0 {
				for _, m := range mutexFieldsOf(fn.Params[0].Type()) {
					entry[lockKey{fn.Params[0], m}] = true
				}
			}
			return len(LocksIn(fn, entry).at[in]) > 0
		}
		instrs(fn, func(in ssa.Instruction) {
			var fa *ssa.FieldAddr
			write := false
			switch x := in.(type) {
			case *ssa.UnOp:
				if x.Op == token.MUL {
					fa, _ = x.X.(*ssa.FieldAddr)
				}
			case *ssa.Store:
				fa, _ = x.Addr.(*ssa.FieldAddr)
				write = true
			}
			if fa == nil {
				return
			}
			fld, base := fieldOfAddr(fa)
			if fld == nil || isMutexType(fld.Type()) || isSyncType(fld.Type()) {
				return
			}
			if freshObject(base) || c.underConstruction(fn) {
				return
			}
			key := fieldKey(base.Type(), fld)
			a := fields[key]
			if a == nil {
				a = &acc{firstPos: c.InstrPos(in)}
				fields[key] = a
			}
			inFG := fg[fn] || !inBG
			if inBG {
				if write {
					a.bgW++
				} else {
					a.bgR++
				}
			}
			if inFG {
				if write {
					a.fgW++
				} else {
					a.fgR++
				}
			}
			isLocked := locked[in]
			if !isLocked {
				// the owner may carry no mutex (LazyRebalancingState): any held lock of an enclosing object counts
				if len(mutexFieldsOf(base.Type())) == 0 && anyLockHeld(in) {
					isLocked = true
				}
			}
			if !isLocked {
				side := "foreground"
				if inBG && inFG {
					side = "both sides"
				} else if inBG {
					side = "background"
				}
				a.unlocked = append(a.unlocked, side+" "+c.Name(fn)+" at "+c.InstrPos(in))
			}
		})
	}
	n := 0
	for _, key := range sortedKeys(fields) {
		a := fields[key]
		touchedBG := a.bgR+a.bgW > 0
		touchedFG := a.fgR+a.fgW > 0
		if !touchedBG || !touchedFG || a.bgW+a.fgW == 0 {
			continue
		}
		n++
		if len(a.unlocked) == 0 {
			r.Hold("C18.5", key+"#shared-with-goroutine", a.firstPos, "every access on both sides holds a lock")
		} else {
			sort.Strings(a.unlocked)
			r.Viol("C18.5", key+"#shared-with-goroutine-unlocked", a.firstPos, "accessed by a background goroutine and by foreground calls, written at least once, and not always under a lock: "+strings.Join(a.unlocked, "; "))
		}
	}
	r.Floor("C18.5", 5)
}

func isSyncType(t types.Type) bool {
	n := namedOf(t)
	return n != nil && n.Obj().Pkg() != nil && (n.Obj().Pkg().Path() == "sync" || n.Obj().Pkg().Path() == "sync/atomic")
}

// ---- C18.1 pooled buffers ----

func canReachAvoiding(a, b ssa.Instruction, avoid ssa.Instruction) bool {
	if a.Block() == b.Block() && instrIndex(a) < instrIndex(b) {
		// avoid between them?
		if avoid.Block() == a.Block() && instrIndex(avoid) > instrIndex(a) && instrIndex(avoid) < instrIndex(b) {
			return false
		}
		return true
	}
	stop := map[*ssa.BasicBlock]bool{}
	// passing through avoid's block from its beginning re-executes the acquisition
	if avoid.Block() != a.Block() {
		stop[avoid.Block()] = true
	}
	for _, s := range a.Block().Succs {
		if s == avoid.Block() && avoid.Block() != a.Block() {
			continue
		}
		if s == b.Block() && s != avoid.Block() {
			return true
		}
		if reachableFrom(s, stop)[b.Block()] {
			return true
		}
	}
	return false
}

func ruleC18Pool(c *Ctx, r *Result) {
	get := c.Fn(r, "utils.GetBuffer")
	rel := c.Fn(r, "utils.ReleaseBuffer")
	if get == nil || rel == nil {
		return
	}
	for _, fn := range c.LibFuncs() {
		var gets []*ssa.Call
		instrs(fn, func(in ssa.Instruction) {
			if call, ok := in.(*ssa.Call); ok && call.Call.StaticCallee() == get {
				gets = append(gets, call)
			}
		})
		sortInstrs(gets)
		for _, g := range gets {
			// aliases: the buffer and its re-slices
			alias := map[ssa.Value]bool{g: true}
			for changed := true; changed; {
				changed = false
				for v := range alias {
					for _, ref := range *v.Referrers() {
						if sl, ok := ref.(*ssa.Slice); ok && sl.X == v && !alias[sl] {
							alias[sl] = true
							changed = true
						}
						if phi, ok := ref.(*ssa.Phi); ok && !alias[phi] {
							alias[phi] = true
							changed = true
						}
					}
				}
			}
			var releases, escapes, uses []ssa.Instruction
			deferred := false
			escWhy := map[ssa.Instruction]string{}
			for v := range alias {
				for _, ref := range *v.Referrers() {
					switch x := ref.(type) {
					case *ssa.Call:
						if x.Call.StaticCallee() == rel {
							releases = append(releases, x)
						} else if b, ok := x.Call.Value.(*ssa.Builtin); ok && b.Name() == "append" {
							// append(kept, buf...) copies; append(x, T{Data: buf}) is a store handled below
						}
					case *ssa.Defer:
						if x.Call.StaticCallee() == rel {
							releases = append(releases, x)
							deferred = true
						}
					case *ssa.Store:
						if x.Val == v {
							if _, isAlloc := x.Addr.(*ssa.Alloc); !isAlloc {
								escapes = append(escapes, x)
								escWhy[x] = "stored into a field/element"
							} else if allocEscapes(x.Addr.(*ssa.Alloc)) {
								escapes = append(escapes, x)
								escWhy[x] = "stored into an object that is kept"
							}
						}
					case *ssa.Return:
						escapes = append(escapes, x)
						escWhy[x] = "returned"
					case *ssa.MapUpdate:
						escapes = append(escapes, x)
						escWhy[x] = "stored into a map"
					case *ssa.Send:
						escapes = append(escapes, ref)
						escWhy[ref] = "sent on a channel"
					case *ssa.Convert:
						// string(buf) copies
						uses = append(uses, x)
					case *ssa.IndexAddr, *ssa.Index, *ssa.Slice, *ssa.Lookup:
						uses = append(uses, ref)
					}
				}
			}
			construct := c.Name(fn) + "#GetBuffer"
			pos := c.InstrPos(g)
			if len(releases) == 0 {
				r.Hold("C18.1", construct+"#never-released", pos, "buffer is kept (never returned to the pool)")
				continue
			}
			// C18.15: one acquisition, at most one release on any path
			twice := ""
			for _, r1 := range releases {
				for _, r2 := range releases {
					if r1 == r2 {
						continue
					}
					_, d1 := r1.(*ssa.Defer)
					_, d2 := r2.(*ssa.Defer)
					switch {
					case d1 && !d2 && canReachAvoiding(r1, r2, g):
						twice = "released at " + c.InstrPos(r2) + " and again by the deferred call registered at " + c.InstrPos(r1)
					case !d1 && !d2 && canReachAvoiding(r1, r2, g):
						twice = "released at " + c.InstrPos(r1) + " and again at " + c.InstrPos(r2)
					}
				}
			}
			r.Check(twice == "", "C18.15", construct+"#released-at-most-once", pos, firstNonEmpty(twice, "no path releases the buffer twice")+func() string {
				if twice != "" {
					return ": the pool then holds the same backing array twice and hands it to two readers"
				}
				return ""
			}())
			bad := ""
			for _, e := range escapes {
				if deferred {
					bad = escWhy[e] + " at " + c.InstrPos(e) + " although the buffer is released by a deferred call"
					break
				}
				for _, rl := range releases {
					if canReachAvoiding(e, rl, g) {
						bad = escWhy[e] + " at " + c.InstrPos(e) + " and later released at " + c.InstrPos(rl)
					} else if canReachAvoiding(rl, e, g) {
						bad = "released at " + c.InstrPos(rl) + " and then " + escWhy[e] + " at " + c.InstrPos(e)
					}
				}
			}
			if bad == "" && !deferred {
				for _, u := range uses {
					for _, rl := range releases {
						if canReachAvoiding(rl, u, g) {
							bad = "released at " + c.InstrPos(rl) + " and still read at " + c.InstrPos(u)
						}
					}
				}
				if bad != "" {
					r.Viol("C18.1", construct+"#used-after-release", pos, "pooled buffer "+bad+": another goroutine may already have received it from the pool")
					continue
				}
			}
			if bad == "" {
				r.Hold("C18.1", construct+"#released-without-escape", pos, "")
			} else {
				r.Viol("C18.1", construct+"#escapes-and-released", pos, "pooled buffer "+bad+": another handle can receive the same backing array")
			}
		}
	}
	r.Floor("C18.1", 15)
}

// allocEscapes: the local object is stored somewhere / returned / appended (composite literal kept by the caller).
func allocEscapes(a *ssa.Alloc) bool {
	if a.Heap {
		return true
	}
	for _, ref := range *a.Referrers() {
		switch x := ref.(type) {
		case *ssa.UnOp:
			// load of the whole struct: does the value go anywhere lasting?
			for _, r2 := range *x.Referrers() {
				switch r2.(type) {
				case *ssa.Store, *ssa.Return, *ssa.MapUpdate, *ssa.Call:
					return true
				}
			}
		}
	}
	return false
}

// ---- C18.2 globals ----

func globalRoot(v ssa.Value) *ssa.Global {
	for i := 0; i < 8; i++ {
		switch x := v.(type) {
		case *ssa.Global:
			return x
		case *ssa.FieldAddr:
			v = x.X
		case *ssa.IndexAddr:
			v = x.X
		case *ssa.UnOp:
			v = x.X
		default:
			return nil
		}
	}
	return nil
}

func ruleC18Globals(c *Ctx, r *Result) {
	written := map[string]string{}
	nGlobals := 0
	for id, pkg := range c.SSAPkg {
		if !libPackage(pkg.Pkg.Path()) {
			continue
		}
		for _, m := range pkg.Members {
			if g, ok := m.(*ssa.Global); ok && !strings.HasPrefix(g.Name(), "init$") {
				nGlobals++
				_ = id
			}
		}
	}
	for _, fn := range c.LibFuncs() {
		isInit := fn.Name() == "init" || strings.HasPrefix(fn.Name(), "init#") || (fn.Parent() != nil && fn.Parent().Name() == "init")
		instrs(fn, func(in ssa.Instruction) {
			var g *ssa.Global
			switch x := in.(type) {
			case *ssa.Store:
				g = globalRoot(x.Addr)
			case *ssa.MapUpdate:
				g = globalRoot(x.Map)
			}
			if g == nil || g.Pkg == nil || !libPackage(g.Pkg.Pkg.Path()) {
				return
			}
			if isInit {
				return
			}
			key := shortPkg(g.Pkg.Pkg.Path()) + "." + g.Name()
			if _, ok := written[key]; !ok {
				written[key] = c.Name(fn) + " at " + c.InstrPos(in)
			}
		})
	}
	for id, pkg := range c.SSAPkg {
		if !libPackage(pkg.Pkg.Path()) {
			continue
		}
		var names []string
		for n, m := range pkg.Members {
			if _, ok := m.(*ssa.Global); ok && !strings.HasPrefix(n, "init$") {
				names = append(names, n)
			}
		}
		sort.Strings(names)
		for _, n := range names {
			key := id + "." + n
			if w, ok := written[key]; ok {
				r.Viol("C18.2", key+"#written-at-run-time", c.Pos(pkg.Members[n].Pos()), "package-level variable is modified outside initialisation: "+w)
			} else {
				r.Hold("C18.2", key+"#global", c.Pos(pkg.Members[n].Pos()), "only initialised")
			}
		}
	}
	r.Floor("C18.2", 10)
}

// ---- C18.6 lifecycle ----

func ruleC18Lifecycle(c *Ctx, r *Result) {
	gos := c.goStatements()
	if len(gos) < 2 {
		r.Errorf("expected >= 2 go statements, found %d", len(gos))
	}
	for _, g := range gos {
		starter := g.Parent()
		for _, target := range c.Callees(g) {
			name := c.Name(target)
			// (a) completion signal deferred in the target: close(field chan) or wg.Done()
			var sigField string
			var sigKind string
			instrs(target, func(in ssa.Instruction) {
				d, ok := in.(*ssa.Defer)
				if !ok || sigField != "" {
					return
				}
				if b, ok := d.Call.Value.(*ssa.Builtin); ok && b.Name() == "close" {
					if k, _ := fieldLoadKey(d.Call.Args[0]); k != "" {
						sigField, sigKind = k, "close"
					}
				}
				if f := d.Call.StaticCallee(); f != nil && f.String() == "(*sync.WaitGroup).Done" {
					if fa, ok := d.Call.Args[0].(*ssa.FieldAddr); ok {
						if fld, base := fieldOfAddr(fa); fld != nil {
							sigField, sigKind = fieldKey(base.Type(), fld), "wg"
						}
					}
				}
			})
			r.Check(sigField != "", "C18.6", name+"#deferred-completion-signal", c.Pos(target.Pos()), "goroutine target defers close(done) / wg.Done()")
			if sigField == "" {
				continue
			}
			// (b) the loop's blocking select has a stop case that leads to return: some Select instruction with >= 2 states
			hasStopCase := false
			var stopField string
			instrs(target, func(in ssa.Instruction) {
				sel, ok := in.(*ssa.Select)
				if !ok || !sel.Blocking {
					return
				}
				for _, st := range sel.States {
					if st.Dir != types.RecvOnly {
						continue
					}
					if k, _ := fieldLoadKey(st.Chan); k != "" {
						stopField = k
						hasStopCase = true
					} else if call, ok := st.Chan.(*ssa.Call); ok && call.Call.IsInvoke() && call.Call.Method.Name() == "Done" {
						if k, _ := fieldLoadKey(call.Call.Value); k != "" {
							stopField = k
							hasStopCase = true
						}
					}
				}
			})
			r.Check(hasStopCase, "C18.6", name+"#select-has-stop-case", c.Pos(target.Pos()), "the goroutine's blocking select listens on a stop channel / context")
			// (c) a stop function waits for the completion signal after signalling stop
			foundWaiter := false
			for _, fn := range c.LibFuncs() {
				var wait ssa.Instruction
				instrs(fn, func(in ssa.Instruction) {
					switch x := in.(type) {
					case *ssa.UnOp:
						if x.Op == token.ARROW && sigKind == "close" {
							if k, _ := fieldLoadKey(x.X); k == sigField {
								wait = x
							}
						}
					case *ssa.Call:
						if f := x.Call.StaticCallee(); f != nil && f.String() == "(*sync.WaitGroup).Wait" && sigKind == "wg" {
							if fa, ok := x.Call.Args[0].(*ssa.FieldAddr); ok {
								if fld, base := fieldOfAddr(fa); fld != nil && fieldKey(base.Type(), fld) == sigField {
									wait = x
								}
							}
						}
					}
				})
				if wait == nil {
					continue
				}
				foundWaiter = true
				// stop signal must precede the wait on every path that reaches the wait
				signalled := mustPrecede(wait, func(in ssa.Instruction) bool {
					call, ok := in.(*ssa.Call)
					if !ok {
						return false
					}
					if b, ok := call.Call.Value.(*ssa.Builtin); ok && b.Name() == "close" {
						k, _ := fieldLoadKey(call.Call.Args[0])
						return k == stopField || stopField == ""
					}
					// cancel(): call of a func value loaded from a field
					if k, _ := fieldLoadKey(call.Call.Value); k != "" && strings.HasSuffix(k, ".cancel") {
						return true
					}
					return false
				}) || mustPrecede(wait, func(in ssa.Instruction) bool {
					// `if sr.cancel != nil { sr.cancel() }`: the guard block stands for the signal (nil means never started)
					ifi, ok := in.(*ssa.If)
					if !ok {
						return false
					}
					bo, ok := ifi.Cond.(*ssa.BinOp)
					if !ok || bo.Op != token.NEQ || !isNilConst(bo.Y) {
						return false
					}
					k, _ := fieldLoadKey(bo.X)
					if !strings.HasSuffix(k, ".cancel") {
						return false
					}
					// the non-nil successor must call it
					for _, i2 := range ifi.Block().Succs[0].Instrs {
						if call, ok := i2.(*ssa.Call); ok {
							if k2, _ := fieldLoadKey(call.Call.Value); k2 == k {
								return true
							}
						}
					}
					return false
				})
				r.Check(signalled, "C18.6", c.Name(fn)+"#signals-stop-before-waiting", c.InstrPos(wait), "the stop function signals the goroutine before it waits for "+sigField)
				// (f) whatever the stop function decides from guarded state about stopping further workers must be read after the join
				c.checkDecisionAfterJoin(r, fn, wait)
				// (e) the signal cannot be sent twice: the running/started flag is cleared under the same lock that tested it
				c.checkSingleSignal(r, fn, wait)
			}
			r.Check(foundWaiter, "C18.6", name+"#stop-waits-for-completion", c.Pos(target.Pos()), "some function waits for the goroutine's completion signal "+sigField)
			// (d) start: the go statement is dominated by a flag test and a flag store under the lock
			li := LocksIn(starter, lockSet{})
			var flagStore *ssa.Store
			instrs(starter, func(in ssa.Instruction) {
				st, ok := in.(*ssa.Store)
				if !ok {
					return
				}
				if k, isC := st.Val.(*ssa.Const); isC && k.Value != nil && st.Val.Type().Underlying() == types.Typ[types.Bool] {
					if fa, ok := st.Addr.(*ssa.FieldAddr); ok && instrDominates(st, g) && len(li.at[st]) > 0 {
						_ = fa
						flagStore = st
					}
				}
			})
			r.CheckMissing(c, starter, flagStore != nil, "C18.6", c.Name(starter)+"#start-flag-under-lock", c.InstrPos(g), "the go statement is preceded by setting a started/running flag while the lock is held")
		}
	}
	r.Floor("C18.6", 8)
}

// checkSingleSignal: in a stop function, between the flag test (under lock) and the unlock, the flag must be cleared;
// otherwise two concurrent callers both pass the test and both send the stop signal (double close).
func (c *Ctx) checkSingleSignal(r *Result, fn *ssa.Function, wait ssa.Instruction) {
	li := LocksIn(fn, lockSet{})
	// find a bool flag field tested under lock
	var tested string
	var testIn ssa.Instruction
	instrs(fn, func(in ssa.Instruction) {
		ifi, ok := in.(*ssa.If)
		if !ok || tested != "" {
			return
		}
		cond := ifi.Cond
		if u, ok := cond.(*ssa.UnOp); ok && u.Op == token.NOT {
			cond = u.X
		}
		if k, _ := fieldLoadKey(cond); k != "" {
			if len(li.at[in]) > 0 {
				tested, testIn = k, in
			} else if ld, isI := stripConv(cond).(ssa.Instruction); isI && len(li.at[ld]) > 0 {
				// swap idiom: was := flag; flag = false; unlock; if !was { return } - the test uses the value read under the lock
				tested, testIn = k, ld
			}
		}
	})
	if tested == "" {
		// closing a channel twice panics: a stop function that signals by close() must claim the stop under the lock
		var closeAt ssa.Instruction
		instrs(fn, func(in ssa.Instruction) {
			if call, ok := in.(*ssa.Call); ok {
				if b, isB := call.Call.Value.(*ssa.Builtin); isB && b.Name() == "close" {
					closeAt = in
				}
			}
		})
		if closeAt != nil {
			r.ViolMissing(c, fn, "C18.6", c.Name(fn)+"#single-stop-signal", c.InstrPos(closeAt), "the stop channel is closed without a flag that is tested and cleared under one hold of the lock: two overlapping stop requests both pass an unlocked (or separately locked) running test and the second close panics")
			return
		}
		r.Undec("C18.6", c.Name(fn)+"#single-stop-signal", c.InstrPos(wait), "no flag test under lock found")
		return
	}
	cleared := false
	instrs(fn, func(in ssa.Instruction) {
		st, ok := in.(*ssa.Store)
		if !ok {
			return
		}
		fa, ok := st.Addr.(*ssa.FieldAddr)
		if !ok {
			return
		}
		fld, base := fieldOfAddr(fa)
		if fld == nil || fieldKey(base.Type(), fld) != tested {
			return
		}
		if len(li.at[st]) > 0 && canReach(testIn, st) {
			cleared = true
		}
	})
	r.Check(cleared, "C18.6", c.Name(fn)+"#single-stop-signal", c.InstrPos(testIn), "the flag "+tested+" tested under the lock is cleared before the lock is released, so a second concurrent stop cannot signal again")
}

// checkDecisionAfterJoin: in a stop function, a branch that guards a call which stops further background work
// (a method whose name starts with Stop) and tests a guarded field must read that field after the wait for the
// goroutine: a value read before the join can be made stale by the goroutine's last iteration.
func (c *Ctx) checkDecisionAfterJoin(r *Result, fn *ssa.Function, wait ssa.Instruction) {
	for _, b := range fn.Blocks {
		ifi, ok := b.Instrs[len(b.Instrs)-1].(*ssa.If)
		if !ok {
			continue
		}
		// does the true arm call a Stop* method?
		stops := false
		for blk := range reachableFrom(b.Succs[0], map[*ssa.BasicBlock]bool{b.Succs[1]: true}) {
			for _, in := range blk.Instrs {
				if call, ok := in.(*ssa.Call); ok {
					n := ""
					if call.Call.IsInvoke() {
						n = call.Call.Method.Name()
					} else if f := call.Call.StaticCallee(); f != nil {
						n = f.Name()
					}
					if strings.HasPrefix(n, "Stop") {
						stops = true
					}
				}
			}
		}
		if !stops {
			continue
		}
		bo, ok := ifi.Cond.(*ssa.BinOp)
		if !ok {
			continue
		}
		for _, op := range []ssa.Value{bo.X, bo.Y} {
			// follow phis / locals back to field loads
			var loads []ssa.Instruction
			seen := map[ssa.Value]bool{}
			var walk func(v ssa.Value)
			walk = func(v ssa.Value) {
				if seen[v] {
					return
				}
				seen[v] = true
				switch x := v.(type) {
				case *ssa.UnOp:
					if k, _ := fieldLoadKey(x); k != "" && guarded(k) {
						loads = append(loads, x)
					}
				case *ssa.Phi:
					for _, e := range x.Edges {
						walk(e)
					}
				}
			}
			walk(op)
			for _, ld := range loads {
				afterJoin := mustPrecede(ld, func(in ssa.Instruction) bool { return in == wait })
				k, _ := fieldLoadKey(ld.(ssa.Value))
				r.Check(afterJoin, "C18.6", c.Name(fn)+"#"+k+"#decision-read-after-join", c.InstrPos(ld), "the state that decides whether further background work is stopped is read after the goroutine has been joined")
			}
		}
	}
}

// ---- additional necessary condition found by the third round of seeded changes ----

func init() {
	reg := registry["C18"]
	reg.Meta.Rules["C18.7"] = "a running background worker is never replaced: a field that holds an object owning a goroutine is assigned a new one only where the old one is nil / not running, or after its Stop"
	reg.Rules = append(reg.Rules, c18workerReplaced)
}

func c18workerReplaced(c *Ctx, r *Result) {
	// worker types: receivers of methods that contain a go statement
	workers := map[string]bool{}
	for _, fn := range c.LibFuncs() {
		hasGo := false
		instrs(fn, func(in ssa.Instruction) {
			if _, ok := in.(*ssa.Go); ok {
				hasGo = true
			}
		})
		if !hasGo {
			continue
		}
		root := fn
		for root.Parent() != nil {
			root = root.Parent()
		}
		if recv := root.Signature.Recv(); recv != nil {
			workers[namedShort(recv.Type())] = true
		}
	}
	if len(workers) == 0 {
		r.Errorf("C18.7: no type with a goroutine-starting method found")
		return
	}
	n := 0
	for _, fn := range c.LibFuncs() {
		instrs(fn, func(in ssa.Instruction) {
			st, ok := in.(*ssa.Store)
			if !ok {
				return
			}
			fa, ok := st.Addr.(*ssa.FieldAddr)
			if !ok {
				return
			}
			f, base := fieldOfAddr(fa)
			if f == nil || !workers[namedShort(f.Type())] {
				return
			}
			if _, isPtr := f.Type().Underlying().(*types.Pointer); !isPtr {
				return
			}
			// only assignments of a new object (not nil-ing out, not copying an existing one)
			if _, isAlloc := st.Val.(*ssa.Alloc); !isAlloc {
				return
			}
			// constructors of the owner (the field cannot hold anything yet)
			if al, isAl := fa.X.(*ssa.Alloc); isAl && al.Heap {
				return
			}
			n++
			key := fieldKey(base.Type(), f)
			isOld := func(v ssa.Value) bool {
				ld, ok := isLoad(v)
				if !ok {
					return false
				}
				f2, b2 := fieldOfAddr(ld.X)
				return f2 != nil && fieldKey(b2.Type(), f2) == key
			}
			stopped := func(x ssa.Instruction) bool {
				call, ok := x.(*ssa.Call)
				if !ok {
					return false
				}
				name := c.calleeName(call)
				if !strings.HasSuffix(name, ".Stop") && !strings.HasSuffix(name, ".stop") {
					return false
				}
				return len(call.Call.Args) > 0 && isOld(call.Call.Args[0])
			}
			cut := func(from, to *ssa.BasicBlock) bool {
				ifi, ok := from.Instrs[len(from.Instrs)-1].(*ssa.If)
				if !ok || from.Succs[0] == from.Succs[1] {
					return false
				}
				taken := from.Succs[0] == to
				cond := ifi.Cond
				neg := false
				if u, isU := cond.(*ssa.UnOp); isU && u.Op == token.NOT {
					cond, neg = u.X, true
				}
				switch x := cond.(type) {
				case *ssa.BinOp:
					// F != nil false edge / F == nil true edge
					if (x.Op == token.NEQ || x.Op == token.EQL) && (isNilConst(x.Y) && isOld(x.X) || isNilConst(x.X) && isOld(x.Y)) {
						isNil := (x.Op == token.EQL) == taken
						if neg {
							isNil = !isNil
						}
						return isNil
					}
				case *ssa.Call:
					// old.isRunning() false edge
					n := strings.ToLower(c.calleeName(x))
					if strings.Contains(n, "running") && len(x.Call.Args) > 0 && isOld(x.Call.Args[0]) {
						notRunning := !taken
						if neg {
							notRunning = !notRunning
						}
						return notRunning
					}
				}
				return false
			}
			ok = mustPrecedeE(st, stopped, cut)
			r.Check(ok, "C18.7", c.Name(fn)+"#"+key+"#running-worker-not-replaced", c.InstrPos(st), "a new "+namedShort(f.Type())+" is stored only on paths where the previous one was found nil / not running, or was stopped first (otherwise its goroutine keeps running with no handle left to stop it)")
		})
	}
	if n < 1 {
		r.Errorf("C18.7: no assignment of a new worker object to a field found")
	}
	r.Floor("C18.7", 1)
}

func init() {
	reg := registry["C18"]
	reg.Meta.Rules["C18.8"] = "a read lock is for reading: no field of a struct is stored to at a point where that struct's RWMutex is held only in shared mode (RLock without Lock) - two holders of the read lock would update the field concurrently"
	reg.Rules = append(reg.Rules, func(c *Ctx, r *Result) {
		n := 0
		for _, fn := range c.LibFuncs() {
			pk := shortPkg(fnPkgPath(fn))
			if pk != "structures" && pk != "rebalancing" && pk != "hdf5" {
				continue
			}
			usesR := false
			instrs(fn, func(in ssa.Instruction) {
				if call, ok := in.(*ssa.Call); ok {
					if f := call.Call.StaticCallee(); f != nil && f.Pkg != nil && f.Pkg.Pkg.Path() == "sync" && f.Name() == "RLock" {
						usesR = true
					}
				}
			})
			if !usesR {
				continue
			}
			shared := locksInMode(fn, lockSet{}, 1)
			excl := locksInMode(fn, lockSet{}, 2)
			instrs(fn, func(in ssa.Instruction) {
				st, ok := in.(*ssa.Store)
				if !ok {
					return
				}
				fa, ok := st.Addr.(*ssa.FieldAddr)
				if !ok {
					return
				}
				fld, base := fieldOfAddr(fa)
				if fld == nil || isMutexType(fld.Type()) {
					return
				}
				sharedHeld, exclHeld := false, false
				for k := range shared.at[in] {
					if k.base == base {
						sharedHeld = true
					}
				}
				for k := range excl.at[in] {
					if k.base == base {
						exclHeld = true
					}
				}
				if !sharedHeld {
					return
				}
				n++
				r.Check(exclHeld, "C18.8", c.Name(fn)+"#"+fieldKey(base.Type(), fld)+"#stored-under-read-lock", c.InstrPos(in), "this store happens while only the read lock of its owner is held")
			})
		}
		if n == 0 {
			r.Hold("C18.8", "module#no-store-under-read-lock", "", "no field is stored to inside a read-locked region")
		}
	})
}

// acquiresOwnMutex: fn locks (Lock or RLock) a mutex field of its own receiver, directly or through a method it calls on the
// same receiver (two levels); returns the mutex fields.
func (c *Ctx) acquiresOwnMutex(fn *ssa.Function, depth int) map[*types.Var]bool {
	out := map[*types.Var]bool{}
	if fn == nil || fn.Blocks == nil || len(fn.Params) == 0 || fn.Signature.Recv() == nil || depth > 2 {
		return out
	}
	recv := fn.Params[0]
	for _, site := range callsIn(fn) {
		if _, isDefer := site.(*ssa.Defer); isDefer {
			continue
		}
		if k, d := mutexOp(site.Common()); d > 0 && k.base == ssa.Value(recv) {
			out[k.field] = true
			continue
		}
		g := site.Common().StaticCallee()
		if g != nil && g.Signature.Recv() != nil && len(site.Common().Args) > 0 && site.Common().Args[0] == ssa.Value(recv) && inModule(fnPkgPath(g)) {
			for f := range c.acquiresOwnMutex(g, depth+1) {
				out[f] = true
			}
		}
	}
	return out
}

func init() {
	reg := registry["C18"]
	reg.Meta.Rules["C18.9"] = "no lock is taken twice by one goroutine: while a function holds a mutex of an object (read or write side), it calls no method on that object that acquires the same mutex again (sync.RWMutex is not re-entrant: a writer arriving between the two read locks blocks the second one, and with it the query, the background goroutine and Stop)"
	reg.Meta.Rules["C18.10"] = "the handlers in the package-level datatype registry are shared by every writer in the process and stay read-only: no method of a registered handler type stores to a field of its receiver (a memo in the shared handler is a data race between independent files, and hands one file's message to the other)"
	reg.Rules = append(reg.Rules, func(c *Ctx, r *Result) {
		// ---- C18.9
		n := 0
		for _, fn := range c.LibFuncs() {
			pk := shortPkg(fnPkgPath(fn))
			if pk != "structures" && pk != "rebalancing" && pk != "hdf5" && pk != "writer" {
				continue
			}
			hasLock := false
			for _, site := range callsIn(fn) {
				if _, d := mutexOp(site.Common()); d > 0 {
					hasLock = true
				}
			}
			if !hasLock {
				continue
			}
			li := LocksIn(fn, lockSet{})
			for _, site := range callsIn(fn) {
				if _, isDefer := site.(*ssa.Defer); isDefer {
					continue
				}
				if _, isGo := site.(*ssa.Go); isGo {
					continue // another goroutine: it waits for the lock, it does not re-enter it
				}
				in := site.(ssa.Instruction)
				held := li.at[in]
				if len(held) == 0 {
					continue
				}
				g := site.Common().StaticCallee()
				if g == nil || g.Signature.Recv() == nil || len(site.Common().Args) == 0 || !inModule(fnPkgPath(g)) {
					continue
				}
				recvArg := site.Common().Args[0]
				acq := c.acquiresOwnMutex(g, 0)
				if len(acq) == 0 {
					continue
				}
				for k := range held {
					if k.base == recvArg && acq[k.field] {
						n++
						r.Viol("C18.9", c.Name(fn)+"#"+c.Name(g)+"#lock-taken-again", c.InstrPos(in), c.Name(fn)+" holds "+k.field.Name()+" of the object and calls "+c.Name(g)+", which acquires it again")
					}
				}
			}
		}
		if n == 0 {
			r.Hold("C18.9", "module#no-reentrant-locking", "", "no method is called on an object whose mutex the caller holds and the callee acquires")
		}
		// ---- C18.10
		handlers := map[string]bool{}
		for _, e := range c.registryEntries(r) {
			if e.Handler != "" {
				handlers[strings.TrimPrefix(e.Handler, "*")] = true
			}
		}
		m := 0
		for _, fn := range c.LibFuncs() {
			if shortPkg(fnPkgPath(fn)) != "hdf5" || fn.Signature.Recv() == nil || len(fn.Params) == 0 {
				continue
			}
			tn := strings.TrimPrefix(typeShort(fn.Params[0].Type()), "*")
			if !handlers[tn] {
				continue
			}
			m++
			bad := ""
			for _, fs := range c.DirectFieldStores(fn) {
				if fs.Fn == fn && strings.HasPrefix(fs.Key, tn+".") {
					bad = c.InstrPos(fs.In) + " (" + fs.Key + ")"
				}
			}
			r.Check(bad == "", "C18.10", c.Name(fn)+"#registered-handler-is-read-only", c.Pos(fn.Pos()), "methods of a handler registered in the package-level datatype registry do not store to the handler: "+bad)
		}
		if m == 0 {
			r.Errorf("C18.10: no method of a registered datatype handler found")
		}
	})
}
