package main

import (
	"fmt"
	"go/constant"
	"go/token"
	"go/types"
	"math"
	"sort"
	"strings"

	"golang.org/x/tools/go/ssa"
)

func init() {
	register("C19", PropMeta{
		Title: "Rebalancing options never change content; mode selection obeys constraints",
		Explanation: "Path-complete analysis of ConfigSelector.SelectConfig on its SSA control-flow graph: every return site's Mode operand is traced to its source (constant none / remembered mode / strategy proposal) and a proposal may only be returned or remembered on the pass edges of the confidence gate and the allowed-modes gate, and never from the edge on which the stability period is running and the proposal differs; " +
			"who-may-write checks on the selector's memory and constraints; IsAllowed's true-returns; a float interval evaluation of calculateConfidence; " +
			"and an effect analysis showing that every function of the rebalancing machinery (background goroutine targets, enable/disable/batch/force functions, option constructors, internal/rebalancing) stores only to rebalancing state, never to index content, heap content or the file.",
		DoesNotDecide: "equality of reopened content across configurations for whole histories (runtime); the detector's classification arithmetic",
		Rules: map[string]string{
			"C19.1":  "rebalancing machinery has no content effects: it stores only to rebalancing state and reaches no file-write primitive",
			"C19.2":  "CreateForWrite copies every rebalancing configuration set on the temporary writer into the returned writer",
			"C19.3a": "every Decision returned by SelectConfig carries Mode = none, the remembered mode, or the strategy's proposal",
			"C19.3b": "the proposal is returned or remembered only past the pass edges of the confidence gate and the allowed-modes gate",
			"C19.3c": "lastMode / lastDecisionTime are stored only in SelectConfig, only from the proposal / the clock, only past both gates",
			"C19.3d": "from the edge where the stability period is still running and the proposal differs from the remembered mode, no return carries the proposal and the memory is not updated",
			"C19.3e": "constraints are stored only by the constructor and option functions",
			"C19.3f": "IsAllowed returns true only on the empty list or on equality with a list element",
			"C19.4":  "calculateConfidence returns a value in [0,1] and SelectConfig passes Confidence through unchanged",
		},
	}, ruleC19Selector, ruleC19Effects, ruleC19Confidence)
}

const (
	fDecMode   = "rebalancing.Decision.Mode"
	fDecConf   = "rebalancing.Decision.Confidence"
	fLastMode  = "rebalancing.ConfigSelector.lastMode"
	fLastTime  = "rebalancing.ConfigSelector.lastDecisionTime"
	fMinConf   = "rebalancing.SafetyConstraints.MinConfidence"
	fMinStab   = "rebalancing.SafetyConstraints.MinStabilityPeriod"
	fConstr    = "rebalancing.ConfigSelector.constraints"
	fAllowed   = "rebalancing.SafetyConstraints.AllowedModes"
	selectorFn = "rebalancing.ConfigSelector.SelectConfig"
)

// fieldLoadKey: v is a load of a (possibly nested) field; returns the leaf field key and the root object.
func fieldLoadKey(v ssa.Value) (string, ssa.Value) {
	ld, ok := isLoad(v)
	if !ok {
		return "", nil
	}
	fa, ok := ld.X.(*ssa.FieldAddr)
	if !ok {
		return "", nil
	}
	f, base := fieldOfAddr(fa)
	if f == nil {
		return "", nil
	}
	root := base
	for {
		if fa2, ok := root.(*ssa.FieldAddr); ok {
			root = fa2.X
			continue
		}
		break
	}
	return fieldKey(base.Type(), f), root
}

func ruleC19Selector(c *Ctx, r *Result) {
	fn := c.Fn(r, selectorFn)
	if fn == nil {
		return
	}
	modeNone := ""
	if p := c.PkgByID["rebalancing"]; p != nil {
		if o, ok := p.Types.Scope().Lookup("ModeNone").(*types.Const); ok {
			modeNone = constant.StringVal(o.Val())
		}
	}
	if modeNone == "" {
		r.Errorf("anchor constant rebalancing.ModeNone does not resolve")
		return
	}
	// the strategy's proposal: the Alloc that receives the result of the invoke of SelectionStrategy.Select
	var decision *ssa.Alloc
	instrs(fn, func(in ssa.Instruction) {
		st, ok := in.(*ssa.Store)
		if !ok {
			return
		}
		call, ok := st.Val.(*ssa.Call)
		if !ok || !call.Call.IsInvoke() || call.Call.Method.Name() != "Select" {
			return
		}
		if al, ok := st.Addr.(*ssa.Alloc); ok {
			decision = al
		}
	})
	if decision == nil {
		r.Errorf("SelectConfig: the strategy proposal (result of strategy.Select stored in a local) was not found")
		return
	}
	// no later store to decision.Mode / decision.Confidence
	for _, ref := range *decision.Referrers() {
		if fa, ok := ref.(*ssa.FieldAddr); ok {
			f, _ := fieldOfAddr(fa)
			for _, r2 := range *fa.Referrers() {
				if st, ok := r2.(*ssa.Store); ok && st.Addr == ssa.Value(fa) && (f.Name() == "Mode" || f.Name() == "Confidence") {
					r.Viol("C19.3a", c.Name(fn)+"#proposal-"+f.Name()+"-overwritten", c.InstrPos(st), "SelectConfig modifies the strategy's "+f.Name()+" before returning it")
				}
			}
		}
	}

	// gates
	type gate struct {
		ifi  *ssa.If
		pass *ssa.BasicBlock
	}
	var confGate, allowGate *gate
	var stabIf, diffIf *ssa.If
	var diffEdge *ssa.BasicBlock
	for _, b := range fn.Blocks {
		ifi, ok := b.Instrs[len(b.Instrs)-1].(*ssa.If)
		if !ok {
			continue
		}
		cond := ifi.Cond
		neg := false
		for {
			if u, ok := cond.(*ssa.UnOp); ok && u.Op == token.NOT {
				cond = u.X
				neg = !neg
				continue
			}
			break
		}
		switch x := cond.(type) {
		case *ssa.BinOp:
			kx, rx := fieldLoadKey(x.X)
			ky, ry := fieldLoadKey(x.Y)
			// confidence gate
			if (kx == fDecConf && rx == ssa.Value(decision) && ky == fMinConf) || (ky == fDecConf && ry == ssa.Value(decision) && kx == fMinConf) {
				op := x.Op
				if ky == fDecConf { // min OP conf  ==  conf OP' min
					switch op {
					case token.LSS:
						op = token.GTR
					case token.GTR:
						op = token.LSS
					case token.LEQ:
						op = token.GEQ
					case token.GEQ:
						op = token.LEQ
					}
				}
				// pass = edge on which conf >= min
				var passTrue bool
				okOp := true
				switch op {
				case token.LSS:
					passTrue = false
				case token.GEQ:
					passTrue = true
				default:
					okOp = false // `<=` / `>` would let conf == min go the wrong way or are not the stated gate
				}
				if okOp {
					if neg {
						passTrue = !passTrue
					}
					g := &gate{ifi, b.Succs[1]}
					if passTrue {
						g.pass = b.Succs[0]
					}
					confGate = g
				}
			}
			// stability: duration < MinStabilityPeriod
			if ky == fMinStab && x.Op == token.LSS || kx == fMinStab && x.Op == token.GTR {
				stabIf = ifi
			}
			// proposal differs from remembered mode
			if (kx == fDecMode && rx == ssa.Value(decision) && ky == fLastMode) || (ky == fDecMode && ry == ssa.Value(decision) && kx == fLastMode) {
				if x.Op == token.NEQ || x.Op == token.EQL {
					diffIf = ifi
					differsOnTrue := (x.Op == token.NEQ) != neg
					if differsOnTrue {
						diffEdge = b.Succs[0]
					} else {
						diffEdge = b.Succs[1]
					}
				}
			}
		case *ssa.Call:
			if f := x.Call.StaticCallee(); f != nil && c.Name(f) == "rebalancing.SafetyConstraints.IsAllowed" && len(x.Call.Args) == 2 {
				k, root := fieldLoadKey(x.Call.Args[1])
				if k == fDecMode && root == ssa.Value(decision) {
					g := &gate{ifi, b.Succs[0]}
					if neg {
						g.pass = b.Succs[1]
					}
					allowGate = g
				}
			}
		}
	}
	// the hold: time < period AND proposal differs. The two tests may be nested either way; the hold region starts on the
	// holding edge of the inner one.
	var holdStart *ssa.BasicBlock
	holdNested := false
	if stabIf != nil && diffIf != nil {
		stabEdge := stabIf.Block().Succs[0]
		switch {
		case edgeDominates(stabIf.Block(), stabEdge, diffIf.Block()):
			holdStart, holdNested = diffEdge, true
		case edgeDominates(diffIf.Block(), diffEdge, stabIf.Block()):
			holdStart, holdNested = stabEdge, true
		default:
			holdStart = diffEdge
		}
	}
	if confGate == nil {
		r.Viol("C19.3b", c.Name(fn)+"#confidence-gate-missing", c.Pos(fn.Pos()), "no branch compares the proposal's Confidence with constraints.MinConfidence using < / >=")
	}
	if allowGate == nil {
		r.Viol("C19.3b", c.Name(fn)+"#allowed-gate-missing", c.Pos(fn.Pos()), "no branch tests constraints.IsAllowed(proposal.Mode)")
	}
	pastGates := func(b *ssa.BasicBlock) (bool, string) {
		if confGate != nil && !edgeDominates(confGate.ifi.Block(), confGate.pass, b) {
			return false, "not dominated by the pass edge of the confidence gate"
		}
		if allowGate != nil && !edgeDominates(allowGate.ifi.Block(), allowGate.pass, b) {
			return false, "not dominated by the pass edge of the allowed-modes gate"
		}
		return confGate != nil && allowGate != nil, ""
	}

	// source of one field of a returned Decision: the struct is built here or by a constructor helper whose parameters are
	// bound to this function's values (scopes.go)
	var classify func(sc scope, v ssa.Value, field string) string
	var fieldSource func(sc scope, v ssa.Value, field string, depth int) string
	isProposal := func(sc scope, x ssa.Value) bool {
		ld, ok := isLoad(sc.res(x))
		return ok && ld.X == ssa.Value(decision)
	}
	// a by-value Decision parameter is spilled to a local by the SSA builder: the local holds the proposal when its only store does
	spillOfProposal := func(sc scope, root ssa.Value) bool {
		al, ok := root.(*ssa.Alloc)
		if !ok {
			return false
		}
		n, good := 0, false
		for _, ref := range *al.Referrers() {
			if st, ok := ref.(*ssa.Store); ok && st.Addr == ssa.Value(al) {
				n++
				good = isProposal(sc, st.Val)
			}
		}
		return n == 1 && good
	}
	classify = func(sc scope, v ssa.Value, field string) string {
		v = sc.res(v)
		if k, ok := v.(*ssa.Const); ok && k.Value != nil && k.Value.Kind() == constant.String {
			if constant.StringVal(k.Value) == modeNone {
				return "none"
			}
			return "constant:" + constant.StringVal(k.Value)
		}
		if fl, ok := v.(*ssa.Field); ok {
			if st, ok := fl.X.Type().Underlying().(*types.Struct); ok && st.Field(fl.Field).Name() == field && isProposal(sc, fl.X) {
				return "proposal"
			}
			return "other"
		}
		key, root := fieldLoadKey(v)
		switch {
		case key == fLastMode:
			return "remembered"
		case (key == fDecMode && field == "Mode" || key == fDecConf && field == "Confidence") && (root == ssa.Value(decision) || spillOfProposal(sc, root)):
			return "proposal"
		}
		return "other"
	}
	fieldSource = func(sc scope, v ssa.Value, field string, depth int) string {
		v = sc.res(v)
		if isProposal(sc, v) {
			return "proposal"
		}
		if depth < 3 {
			if rv, hs, ok := helperResult(sc, v); ok {
				return fieldSource(hs, rv, field, depth+1)
			}
		}
		ld, ok := isLoad(v)
		if !ok {
			return "unknown"
		}
		al, ok := ld.X.(*ssa.Alloc)
		if !ok {
			return "unknown"
		}
		src := "unset"
		for _, ref := range *al.Referrers() {
			fa, ok := ref.(*ssa.FieldAddr)
			if !ok {
				continue
			}
			f, _ := fieldOfAddr(fa)
			if f == nil || f.Name() != field {
				continue
			}
			for _, r2 := range *fa.Referrers() {
				if st, ok := r2.(*ssa.Store); ok && st.Addr == ssa.Value(fa) {
					src = classify(sc, st.Val, field)
				}
			}
		}
		return src
	}
	top := scope{fn: fn, bind: map[ssa.Value]ssa.Value{}}
	modeSource := func(ret *ssa.Return) (string, ssa.Instruction) {
		if len(ret.Results) != 1 {
			return "unknown", nil
		}
		return fieldSource(top, retOperand(ret, 0), "Mode", 0), nil
	}
	confSource := func(ret *ssa.Return) bool {
		if len(ret.Results) != 1 {
			return false
		}
		return fieldSource(top, retOperand(ret, 0), "Confidence", 0) == "proposal"
	}
	rets := returnsOf(fn)
	sortInstrs(rets)
	for _, ret := range rets {
		src, _ := modeSource(ret)
		pos := c.InstrPos(ret)
		switch src {
		case "none", "remembered":
			r.Hold("C19.3a", c.Name(fn)+"#return-mode="+src, pos, "")
		case "proposal":
			r.Hold("C19.3a", c.Name(fn)+"#return-mode=proposal", pos, "")
			ok, why := pastGates(ret.Block())
			r.Check(ok, "C19.3b", c.Name(fn)+"#return-of-proposal", pos, "returning the strategy's proposal requires both gates to have passed "+why)
		default:
			r.Viol("C19.3a", c.Name(fn)+"#return-mode="+src, pos, "a returned Decision carries a Mode that is neither none, the remembered mode nor the strategy's proposal")
		}
		r.Check(confSource(ret), "C19.4", c.Name(fn)+"#confidence-passed-through", pos, "the returned Confidence is the strategy's Confidence, unchanged")
	}
	r.Floor("C19.3a", 4)

	// C19.3c stores to the memory, module wide
	for _, f := range c.LibFuncs() {
		for _, fs := range c.DirectFieldStores(f) {
			if fs.Fn != f {
				continue
			}
			if fs.Key != fLastMode && fs.Key != fLastTime {
				continue
			}
			pos := c.InstrPos(fs.In)
			if f != fn {
				// constructor composite literal is fine
				if strings.HasPrefix(c.Name(f), "rebalancing.NewConfigSelector") {
					r.Hold("C19.3c", c.Name(f)+"#"+fs.Key, pos, "constructor")
					continue
				}
				r.Viol("C19.3c", c.Name(f)+"#"+fs.Key+"#stored-outside-SelectConfig", pos, "the selector's stability memory is written outside SelectConfig")
				continue
			}
			ok, why := pastGates(fs.In.Block())
			if fs.Key == fLastMode {
				k, root := fieldLoadKey(fs.Val)
				if !(k == fDecMode && root == ssa.Value(decision)) {
					ok, why = false, "stored value is not the proposal's Mode"
				}
			}
			if ok && holdStart != nil && reachableFrom(holdStart, nil)[fs.In.Block()] {
				ok, why = false, "reachable from the edge where the stability period is running and the proposal differs"
			}
			r.Check(ok, "C19.3c", c.Name(fn)+"#"+fs.Key, pos, "memory update past both gates and outside the stability hold "+why)
		}
	}
	r.Floor("C19.3c", 2)

	// C19.3d stability
	switch {
	case stabIf == nil:
		r.Viol("C19.3d", c.Name(fn)+"#stability-test-missing", c.Pos(fn.Pos()), "no branch compares the time since the last decision with constraints.MinStabilityPeriod")
	case diffIf == nil:
		r.Viol("C19.3d", c.Name(fn)+"#mode-comparison-missing", c.Pos(fn.Pos()), "no branch compares the proposal's Mode with the remembered mode")
	default:
		// the elapsed time that is compared is the raw difference now - lastDecisionTime (rounded or truncated, a gap just
		// short of the period passes for the period and the hold ends early)
		if cmp, ok := stabIf.Cond.(*ssa.BinOp); ok {
			dur := cmp.X
			if kx, _ := fieldLoadKey(cmp.X); kx == fMinStab {
				dur = cmp.Y
			}
			raw := false
			if call, isCall := dur.(*ssa.Call); isCall {
				if g := call.Call.StaticCallee(); g != nil && g.Pkg != nil && g.Pkg.Pkg.Path() == "time" && g.Name() == "Sub" {
					for _, a := range call.Call.Args {
						if k, _ := fieldLoadKey(a); k == fLastTime {
							raw = true
						}
					}
				}
			}
			r.Check(raw, "C19.3d", c.Name(fn)+"#elapsed-time-is-the-raw-difference", c.InstrPos(stabIf), "the value compared with MinStabilityPeriod is time.Sub(now, lastDecisionTime) itself")
		}
		// the period protects every accepted decision: whether the stability test is reached at all depends on there being a
		// previous decision (lastDecisionTime), not on which mode that decision chose
		gated := ""
		for _, b := range fn.Blocks {
			ifi, isIf := b.Instrs[len(b.Instrs)-1].(*ssa.If)
			if !isIf || b == stabIf.Block() {
				continue
			}
			d0, d1 := edgeDominates(b, b.Succs[0], stabIf.Block()), edgeDominates(b, b.Succs[1], stabIf.Block())
			if d0 == d1 {
				continue
			}
			// the comparison of the remembered mode with the proposal is the hold condition itself (it may stand before
			// or after the time test); what must not decide is a test of the remembered mode against a fixed mode
			if bo, isBO := ifi.Cond.(*ssa.BinOp); isBO {
				_, kx := stripConv(bo.X).(*ssa.Const)
				_, ky := stripConv(bo.Y).(*ssa.Const)
				if (kx && valueReadsField(bo.Y, fLastMode, 0)) || (ky && valueReadsField(bo.X, fLastMode, 0)) {
					gated = c.InstrPos(bo)
				}
			}
		}
		r.Check(gated == "", "C19.3d", c.Name(fn)+"#stability-test-reached-for-every-remembered-mode", c.InstrPos(stabIf), "no branch on the remembered mode decides whether the stability period is tested"+map[bool]string{true: "", false: " (branch at " + gated + ": after a decision for the excluded mode a different proposal is accepted inside the period)"}[gated == ""])
		// the mode comparison must sit on the edge where time < period
		r.Check(holdNested, "C19.3d", c.Name(fn)+"#mode-comparison-inside-stability-period", c.InstrPos(diffIf), "the mode comparison and the stability-period test are nested: the hold is entered exactly when the period is still running and the proposal differs")
		bad := ""
		region := reachableFrom(holdStart, nil)
		for _, ret := range rets {
			if region[ret.Block()] {
				if src, _ := modeSource(ret); src == "proposal" {
					bad = c.InstrPos(ret)
				}
			}
		}
		r.Check(bad == "", "C19.3d", c.Name(fn)+"#no-proposal-returned-during-hold", c.InstrPos(diffIf), "from the 'differs within the stability period' edge no return carries the proposal "+bad)
		// the stability test must govern the final return: every return of the proposal is reachable only through
		// the zero-time edge, the period-elapsed edge or the same-mode edge, i.e. is NOT dominated by nothing: checked above.
	}

	// C19.3e constraints writers
	for _, f := range c.LibFuncs() {
		for _, fs := range c.DirectFieldStores(f) {
			if fs.Fn != f || !(fs.Key == fConstr || strings.HasPrefix(fs.Key, "rebalancing.SafetyConstraints.")) {
				continue
			}
			name := c.Name(f)
			// allowed: constructors, option closures (anonymous functions), defaults; forbidden: methods of ConfigSelector
			if strings.HasPrefix(name, "rebalancing.ConfigSelector.") && f.Parent() == nil {
				r.Viol("C19.3e", name+"#"+fs.Key+"#constraints-modified", c.InstrPos(fs.In), "a ConfigSelector method modifies the safety constraints")
			} else {
				r.Hold("C19.3e", name+"#"+fs.Key, c.InstrPos(fs.In), "constructor / option")
			}
		}
	}

	// C19.3f IsAllowed
	if ia := c.Fn(r, "rebalancing.SafetyConstraints.IsAllowed"); ia != nil {
		for _, ret := range returnsOf(ia) {
			k, ok := retOperand(ret, 0).(*ssa.Const)
			if call, isCall := retOperand(ret, 0).(*ssa.Call); isCall && len(ia.Params) == 2 {
				// return slices.Contains(s.AllowedModes, mode): true exactly on equality with a list element
				f := call.Call.StaticCallee()
				if f != nil && f.Origin() != nil {
					f = f.Origin()
				}
				if f != nil && f.Pkg != nil && f.Pkg.Pkg.Path() == "slices" && f.Name() == "Contains" && len(call.Call.Args) == 2 && call.Call.Args[1] == ssa.Value(ia.Params[1]) {
					if key, _ := fieldLoadKey(call.Call.Args[0]); strings.HasSuffix(key, ".AllowedModes") {
						r.Hold("C19.3f", c.Name(ia)+"#return-true", c.InstrPos(ret), "slices.Contains(AllowedModes, mode): true only on equality with a list element")
						r.Hold("C19.3f", c.Name(ia)+"#return-false", c.InstrPos(ret), "slices.Contains(AllowedModes, mode): false otherwise")
						continue
					}
				}
			}
			if !ok {
				r.Viol("C19.3f", c.Name(ia)+"#non-constant-result", c.InstrPos(ret), "result is not a constant decided by the list")
				continue
			}
			if !constant.BoolVal(k.Value) {
				r.Hold("C19.3f", c.Name(ia)+"#return-false", c.InstrPos(ret), "")
				continue
			}
			// must be dominated by len(AllowedModes)==0 or by an equality of list element and the argument
			okRet := false
			for _, b := range ia.Blocks {
				ifi, isIf := b.Instrs[len(b.Instrs)-1].(*ssa.If)
				if !isIf {
					continue
				}
				bo, isB := ifi.Cond.(*ssa.BinOp)
				if !isB || bo.Op != token.EQL {
					continue
				}
				if !edgeDominates(b, b.Succs[0], ret.Block()) {
					continue
				}
				// len(list) == 0
				if lc, isCall := bo.X.(*ssa.Call); isCall {
					if bi, isBi := lc.Call.Value.(*ssa.Builtin); isBi && bi.Name() == "len" {
						if z, isZ := constInt(bo.Y); isZ && z == 0 {
							okRet = true
						}
					}
				}
				// element == mode parameter
				if len(ia.Params) == 2 && (bo.X == ssa.Value(ia.Params[1]) || bo.Y == ssa.Value(ia.Params[1])) {
					okRet = true
				}
			}
			r.Check(okRet, "C19.3f", c.Name(ia)+"#return-true", c.InstrPos(ret), "true only on the empty list or on equality with a list element")
		}
	}
	r.Floor("C19.3f", 3)
}

// ---- C19.4 float interval of calculateConfidence ----

type frange struct{ lo, hi float64 }

func ruleC19Confidence(c *Ctx, r *Result) {
	fn := c.Fn(r, "rebalancing.RuleBasedStrategy.calculateConfidence")
	if fn == nil {
		return
	}
	memo := map[ssa.Value]frange{}
	busy := map[ssa.Value]bool{}
	var eval func(v ssa.Value) frange
	eval = func(v ssa.Value) frange {
		if x, ok := memo[v]; ok {
			return x
		}
		if busy[v] {
			return frange{math.Inf(-1), math.Inf(1)}
		}
		busy[v] = true
		defer delete(busy, v)
		out := frange{math.Inf(-1), math.Inf(1)}
		switch x := v.(type) {
		case *ssa.Const:
			if x.Value != nil && (x.Value.Kind() == constant.Float || x.Value.Kind() == constant.Int) {
				f, _ := constant.Float64Val(x.Value)
				out = frange{f, f}
			}
		case *ssa.BinOp:
			a, b := eval(x.X), eval(x.Y)
			switch x.Op {
			case token.ADD:
				out = frange{a.lo + b.lo, a.hi + b.hi}
			case token.SUB:
				out = frange{a.lo - b.hi, a.hi - b.lo}
			case token.MUL:
				c := []float64{a.lo * b.lo, a.lo * b.hi, a.hi * b.lo, a.hi * b.hi}
				lo, hi := c[0], c[0]
				for _, y := range c {
					lo, hi = math.Min(lo, y), math.Max(hi, y)
				}
				out = frange{lo, hi}
			}
		case *ssa.Call:
			// min / max (builtin or math.Min / math.Max) over intervals
			kind := ""
			if b, ok := x.Call.Value.(*ssa.Builtin); ok && (b.Name() == "min" || b.Name() == "max") {
				kind = b.Name()
			} else if f := x.Call.StaticCallee(); f != nil && f.Pkg != nil && f.Pkg.Pkg.Path() == "math" && (f.Name() == "Min" || f.Name() == "Max") {
				kind = strings.ToLower(f.Name())
			}
			if kind != "" && len(x.Call.Args) > 0 {
				acc := eval(x.Call.Args[0])
				for _, a := range x.Call.Args[1:] {
					ar := eval(a)
					if kind == "min" {
						acc = frange{math.Min(acc.lo, ar.lo), math.Min(acc.hi, ar.hi)}
					} else {
						acc = frange{math.Max(acc.lo, ar.lo), math.Max(acc.hi, ar.hi)}
					}
				}
				out = acc
			}
		case *ssa.Phi:
			lo, hi := math.Inf(1), math.Inf(-1)
			for i, e := range x.Edges {
				er := eval(e)
				// clamp recognition: the edge comes from a block that is only entered on `e <= K` / `e > K` false
				pred := x.Block().Preds[i]
				if len(pred.Instrs) > 0 {
					if ifi, ok := pred.Instrs[len(pred.Instrs)-1].(*ssa.If); ok {
						if bo, ok := ifi.Cond.(*ssa.BinOp); ok && bo.X == e {
							if k, ok := bo.Y.(*ssa.Const); ok && k.Value != nil {
								kv, _ := constant.Float64Val(k.Value)
								onTrue := pred.Succs[0] == x.Block()
								switch {
								case bo.Op == token.GTR && !onTrue, bo.Op == token.LEQ && onTrue:
									er.hi = math.Min(er.hi, kv)
								case bo.Op == token.LSS && !onTrue, bo.Op == token.GEQ && onTrue:
									er.lo = math.Max(er.lo, kv)
								}
							}
						}
					}
				}
				lo, hi = math.Min(lo, er.lo), math.Max(hi, er.hi)
			}
			out = frange{lo, hi}
		}
		memo[v] = out
		return out
	}
	n := 0
	for _, ret := range returnsOf(fn) {
		fr := eval(retOperand(ret, 0))
		n++
		ok := fr.lo >= 0 && fr.hi <= 1.0000001
		r.Check(ok, "C19.4", c.Name(fn)+"#return-in-unit-interval", c.InstrPos(ret), "interval of the returned confidence over all paths: ["+ftoa(fr.lo)+", "+ftoa(fr.hi)+"]")
	}
	r.Floor("C19.4", 3)
}

func ftoa(f float64) string {
	return strings.TrimRight(strings.TrimRight(strconvF(f), "0"), ".")
}

// ---- C19.1 / C19.2 effects ----

func contentField(key string) bool {
	switch {
	case strings.HasPrefix(key, "structures.WritableBTreeV2."):
		f := strings.TrimPrefix(key, "structures.WritableBTreeV2.")
		return f != "lazyState" && f != "incrementalRebalancer"
	case strings.HasPrefix(key, "structures.BTreeV2Header."), strings.HasPrefix(key, "structures.BTreeV2LeafNode."), strings.HasPrefix(key, "structures.LinkNameRecord."):
		return true
	case strings.HasPrefix(key, "structures.WritableFractalHeap."), strings.HasPrefix(key, "structures.WritableHeapHeader."), strings.HasPrefix(key, "structures.WritableDirectBlock."), strings.HasPrefix(key, "structures.WritableIndirectBlock."):
		return true
	case strings.HasPrefix(key, "core.ObjectHeader."), strings.HasPrefix(key, "core.HeaderMessage."):
		return true
	case strings.HasPrefix(key, "writer.Allocator."), strings.HasPrefix(key, "writer.FileWriter."):
		return true
	}
	return false
}

func isFileWritePrimitive(name string) bool {
	switch name {
	case "writer.FileWriter.WriteAt", "writer.FileWriter.WriteAtAddress", "writer.FileWriter.WriteAtWithAllocation", "writer.FileWriter.Allocate", "writer.FileWriter.Flush",
		"(*os.File).WriteAt", "(*os.File).Write", "(*os.File).Truncate":
		return true
	}
	return false
}

func ruleC19Effects(c *Ctx, r *Result) {
	// roots of the rebalancing machinery
	var roots []*ssa.Function
	seen := map[*ssa.Function]bool{}
	add := func(f *ssa.Function) {
		if f != nil && !seen[f] && f.Blocks != nil {
			seen[f] = true
			roots = append(roots, f)
		}
	}
	// (1) targets of go statements in the library
	ngo := 0
	for _, f := range c.LibFuncs() {
		instrs(f, func(in ssa.Instruction) {
			if g, ok := in.(*ssa.Go); ok {
				ngo++
				for _, t := range c.Callees(g) {
					add(t)
				}
			}
		})
	}
	if ngo < 2 {
		r.Errorf("expected >= 2 go statements in the library, found %d", ngo)
	}
	// (2) the rebalancing API of the index (frozen list of exported names; unresolved = checker error)
	for _, n := range []string{"EnableLazyRebalancing", "DisableLazyRebalancing", "IsLazyRebalancingEnabled", "BatchRebalance", "ForceBatchRebalance", "GetLazyRebalancingStats",
		"RebalanceAll", "EnableIncrementalRebalancing", "StopIncrementalRebalancing", "IsIncrementalRebalancingEnabled", "GetIncrementalRebalancingProgress"} {
		add(c.Fn(r, "structures.WritableBTreeV2."+n))
	}
	for _, n := range []string{"Start", "Stop", "GetProgress"} {
		add(c.Fn(r, "structures.IncrementalRebalancer."+n))
	}
	// (3) every function of internal/rebalancing
	for _, f := range c.LibFuncs() {
		if shortPkg(fnPkgPath(f)) == "rebalancing" && f.Parent() == nil {
			add(f)
		}
	}
	// (4) writer-level switches and option constructors
	for _, n := range []string{"DisableRebalancing", "EnableRebalancing", "RebalancingEnabled", "RebalanceAllBTrees", "EnableLazyRebalancing", "DisableLazyRebalancing", "IsLazyRebalancingEnabled",
		"ForceBatchRebalance", "GetLazyRebalancingStats", "EnableIncrementalRebalancing", "StopIncrementalRebalancing", "IsIncrementalRebalancingEnabled", "GetIncrementalRebalancingProgress"} {
		add(c.Fn(r, "hdf5.FileWriter."+n))
	}
	optType := c.NamedType(r, "hdf5", "FileWriterOption")
	var optionClosures []*ssa.Function
	for _, f := range c.LibFuncs() {
		if shortPkg(fnPkgPath(f)) != "hdf5" {
			continue
		}
		if optType != nil && f.Parent() != nil && types.Identical(f.Signature, optType.Underlying()) {
			optionClosures = append(optionClosures, f)
			add(f)
		}
		if f.Parent() == nil && f.Signature.Results().Len() == 1 && optType != nil && types.Identical(f.Signature.Results().At(0).Type(), optType) {
			add(f)
		}
	}
	stop := func(f *ssa.Function) bool {
		if !libPackage(fnPkgPath(f)) {
			return true
		}
		// the delete operations are content operations by definition; the machinery may call them only through the foreground API
		switch c.Name(f) {
		case "structures.WritableBTreeV2.DeleteRecord", "structures.WritableBTreeV2.DeleteRecordWithRebalancing", "structures.WritableBTreeV2.DeleteRecordLazy":
			return true
		}
		return false
	}
	for _, root := range roots {
		reach := c.Reach([]*ssa.Function{root}, stop)
		bad := ""
		pos := c.Pos(root.Pos())
		var fns []*ssa.Function
		for f := range reach {
			fns = append(fns, f)
		}
		sortFuncs(c, fns)
		for _, f := range fns {
			for _, fs := range c.DirectFieldStores(f) {
				if fs.Fn == f && contentField(fs.Key) && bad == "" {
					bad = "stores to " + fs.Key + " in " + c.Name(f) + " at " + c.InstrPos(fs.In)
				}
			}
			for _, site := range callsIn(f) {
				if isFileWritePrimitive(c.calleeName(site)) && bad == "" {
					bad = "calls " + c.calleeName(site) + " in " + c.Name(f) + " at " + c.InstrPos(site)
				}
			}
		}
		if bad == "" {
			r.Hold("C19.1", c.Name(root)+"#no-content-effect", pos, "")
		} else {
			r.Viol("C19.1", c.Name(root)+"#content-effect", pos, "rebalancing machinery must not change index/heap/header content or write the file: "+bad)
		}
	}
	r.Floor("C19.1", 60)

	// C19.2 plumbing
	cfw := c.Fn(r, "hdf5.CreateForWrite")
	if cfw != nil {
		copied := map[string]bool{}
		for _, fs := range c.DirectFieldStores(cfw) {
			if strings.HasPrefix(fs.Key, "hdf5.FileWriter.") && fs.Val != nil && valueReadsField(fs.Val, fs.Key, 0) {
				copied[fs.Key] = true
			}
		}
		set := map[string]string{}
		for _, oc := range optionClosures {
			for _, fs := range c.DirectFieldStores(oc) {
				if strings.HasPrefix(fs.Key, "hdf5.FileWriter.") {
					set[fs.Key] = c.Name(oc) + " at " + c.InstrPos(fs.In)
				}
			}
		}
		for _, k := range sortedKeys(set) {
			r.Check(copied[k], "C19.2", c.Name(cfw)+"#copies-"+k, c.Pos(cfw.Pos()), "option sets "+k+" ("+set[k]+"); CreateForWrite must copy it from the temporary writer into the returned writer")
		}
		r.Floor("C19.2", 2)
	}
}

func sortFuncs(c *Ctx, fns []*ssa.Function) {
	for i := 1; i < len(fns); i++ {
		for j := i; j > 0 && c.Name(fns[j]) < c.Name(fns[j-1]); j-- {
			fns[j], fns[j-1] = fns[j-1], fns[j]
		}
	}
}

// ---- additional necessary condition found by the third round of seeded changes ----

func init() {
	reg := registry["C19"]
	reg.Meta.Rules["C19.5"] = "persistence does not depend on rebalancing: in the attribute/link write paths no write-back (heap, index, object header) is control-dependent on a rebalancing option, statistic or state"
	reg.Rules = append(reg.Rules, c19persistIndependent)
}

// derivesFromRebalancing: the value is computed from a rebalancing option/statistic (a call whose callee name mentions
// Rebalanc/Lazy/Incremental stats, or a field whose name does).
func (c *Ctx) derivesFromRebalancing(v ssa.Value, d int, seen map[ssa.Value]bool) bool {
	if v == nil || d > 8 || seen[v] || isErrorType(v.Type()) {
		return false
	}
	seen[v] = true
	isR := func(s string) bool {
		ls := strings.ToLower(s)
		return strings.Contains(ls, "rebalanc") || strings.Contains(ls, "pendingdeletes") || strings.Contains(ls, "underflow")
	}
	switch x := v.(type) {
	case *ssa.Call:
		if isR(c.calleeName(x)) {
			return true
		}
		if x.Call.IsInvoke() && isR(x.Call.Method.Name()) {
			return true
		}
		// results of other calls are not rebalancing state, even when an option was passed in (e.g. an error result)
	case *ssa.Extract:
		return c.derivesFromRebalancing(x.Tuple, d+1, seen)
	case *ssa.BinOp:
		return c.derivesFromRebalancing(x.X, d+1, seen) || c.derivesFromRebalancing(x.Y, d+1, seen)
	case *ssa.UnOp:
		if f, _ := fieldOfAddr(x.X); f != nil && isR(f.Name()) {
			return true
		}
		return c.derivesFromRebalancing(x.X, d+1, seen)
	case *ssa.FieldAddr:
		if f, _ := fieldOfAddr(x); f != nil && isR(f.Name()) {
			return true
		}
	case *ssa.Convert:
		return c.derivesFromRebalancing(x.X, d+1, seen)
	case *ssa.Phi:
		for _, e := range x.Edges {
			if c.derivesFromRebalancing(e, d+1, seen) {
				return true
			}
		}
	}
	return false
}

func c19persistIndependent(c *Ctx, r *Result) {
	isPersist := func(n string) bool {
		return hasSuffixAny(n, "WritableFractalHeap.WriteAt", "WritableBTreeV2.WriteAt", "WritableFractalHeap.WriteToFile", "WritableBTreeV2.WriteToFile") ||
			n == "core.WriteObjectHeader" || n == "core.RewriteObjectHeaderV2"
	}
	n := 0
	for _, fn := range c.LibFuncs() {
		if shortPkg(fnPkgPath(fn)) != "hdf5" {
			continue
		}
		var persists []ssa.Instruction
		for _, site := range callsIn(fn) {
			if isPersist(callName(c, site)) {
				persists = append(persists, site.(ssa.Instruction))
			}
		}
		if len(persists) == 0 {
			continue
		}
		// explicit maintenance entry points (RebalanceAttributeBTree, RebalanceAllBTrees, ForceBatchRebalance ...) are about rebalancing by definition
		if strings.Contains(strings.ToLower(fn.Name()), "rebalanc") {
			continue
		}
		for _, p := range persists {
			n++
			bad := ""
			for _, b := range fn.Blocks {
				ifi, ok := b.Instrs[len(b.Instrs)-1].(*ssa.If)
				if !ok || !c.derivesFromRebalancing(ifi.Cond, 0, map[ssa.Value]bool{}) {
					continue
				}
				d0 := edgeDominates(b, b.Succs[0], p.Block())
				d1 := edgeDominates(b, b.Succs[1], p.Block())
				if d0 != d1 {
					bad = c.InstrPos(ifi)
				}
			}
			r.Check(bad == "", "C19.5", c.Name(fn)+"#"+lastSeg(callName(c, p.(ssa.CallInstruction)))+"#not-conditional-on-rebalancing", c.InstrPos(p), "this write-back happens (or not) depending on a rebalancing option/statistic tested at "+bad+": the content that reaches the file must be the same under every rebalancing configuration")
		}
	}
	if n < 8 {
		r.Shortfall(c, "C19.5", fmt.Sprintf("C19.5: only %d write-back calls found in the attribute/link write paths", n))
	}
	r.Floor("C19.5", 8)
}

func init() {
	reg := registry["C19"]
	reg.Meta.Rules["C19.6"] = "a rebalancing option reaches nothing but rebalancing: in the root package a value derived from a rebalancing option/statistic is passed only to a parameter that is itself a rebalancing parameter (named rebalance*, or of a rebalancing function/config); passed as anything else (a `reuse`, `cache`, `skip` flag) it makes which structures are loaded or written depend on the configuration"
	reg.Rules = append(reg.Rules, func(c *Ctx, r *Result) {
		isR := func(s string) bool {
			ls := strings.ToLower(s)
			return strings.Contains(ls, "rebalanc") || strings.Contains(ls, "lazy") || strings.Contains(ls, "incremental") || strings.Contains(ls, "smart")
		}
		n := 0
		for _, fn := range c.LibFuncs() {
			if shortPkg(fnPkgPath(fn)) != "hdf5" || fn.Blocks == nil || isR(fn.Name()) {
				continue
			}
			if fn.Parent() != nil && isR(fn.Parent().Name()) {
				continue
			}
			for _, site := range callsIn(fn) {
				callee := site.Common().StaticCallee()
				if callee == nil || !inModule(fnPkgPath(callee)) {
					continue
				}
				args := site.Common().Args
				for i, a := range args {
					if b, ok := a.Type().Underlying().(*types.Basic); !ok || b.Info()&(types.IsBoolean|types.IsInteger|types.IsFloat) == 0 {
						continue // options structs and writers are plumbing (C19.2), flags and numbers are decisions
					}
					if !c.derivesFromRebalancing(a, 0, map[ssa.Value]bool{}) {
						continue
					}
					n++
					pname := ""
					if i < len(callee.Params) {
						pname = callee.Params[i].Name()
					}
					ok := isR(pname) || isR(callee.Name()) || shortPkg(fnPkgPath(callee)) == "rebalancing"
					r.Check(ok, "C19.6", c.Name(fn)+"#"+c.Name(callee)+"#option-reaches-only-rebalancing", c.InstrPos(site.(ssa.Instruction)), "a value derived from the rebalancing configuration is passed to parameter `"+pname+"` of "+c.Name(callee))
				}
			}
		}
		if n == 0 {
			r.Errorf("C19.6: no rebalancing-derived scalar argument found in the root package")
		}
	})
}

// mustContentStores: content fields (contentField) that are stored on every path to every successful return of fn; a function
// whose successful returns hand back the error result of one sibling call inherits that sibling's set.
func (c *Ctx) mustContentStores(fn *ssa.Function, depth int) map[string]bool {
	out := map[string]bool{}
	if fn == nil || fn.Blocks == nil || depth > 2 {
		return out
	}
	// tail delegation: every return returns the result of the same static module call
	var deleg *ssa.Function
	allDeleg := true
	for _, ret := range returnsOf(fn) {
		if len(ret.Results) != 1 {
			allDeleg = false
			break
		}
		call, ok := retOperand(ret, 0).(*ssa.Call)
		if !ok || call.Call.StaticCallee() == nil || !inModule(fnPkgPath(call.Call.StaticCallee())) {
			allDeleg = false
			break
		}
		if deleg != nil && deleg != call.Call.StaticCallee() {
			allDeleg = false
			break
		}
		deleg = call.Call.StaticCallee()
	}
	if allDeleg && deleg != nil {
		return c.mustContentStores(deleg, depth+1)
	}
	keys := map[string]bool{}
	for _, fs := range c.DirectFieldStores(fn) {
		if fs.Fn == fn && contentField(fs.Key) {
			keys[fs.Key] = true
		}
	}
	rets := successReturns(fn)
	for k := range keys {
		all := len(rets) > 0
		for _, ret := range rets {
			if !mustPrecede(ret, func(in ssa.Instruction) bool {
				st, ok := in.(*ssa.Store)
				if !ok {
					return false
				}
				f, base := fieldOfAddr(st.Addr)
				return f != nil && fieldKey(base.Type(), f) == k
			}) {
				all = false
			}
		}
		if all {
			out[k] = true
		}
	}
	return out
}

func init() {
	reg := registry["C19"]
	reg.Meta.Rules["C19.7"] = "every way of deleting a record leaves the index in the same state: the deletion variants of the B-tree (plain, with rebalancing, lazy) store to the same content fields (records, leaf records, header counts) on every successful path - which variant runs is chosen by the rebalancing configuration, so a field one variant forgets makes the content depend on the configuration"
	reg.Rules = append(reg.Rules, func(c *Ctx, r *Result) {
		names := []string{"structures.WritableBTreeV2.DeleteRecordWithRebalancing", "structures.WritableBTreeV2.DeleteRecord", "structures.WritableBTreeV2.DeleteRecordLazy"}
		ref := c.FnOpt(names[0])
		if ref == nil {
			r.Undec("C19.7", "structures.WritableBTreeV2#deletion-variants-agree", "", "reference deletion not found")
			return
		}
		want := c.mustContentStores(ref, 0)
		show := func(m map[string]bool) string {
			var ks []string
			for k := range m {
				ks = append(ks, lastSeg(k))
			}
			sort.Strings(ks)
			return strings.Join(ks, ",")
		}
		n := 0
		for _, nm := range names[1:] {
			fn := c.FnOpt(nm)
			if fn == nil {
				continue
			}
			n++
			got := c.mustContentStores(fn, 0)
			missing := ""
			for k := range want {
				if !got[k] {
					missing += lastSeg(k) + " "
				}
			}
			r.Check(missing == "", "C19.7", nm+"#same-content-effects-as-"+lastSeg(names[0]), c.Pos(fn.Pos()), "always stores {"+show(got)+"}; the rebalancing deletion always stores {"+show(want)+"}; missing on some successful path: "+missing)
		}
		if n == 0 {
			r.Undec("C19.7", "structures.WritableBTreeV2#deletion-variants-agree", "", "no deletion variant found")
		}
	})
}
