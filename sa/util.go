package main

import (
	"go/constant"
	"go/token"
	"go/types"
	"sort"
	"strings"

	"golang.org/x/tools/go/ssa"
)

var errorType = types.Universe.Lookup("error").Type()

func isErrorType(t types.Type) bool { return types.Identical(t, errorType) }

func isNilConst(v ssa.Value) bool {
	c, ok := v.(*ssa.Const)
	return ok && c.Value == nil
}

func constInt(v ssa.Value) (int64, bool) {
	c, ok := v.(*ssa.Const)
	if !ok || c.Value == nil || c.Value.Kind() != constant.Int {
		return 0, false
	}
	if i, ok := constant.Int64Val(c.Value); ok {
		return i, true
	}
	if u, ok := constant.Uint64Val(c.Value); ok {
		return int64(u), true
	}
	return 0, false
}

// stripConv removes value-preserving wrappers (ChangeType, Convert between integer types is NOT stripped).
func stripIface(v ssa.Value) ssa.Value {
	for {
		switch x := v.(type) {
		case *ssa.ChangeType:
			v = x.X
		case *ssa.MakeInterface:
			v = x.X
		case *ssa.ChangeInterface:
			v = x.X
		default:
			return v
		}
	}
}

// instrs iterates all instructions of a function.
func instrs(fn *ssa.Function, f func(ssa.Instruction)) {
	for _, b := range fn.Blocks {
		for _, in := range b.Instrs {
			f(in)
		}
	}
}

// edgeDominates: does the CFG edge from->to dominate block x (every path to x uses that edge)?
func edgeDominates(from, to, x *ssa.BasicBlock) bool {
	if !to.Dominates(x) {
		return false
	}
	for _, p := range to.Preds {
		if p == from {
			continue
		}
		if !to.Dominates(p) { // another way into `to` that is not a back edge from inside its region
			return false
		}
	}
	return true
}

// region returns the set of blocks dominated by the edge from->to.
func edgeRegion(from, to *ssa.BasicBlock) map[*ssa.BasicBlock]bool {
	out := map[*ssa.BasicBlock]bool{}
	for _, b := range to.Parent().Blocks {
		if edgeDominates(from, to, b) {
			out[b] = true
		}
	}
	return out
}

// instrIndex returns index of instruction in its block.
func instrIndex(in ssa.Instruction) int {
	for i, x := range in.Block().Instrs {
		if x == in {
			return i
		}
	}
	return -1
}

// instrDominates: a executes before b on every path to b.
func instrDominates(a, b ssa.Instruction) bool {
	if a.Block() == b.Block() {
		return instrIndex(a) < instrIndex(b)
	}
	return a.Block().Dominates(b.Block())
}

// reachableFrom: blocks reachable from start (inclusive) without passing through blocks in stop.
func reachableFrom(start *ssa.BasicBlock, stop map[*ssa.BasicBlock]bool) map[*ssa.BasicBlock]bool {
	seen := map[*ssa.BasicBlock]bool{}
	var work []*ssa.BasicBlock
	if !stop[start] {
		seen[start] = true
		work = append(work, start)
	}
	for len(work) > 0 {
		b := work[len(work)-1]
		work = work[:len(work)-1]
		for _, s := range b.Succs {
			if !seen[s] && !stop[s] {
				seen[s] = true
				work = append(work, s)
			}
		}
	}
	return seen
}

// canReachInstr: can control flow from instruction a reach instruction b (a before b)?
func canReach(a, b ssa.Instruction) bool {
	if a.Block() == b.Block() && instrIndex(a) < instrIndex(b) {
		return true
	}
	for _, s := range a.Block().Succs {
		if reachableFrom(s, nil)[b.Block()] {
			return true
		}
	}
	return false
}

// callsIn returns call instructions (Call, Defer, Go) of fn.
func callsIn(fn *ssa.Function) []ssa.CallInstruction {
	var out []ssa.CallInstruction
	instrs(fn, func(in ssa.Instruction) {
		if ci, ok := in.(ssa.CallInstruction); ok {
			out = append(out, ci)
		}
	})
	return out
}

// calleeName returns a short, resolved name for a call site's callee:
// module functions by short name, others by full object path (e.g. "io.ReadAll", "(io.ReaderAt).ReadAt").
func (c *Ctx) calleeName(site ssa.CallInstruction) string {
	cc := site.Common()
	if cc.IsInvoke() {
		recv := cc.Value.Type()
		return "(" + typeShort(recv) + ")." + cc.Method.Name()
	}
	if f := cc.StaticCallee(); f != nil {
		if inModule(fnPkgPath(f)) {
			return c.Name(f)
		}
		if f.Object() != nil {
			if fo, ok := f.Object().(*types.Func); ok {
				return fo.FullName()
			}
		}
		return f.String()
	}
	if b, ok := cc.Value.(*ssa.Builtin); ok {
		return "builtin." + b.Name()
	}
	return "dynamic"
}

func typeShort(t types.Type) string {
	return types.TypeString(t, func(p *types.Package) string {
		if inModule(p.Path()) {
			return shortPkg(p.Path())
		}
		return p.Path()
	})
}

// fieldOf returns the struct field var addressed by a FieldAddr/Field instruction.
func fieldOfAddr(v ssa.Value) (*types.Var, ssa.Value) {
	switch x := v.(type) {
	case *ssa.FieldAddr:
		st := derefStruct(x.X.Type())
		if st != nil {
			return st.Field(x.Field), x.X
		}
	case *ssa.Field:
		st, _ := x.X.Type().Underlying().(*types.Struct)
		if st != nil {
			return st.Field(x.Field), x.X
		}
	}
	return nil, nil
}

func derefStruct(t types.Type) *types.Struct {
	if p, ok := t.Underlying().(*types.Pointer); ok {
		t = p.Elem()
	}
	st, _ := t.Underlying().(*types.Struct)
	return st
}

// namedOf returns the named type behind pointers.
func namedOf(t types.Type) *types.Named {
	for {
		switch x := t.(type) {
		case *types.Pointer:
			t = x.Elem()
		case *types.Named:
			return x
		case *types.Alias:
			t = types.Unalias(x)
		default:
			return nil
		}
	}
}

func namedShort(t types.Type) string {
	n := namedOf(t)
	if n == nil {
		return typeShort(t)
	}
	if n.Obj().Pkg() == nil {
		return n.Obj().Name()
	}
	return shortPkg(n.Obj().Pkg().Path()) + "." + n.Obj().Name()
}

// fieldKey: "structures.WritableBTreeV2.records"
func fieldKey(owner types.Type, f *types.Var) string {
	return namedShort(owner) + "." + f.Name()
}

// sortedKeys helper.
func sortedKeys[M ~map[string]V, V any](m M) []string {
	var ks []string
	for k := range m {
		ks = append(ks, k)
	}
	sort.Strings(ks)
	return ks
}

// returnsOf lists Return instructions of fn.
func returnsOf(fn *ssa.Function) []*ssa.Return {
	var out []*ssa.Return
	instrs(fn, func(in ssa.Instruction) {
		if r, ok := in.(*ssa.Return); ok {
			// the synthetic recover block (functions with defer) returns the result variables after a
			// recovered panic; it is not a return statement of the source
			if fn.Recover != nil && r.Block() == fn.Recover {
				return
			}
			out = append(out, r)
		}
	})
	return out
}

// errResultIndex returns the index of the (last) error-typed result of fn, or -1.
func errResultIndex(sig *types.Signature) int {
	res := sig.Results()
	for i := res.Len() - 1; i >= 0; i-- {
		if isErrorType(res.At(i).Type()) {
			return i
		}
	}
	return -1
}

// isSuccessReturn: return whose error operand is the nil constant (or function has no error result).
func isSuccessReturn(r *ssa.Return) bool {
	idx := errResultIndex(r.Parent().Signature)
	if idx < 0 {
		return true
	}
	return mayBeNil(retOperand(r, idx), map[ssa.Value]bool{})
}

// mayBeNil: error value may be nil (const nil, phi with a nil edge, load of a spilled result that is assigned nil...).
func mayBeNil(v ssa.Value, seen map[ssa.Value]bool) bool {
	if seen[v] {
		return false
	}
	seen[v] = true
	switch x := v.(type) {
	case *ssa.Const:
		return x.Value == nil
	case *ssa.Phi:
		for _, e := range x.Edges {
			if mayBeNil(e, seen) {
				return true
			}
		}
		return false
	case *ssa.MakeInterface:
		return false
	case *ssa.Call:
		// a call result: unknown; for classification of returns we treat calls to error constructors as non-nil
		return !isErrorConstructor(x)
	case *ssa.Extract:
		return true
	case *ssa.UnOp:
		return true
	}
	return true
}

func isErrorConstructor(call *ssa.Call) bool {
	f := call.Call.StaticCallee()
	if f == nil {
		return false
	}
	switch f.String() {
	case "fmt.Errorf", "errors.New", "errors.Join":
		return true
	case modPath + "/internal/utils.WrapError":
		// returns nil only for a nil cause
		// (the cause must be an error known to be non-nil where the wrapper is called: the value whose non-nil edge leads
		// here, or another constructor - wrapping a different, nil, variable yields nil and the failure is lost)
		if len(call.Call.Args) == 2 {
			cause := call.Call.Args[1]
			if mayBeNilShallow(cause) {
				return false
			}
			if inner, ok := cause.(*ssa.Call); ok && isErrorConstructor(inner) {
				return true
			}
			return knownNonNilAt(cause, call.Block())
		}
	}
	return false
}

// mayBeNilShallow: the value is the nil constant or a phi that has a nil-constant edge.
func mayBeNilShallow(v ssa.Value) bool {
	switch x := v.(type) {
	case *ssa.Const:
		return x.Value == nil
	case *ssa.Phi:
		for _, e := range x.Edges {
			if c, ok := e.(*ssa.Const); ok && c.Value == nil {
				return true
			}
		}
	}
	return false
}

// posLess orders instructions by source position then by block/index.
func posLess(a, b ssa.Instruction) bool {
	pa, pb := a.Pos(), b.Pos()
	if pa != pb && pa.IsValid() && pb.IsValid() {
		return pa < pb
	}
	if a.Block().Index != b.Block().Index {
		return a.Block().Index < b.Block().Index
	}
	return instrIndex(a) < instrIndex(b)
}

func hasPrefixAny(s string, ps ...string) bool {
	for _, p := range ps {
		if strings.HasPrefix(s, p) {
			return true
		}
	}
	return false
}

// binop helpers
func isCmp(op token.Token) bool {
	switch op {
	case token.LSS, token.LEQ, token.GTR, token.GEQ, token.EQL, token.NEQ:
		return true
	}
	return false
}

// derefValue follows UnOp(*) loads.
func isLoad(v ssa.Value) (*ssa.UnOp, bool) {
	u, ok := v.(*ssa.UnOp)
	if ok && u.Op == token.MUL {
		return u, true
	}
	return nil, false
}

func strconvF(f float64) string { return fmtFloat(f) }

// retOperand returns the value a return statement hands back as result i, looking through the
// result-variable spill that go/ssa inserts in functions with defer (`*r = v; rundefers; t = *r; return t`).
func retOperand(ret *ssa.Return, i int) ssa.Value {
	v := ret.Results[i]
	ld, ok := isLoad(v)
	if !ok {
		return v
	}
	al, ok := ld.X.(*ssa.Alloc)
	if !ok {
		return v
	}
	// the spill store in the same block, before the return
	b := ret.Block()
	for k := instrIndex(ret) - 1; k >= 0; k-- {
		if st, ok := b.Instrs[k].(*ssa.Store); ok && st.Addr == ssa.Value(al) {
			return st.Val
		}
	}
	return v
}

// knownNonNilAt: block b is dominated by the non-nil edge of a test `v != nil` / `v == nil` (v itself, or the phi / spilled
// variable it is read from).
func knownNonNilAt(v ssa.Value, b *ssa.BasicBlock) bool {
	fn := b.Parent()
	same := func(x ssa.Value) bool {
		if x == v {
			return true
		}
		// loads of the same spilled variable
		lx, ok1 := isLoad(x)
		lv, ok2 := isLoad(v)
		return ok1 && ok2 && lx.X == lv.X
	}
	for _, blk := range fn.Blocks {
		ifi, ok := blk.Instrs[len(blk.Instrs)-1].(*ssa.If)
		if !ok || blk.Succs[0] == blk.Succs[1] {
			continue
		}
		bo, ok := ifi.Cond.(*ssa.BinOp)
		if !ok || (bo.Op != token.NEQ && bo.Op != token.EQL) {
			continue
		}
		var tested ssa.Value
		if isNilConst(bo.Y) {
			tested = bo.X
		} else if isNilConst(bo.X) {
			tested = bo.Y
		} else {
			continue
		}
		if !same(tested) {
			continue
		}
		nonNil := blk.Succs[0]
		if bo.Op == token.EQL {
			nonNil = blk.Succs[1]
		}
		if edgeDominates(blk, nonNil, b) {
			return true
		}
	}
	return false
}
