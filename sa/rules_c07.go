package main

import (
	"fmt"
	"go/token"
	"go/types"
	"sort"
	"strings"

	"golang.org/x/tools/go/ssa"
)

func init() {
	register("C07", PropMeta{
		Title: "No input file can crash, hang or exhaust the reader",
		Explanation: "Over every function reachable (VTA call graph) from Open and the exported methods of File/Group/Dataset/NamedDatatype/ChunkIterator: " +
			"(C07.1) every make/GetBuffer size is proven bounded by a constant <= 1 GiB or by the length of memory already held, using linear forms over SSA values, facts from dominating branch edges, callee success summaries and type intervals; io.ReadAll must read from a LimitReader; " +
			"(C07.2) every index and slice expression is proven in bounds by the same prover (with clamp/phi splitting and calling-context instantiation); operations the prover cannot decide are frozen per function in baselines/C07.2.json and only an increase is reported; " +
			"(C07.3) every call-graph cycle and every file-driven worklist has a visited set that is only ever added to, a level argument that strictly decreases, or recurses on an index that increases to a length; " +
			"(C07.5) every integer division has a divisor proven non-zero.",
		DoesNotDecide: "full absence of panics (not-decided index sites are counted, not judged); nil dereferences; CPU time of decompressors; stack depth of bounded recursion; wrap-around of additions (arithmetic is idealised)",
		Rules: map[string]string{
			"C07.1": "allocation sizes on the read path are bounded (constant <= 1 GiB, or proportional to bytes already in memory); io.ReadAll only on a LimitReader",
			"C07.2": "index/slice operations on the read path are in bounds by a dominating guard; per-function count of not-decided operations may not grow beyond the reviewed baseline",
			"C07.3": "recursion and worklists driven by file addresses terminate: visited set (insert-only), decreasing level, or index increasing to a length",
			"C07.5": "integer divisors on the read path are proven non-zero",
		},
	}, func(c *Ctx, r *Result) { c.strictNarrow = true }, ruleC07Idx, ruleC07Alloc, ruleC07Div, ruleC07Rec, func(c *Ctx, r *Result) { c.strictNarrow = false })
}

// readerRoots: the read API.
func (c *Ctx) readerRoots(r *Result) []*ssa.Function {
	var roots []*ssa.Function
	if f := c.Fn(r, "hdf5.Open"); f != nil {
		roots = append(roots, f)
	}
	for _, tn := range []string{"File", "Group", "Dataset", "NamedDatatype", "ChunkIterator"} {
		if n := c.NamedType(r, "hdf5", tn); n != nil {
			roots = append(roots, c.ExportedMethods(n)...)
		}
	}
	return roots
}

func (c *Ctx) readerSet(r *Result) map[*ssa.Function]bool {
	if m, ok := c.cache["readerSet"].(map[*ssa.Function]bool); ok {
		return m
	}
	set := c.Reach(c.readerRoots(r), func(f *ssa.Function) bool { return !libPackage(fnPkgPath(f)) })
	c.cache["readerSet"] = set
	return set
}

func (c *Ctx) readerFuncs(r *Result) []*ssa.Function {
	set := c.readerSet(r)
	var out []*ssa.Function
	for _, fn := range c.LibFuncs() {
		if set[fn] {
			out = append(out, fn)
		}
	}
	return out
}

func ruleC07Idx(c *Ctx, r *Result) {
	per := map[string][]undecidedItem{}
	perUpper := map[string][]undecidedItem{}
	n := 0
	for _, fn := range c.readerFuncs(r) {
		for _, a := range c.AccessesIn(fn) {
			n++
			if a.Proved {
				r.Hold("C07.2", c.Name(fn)+"#"+a.Kind, c.InstrPos(a.In), "")
			} else {
				per[c.Name(fn)] = append(per[c.Name(fn)], undecidedItem{c.InstrPos(a.In), a.Why})
				if a.UpperFails {
					perUpper[c.Name(fn)] = append(perUpper[c.Name(fn)], undecidedItem{c.InstrPos(a.In), a.UpperWhy})
				}
			}
		}
	}
	r.ApplyBaseline(verifDirGlobal, "C07.2", "index-or-slice", per)
	// second ratchet: the sites whose upper bound is not established, counted separately - a site that is not decided because
	// its index "may be negative" still has its length test checked
	r.ApplyBaselineFile(verifDirGlobal, "C07.2-upper", "C07.2", "index-or-slice-upper-bound", perUpper)
	r.Floor("C07.2", 800)
}

const allocCap = 1 << 30

// ruleC07Alloc: allocation sinks on the read path.
func ruleC07Alloc(c *Ctx, r *Result) {
	per := map[string][]undecidedItem{}
	for _, fn := range c.readerFuncs(r) {
		fb := c.FB(fn)
		var sinks []ssa.Instruction
		instrs(fn, func(in ssa.Instruction) {
			switch x := in.(type) {
			case *ssa.MakeSlice:
				sinks = append(sinks, x)
			case *ssa.Call:
				if f := x.Call.StaticCallee(); f != nil {
					switch c.calleeNameOf(f) {
					case "utils.GetBuffer", "bytes.Repeat", "io.ReadAll", "strings.Repeat":
						sinks = append(sinks, x)
					}
				}
			}
		})
		sort.SliceStable(sinks, func(i, j int) bool { return posLess(sinks[i], sinks[j]) })
		for _, in := range sinks {
			name := c.Name(fn)
			pos := c.InstrPos(in)
			switch x := in.(type) {
			case *ssa.MakeSlice:
				es := elemSize(x.Type())
				ok, why := fb.boundedAlloc(x.Len, es, x)
				if ok && x.Cap != x.Len {
					ok, why = fb.boundedAlloc(x.Cap, es, x)
				}
				if ok {
					r.Hold("C07.1", name+"#make", pos, why)
				} else {
					per[name] = append(per[name], undecidedItem{pos, "make: " + why})
				}
			case *ssa.Call:
				cn := c.calleeNameOf(x.Call.StaticCallee())
				switch cn {
				case "io.ReadAll":
					if isLimitReader(x.Call.Args[0]) {
						r.Hold("C07.1", name+"#ReadAll", pos, "reads from io.LimitReader")
					} else {
						r.Viol("C07.1", name+"#ReadAll-unlimited", pos, "io.ReadAll on a reader that is not an io.LimitReader: output size is governed by the (compressed) input alone")
					}
				case "utils.GetBuffer":
					ok, why := fb.boundedAlloc(x.Call.Args[0], 1, x)
					if ok {
						r.Hold("C07.1", name+"#GetBuffer", pos, why)
					} else {
						per[name] = append(per[name], undecidedItem{pos, "GetBuffer: " + why})
					}
				default:
					arg := x.Call.Args[len(x.Call.Args)-1]
					ok, why := fb.boundedAlloc(arg, 1, x)
					if ok {
						r.Hold("C07.1", name+"#"+cn, pos, why)
					} else {
						per[name] = append(per[name], undecidedItem{pos, cn + ": " + why})
					}
				}
			}
		}
	}
	r.ApplyBaseline(verifDirGlobal, "C07.1", "allocation", per)
	r.Floor("C07.1", 60)
}

func (c *Ctx) calleeNameOf(f *ssa.Function) string {
	if f == nil {
		return ""
	}
	if inModule(fnPkgPath(f)) {
		return c.Name(f)
	}
	if fo, ok := f.Object().(*types.Func); ok && fo != nil {
		return fo.FullName()
	}
	return f.String()
}

func isLimitReader(v ssa.Value) bool {
	v = stripIface(v)
	switch x := v.(type) {
	case *ssa.Call:
		if f := x.Call.StaticCallee(); f != nil && f.String() == "io.LimitReader" {
			return true
		}
	case *ssa.Alloc:
		if n := namedOf(x.Type()); n != nil && n.Obj().Pkg() != nil && n.Obj().Pkg().Path() == "io" && n.Obj().Name() == "LimitedReader" {
			return true
		}
	case *ssa.Phi:
		for _, e := range x.Edges {
			if !isLimitReader(e) {
				return false
			}
		}
		return len(x.Edges) > 0
	}
	return false
}

func elemSize(t types.Type) int64 {
	sl, ok := t.Underlying().(*types.Slice)
	if !ok {
		return 1
	}
	sz := types.StdSizes{WordSize: 8, MaxAlign: 8}
	n := sz.Sizeof(sl.Elem())
	if n <= 0 {
		n = 1
	}
	return n
}

// boundedAlloc: is n*es bounded by the constant cap or by memory already held?
func (fb *FB) boundedAlloc(n ssa.Value, es int64, at ssa.Instruction) (bool, string) {
	l := fb.lin(n)
	if l.isConst() {
		if l.C >= 0 && satMul(l.C, es) <= allocCap {
			return true, fmt.Sprintf("constant %d", l.C)
		}
		return false, fmt.Sprintf("constant %d elements of %d bytes exceeds the cap", l.C, es)
	}
	// constant cap: cap/es - n >= 0
	if fb.ProveGE0At(linConst(allocCap/es).add(l, -1), at) {
		return true, "bounded by constant cap (" + fb.linString(l) + ")"
	}
	// proportional to memory already held: 16*len(x) + 4096 - n >= 0 for some slice x in scope
	for _, k := range fb.lenSymsInScope(l, at) {
		if fb.ProveGE0At(linSym(k).scale(16).add(linConst(4096), 1).add(l, -1), at) {
			return true, "bounded by " + fb.symName(k)
		}
	}
	return false, "size " + fb.linString(l) + " is not bounded by a dominating check"
}

// lenSymsInScope: length symbols mentioned by the size itself or by the dominating facts.
func (fb *FB) lenSymsInScope(l Lin, at ssa.Instruction) []interface{} {
	seen := map[interface{}]bool{}
	var out []interface{}
	add := func(x Lin) {
		for k := range x.T {
			if _, ok := k.(lenKey); ok && !seen[k] {
				seen[k] = true
				out = append(out, k)
			}
		}
	}
	add(l)
	for _, f := range fb.blockFacts(at.Block()) {
		add(f)
	}
	sort.Slice(out, func(i, j int) bool { return fb.symName(out[i]) < fb.symName(out[j]) })
	return out
}

// ruleC07Div: integer divisions by a possibly-zero divisor.
func ruleC07Div(c *Ctx, r *Result) {
	per := map[string][]undecidedItem{}
	for _, fn := range c.readerFuncs(r) {
		fb := c.FB(fn)
		var divs []*ssa.BinOp
		instrs(fn, func(in ssa.Instruction) {
			if b, ok := in.(*ssa.BinOp); ok && (b.Op == token.QUO || b.Op == token.REM) && isIntType(b.Type()) {
				divs = append(divs, b)
			}
		})
		sort.SliceStable(divs, func(i, j int) bool { return posLess(divs[i], divs[j]) })
		for _, b := range divs {
			d := fb.lin(b.Y)
			if d.isConst() {
				if d.C != 0 {
					r.Hold("C07.5", c.Name(fn)+"#div", c.InstrPos(b), "constant divisor")
				} else {
					r.Viol("C07.5", c.Name(fn)+"#div-by-zero-constant", c.InstrPos(b), "constant zero divisor")
				}
				continue
			}
			// divisor >= 1 (unsigned or proven positive) — or <= -1 is not attempted
			if fb.ProveGE0At(d.add(linConst(1), -1), b) {
				r.Hold("C07.5", c.Name(fn)+"#div", c.InstrPos(b), "divisor proven >= 1")
			} else {
				per[c.Name(fn)] = append(per[c.Name(fn)], undecidedItem{c.InstrPos(b), "divisor " + fb.linString(d) + " not proven non-zero"})
			}
		}
	}
	r.ApplyBaseline(verifDirGlobal, "C07.5", "division", per)
}

// ---- C07.3 recursion / worklists ----

// visitedGuard describes an insert-only visited set consulted by fn before it goes on.
type visitedGuard struct {
	field string // map field key
}

// hasVisitedGuard: fn looks a key up in a map (field or parameter), returns early when present,
// inserts the key, and the insertion dominates the given call.
func (c *Ctx) visitedGuardFor(fn *ssa.Function, call ssa.Instruction) (string, bool) {
	var found string
	instrs(fn, func(in ssa.Instruction) {
		mu, ok := in.(*ssa.MapUpdate)
		if !ok || found != "" {
			return
		}
		if !instrDominates(mu, call) {
			return
		}
		// a Lookup on the same map value source that guards an early return
		mapSrc := mapSource(mu.Map)
		if mapSrc == "" {
			return
		}
		instrs(fn, func(in2 ssa.Instruction) {
			lk, ok := in2.(*ssa.Lookup)
			if !ok || mapSource(lk.X) != mapSrc || !instrDominates(lk, mu) {
				return
			}
			// the lookup result (or its ok flag) must feed an If one of whose edges avoids the update
			for _, ref := range *lk.Referrers() {
				var cond ssa.Value
				switch x := ref.(type) {
				case *ssa.If:
					cond = x.Cond
				case *ssa.Extract:
					for _, r2 := range *x.Referrers() {
						if ifi, ok := r2.(*ssa.If); ok {
							cond = ifi.Cond
						}
					}
				}
				if cond != nil {
					found = mapSrc
				}
			}
		})
	})
	return found, found != ""
}

// mapSource names where a map value comes from: "field:pkg.Type.f" or "param:fn#i".
func mapSource(v ssa.Value) string {
	switch x := v.(type) {
	case *ssa.UnOp:
		if fa, ok := x.X.(*ssa.FieldAddr); ok {
			if f, _ := fieldOfAddr(fa); f != nil {
				return "field:" + fieldKey(fa.X.Type(), f)
			}
		}
	case *ssa.Parameter:
		return "param:" + x.Name()
	case *ssa.MakeMap:
		return "local:" + x.Parent().String() + ":" + x.Name()
	case *ssa.Field:
		if f, _ := fieldOfAddr(x); f != nil {
			return "field:" + fieldKey(x.X.Type(), f)
		}
	}
	return ""
}

// deletesFrom: does any library function delete from (or re-make) the named map field?
func (c *Ctx) mapFieldShrinks(src string) (bool, string) {
	for _, fn := range c.LibFuncs() {
		where := ""
		instrs(fn, func(in ssa.Instruction) {
			if call, ok := in.(ssa.CallInstruction); ok {
				if b, ok := call.Common().Value.(*ssa.Builtin); ok && (b.Name() == "delete" || b.Name() == "clear") && len(call.Common().Args) > 0 {
					if mapSource(call.Common().Args[0]) == src {
						where = c.InstrPos(in)
					}
				}
			}
		})
		if where != "" {
			return true, c.Name(fn) + " at " + where
		}
	}
	return false, ""
}

// derivedFromParam: v is obtained from a parameter of fn by field / element selection (a strict sub-object).
func derivedFromParam(v ssa.Value, depth int) (*ssa.Parameter, int) {
	steps := 0
	for i := 0; i < 12; i++ {
		switch x := v.(type) {
		case *ssa.Parameter:
			return x, steps
		case *ssa.UnOp:
			if x.Op != token.MUL {
				return nil, 0
			}
			v = x.X
		case *ssa.FieldAddr:
			v = x.X
			steps++
		case *ssa.Field:
			v = x.X
			steps++
		case *ssa.IndexAddr:
			v = x.X
			steps++
		case *ssa.Index:
			v = x.X
			steps++
		case *ssa.Extract:
			if ta, ok := x.Tuple.(*ssa.TypeAssert); ok {
				v = ta.X
				continue
			}
			return nil, 0
		case *ssa.Alloc:
			// local copy of a value: follow the single store into it
			var st *ssa.Store
			n := 0
			for _, ref := range *x.Referrers() {
				if s, ok := ref.(*ssa.Store); ok && s.Addr == ssa.Value(x) {
					st = s
					n++
				}
			}
			if n != 1 {
				return nil, 0
			}
			v = st.Val
		case *ssa.Call:
			// simple getter on a sub-object: g.Children()
			if f := x.Call.StaticCallee(); f != nil && getterOf(f) && len(x.Call.Args) == 1 {
				v = x.Call.Args[0]
				steps++
				continue
			}
			return nil, 0
		case *ssa.Phi:
			// all incoming values must come from the same parameter
			var pp *ssa.Parameter
			for _, e := range x.Edges {
				q, _ := derivedFromParam(e, depth+1)
				if q == nil || (pp != nil && q != pp) || depth > 3 {
					return nil, 0
				}
				pp = q
			}
			return pp, steps + 1
		case *ssa.ChangeType:
			v = x.X
		case *ssa.MakeInterface:
			v = x.X
		case *ssa.TypeAssert:
			v = x.X
		default:
			return nil, 0
		}
	}
	return nil, 0
}

// edgeMeasure classifies a recursive call edge: "strict" (a well-founded measure decreases),
// "nonstrict" (a measure does not increase) or "" (unknown).
func (c *Ctx) edgeMeasure(site ssa.CallInstruction, callee *ssa.Function) (string, string) {
	caller := site.Parent()
	fb := c.FB(caller)
	args := site.Common().Args
	best := ""
	why := ""
	for i, a := range args {
		// (1) counter increasing towards a bound: arg = p + c (c >= 1), with a dominating upper bound on p
		if isIntType(a.Type()) {
			l := fb.lin(a)
			for k, coef := range l.T {
				p, ok := k.(*ssa.Parameter)
				if !ok || coef != 1 || len(l.T) != 1 || p.Parent() != caller {
					continue
				}
				if l.C >= 1 {
					// upper bound: some dominating fact has p with a negative coefficient
					for _, f := range fb.blockFacts(site.Block()) {
						if f.T[k] < 0 {
							return "strict", fmt.Sprintf("argument %d is %s+%d and %s is bounded above by a dominating guard", i, p.Name(), l.C, p.Name())
						}
					}
					// counter with an exit test: a dominating comparison on p whose other edge never reaches this call
					if fb.exitTestOn(k, site) {
						return "strict", fmt.Sprintf("argument %d is %s+%d and a dominating comparison on %s has an exit that does not recurse", i, p.Name(), l.C, p.Name())
					}
				}
				if l.C <= -1 {
					for _, f := range fb.blockFacts(site.Block()) {
						if f.T[k] > 0 {
							return "strict", fmt.Sprintf("argument %d is %s%d and %s is bounded below by a dominating guard", i, p.Name(), l.C, p.Name())
						}
					}
				}
			}
		}
		// (2) strict suffix of a parameter slice
		if sl, ok := a.(*ssa.Slice); ok {
			if p, ok := sl.X.(*ssa.Parameter); ok && p.Parent() == caller {
				lo := int64(0)
				if sl.Low != nil {
					lo, _ = fb.rng(sl.Low)
				}
				if lo >= 1 {
					return "strict", fmt.Sprintf("argument %d is a strict suffix of parameter %s", i, p.Name())
				}
				if best == "" {
					best, why = "nonstrict", fmt.Sprintf("argument %d is a sub-slice of parameter %s", i, p.Name())
				}
			}
		}
		if p, ok := a.(*ssa.Parameter); ok && p.Parent() == caller {
			if _, isSlice := p.Type().Underlying().(*types.Slice); isSlice && best == "" {
				best, why = "nonstrict", fmt.Sprintf("argument %d passes parameter %s on unchanged", i, p.Name())
			}
		}
		// (3) structural recursion on an in-memory value
		if _, isPtrOrStruct := a.Type().Underlying().(*types.Pointer); isPtrOrStruct || isStructOrIface(a.Type()) {
			if p, steps := derivedFromParam(a, 0); p != nil && steps >= 1 && p.Parent() == caller && !isReaderAt(a.Type()) {
				return "strict", fmt.Sprintf("argument %d is a sub-object of parameter %s (structural recursion on an in-memory value)", i, p.Name())
			}
		}
	}
	// (4) a level field of the argument object is strictly below the same field of the parameter object
	for i, a := range args {
		if _, isPtr := a.Type().Underlying().(*types.Pointer); !isPtr || i >= len(caller.Params) {
			continue
		}
		for _, f := range fb.blockFacts(site.Block()) {
			// fact: param.F - arg.F - 1 >= 0
			if f.C != -1 || len(f.T) != 2 {
				continue
			}
			var pos, neg ssa.Value
			for k, coef := range f.T {
				v, ok := k.(ssa.Value)
				if !ok {
					continue
				}
				if coef == 1 {
					pos = v
				} else if coef == -1 {
					neg = v
				}
			}
			if pos == nil || neg == nil {
				continue
			}
			pf, pbase := loadedField(pos)
			nf, nbase := loadedField(neg)
			if pf != nil && pf == nf && nbase == a {
				if p, ok := pbase.(*ssa.Parameter); ok && p.Parent() == caller {
					lo, _ := fb.typeRange(pf.Type())
					if lo >= 0 {
						return "strict", fmt.Sprintf("argument %d has %s strictly below %s.%s (unsigned level decreases on every call)", i, pf.Name(), p.Name(), pf.Name())
					}
				}
			}
		}
	}
	// receiver-less range element: `for _, child := range g.children { walk(child) }` — element of a field of a parameter
	for i, a := range args {
		if ta, ok := a.(*ssa.TypeAssert); ok {
			if p, steps := derivedFromParam(ta.X, 0); p != nil && steps >= 1 {
				return "strict", fmt.Sprintf("argument %d is an element of parameter %s (structural recursion)", i, p.Name())
			}
		}
	}
	return best, why
}

// exitTestOn: some If that dominates the call compares a value mentioning symbol k, the edge towards the call
// is one successor and the other successor cannot reach the call.
func (fb *FB) exitTestOn(k interface{}, site ssa.CallInstruction) bool {
	cb := site.Block()
	for _, b := range fb.fn.Blocks {
		if len(b.Instrs) == 0 {
			continue
		}
		ifi, ok := b.Instrs[len(b.Instrs)-1].(*ssa.If)
		if !ok || !b.Dominates(cb) {
			continue
		}
		cmp, ok := ifi.Cond.(*ssa.BinOp)
		if !ok || !isCmp(cmp.Op) || !isIntType(cmp.X.Type()) {
			continue
		}
		d := fb.lin(cmp.X).add(fb.lin(cmp.Y), -1)
		if d.T[k] == 0 {
			continue
		}
		for i, s := range b.Succs {
			if edgeDominates(b, s, cb) {
				other := b.Succs[1-i]
				if !reachableFrom(other, nil)[cb] {
					return true
				}
			}
		}
	}
	return false
}

// getterField: fn is a method that only returns a field of its receiver.
func getterOf(fn *ssa.Function) bool {
	if fn == nil || len(fn.Blocks) != 1 || fn.Signature.Recv() == nil || len(fn.Params) != 1 {
		return false
	}
	rets := returnsOf(fn)
	if len(rets) != 1 || len(rets[0].Results) != 1 {
		return false
	}
	p, steps := derivedFromParam(rets[0].Results[0], 0)
	return p == fn.Params[0] && steps >= 1
}

// loadedField: v is a load of base.f; returns f and base.
func loadedField(v ssa.Value) (*types.Var, ssa.Value) {
	ld, ok := isLoad(v)
	if !ok {
		return nil, nil
	}
	fa, ok := ld.X.(*ssa.FieldAddr)
	if !ok {
		return nil, nil
	}
	f, base := fieldOfAddr(fa)
	return f, base
}

func isStructOrIface(t types.Type) bool {
	switch t.Underlying().(type) {
	case *types.Struct, *types.Interface:
		return true
	}
	return false
}

func isReaderAt(t types.Type) bool {
	s := typeShort(t)
	return s == "io.ReaderAt" || s == "utils.ReaderAt"
}

func ruleC07Rec(c *Ctx, r *Result) {
	set := map[*ssa.Function]bool{}
	for _, f := range c.readerFuncs(r) {
		set[f] = true
	}
	sccs := c.cyclicSCCs(set)
	for _, comp := range sccs {
		in := map[*ssa.Function]bool{}
		for _, f := range comp {
			in[f] = true
		}
		type edge struct {
			site     ssa.CallInstruction
			from, to *ssa.Function
			kind     string
			why      string
		}
		var edges []edge
		for _, f := range comp {
			for _, site := range callsIn(f) {
				for _, g := range c.Callees(site) {
					if !in[g] {
						continue
					}
					kind, why := c.edgeMeasure(site, g)
					if src, ok := c.visitedGuardFor(f, site); ok {
						if shr, where := c.mapFieldShrinks(src); shr {
							kind, why = "", "visited set "+src+" is not insert-only: "+where
						} else if kind != "strict" {
							kind, why = "strict", "guarded by insert-only visited set "+src
						}
					}
					edges = append(edges, edge{site, f, g, kind, why})
				}
			}
		}
		// residual graph: edges that are not strict; a cycle there has no decreasing measure
		adj := map[*ssa.Function][]*ssa.Function{}
		for _, e := range edges {
			if e.kind != "strict" {
				adj[e.from] = append(adj[e.from], e.to)
			}
		}
		onCycle := func(from, to *ssa.Function) bool {
			// is `from` reachable from `to` in the residual graph?
			seen := map[*ssa.Function]bool{to: true}
			work := []*ssa.Function{to}
			for len(work) > 0 {
				x := work[len(work)-1]
				work = work[:len(work)-1]
				if x == from {
					return true
				}
				for _, y := range adj[x] {
					if !seen[y] {
						seen[y] = true
						work = append(work, y)
					}
				}
			}
			return false
		}
		sort.SliceStable(edges, func(i, j int) bool { return posLess(edges[i].site, edges[j].site) })
		var bad []string
		var badPos string
		for _, e := range edges {
			construct := c.Name(e.from) + "->" + c.Name(e.to)
			pos := c.InstrPos(e.site)
			switch {
			case e.kind == "strict":
				r.Hold("C07.3", construct+"#recursion", pos, e.why)
			case !onCycle(e.from, e.to):
				r.Hold("C07.3", construct+"#recursion", pos, "not on a cycle once the decreasing edges are removed")
			default:
				d := construct + " at " + pos
				if e.why != "" {
					d += " (" + e.why + ")"
				}
				bad = append(bad, d)
				if badPos == "" {
					badPos = pos
				}
			}
		}
		if len(bad) > 0 {
			// one finding per strongly connected component: a single visited set / level test repairs all of its edges
			// a component that gained a function after the review: the measure may sit on an edge the rule does not connect
			var newcomer *ssa.Function
			for _, f := range comp {
				if h := c.postReviewContext(f); h != "" && h == c.Name(f) {
					newcomer = f
				}
			}
			msg := "call-graph cycle driven by file content with no insert-only visited set, no decreasing level and no shrinking argument on: " + strings.Join(bad, "; ")
			if newcomer != nil {
				r.ViolMissing(c, newcomer, "C07.3", fmt.Sprintf("scc(%s)#recursion-without-progress#edges=%d", c.Name(comp[0]), len(bad)), badPos, msg)
			} else {
				r.Viol("C07.3", fmt.Sprintf("scc(%s)#recursion-without-progress#edges=%d", c.Name(comp[0]), len(bad)), badPos, msg)
			}
		}
	}
	// worklists: loops that take from a slice and append file-derived entries to it
	for _, fn := range c.readerFuncs(r) {
		c.checkWorklists(fn, r)
	}
	r.Floor("C07.3", 8)
}

// checkWorklists: a phi of slice type in a loop header whose back edge value is an append(...) of values that come
// out of a call made inside the loop (a queue fed from what the loop reads). Needs a visited set or a counter bound.
func (c *Ctx) checkWorklists(fn *ssa.Function, r *Result) {
	instrs(fn, func(in ssa.Instruction) {
		phi, ok := in.(*ssa.Phi)
		if !ok {
			return
		}
		if _, isSlice := phi.Type().Underlying().(*types.Slice); !isSlice {
			return
		}
		// the phi must be consumed ([0] / [1:]) and extended (append) in the loop it heads
		consumed, extended := false, false
		var appendCall *ssa.Call
		for _, e := range phi.Edges {
			if call, ok := e.(*ssa.Call); ok {
				if b, ok := call.Call.Value.(*ssa.Builtin); ok && b.Name() == "append" && len(call.Call.Args) == 2 {
					if sl, ok := call.Call.Args[0].(*ssa.Slice); ok && sl.X == ssa.Value(phi) && sl.Low != nil {
						consumed = true
						extended = true
						appendCall = call
					}
				}
			}
		}
		if !consumed || !extended {
			return
		}
		// is there a visited-set guard or an iteration bound in the loop?
		if src, ok := c.visitedGuardFor(fn, appendCall); ok {
			if shr, where := c.mapFieldShrinks(src); !shr {
				r.Hold("C07.3", c.Name(fn)+"#worklist", c.InstrPos(appendCall), "queue guarded by insert-only visited set "+src)
				return
			} else {
				r.Viol("C07.3", c.Name(fn)+"#worklist-visited-set-shrinks", c.InstrPos(appendCall), where)
				return
			}
		}
		// counter bound: an int phi in the same loop header compared against a constant with an exit
		bounded := false
		for _, in2 := range phi.Block().Instrs {
			if p2, ok := in2.(*ssa.Phi); ok && isIntType(p2.Type()) {
				for _, ref := range *p2.Referrers() {
					if b, ok := ref.(*ssa.BinOp); ok && isCmp(b.Op) {
						if _, isC := b.Y.(*ssa.Const); isC {
							bounded = true
						}
					}
				}
			}
		}
		if bounded {
			r.Hold("C07.3", c.Name(fn)+"#worklist", c.InstrPos(appendCall), "queue length bounded by a counter")
			return
		}
		r.Viol("C07.3", c.Name(fn)+"#unbounded-worklist", c.InstrPos(appendCall), "queue is extended inside the loop from data read in the loop, with no visited set and no iteration bound")
	})
}

func init() {
	reg := registry["C07"]
	reg.Meta.Rules["C07.6"] = "an LZF back-reference never reads bytes that are not there yet: it is expanded byte by byte from the growing output, or by a block copy / self-append whose source range is proven to end inside what has been produced (a longer run slices beyond the buffer and panics, or repeats stale bytes)"
	reg.Rules = append(reg.Rules, func(c *Ctx, r *Result) { lzfOverlapRule(c, r, "C07.6") })
}
