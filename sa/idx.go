package main

import (
	"fmt"
	"go/token"
	"go/types"
	"sort"

	"golang.org/x/tools/go/ssa"
)

// Access is one indexing / slicing operation with its proof status.
type Access struct {
	Fn     *ssa.Function
	In     ssa.Instruction
	Kind   string // "index" | "slice"
	Proved bool
	Why    string // which obligation failed
	// UpperFails: the upper-bound obligation (index < len, high <= len, low <= high) is not established - evaluated also when
	// the lower-bound obligation already failed, so that a weakened length test shows at a site whose index "may be negative"
	UpperFails bool
	UpperWhy   string
}

func isRangeIndexOf(idx ssa.Value, x ssa.Value) bool { return false }

// AccessesIn enumerates index and slice operations of fn and tries to prove each in bounds.
func (c *Ctx) AccessesIn(fn *ssa.Function) []Access {
	fb := c.FB(fn)
	var out []Access
	var list []ssa.Instruction
	instrs(fn, func(in ssa.Instruction) {
		switch in.(type) {
		case *ssa.IndexAddr, *ssa.Index, *ssa.Slice, *ssa.Lookup:
			list = append(list, in)
		}
	})
	sort.SliceStable(list, func(i, j int) bool { return posLess(list[i], list[j]) })
	for _, in := range list {
		switch x := in.(type) {
		case *ssa.IndexAddr:
			ln := fb.lenOfOperand(x.X)
			out = append(out, fb.checkIndex(in, x.Index, ln))
		case *ssa.Index:
			ln := fb.lenLin(x.X)
			out = append(out, fb.checkIndex(in, x.Index, ln))
		case *ssa.Lookup:
			if _, isMap := x.X.Type().Underlying().(*types.Map); isMap {
				continue
			}
			out = append(out, fb.checkIndex(in, x.Index, fb.lenLin(x.X)))
		case *ssa.Slice:
			out = append(out, fb.checkSlice(x))
		}
	}
	return out
}

func (fb *FB) checkIndex(in ssa.Instruction, idx ssa.Value, ln Lin) Access {
	a := Access{Fn: fb.fn, In: in, Kind: "index"}
	i := fb.lin(idx)
	// 0 <= i
	if !fb.ProveGE0At(i, in) {
		a.Why = "index may be negative"
	}
	// i <= len-1
	if !fb.ProveGE0At(ln.add(i, -1).add(linConst(1), -1), in) {
		a.UpperFails = true
		a.UpperWhy = fmt.Sprintf("no dominating guard implies index < len (index=%s, len=%s)", fb.linString(i), fb.linString(ln))
		if a.Why == "" {
			a.Why = a.UpperWhy
		}
	}
	a.Proved = a.Why == ""
	return a
}

func (fb *FB) checkSlice(s *ssa.Slice) Access {
	a := Access{Fn: fb.fn, In: s, Kind: "slice"}
	lo := linConst(0)
	if s.Low != nil {
		lo = fb.lin(s.Low)
		if !fb.ProveGE0At(lo, s) {
			a.Why = "low bound may be negative"
		}
	}
	upper := func(why string) {
		a.UpperFails = true
		if a.UpperWhy == "" {
			a.UpperWhy = why
		}
		if a.Why == "" {
			a.Why = why
		}
	}
	limit := fb.capOfOperand(s.X)
	if _, isStr := s.X.Type().Underlying().(*types.Basic); isStr {
		limit = fb.lenLin(s.X)
	}
	// when the operand's cap is unknown we use len (sound for the proof)
	hi := Lin{}
	if s.High != nil {
		hi = fb.lin(s.High)
		if !fb.ProveGE0At(limit.add(hi, -1), s) {
			// try len as limit explicitly
			if !fb.ProveGE0At(fb.lenOfOperand(s.X).add(hi, -1), s) {
				upper(fmt.Sprintf("no dominating guard implies high <= len (high=%s, len=%s)", fb.linString(hi), fb.linString(fb.lenOfOperand(s.X))))
			}
		}
		if s.Low != nil && !a.UpperFails && !fb.ProveGE0At(hi.add(lo, -1), s) {
			upper(fmt.Sprintf("low <= high not implied (low=%s, high=%s)", fb.linString(lo), fb.linString(hi)))
		}
	} else if s.Low != nil {
		if !fb.ProveGE0At(fb.lenOfOperand(s.X).add(lo, -1), s) {
			upper(fmt.Sprintf("no dominating guard implies low <= len (low=%s, len=%s)", fb.linString(lo), fb.linString(fb.lenOfOperand(s.X))))
		}
	}
	a.Proved = a.Why == ""
	return a
}

// linString renders a linear form with short symbol names.
func (fb *FB) linString(l Lin) string {
	type term struct {
		name string
		k    int64
	}
	var ts []term
	for k, v := range l.T {
		ts = append(ts, term{fb.symName(k), v})
	}
	sort.Slice(ts, func(i, j int) bool { return ts[i].name < ts[j].name })
	s := ""
	for _, t := range ts {
		switch {
		case t.k == 1:
			s += "+" + t.name
		case t.k == -1:
			s += "-" + t.name
		default:
			s += fmt.Sprintf("%+d*%s", t.k, t.name)
		}
	}
	if l.C != 0 || s == "" {
		s += fmt.Sprintf("%+d", l.C)
	}
	return s
}

func (fb *FB) symName(k interface{}) string {
	switch kk := k.(type) {
	case lenKey:
		return "len(" + fb.valName(kk.v) + ")"
	case capKey:
		return "cap(" + fb.valName(kk.v) + ")"
	case resultKey:
		return fmt.Sprintf("result%d", kk.i)
	case ssa.Value:
		return fb.valName(kk)
	}
	return "?"
}

func (fb *FB) valName(v ssa.Value) string {
	switch x := v.(type) {
	case *ssa.Parameter:
		return x.Name()
	case *ssa.UnOp:
		if x.Op == token.MUL {
			if fa, ok := x.X.(*ssa.FieldAddr); ok {
				if f, _ := fieldOfAddr(fa); f != nil {
					return fb.valName(fa.X) + "." + f.Name()
				}
			}
			if g, ok := x.X.(*ssa.Global); ok {
				return g.Name()
			}
			if a, ok := x.X.(*ssa.Alloc); ok && a.Comment != "" {
				return a.Comment
			}
		}
	case *ssa.Phi:
		if x.Comment != "" {
			return x.Comment
		}
	case *ssa.Alloc:
		if x.Comment != "" {
			return x.Comment
		}
	case *ssa.Extract:
		return fmt.Sprintf("%s#%d", fb.valName(x.Tuple), x.Index)
	case *ssa.Call:
		return "call:" + fb.c.calleeName(x)
	}
	return v.Name()
}
