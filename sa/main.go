// h5sa — static checker for the C01..C20 properties of scigolib/hdf5.
// Every run loads /repo's current working tree (go/packages, LoadAllSyntax), builds SSA and a
// VTA call graph and evaluates the rules of one property. Nothing of the library is executed.
package main

import (
	"flag"
	"fmt"
	"os"
	"sort"
	"strconv"
	"time"
)

type ruleFn func(c *Ctx, r *Result)

type property struct {
	Meta  PropMeta
	Rules []ruleFn
}

var registry = map[string]*property{}

func register(id string, meta PropMeta, rules ...ruleFn) {
	registry[id] = &property{Meta: meta, Rules: rules}
}

func main() {
	prop := flag.String("prop", "", "property id (C01..C19)")
	tier := flag.String("tier", "quick", "quick|thorough")
	repo := flag.String("repo", "/repo", "repository to analyse")
	verif := flag.String("verif", "/verif", "verif directory (evidence, known findings)")
	tags := flag.String("tags", "", "build tags")
	goarch := flag.String("goarch", "", "GOARCH override")
	list := flag.Bool("list", false, "list properties")
	rulesMD := flag.Bool("rules", false, "print the rule catalogue (markdown)")
	dump := flag.Bool("dump", false, "print every obligation")
	wb := flag.Bool("write-baselines", false, "(maintenance) rewrite /verif/baselines for this property from the current tree")
	noEvidence := flag.Bool("no-evidence", false, "do not write evidence (used by the mutant self-test); prints findings only")
	flag.Parse()
	writeBaselines = *wb
	verifDirGlobal = *verif
	if *rulesMD {
		var ids []string
		for k := range registry {
			ids = append(ids, k)
		}
		sort.Strings(ids)
		for _, k := range ids {
			m := registry[k].Meta
			fmt.Printf("**%s - %s**\n\n", k, m.Title)
			var rs []string
			for r := range m.Rules {
				rs = append(rs, r)
			}
			sort.Strings(rs)
			for _, r := range rs {
				fmt.Printf("* `%s` %s\n", r, m.Rules[r])
			}
			fmt.Printf("\nDoes not decide: %s\n\n", m.DoesNotDecide)
		}
		return
	}
	if *list {
		var ids []string
		for k := range registry {
			ids = append(ids, k)
		}
		sort.Strings(ids)
		for _, k := range ids {
			fmt.Println(k, registry[k].Meta.Title)
		}
		return
	}
	p := registry[*prop]
	if p == nil {
		fmt.Printf("CHECKER-ERROR unknown property %q\n", *prop)
		os.Exit(2)
	}
	seed := 0
	if s := os.Getenv("VERIF_SEED"); s != "" {
		seed, _ = strconv.Atoi(s)
	}
	t0 := time.Now()
	type config struct{ tags, goarch string }
	configs := []config{{*tags, *goarch}}
	if *tier == "thorough" && *tags == "" && *goarch == "" {
		// the module does not type-check for 32-bit targets (an untyped constant 0xFFFFFFFF is compared with an int in
		// internal/core/datatype_compound_write.go), so GOARCH=386 is not a configuration of this code base
		configs = append(configs, config{"verif", ""})
	}
	res := NewResult(*prop)
	var cfgNames []string
	var last *Ctx
	for i, cf := range configs {
		c, err := Load(*repo, *tier, cf.tags, cf.goarch)
		baselineCtx = c
		name := fmt.Sprintf("tags=%q,GOARCH=%q", cf.tags, cf.goarch)
		cfgNames = append(cfgNames, name)
		if err != nil {
			res.Errorf("load (%s): %v", name, err)
			continue
		}
		last = c
		sub := res
		if i > 0 {
			sub = NewResult(*prop)
		}
		for _, rule := range p.Rules {
			func() {
				defer func() {
					if e := recover(); e != nil {
						sub.Errorf("rule panicked: %v", e)
					}
				}()
				rule(c, sub)
			}()
		}
		if i > 0 {
			// extra configurations: only new violations and errors are merged (keyed by rule+construct)
			have := map[string]bool{}
			for _, o := range res.Obls {
				if o.Status == Violated {
					have[o.Rule+" "+o.Construct] = true
				}
			}
			for _, o := range sub.Obls {
				if o.Status == Violated && !have[o.Rule+" "+o.Construct] {
					o.Detail += " [only under " + name + "]"
					res.Obls = append(res.Obls, o)
				}
			}
			for _, e := range sub.Errors {
				res.Errorf("(%s) %s", name, e)
			}
			for rule, n := range sub.floors {
				if got := sub.count(rule); got < n {
					res.Errorf("(%s) rule %s examined %d instances, floor %d", name, rule, got, n)
				}
			}
		}
	}
	if last == nil {
		for _, e := range res.Errors {
			fmt.Printf("CHECKER-ERROR property=%s %s\n", *prop, e)
		}
		os.Exit(2)
	}
	last.Tier = *tier
	if *dump {
		for _, o := range res.Obls {
			fmt.Printf("  %-9s %-8s %-70s %s  %s\n", o.Status, o.Rule, o.Construct, o.Pos, o.Detail)
		}
	}
	if *noEvidence {
		res.applyExceptions()
		n := 0
		for _, e := range res.Errors {
			fmt.Printf("CHECKER-ERROR property=%s %s\n", *prop, e)
		}
		known, _, _ := loadKnown(*verif + "/known_findings.txt")
		for _, o := range res.Obls {
			if o.Status != Violated {
				continue
			}
			k := false
			for _, kf := range known {
				if kf.Prop == *prop && kf.Rule == o.Rule && kf.Construct == o.Construct {
					k = true
				}
			}
			if !k {
				n++
				fmt.Printf("FINDING property=%s rule=%s construct=%s at %s: %s\n", *prop, o.Rule, o.Construct, o.Pos, o.Detail)
			}
		}
		if n > 0 {
			os.Exit(1)
		}
		if len(res.Errors) > 0 {
			os.Exit(2)
		}
		return
	}
	var selftest interface{}
	if st := os.Getenv("H5SA_SELFTEST_JSON"); st != "" {
		if b, err := os.ReadFile(st); err == nil {
			selftest = jsonRaw(b)
		}
	}
	code := res.Finish(last, *verif, seed, time.Since(t0).Seconds(), p.Meta, cfgNames, selftest)
	os.Exit(code)
}

var verifDirGlobal = "/verif"

type jsonRaw []byte

func (j jsonRaw) MarshalJSON() ([]byte, error) { return j, nil }
