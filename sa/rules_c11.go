package main

import (
	"fmt"
	"go/token"
	"go/types"
	"sort"
	"strings"

	"golang.org/x/tools/go/ssa"
)

func init() {
	register("C11", PropMeta{
		Title: "Every metadata encoder is inverted by its decoder",
		Explanation: "Agreement rules between each encoder and its decoder, read off both functions: (C11.1) under the version byte the encoder writes, a success return stays reachable in the decoder (partial evaluation of the decoder's version tests); (C11.2) every datatype encoder packs class, version and class bits at the shifts the decoder unpacks them from; " +
			"(C11.3) flag-guarded optional fields appear in the same order, under the same flag bit, with the same width, and with the same number of variable-width fields between them, in the encoder and in every decoder of that message; (C11.4) encoders are deterministic: output buffers are freshly zeroed (pooled buffers are only ever read targets), no map iteration, clock or random source is reachable from an encoder; " +
			"(C11.5) named fields sit at the same offset expression on both sides (constant part and superblock-size terms compared after partial evaluation under the written version).",
		DoesNotDecide: "equality decode(encode(x)) == x over all values; contents of variable-length tails; compound member layout beyond the header word",
		Rules: map[string]string{
			"C11.1": "decoder accepts the version the encoder writes",
			"C11.2": "datatype header word: class | version<<4 | bits<<8 on every encoder, inverse masks in the decoder",
			"C11.3": "flag-guarded optional fields: same order, flag bit, width and interleaving in encoder and decoder(s)",
			"C11.4": "encoders are deterministic (zeroed output buffers, no map order, clock or randomness)",
			"C11.5": "named fields are written and read at the same offset",
		},
	}, ruleC11)
}

func ruleC11(c *Ctx, r *Result) {
	c11versions(c, r)
	c11datatypeWord(c, r)
	c11guards(c, r)
	c11determinism(c, r)
	c11positions(c, r)
}

// ---------------------------------------------------------------------------------------------
// partial evaluation of a decoder under "first byte == V"

// byteDerived: v is computed only from data[k] for a constant k (load of a byte of the []byte parameter, conversions,
// a field of a struct that is assigned exactly once in this function, from such a value). Returns k.
func (c *Ctx) byteDerived(fn *ssa.Function, v ssa.Value, depth int) (int64, bool) {
	if depth > 6 {
		return 0, false
	}
	switch x := v.(type) {
	case *ssa.Convert:
		return c.byteDerived(fn, x.X, depth+1)
	case *ssa.ChangeType:
		return c.byteDerived(fn, x.X, depth+1)
	case *ssa.UnOp:
		if x.Op != token.MUL {
			return 0, false
		}
		switch a := x.X.(type) {
		case *ssa.IndexAddr:
			if _, isParam := a.X.(*ssa.Parameter); !isParam {
				return 0, false
			}
			if k, syms, ok := c.posUnder(a.Index, nil, 0); ok && len(syms) == 0 {
				return k, true
			}
			return 0, false
		case *ssa.FieldAddr:
			f, _ := fieldOfAddr(a)
			if f == nil {
				return 0, false
			}
			n := 0
			var idx int64
			ok := false
			instrs(fn, func(in ssa.Instruction) {
				if st, isSt := in.(*ssa.Store); isSt {
					if f2, _ := fieldOfAddr(st.Addr); f2 == f {
						n++
						idx, ok = c.byteDerived(fn, st.Val, depth+1)
					}
				}
			})
			return idx, n == 1 && ok
		}
	}
	return 0, false
}

func evalCmp(op token.Token, a, b int64) bool {
	switch op {
	case token.EQL:
		return a == b
	case token.NEQ:
		return a != b
	case token.LSS:
		return a < b
	case token.LEQ:
		return a <= b
	case token.GTR:
		return a > b
	case token.GEQ:
		return a >= b
	}
	return false
}

// reachUnderBytes: blocks reachable from the entry when every branch comparing a byte-derived value with a constant is
// resolved for the given byte values (index -> value); all other branches are followed both ways. Also returns the feasible edges.
func (c *Ctx) reachUnderBytes(fn *ssa.Function, bytes map[int64]int64) (map[*ssa.BasicBlock]bool, map[[2]*ssa.BasicBlock]bool, int) {
	reach := map[*ssa.BasicBlock]bool{}
	edges := map[[2]*ssa.BasicBlock]bool{}
	resolved := 0
	var walk func(b *ssa.BasicBlock)
	walk = func(b *ssa.BasicBlock) {
		if reach[b] {
			return
		}
		reach[b] = true
		succs := b.Succs
		if ifi, ok := b.Instrs[len(b.Instrs)-1].(*ssa.If); ok {
			if bo, ok := ifi.Cond.(*ssa.BinOp); ok && isCmp(bo.Op) {
				if k, isK := constInt(bo.Y); isK {
					if idx, isB := c.byteDerived(fn, bo.X, 0); isB {
						if V, have := bytes[idx]; have {
							resolved++
							if evalCmp(bo.Op, V, k) {
								succs = b.Succs[:1]
							} else {
								succs = b.Succs[1:2]
							}
						}
					}
				}
			}
		}
		for _, s := range succs {
			edges[[2]*ssa.BasicBlock{b, s}] = true
			walk(s)
		}
	}
	walk(fn.Blocks[0])
	return reach, edges, resolved
}

// encoderConstBytes: constant bytes the encoder stores at constant positions of its output (version, class, ...).
func (c *Ctx) encoderConstBytes(fn *ssa.Function) map[int64]int64 {
	out := map[int64]int64{}
	instrs(fn, func(in ssa.Instruction) {
		st, ok := in.(*ssa.Store)
		if !ok {
			return
		}
		ia, ok := st.Addr.(*ssa.IndexAddr)
		if !ok {
			return
		}
		if b, ok := st.Val.Type().Underlying().(*types.Basic); !ok || b.Kind() != types.Uint8 {
			return
		}
		v := st.Val
		for {
			if cv, ok := v.(*ssa.Convert); ok {
				v = cv.X
				continue
			}
			break
		}
		val, ok := constInt(v)
		if !ok {
			return
		}
		if k, syms, ok := c.posUnder(ia.Index, nil, 0); ok && len(syms) == 0 {
			if _, dup := out[k]; !dup {
				out[k] = val
			}
		}
	})
	return out
}

// encoderVersion: the constant the encoder stores into byte 0 of its output, or the constant its input's Version field is
// required to equal (any other value returns an error).
func encoderVersion(fn *ssa.Function) (int64, ssa.Instruction, bool) {
	var v int64
	var at ssa.Instruction
	found := false
	instrs(fn, func(in ssa.Instruction) {
		st, ok := in.(*ssa.Store)
		if !ok || found {
			return
		}
		ia, ok := st.Addr.(*ssa.IndexAddr)
		if !ok {
			return
		}
		idx, ok := constInt(ia.Index)
		if !ok || idx != 0 {
			return
		}
		if b, ok := st.Val.Type().Underlying().(*types.Basic); !ok || b.Kind() != types.Uint8 {
			return
		}
		if k, ok := constInt(st.Val); ok {
			v, at, found = k, in, true
			return
		}
		// buf[0] = x.Version with `if x.Version != K { return error }` earlier
		if ld, ok := isLoad(st.Val); ok {
			if f, _ := fieldOfAddr(ld.X); f != nil && f.Name() == "Version" {
				for _, b := range fn.Blocks {
					ifi, ok := b.Instrs[len(b.Instrs)-1].(*ssa.If)
					if !ok {
						continue
					}
					bo, ok := ifi.Cond.(*ssa.BinOp)
					if !ok || bo.Op != token.NEQ {
						continue
					}
					l2, ok := isLoad(bo.X)
					if !ok {
						continue
					}
					if f2, _ := fieldOfAddr(l2.X); f2 != f {
						continue
					}
					if k, ok := constInt(bo.Y); ok {
						if ret, ok := b.Succs[0].Instrs[len(b.Succs[0].Instrs)-1].(*ssa.Return); ok && !isNilConst(retOperand(ret, len(ret.Results)-1)) {
							v, at, found = k, in, true
						}
					}
				}
			}
		}
	})
	return v, at, found
}

type codecPair struct {
	enc, dec string
	what     string
	sub      []string
}

func sortedIntKeys(m map[int64]int64) []int64 {
	var ks []int64
	for k := range m {
		ks = append(ks, k)
	}
	sort.Slice(ks, func(i, j int) bool { return ks[i] < ks[j] })
	return ks
}

var c11pairs = []codecPair{
	{"core.EncodeDataspaceMessage", "core.ParseDataspaceMessage", "dataspace message", nil},
	{"core.encodeContiguousLayout", "core.ParseDataLayoutMessage", "data layout message (contiguous)", []string{"core.parseLayoutV3"}},
	{"core.encodeChunkedLayout", "core.ParseDataLayoutMessage", "data layout message (chunked)", []string{"core.parseLayoutV3"}},
	{"core.EncodeLinkMessage", "core.parseLinkMessageHeader", "link message", nil},
	{"core.EncodeLinkMessage", "structures.ParseLinkMessage", "link message (second decoder)", nil},
	{"core.EncodeLinkInfoMessage", "core.ParseLinkInfoMessage", "link info message", nil},
	{"core.EncodeAttributeMessage", "core.ParseAttributeMessage", "attribute message", nil},
	{"writer.FilterPipeline.EncodePipelineMessage", "core.ParseFilterPipelineMessage", "filter pipeline message", nil},
}

func c11versions(c *Ctx, r *Result) {
	for _, p := range c11pairs {
		enc, dec := c.Fn(r, p.enc), c.Fn(r, p.dec)
		if enc == nil || dec == nil {
			continue
		}
		V, at, ok := encoderVersion(enc)
		cons := p.enc + "~" + p.dec + "#written-version-accepted"
		if !ok {
			r.Undec("C11.1", cons, c.Pos(enc.Pos()), "the version byte written by the encoder is not a constant")
			continue
		}
		bytes := c.encoderConstBytes(enc)
		bytes[0] = V
		decs := []*ssa.Function{dec}
		for _, sub := range p.sub {
			if f := c.Fn(r, sub); f != nil {
				decs = append(decs, f)
			}
		}
		succ := true
		resolved := 0
		ctl := ""
		for _, d := range decs {
			reach, _, res := c.reachUnderBytes(d, bytes)
			resolved += res
			ok := false
			for _, ret := range returnsOf(d) {
				if isSuccessReturn(ret) && reach[ret.Block()] {
					ok = true
				}
			}
			if !ok {
				succ = false
			}
		}
		// control: an absurd version must be rejected whenever the decoder tests the version at all
		if resolved > 0 {
			r2, _, _ := c.reachUnderBytes(dec, map[int64]int64{0: 250})
			rej := true
			for _, ret := range returnsOf(dec) {
				if isSuccessReturn(ret) && r2[ret.Block()] {
					rej = false
				}
			}
			if rej {
				ctl = "; control: version 250 is rejected"
			} else {
				ctl = "; the decoder does not reject unknown versions"
			}
		} else {
			ctl = "; the decoder has no version test"
		}
		var bs []string
		for _, k := range sortedIntKeys(bytes) {
			bs = append(bs, "["+itoa64(k)+"]="+itoa64(bytes[k]))
		}
		r.Check(succ, "C11.1", cons, c.InstrPos(at), p.what+": encoder writes constant bytes "+strings.Join(bs, " ")+"; "+itoa(resolved)+" test(s) on them resolved in the decoder, a successful return stays reachable"+ctl)
	}
	// compound datatypes: the version nibble written by each compound encoder selects a parser in ParseCompoundType
	if pc := c.Fn(r, "core.ParseCompoundType"); pc != nil {
		arms := switchArms(pc, "Version")
		for _, e := range []struct {
			fn string
			v  int64
		}{{"core.EncodeCompoundDatatypeV1", 1}, {"core.EncodeCompoundDatatypeV3", 3}} {
			if c.Fn(r, e.fn) == nil {
				continue
			}
			_, ok := arms[e.v]
			r.Check(ok, "C11.1", e.fn+"~core.ParseCompoundType#written-version-accepted", c.Pos(pc.Pos()), "ParseCompoundType has an arm for compound version "+itoa(int(e.v)))
		}
	}
	r.Floor("C11.1", 8)
}

// ---------------------------------------------------------------------------------------------
// C11.2

// orTerms flattens an OR tree.
func orTerms(v ssa.Value, out []ssa.Value) []ssa.Value {
	if bo, ok := v.(*ssa.BinOp); ok && bo.Op == token.OR {
		return orTerms(bo.Y, orTerms(bo.X, out))
	}
	return append(out, v)
}

// termShift: (source value, left shift).
func termShift(v ssa.Value) (ssa.Value, int64) {
	if bo, ok := v.(*ssa.BinOp); ok && bo.Op == token.SHL {
		if k, ok := constInt(bo.Y); ok {
			s, k2 := termShift(bo.X)
			return s, k + k2
		}
	}
	if cv, ok := v.(*ssa.Convert); ok {
		return termShift(cv.X)
	}
	if cv, ok := v.(*ssa.ChangeType); ok {
		return termShift(cv.X)
	}
	return v, 0
}

func isDatatypeClassValue(v ssa.Value) bool {
	for {
		if cv, ok := v.(*ssa.Convert); ok {
			v = cv.X
			continue
		}
		if cv, ok := v.(*ssa.ChangeType); ok {
			v = cv.X
			continue
		}
		break
	}
	return namedShort(v.Type()) == "core.DatatypeClass"
}

func c11datatypeWord(c *Ctx, r *Result) {
	dec := c.Fn(r, "core.ParseDatatypeMessage")
	if dec == nil {
		return
	}
	// decoder: shifts by destination field
	decShift := map[string]int64{}
	decMask := map[string]int64{}
	instrs(dec, func(in ssa.Instruction) {
		// &DatatypeMessage{Class: ..., ...}: stores into fields of the fresh struct
		st, ok := in.(*ssa.Store)
		if !ok {
			return
		}
		f, _ := fieldOfAddr(st.Addr)
		if f == nil {
			return
		}
		v := st.Val
		for {
			if cv, ok := v.(*ssa.Convert); ok {
				v = cv.X
				continue
			}
			break
		}
		and, ok := v.(*ssa.BinOp)
		if !ok || and.Op != token.AND {
			return
		}
		mask, ok := constInt(and.Y)
		if !ok {
			return
		}
		sh := int64(0)
		if shr, ok := and.X.(*ssa.BinOp); ok && shr.Op == token.SHR {
			if k, ok := constInt(shr.Y); ok {
				sh = k
			}
		}
		decShift[f.Name()] = sh
		decMask[f.Name()] = mask
	})
	if len(decShift) < 3 {
		r.Errorf("C11.2: ParseDatatypeMessage unpacking not recognised (%v)", decShift)
		return
	}
	r.Check(decShift["Class"] == 0 && decMask["Class"] == 0x0F && decShift["Version"] == 4 && decMask["Version"] == 0x0F && decShift["ClassBitField"] == 8, "C11.2",
		"core.ParseDatatypeMessage#unpacks-class-version-bits", c.Pos(dec.Pos()), "class = word & 0xF, version = (word>>4) & 0xF, bits = word>>8")
	n := 0
	for _, fn := range c.LibFuncs() {
		pk := shortPkg(fnPkgPath(fn))
		if pk != "core" && pk != "hdf5" {
			continue
		}
		check := func(in ssa.Instruction, val ssa.Value) {
			terms := orTerms(val, nil)
			hasClass := false
			for _, t := range terms {
				s, _ := termShift(t)
				if isDatatypeClassValue(s) {
					hasClass = true
				}
			}
			if !hasClass {
				return
			}
			n++
			ok := true
			why := ""
			for _, t := range terms {
				s, sh := termShift(t)
				role := "ClassBitField"
				switch {
				case isDatatypeClassValue(s):
					role = "Class"
				case c11isVersion(s):
					role = "Version"
				}
				if sh != decShift[role] {
					ok = false
					why += role + " at shift " + itoa(int(sh)) + " (decoder: " + itoa(int(decShift[role])) + "); "
				}
				// a description that is re-encoded keeps all 24 bits the decoder hands out
				if role == "ClassBitField" && valueReadsField(s, "core.DatatypeMessage.ClassBitField", 0) {
					if kept := keptFieldBits(s, "core.DatatypeMessage.ClassBitField", 0); kept&0xFFFFFF != 0xFFFFFF {
						ok = false
						why += fmt.Sprintf("only the bits %#x of ClassBitField reach the header word; the decoder returns all 24 (string padding and character set of a variable-length string live in bits 4..11); ", kept&0xFFFFFF)
					}
				}
			}
			// an encoder that is handed a datatype description packs its class bit field (for a version 1 compound the member
			// count lives there)
			takesDT := false
			for _, p := range fn.Params {
				if namedShort(p.Type()) == "core.DatatypeMessage" || strings.HasSuffix(p.Type().String(), "core.DatatypeMessage") {
					takesDT = true
				}
			}
			if takesDT {
				hasBits := false
				for _, t := range terms {
					s, sh := termShift(t)
					if sh == decShift["ClassBitField"] && !isDatatypeClassValue(s) && !c11isVersion(s) {
						hasBits = true
					}
				}
				if !hasBits {
					ok = false
					why += "no term of the header word stands at the class bit field's position (for a version 1 compound the member count lives there); "
				}
			}
			if why == "" {
				why = itoa(len(terms)) + " terms at the decoder's shifts"
			}
			r.Check(ok, "C11.2", c.Name(fn)+"#header-word-packing", c.InstrPos(in), why)
		}
		instrs(fn, func(in ssa.Instruction) {
			switch x := in.(type) {
			case *ssa.Call:
				if strings.HasSuffix(c.calleeName(x), "PutUint32") {
					check(in, x.Call.Args[len(x.Call.Args)-1])
				}
			case *ssa.Store:
				if b, ok := x.Val.Type().Underlying().(*types.Basic); ok && b.Kind() == types.Uint8 {
					if _, isIA := x.Addr.(*ssa.IndexAddr); isIA {
						check(in, x.Val)
					}
				}
			}
		})
	}
	// every encoder EncodeDatatypeMessage dispatches to packs a header word that was recognised above
	if top := c.Fn(r, "core.EncodeDatatypeMessage"); top != nil {
		for _, site := range callsIn(top) {
			name := c.calleeName(site)
			if !strings.HasPrefix(name, "core.encodeDatatype") {
				continue
			}
			// the encoder itself, or the assembling helper it hands the class to (a DatatypeClass-typed argument), packs the word
			packers := map[string]bool{name: true}
			var follow func(f *ssa.Function, depth int)
			follow = func(f *ssa.Function, depth int) {
				if f == nil || depth > 2 {
					return
				}
				for _, s2 := range callsIn(f) {
					g := s2.Common().StaticCallee()
					if g == nil || g.Blocks == nil || shortPkg(fnPkgPath(g)) != "core" {
						continue
					}
					for _, a := range s2.Common().Args {
						if isDatatypeClassValue(a) && !packers[c.Name(g)] {
							packers[c.Name(g)] = true
							follow(g, depth+1)
						}
					}
				}
			}
			follow(site.Common().StaticCallee(), 0)
			has := false
			for _, o := range r.Obls {
				if o.Rule != "C11.2" {
					continue
				}
				if i := strings.Index(o.Construct, "#header-word-packing"); i >= 0 && packers[o.Construct[:i]] {
					has = true
				}
			}
			if !has {
				r.Viol("C11.2", name+"#header-word-packing", c.InstrPos(site.(ssa.Instruction)), "no class|version<<4|bits<<8 header word found in this datatype encoder")
			}
		}
	}
	r.Floor("C11.2", 8)
	_ = n
}

func c11isVersion(v ssa.Value) bool {
	if k, ok := v.(*ssa.Const); ok {
		// the local `version := uint8(K)`
		b, isB := k.Type().Underlying().(*types.Basic)
		return isB && b.Kind() == types.Uint8
	}
	if ld, ok := isLoad(v); ok {
		if f, _ := fieldOfAddr(ld.X); f != nil && f.Name() == "Version" {
			return true
		}
	}
	if p, ok := v.(*ssa.Parameter); ok {
		return strings.Contains(strings.ToLower(p.Name()), "version")
	}
	return false
}

// ---------------------------------------------------------------------------------------------
// C11.3 flag guards

// flagBit: cond is `(x.Flags & K) != 0` (directly, negated as == 0, or through a one-line method); returns K and polarity.
func (c *Ctx) flagBit(cond ssa.Value, depth int) (int64, bool, bool) {
	switch x := cond.(type) {
	case *ssa.UnOp:
		if x.Op == token.NOT {
			k, pol, ok := c.flagBit(x.X, depth)
			return k, !pol, ok
		}
	case *ssa.BinOp:
		if x.Op != token.NEQ && x.Op != token.EQL {
			return 0, false, false
		}
		z, ok := constInt(x.Y)
		if !ok || z != 0 {
			return 0, false, false
		}
		and, ok := x.X.(*ssa.BinOp)
		if !ok || and.Op != token.AND {
			return 0, false, false
		}
		k, ok := constInt(and.Y)
		if !ok || k <= 0 || k&(k-1) != 0 {
			return 0, false, false
		}
		reads := false
		for f := range fieldsReadBy(and.X) {
			if strings.HasSuffix(f, ".Flags") {
				reads = true
			}
		}
		if ld, isLd := isLoad(and.X); isLd {
			if ia, isIA := ld.X.(*ssa.IndexAddr); isIA {
				// data[1] / data[2] flags byte read directly
				if _, isK := constInt(ia.Index); isK {
					reads = true
				}
			}
		}
		if !reads {
			return 0, false, false
		}
		return k, x.Op == token.NEQ, true
	case *ssa.Call:
		if depth > 1 {
			return 0, false, false
		}
		f := x.Call.StaticCallee()
		if f == nil || len(f.Blocks) != 1 {
			return 0, false, false
		}
		rets := returnsOf(f)
		if len(rets) != 1 {
			return 0, false, false
		}
		return c.flagBit(rets[0].Results[0], depth+1)
	}
	return 0, false, false
}

type guardEv struct {
	Bit   int64
	Width int64 // constant cursor advance inside the guarded region
	SymB4 int   // variable-width cursor advances between the previous guard and this one
	Pos   string
}

// isAdvance: an int addition whose result is used as a later position (slice low bound, index, phi, another advance, argument, return).
func isAdvance(bo *ssa.BinOp) bool {
	if bo.Op != token.ADD || !isIntType(bo.Type()) {
		return false
	}
	for _, ref := range *bo.Referrers() {
		switch x := ref.(type) {
		case *ssa.Phi, *ssa.Return:
			return true
		case *ssa.Slice:
			if x.Low == ssa.Value(bo) {
				return true
			}
		case *ssa.IndexAddr:
			if x.Index == ssa.Value(bo) {
				return true
			}
		case *ssa.BinOp:
			if x.Op == token.ADD && x.X == ssa.Value(bo) {
				if isAdvance(x) {
					return true
				}
			}
		case *ssa.Call:
			for _, a := range x.Call.Args {
				if a == ssa.Value(bo) && !strings.HasPrefix(x.Call.Value.Name(), "len") {
					return true
				}
			}
		}
	}
	return false
}

// guardSequence: flag guards of fn positioned after `after` (nil = from the start), in dominance order.
func (c *Ctx) guardSequence(fn *ssa.Function, after ssa.Instruction) []guardEv {
	order := map[*ssa.BasicBlock]int{}
	for i, b := range fn.DomPreorder() {
		order[b] = i
	}
	type g struct {
		b      *ssa.BasicBlock
		bit    int64
		region map[*ssa.BasicBlock]bool
	}
	var gs []g
	for _, b := range fn.Blocks {
		ifi, ok := b.Instrs[len(b.Instrs)-1].(*ssa.If)
		if !ok {
			continue
		}
		bit, pol, ok := c.flagBit(ifi.Cond, 0)
		if !ok {
			continue
		}
		if after != nil && !(after.Block() == b || after.Block().Dominates(b)) {
			continue
		}
		arm := b.Succs[0]
		if !pol {
			arm = b.Succs[1]
		}
		region := map[*ssa.BasicBlock]bool{}
		for _, x := range fn.Blocks {
			if edgeDominates(b, arm, x) {
				region[x] = true
			}
		}
		gs = append(gs, g{b, bit, region})
	}
	sort.Slice(gs, func(i, j int) bool { return order[gs[i].b] < order[gs[j].b] })
	inAny := func(b *ssa.BasicBlock) bool {
		for _, x := range gs {
			if x.region[b] {
				return true
			}
		}
		return false
	}
	var out []guardEv
	prev := -1
	if after != nil {
		prev = order[after.Block()]
	}
	for _, x := range gs {
		ev := guardEv{Bit: x.bit, Pos: c.InstrPos(x.b.Instrs[len(x.b.Instrs)-1])}
		for b := range x.region {
			for _, in := range b.Instrs {
				if bo, ok := in.(*ssa.BinOp); ok && isAdvance(bo) {
					if k, ok := constInt(bo.Y); ok {
						ev.Width += k
					}
				}
			}
		}
		// symbolic advances in unguarded blocks between prev and this guard
		for _, b := range fn.Blocks {
			if inAny(b) || order[b] < prev || order[b] > order[x.b] {
				continue
			}
			for _, in := range b.Instrs {
				if after != nil && b == after.Block() && instrIndex(in) < instrIndex(after) {
					continue
				}
				if bo, ok := in.(*ssa.BinOp); ok && isAdvance(bo) {
					if _, isK := constInt(bo.Y); !isK {
						if _, isK2 := constInt(bo.X); !isK2 {
							ev.SymB4++
						}
					}
				}
			}
		}
		prev = order[x.b] + 1
		out = append(out, ev)
	}
	return out
}

func guardSig(gs []guardEv) string {
	var parts []string
	for _, g := range gs {
		parts = append(parts, "["+itoa(g.SymB4)+" var] bit "+itoa(int(g.Bit))+" -> "+itoa(int(g.Width))+" bytes")
	}
	return strings.Join(parts, ", ")
}

func outputBufferAlloc(fn *ssa.Function) ssa.Instruction {
	// the []byte make that is returned
	var out ssa.Instruction
	for _, ret := range returnsOf(fn) {
		if len(ret.Results) == 0 {
			continue
		}
		v := retOperand(ret, 0)
		seen := map[ssa.Value]bool{}
		var walk func(v ssa.Value)
		walk = func(v ssa.Value) {
			if v == nil || seen[v] {
				return
			}
			seen[v] = true
			switch x := v.(type) {
			case *ssa.MakeSlice:
				out = x
			case *ssa.Slice:
				if al, ok := x.X.(*ssa.Alloc); ok {
					out = al
				} else {
					walk(x.X)
				}
			case *ssa.Phi:
				for _, e := range x.Edges {
					walk(e)
				}
			}
		}
		walk(v)
	}
	return out
}

func c11guards(c *Ctx, r *Result) {
	pairs := []codecPair{
		{"core.EncodeLinkMessage", "core.parseLinkMessageHeader", "link message", nil},
		{"core.EncodeLinkMessage", "structures.ParseLinkMessage", "link message (second decoder)", nil},
		{"core.EncodeLinkInfoMessage", "core.ParseLinkInfoMessage", "link info message", nil},
		{"core.EncodeAttributeInfoMessage", "core.ParseAttributeInfoMessage", "attribute info message", nil},
	}
	for _, p := range pairs {
		enc, dec := c.Fn(r, p.enc), c.Fn(r, p.dec)
		if enc == nil || dec == nil {
			continue
		}
		alloc := outputBufferAlloc(enc)
		if alloc == nil {
			r.Errorf("C11.3: output buffer of %s not found", p.enc)
			continue
		}
		ge := c.guardSequence(enc, alloc)
		gd := c.guardSequence(dec, nil)
		cons := p.enc + "~" + p.dec + "#optional-field-order"
		if len(ge) == 0 || len(gd) == 0 {
			r.Errorf("C11.3: no flag guards found in %s (%d) / %s (%d)", p.enc, len(ge), p.dec, len(gd))
			continue
		}
		// the decoder may have extra guards after the encoder's sequence only if they are at the end (e.g. link value parsing); compare the common prefix length = len(encoder)
		ok := len(gd) >= len(ge)
		detail := ""
		for i := 0; ok && i < len(ge); i++ {
			if ge[i].Bit != gd[i].Bit {
				ok = false
				detail = "field " + itoa(i+1) + ": encoder writes the field of flag bit " + itoa(int(ge[i].Bit)) + " (" + ge[i].Pos + ") where the decoder reads the field of flag bit " + itoa(int(gd[i].Bit)) + " (" + gd[i].Pos + ")"
			} else if ge[i].Width != gd[i].Width && ge[i].Width != 0 && gd[i].Width != 0 {
				ok = false
				detail = "field of flag bit " + itoa(int(ge[i].Bit)) + ": encoder advances " + itoa(int(ge[i].Width)) + " bytes, decoder " + itoa(int(gd[i].Width))
			} else if ge[i].SymB4 != gd[i].SymB4 {
				ok = false
				detail = "before the field of flag bit " + itoa(int(ge[i].Bit)) + ": encoder has " + itoa(ge[i].SymB4) + " variable-width fields, decoder " + itoa(gd[i].SymB4)
			}
		}
		if !ok && detail == "" {
			detail = "encoder: " + guardSig(ge) + "; decoder: " + guardSig(gd)
		}
		if ok {
			detail = p.what + ": " + guardSig(ge)
		}
		r.Check(ok, "C11.3", cons, c.Pos(enc.Pos()), detail)
	}
	r.Floor("C11.3", 4)
}

// ---------------------------------------------------------------------------------------------
// C11.4 determinism

func (c *Ctx) encoderRoots() []*ssa.Function {
	var roots []*ssa.Function
	for _, fn := range c.LibFuncs() {
		pk := shortPkg(fnPkgPath(fn))
		n := fn.Name()
		ln := strings.ToLower(n)
		switch pk {
		case "core":
			if strings.HasPrefix(ln, "encode") || strings.HasPrefix(ln, "writeto") || strings.HasPrefix(n, "writeV") || n == "WriteObjectHeader" || n == "RewriteObjectHeaderV2" {
				roots = append(roots, fn)
			}
		case "writer":
			if n == "EncodePipelineMessage" || n == "encodeFilter" {
				roots = append(roots, fn)
			}
		case "structures":
			if strings.HasPrefix(ln, "encode") {
				roots = append(roots, fn)
			}
		}
	}
	return roots
}

func c11determinism(c *Ctx, r *Result) {
	roots := c.encoderRoots()
	if len(roots) < 20 {
		r.Errorf("C11.4: only %d encoder entry points found", len(roots))
	}
	reach := c.Reach(roots, func(f *ssa.Function) bool { return !inModule(fnPkgPath(f)) })
	// (a) no map iteration, clock or randomness in anything an encoder reaches
	var fns []*ssa.Function
	for f := range reach {
		fns = append(fns, f)
	}
	sort.Slice(fns, func(i, j int) bool { return c.Name(fns[i]) < c.Name(fns[j]) })
	bad := 0
	for _, fn := range fns {
		instrs(fn, func(in ssa.Instruction) {
			switch x := in.(type) {
			case *ssa.Range:
				if _, isMap := x.X.Type().Underlying().(*types.Map); isMap {
					bad++
					r.Viol("C11.4", c.Name(fn)+"#map-iteration-in-encoder", c.InstrPos(in), "iteration order of a map reaches an encoder: the encoding is not a function of the value")
				}
			case *ssa.Call:
				if f := x.Call.StaticCallee(); f != nil && f.Pkg != nil {
					p := f.Pkg.Pkg.Path()
					if (p == "time" && f.Name() == "Now") || p == "math/rand" || p == "math/rand/v2" || p == "crypto/rand" {
						bad++
						r.Viol("C11.4", c.Name(fn)+"#clock-or-random-in-encoder", c.InstrPos(in), "call of "+p+"."+f.Name()+" reachable from an encoder")
					}
				}
			}
		})
	}
	r.Hold("C11.4", "encoders#no-map-order-clock-random", "", itoa(len(roots))+" encoder entry points, "+itoa(len(fns))+" reachable module functions examined")
	// (b) pooled (non-zeroed) buffers are only ever read targets: the first use of a GetBuffer result on every path is a
	// ReadAt/ReadFull into it
	n := 0
	for _, fn := range c.LibFuncs() {
		for _, site := range callsIn(fn) {
			if c.calleeName(site) != "utils.GetBuffer" {
				continue
			}
			call, ok := site.(*ssa.Call)
			if !ok {
				continue
			}
			n++
			fills := c11fills(c, call)
			okAll := len(fills) > 0
			var offender ssa.Instruction
			if okAll {
				for _, use := range c11uses(call) {
					if isFill(fills, use) {
						continue
					}
					dominated := false
					for _, f := range fills {
						if instrDominates(f, use) {
							dominated = true
						}
					}
					if !dominated {
						okAll = false
						offender = use
					}
				}
			}
			detail := "pooled buffer is filled by a read before any other use"
			if !okAll {
				detail = "the pool hands out memory that is not zeroed: this buffer is used without first being filled by a read"
				if offender != nil {
					detail += " (at " + c.InstrPos(offender) + ")"
				}
			}
			r.Check(okAll, "C11.4", c.Name(fn)+"#pooled-buffer-is-read-target", c.InstrPos(call), detail)
		}
	}
	if n < 10 {
		r.Errorf("C11.4: only %d GetBuffer sites found", n)
	}
	r.Floor("C11.4", 12)
}

func isFill(fills []ssa.Instruction, in ssa.Instruction) bool {
	for _, f := range fills {
		if f == in {
			return true
		}
	}
	return false
}

// c11uses: instructions using the buffer value (or a re-slice of it), excluding deferred releases.
func c11uses(call *ssa.Call) []ssa.Instruction {
	var out []ssa.Instruction
	seen := map[ssa.Value]bool{}
	var walk func(v ssa.Value)
	walk = func(v ssa.Value) {
		if seen[v] {
			return
		}
		seen[v] = true
		for _, ref := range *v.Referrers() {
			switch x := ref.(type) {
			case *ssa.Slice:
				walk(x)
			case *ssa.Defer:
				// deferred release
			case *ssa.MakeClosure:
				// captured by a deferred closure
			case *ssa.Store:
				// spilled into a local that a deferred closure releases
				if al, isAl := x.Addr.(*ssa.Alloc); isAl && x.Val == v {
					for _, r2 := range *al.Referrers() {
						if ld, isLd := r2.(*ssa.UnOp); isLd && ld.Op == token.MUL {
							walk(ld)
						}
					}
					continue
				}
				out = append(out, x)
			case *ssa.DebugRef:
			default:
				out = append(out, ref)
			}
		}
	}
	walk(call)
	return out
}

// c11fills: calls that fill the buffer from a reader: <io.ReaderAt>.ReadAt(buf, ..), io.ReadFull(r, buf), <io.Reader>.Read(buf).
func c11fills(c *Ctx, call *ssa.Call) []ssa.Instruction {
	var out []ssa.Instruction
	for _, use := range c11uses(call) {
		cl, ok := use.(*ssa.Call)
		if !ok {
			continue
		}
		name := ""
		if cl.Call.IsInvoke() {
			name = cl.Call.Method.Name()
		} else if f := cl.Call.StaticCallee(); f != nil {
			name = f.Name()
		}
		if name == "ReadAt" || name == "ReadFull" || name == "Read" {
			out = append(out, cl)
		}
	}
	return out
}

// ---------------------------------------------------------------------------------------------
// C11.5 field positions

// posUnder: canonical offset expression "K + a*Name + ..." of an int value, phis restricted to feasible edges.
func (c *Ctx) posUnder(v ssa.Value, feasible map[[2]*ssa.BasicBlock]bool, depth int) (int64, map[string]int64, bool) {
	if depth > 12 {
		return 0, nil, false
	}
	add := func(a, b map[string]int64, k int64) map[string]int64 {
		out := map[string]int64{}
		for n, x := range a {
			out[n] += x
		}
		for n, x := range b {
			out[n] += k * x
		}
		for n, x := range out {
			if x == 0 {
				delete(out, n)
			}
		}
		return out
	}
	switch x := v.(type) {
	case *ssa.Const:
		if k, ok := constInt(x); ok {
			return k, map[string]int64{}, true
		}
	case *ssa.Convert:
		return c.posUnder(x.X, feasible, depth+1)
	case *ssa.ChangeType:
		return c.posUnder(x.X, feasible, depth+1)
	case *ssa.BinOp:
		ak, as, ok1 := c.posUnder(x.X, feasible, depth+1)
		bk, bs, ok2 := c.posUnder(x.Y, feasible, depth+1)
		if !ok1 || !ok2 {
			return 0, nil, false
		}
		switch x.Op {
		case token.ADD:
			return ak + bk, add(as, bs, 1), true
		case token.SUB:
			return ak - bk, add(as, bs, -1), true
		case token.MUL:
			if len(as) == 0 {
				return ak * bk, add(map[string]int64{}, bs, ak), true
			}
			if len(bs) == 0 {
				return ak * bk, add(map[string]int64{}, as, bk), true
			}
		}
	case *ssa.Phi:
		var k0 int64
		var s0 map[string]int64
		n := 0
		for i, e := range x.Edges {
			if feasible != nil && !feasible[[2]*ssa.BasicBlock{x.Block().Preds[i], x.Block()}] {
				continue
			}
			// loop phis: take the entry value (position of the first element)
			if bo, ok := e.(*ssa.BinOp); ok && bo.Op == token.ADD && (bo.X == ssa.Value(x)) {
				continue
			}
			if dependsOnPhi(e, x, 0) {
				continue
			}
			k, s, ok := c.posUnder(e, feasible, depth+1)
			if !ok {
				return 0, nil, false
			}
			if n > 0 && (k != k0 || !sameSyms(s, s0)) {
				return 0, nil, false
			}
			k0, s0 = k, s
			n++
		}
		if n > 0 {
			return k0, s0, true
		}
	case *ssa.UnOp:
		if x.Op == token.MUL {
			if f, _ := fieldOfAddr(x.X); f != nil {
				return 0, map[string]int64{f.Name(): 1}, true
			}
		}
	case *ssa.Parameter:
		return 0, map[string]int64{paramAlias(x.Name()): 1}, true
	case *ssa.Call:
		// a pure size helper of the module: name(args) as one term
		if f := x.Call.StaticCallee(); f != nil && inModule(fnPkgPath(f)) && len(x.Call.Args) <= 3 && isIntType(x.Type()) {
			var as []string
			for _, a := range x.Call.Args {
				if p, isP := a.(*ssa.Parameter); isP {
					as = append(as, paramAlias(p.Name()))
					continue
				}
				k, s, ok := c.posUnder(a, feasible, depth+1)
				if !ok {
					return 0, nil, false
				}
				as = append(as, posString(k, s))
			}
			return 0, map[string]int64{f.Name() + "(" + strings.Join(as, ",") + ")": 1}, true
		}
		if b, ok := x.Call.Value.(*ssa.Builtin); ok && b.Name() == "len" {
			a := x.Call.Args[0]
			if p, ok := a.(*ssa.Parameter); ok {
				return 0, map[string]int64{"len(" + paramAlias(p.Name()) + ")": 1}, true
			}
			if ld, ok := isLoad(a); ok {
				if f, _ := fieldOfAddr(ld.X); f != nil {
					return 0, map[string]int64{"len(" + f.Name() + ")": 1}, true
				}
			}
		}
	}
	return 0, nil, false
}

func dependsOnPhi(v ssa.Value, phi *ssa.Phi, d int) bool {
	if d > 4 {
		return false
	}
	if v == ssa.Value(phi) {
		return true
	}
	switch x := v.(type) {
	case *ssa.BinOp:
		return dependsOnPhi(x.X, phi, d+1) || dependsOnPhi(x.Y, phi, d+1)
	case *ssa.Convert:
		return dependsOnPhi(x.X, phi, d+1)
	case *ssa.Phi:
		if x == phi {
			return true
		}
		for _, e := range x.Edges {
			if e == ssa.Value(phi) {
				return true
			}
		}
	}
	return false
}

func sameSyms(a, b map[string]int64) bool {
	if len(a) != len(b) {
		return false
	}
	for k, v := range a {
		if b[k] != v {
			return false
		}
	}
	return true
}

func paramAlias(n string) string {
	switch n {
	case "offsetSize":
		return "OffsetSize"
	case "lengthSize":
		return "LengthSize"
	}
	return n
}

func posString(k int64, s map[string]int64) string {
	out := itoa64(k)
	for _, n := range sortedKeys(s) {
		if s[n] == 1 {
			out += "+" + n
		} else {
			out += "+" + itoa64(s[n]) + "*" + n
		}
	}
	return out
}

// writeSites: (position value, written value) pairs of an encoder: buf[i] = v, PutUintN(buf[lo:..], v), writeUint64/writeAddress(buf[lo:], v, ..), copy(buf[lo:], v).
type rwSite struct {
	Pos ssa.Value // nil = constant 0
	Val ssa.Value // written value / value read
	In  ssa.Instruction
}

func lowOf(v ssa.Value) (ssa.Value, bool) {
	sl, ok := v.(*ssa.Slice)
	if !ok {
		return nil, false
	}
	return sl.Low, true
}

func (c *Ctx) writeSites(fn *ssa.Function) []rwSite {
	var out []rwSite
	instrs(fn, func(in ssa.Instruction) {
		switch x := in.(type) {
		case *ssa.Store:
			if ia, ok := x.Addr.(*ssa.IndexAddr); ok {
				if b, ok := x.Val.Type().Underlying().(*types.Basic); ok && b.Kind() == types.Uint8 {
					out = append(out, rwSite{ia.Index, x.Val, in})
				}
			}
		case *ssa.Call:
			name := c.calleeName(x)
			args := x.Call.Args
			switch {
			case strings.HasSuffix(name, "PutUint16") || strings.HasSuffix(name, "PutUint32") || strings.HasSuffix(name, "PutUint64"):
				if lo, ok := lowOf(args[len(args)-2]); ok {
					out = append(out, rwSite{lo, args[len(args)-1], in})
				}
			case name == "core.writeUint64" || name == "core.writeAddress":
				if lo, ok := lowOf(args[0]); ok {
					out = append(out, rwSite{lo, args[1], in})
				}
			default:
				if b, ok := x.Call.Value.(*ssa.Builtin); ok && b.Name() == "copy" {
					if lo, ok := lowOf(args[0]); ok {
						out = append(out, rwSite{lo, args[1], in})
					}
				}
			}
		}
	})
	return out
}

// readSites of a decoder: data[i], UintN(data[lo:hi]), readUint64/readAddress(data[lo:..]), string(data[lo:hi]).
func (c *Ctx) readSites(fn *ssa.Function) []rwSite {
	var out []rwSite
	instrs(fn, func(in ssa.Instruction) {
		switch x := in.(type) {
		case *ssa.UnOp:
			if x.Op == token.MUL {
				if ia, ok := x.X.(*ssa.IndexAddr); ok {
					if b, ok := x.Type().Underlying().(*types.Basic); ok && b.Kind() == types.Uint8 {
						out = append(out, rwSite{ia.Index, x, in})
					}
				}
			}
		case *ssa.Call:
			name := c.calleeName(x)
			args := x.Call.Args
			switch {
			case strings.HasSuffix(name, ".Uint16") || strings.HasSuffix(name, ".Uint32") || strings.HasSuffix(name, ".Uint64"):
				if lo, ok := lowOf(args[len(args)-1]); ok {
					out = append(out, rwSite{lo, x, in})
				}
			case name == "core.readUint64" || name == "core.readAddress":
				if lo, ok := lowOf(args[0]); ok {
					out = append(out, rwSite{lo, x, in})
				}
			}
		case *ssa.Convert:
			// string(data[lo:hi])
			if b, ok := x.Type().Underlying().(*types.Basic); ok && b.Kind() == types.String {
				if lo, ok := lowOf(x.X); ok {
					out = append(out, rwSite{lo, x, in})
				}
			}
		}
	})
	return out
}

// storedField: the struct field (name) a read value ends up in (through conversions and one level of local phi).
func storedField(v ssa.Value) string {
	seen := map[ssa.Value]bool{}
	var res string
	var walk func(v ssa.Value, d int)
	walk = func(v ssa.Value, d int) {
		if seen[v] || d > 5 || res != "" {
			return
		}
		seen[v] = true
		refs := v.Referrers()
		if refs == nil {
			return
		}
		for _, ref := range *refs {
			switch x := ref.(type) {
			case *ssa.Store:
				if x.Val == v {
					if f, _ := fieldOfAddr(x.Addr); f != nil {
						res = f.Name()
						return
					}
					// element of a slice held in a field: x.Addr = IndexAddr(load field)
					if ia, ok := x.Addr.(*ssa.IndexAddr); ok {
						if ld, ok := isLoad(ia.X); ok {
							if f, _ := fieldOfAddr(ld.X); f != nil {
								res = f.Name() + "[]"
								return
							}
						}
					}
				}
			case *ssa.Convert:
				walk(x, d+1)
			case *ssa.ChangeType:
				walk(x, d+1)
			case *ssa.Phi:
				walk(x, d+1)
			}
		}
	}
	walk(v, 0)
	return res
}

// sourceName: what an encoder writes: parameter name, field name, "len(x)" or constant.
func sourceName(v ssa.Value) string {
	for d := 0; d < 6; d++ {
		switch x := v.(type) {
		case *ssa.Convert:
			v = x.X
			continue
		case *ssa.ChangeType:
			v = x.X
			continue
		case *ssa.Parameter:
			return x.Name()
		case *ssa.UnOp:
			if f, _ := fieldOfAddr(x.X); f != nil {
				return f.Name()
			}
			// range element of a parameter slice: *IndexAddr(param, i)
			if ia, ok := x.X.(*ssa.IndexAddr); ok {
				if p, ok := ia.X.(*ssa.Parameter); ok {
					return p.Name() + "[]"
				}
			}
			return ""
		case *ssa.Call:
			if b, ok := x.Call.Value.(*ssa.Builtin); ok && b.Name() == "len" {
				return "len(" + sourceName(x.Call.Args[0]) + ")"
			}
			return ""
		case *ssa.Slice:
			v = x.X
			continue
		default:
			return ""
		}
	}
	return ""
}

type fieldMap struct {
	encFn, decFn string
	decSub       []string          // further decoder functions holding the reads
	fields       map[string]string // encoder source name -> decoder field name
}

func c11positions(c *Ctx, r *Result) {
	maps := []fieldMap{
		{"core.encodeContiguousLayout", "core.ParseDataLayoutMessage", []string{"core.parseLayoutV3"}, map[string]string{"dataAddress": "DataAddress", "dataSize": "DataSize"}},
		{"core.encodeChunkedLayout", "core.ParseDataLayoutMessage", []string{"core.parseLayoutV3"}, map[string]string{"btreeAddress": "DataAddress", "chunkDims[]": "ChunkSize[]"}},
		{"core.EncodeDataspaceMessage", "core.ParseDataspaceMessage", nil, map[string]string{"dims[]": "Dimensions[]"}},
		{"core.EncodeLinkInfoMessage", "core.ParseLinkInfoMessage", nil, map[string]string{"Flags": "Flags", "MaxCreationOrder": "MaxCreationOrder"}},
		{"core.EncodeLinkMessage", "core.parseLinkMessageHeader", nil, map[string]string{"Flags": "Flags", "Type": "Type"}},
		{"core.EncodeAttributeInfoMessage", "core.ParseAttributeInfoMessage", nil, map[string]string{"Flags": "Flags", "MaxCreationIndex": "MaxCreationIndex"}},
		{"core.EncodeAttributeMessage", "core.ParseAttributeMessage", nil, map[string]string{"name": "Name"}},
	}
	for _, m := range maps {
		enc, dec := c.Fn(r, m.encFn), c.Fn(r, m.decFn)
		if enc == nil || dec == nil {
			continue
		}
		bytes := c.encoderConstBytes(enc)
		if V, _, okV := encoderVersion(enc); okV {
			bytes[0] = V
		}
		// encoder positions by source name
		encPos := map[string]string{}
		encAt := map[string]ssa.Instruction{}
		for _, w := range c.writeSites(enc) {
			n := sourceName(w.Val)
			if _, want := m.fields[n]; !want {
				continue
			}
			if _, dup := encPos[n]; dup {
				continue
			}
			var k int64
			var s map[string]int64
			ok := true
			if w.Pos != nil {
				k, s, ok = c.posUnder(w.Pos, nil, 0)
			}
			if ok {
				encPos[n] = posString(k, s)
				encAt[n] = w.In
			}
		}
		decPos := map[string]string{}
		decFns := []*ssa.Function{dec}
		for _, s := range m.decSub {
			if f := c.Fn(r, s); f != nil {
				decFns = append(decFns, f)
			}
		}
		for _, df := range decFns {
			reach, feas, _ := c.reachUnderBytes(df, bytes)
			for _, rd := range c.readSites(df) {
				if !reach[rd.In.Block()] {
					continue
				}
				f := storedField(rd.Val)
				if f == "" {
					continue
				}
				if _, dup := decPos[f]; dup {
					continue
				}
				var k int64
				var s map[string]int64
				ok := true
				if rd.Pos != nil {
					k, s, ok = c.posUnder(rd.Pos, feas, 0)
				}
				if ok {
					decPos[f] = posString(k, s)
				}
			}
		}
		for _, src := range sortedKeys(m.fields) {
			df := m.fields[src]
			cons := m.encFn + "~" + m.decFn + "#position-of-" + df
			ep, ok1 := encPos[src]
			dp, ok2 := decPos[df]
			if !ok1 || !ok2 {
				r.Undec("C11.5", cons, c.Pos(enc.Pos()), "offset expression not resolved (encoder: "+ep+", decoder: "+dp+")")
				continue
			}
			r.Check(ep == dp, "C11.5", cons, c.InstrPos(encAt[src]), "encoder writes "+src+" at offset "+ep+", decoder reads "+df+" at offset "+dp)
		}
	}
	r.Floor("C11.5", 8)
}

// ---- additional agreement found by the third round of seeded changes ----

func init() {
	reg := registry["C11"]
	reg.Meta.Rules["C11.6"] = "chunk dimensions: the width the layout decoder reads under each superblock version the library writes (0, 2, 3) is the width the encoder writes"
	reg.Rules = append(reg.Rules, func(c *Ctx, r *Result) { c11chunkDimWidth(c, r, "C11.6") })
}

// evalUnderParam: the constant a one-parameter function returns when its parameter has value V (branches on comparisons of the
// parameter with constants are resolved; the function must then reach exactly one constant return).
func evalUnderParam(fn *ssa.Function, V int64) (int64, bool) {
	if len(fn.Params) != 1 || len(fn.Blocks) == 0 {
		return 0, false
	}
	p := fn.Params[0]
	b := fn.Blocks[0]
	for steps := 0; steps < 64; steps++ {
		last := b.Instrs[len(b.Instrs)-1]
		switch x := last.(type) {
		case *ssa.Return:
			return constInt(x.Results[0])
		case *ssa.Jump:
			b = b.Succs[0]
		case *ssa.If:
			cmp, ok := x.Cond.(*ssa.BinOp)
			if !ok || !isCmp(cmp.Op) {
				return 0, false
			}
			lhs := cmp.X
			for {
				if cv, ok := lhs.(*ssa.Convert); ok {
					lhs = cv.X
					continue
				}
				break
			}
			k, isK := constInt(cmp.Y)
			if lhs != ssa.Value(p) || !isK {
				return 0, false
			}
			if evalCmp(cmp.Op, V, k) {
				b = b.Succs[0]
			} else {
				b = b.Succs[1]
			}
		default:
			return 0, false
		}
	}
	return 0, false
}

func c11chunkDimWidth(c *Ctx, r *Result, rule string) {
	enc := c.Fn(r, "core.encodeChunkedLayout")
	dec := c.Fn(r, "core.parseLayoutV3")
	ks := c.Fn(r, "core.determineChunkKeySize")
	if enc == nil || dec == nil || ks == nil {
		return
	}
	// encoder: width of the store that writes an element of chunkDims
	encW := int64(0)
	var at ssa.Instruction
	for _, w := range c.writeSites(enc) {
		if sourceName(w.Val) != "chunkDims[]" {
			continue
		}
		if call, ok := w.In.(*ssa.Call); ok {
			n := c.calleeName(call)
			switch {
			case strings.HasSuffix(n, "PutUint32"):
				encW = 4
			case strings.HasSuffix(n, "PutUint64"):
				encW = 8
			case strings.HasSuffix(n, "PutUint16"):
				encW = 2
			}
			at = w.In
		}
	}
	if encW == 0 {
		r.Errorf(rule + ": store of chunk dimensions in encodeChunkedLayout not recognised")
		return
	}
	// decoder: the arm taken for ChunkKeySize == 8 reads UintN of which width; the other arm likewise
	widthFor := map[bool]int64{}
	for _, b := range dec.Blocks {
		ifi, ok := b.Instrs[len(b.Instrs)-1].(*ssa.If)
		if !ok {
			continue
		}
		cmp, ok := ifi.Cond.(*ssa.BinOp)
		if !ok || cmp.Op != token.EQL {
			continue
		}
		k, isK := constInt(cmp.Y)
		if !isK || k != 8 {
			continue
		}
		reads := false
		for f := range fieldsReadBy(cmp.X) {
			if strings.HasSuffix(f, ".ChunkKeySize") {
				reads = true
			}
		}
		if !reads {
			continue
		}
		for i, arm := range b.Succs {
			for _, blk := range dec.Blocks {
				if !edgeDominates(b, arm, blk) {
					continue
				}
				for _, in := range blk.Instrs {
					if call, ok := in.(*ssa.Call); ok {
						n := c.calleeName(call)
						if strings.HasSuffix(n, ".Uint64") {
							widthFor[i == 0] = 8
						} else if strings.HasSuffix(n, ".Uint32") {
							widthFor[i == 0] = 4
						}
					}
				}
			}
		}
	}
	if len(widthFor) != 2 {
		// the key size may first be turned into a width variable: w := 4; if ChunkKeySize == 8 { w = 8 }; ... if w == 8 { Uint64 } else { Uint32 }
		widthFor = map[bool]int64{}
		readWidthIn := func(from, arm *ssa.BasicBlock) int64 {
			w := int64(0)
			for _, blk := range dec.Blocks {
				if !edgeDominates(from, arm, blk) {
					continue
				}
				for _, in := range blk.Instrs {
					if call, ok := in.(*ssa.Call); ok {
						n := c.calleeName(call)
						if strings.HasSuffix(n, ".Uint64") {
							w = 8
						} else if strings.HasSuffix(n, ".Uint32") {
							w = 4
						}
					}
				}
			}
			return w
		}
		for _, b := range dec.Blocks {
			ifi, ok := b.Instrs[len(b.Instrs)-1].(*ssa.If)
			if !ok {
				continue
			}
			cmp, ok := ifi.Cond.(*ssa.BinOp)
			if !ok || cmp.Op != token.EQL {
				continue
			}
			k, isK := constInt(cmp.Y)
			if !isK || k != 8 {
				continue
			}
			reads := false
			for f := range fieldsReadBy(cmp.X) {
				if strings.HasSuffix(f, ".ChunkKeySize") {
					reads = true
				}
			}
			if !reads {
				continue
			}
			// phis of constants fed by this test
			for _, pb := range dec.Blocks {
				for _, in := range pb.Instrs {
					phi, ok := in.(*ssa.Phi)
					if !ok || len(phi.Edges) != 2 {
						continue
					}
					var val8, valOther int64 = -1, -1
					for i, e := range phi.Edges {
						ce, isC := constInt(e)
						if !isC {
							val8, valOther = -1, -1
							break
						}
						pred := pb.Preds[i]
						if pred == b.Succs[0] || edgeDominates(b, b.Succs[0], pred) {
							val8 = ce
						} else {
							valOther = ce
						}
					}
					if val8 < 0 || valOther < 0 {
						continue
					}
					// tests of the width variable
					for _, tb := range dec.Blocks {
						tif, ok := tb.Instrs[len(tb.Instrs)-1].(*ssa.If)
						if !ok {
							continue
						}
						tc, ok := tif.Cond.(*ssa.BinOp)
						if !ok || tc.Op != token.EQL || stripConv(tc.X) != ssa.Value(phi) {
							continue
						}
						k2, isK2 := constInt(tc.Y)
						if !isK2 {
							continue
						}
						wTrue, wFalse := readWidthIn(tb, tb.Succs[0]), readWidthIn(tb, tb.Succs[1])
						pick := func(v int64) int64 {
							if v == k2 {
								return wTrue
							}
							return wFalse
						}
						if pick(val8) != 0 && pick(valOther) != 0 {
							widthFor[true], widthFor[false] = pick(val8), pick(valOther)
						}
					}
				}
			}
		}
	}
	if len(widthFor) != 2 {
		r.Errorf(rule + ": the ChunkKeySize == 8 branch of parseLayoutV3 was not recognised")
		return
	}
	// ParseDataLayoutMessage must take the key size from determineChunkKeySize(sb.Version)
	for _, V := range []int64{0, 2, 3} {
		key, ok := evalUnderParam(ks, V)
		cons := "core.encodeChunkedLayout~core.parseLayoutV3#chunk-dimension-width-superblock-v" + itoa64(V)
		if !ok {
			r.Undec(rule, cons, c.Pos(ks.Pos()), "determineChunkKeySize could not be evaluated for this version")
			continue
		}
		decW := widthFor[key == 8]
		r.Check(decW == encW, rule, cons, c.InstrPos(at), "encoder writes "+itoa64(encW)+"-byte chunk dimensions; under superblock version "+itoa64(V)+" the decoder selects key size "+itoa64(key)+" and reads "+itoa64(decW)+"-byte dimensions")
	}
	r.Floor(rule, 3)
}

// byteLoadDerived: v is (a conversion of) a single byte read from a slice/array/string element (incl. range values).
func byteLoadDerived(v ssa.Value) bool {
	v = stripConv(v)
	switch x := v.(type) {
	case *ssa.UnOp:
		if x.Op == token.MUL {
			if ia, ok := x.X.(*ssa.IndexAddr); ok {
				if b, isB := x.Type().Underlying().(*types.Basic); isB && b.Kind() == types.Uint8 {
					_ = ia
					return true
				}
			}
		}
	case *ssa.Index:
		if b, isB := x.Type().Underlying().(*types.Basic); isB && b.Kind() == types.Uint8 {
			return true
		}
	case *ssa.Extract:
		// range over string / slice via Next is rare for bytes
	}
	return false
}

func init() {
	reg := registry["C11"]
	reg.Meta.Rules["C11.7"] = "integers assembled from or split into single bytes move whole bytes: where a byte is shifted by a variable amount (value |= uint(b) << s, or byte(value >> s)), s is a multiple of 8 in every term (8*i, never i)"
	reg.Meta.Rules["C11.8"] = "an encoder returns bytes nobody else holds: the slice returned by every Encode*/encode* function of core is made in that call (also through helpers) - never backed by a package variable or a field (the bytes of an earlier message would change when the next one is encoded)"
	reg.Rules = append(reg.Rules, func(c *Ctx, r *Result) {
		// ---- C11.7
		n := 0
		for _, fn := range c.LibFuncs() {
			pk := shortPkg(fnPkgPath(fn))
			if pk != "core" && pk != "structures" && pk != "hdf5" && pk != "writer" && pk != "utils" {
				continue
			}
			fb := c.FB(fn)
			instrs(fn, func(in ssa.Instruction) {
				bo, ok := in.(*ssa.BinOp)
				if !ok || (bo.Op != token.SHL && bo.Op != token.SHR) {
					return
				}
				if _, isK := constInt(bo.Y); isK {
					return
				}
				role := ""
				if bo.Op == token.SHL && byteLoadDerived(bo.X) {
					role = "assemble"
				}
				if bo.Op == token.SHR {
					// byte(value >> s): the result is converted to a byte
					if bo.Referrers() != nil {
						for _, ref := range *bo.Referrers() {
							if cv, ok := ref.(*ssa.Convert); ok {
								if b, isB := cv.Type().Underlying().(*types.Basic); isB && b.Kind() == types.Uint8 {
									role = "split"
								}
							}
						}
					}
				}
				if role == "" {
					return
				}
				n++
				l := fb.lin(stripConv(bo.Y))
				ok8 := l.C%8 == 0
				for _, coef := range l.T {
					if coef%8 != 0 {
						ok8 = false
					}
				}
				r.Check(ok8, "C11.7", c.Name(fn)+"#byte-"+role+"-shift-is-whole-bytes", c.InstrPos(bo), "shift amount "+fb.linString(l)+" is a multiple of 8")
			})
		}
		if n < 2 {
			r.Errorf("C11.7: only %d variable byte shifts found", n)
		}
		// ---- C11.8
		m := 0
		for _, fn := range c.LibFuncs() {
			if shortPkg(fnPkgPath(fn)) != "core" || !(strings.HasPrefix(fn.Name(), "Encode") || strings.HasPrefix(fn.Name(), "encode")) {
				continue
			}
			if fn.Signature.Results().Len() < 1 || !isByteSlice(fn.Signature.Results().At(0).Type()) || fn.Blocks == nil {
				continue
			}
			for _, ret := range successReturns(fn) {
				m++
				bad, what := c.sharedBacking(retOperand(ret, 0), 0)
				r.Check(!bad, "C11.8", c.Name(fn)+"#result-not-shared-state", c.InstrPos(ret), "the returned message is made in this call (shared backing found: "+what+")")
			}
		}
		if m < 10 {
			r.Errorf("C11.8: only %d encoder returns found", m)
		}
	})
}

// sharedBacking: the slice value is backed by a package variable or a struct field (followed through slicing, phis, append
// and the returns of static callees).
func (c *Ctx) sharedBacking(v ssa.Value, d int) (bool, string) {
	if d > 8 {
		return false, ""
	}
	switch x := v.(type) {
	case *ssa.Slice:
		return c.sharedBacking(x.X, d+1)
	case *ssa.Convert:
		return c.sharedBacking(x.X, d+1)
	case *ssa.ChangeType:
		return c.sharedBacking(x.X, d+1)
	case *ssa.Phi:
		for _, e := range x.Edges {
			if b, w := c.sharedBacking(e, d+1); b {
				return b, w
			}
		}
	case *ssa.UnOp:
		if x.Op == token.MUL {
			if f, _ := fieldOfAddr(x.X); f != nil {
				return true, "field " + f.Name()
			}
			if g, ok := x.X.(*ssa.Global); ok {
				return true, "package variable " + g.Name()
			}
		}
	case *ssa.Global:
		return true, "package variable " + x.Name()
	case *ssa.Extract:
		return c.sharedBacking(x.Tuple, d+1)
	case *ssa.Call:
		if b, ok := x.Call.Value.(*ssa.Builtin); ok {
			if b.Name() == "append" {
				return c.sharedBacking(x.Call.Args[0], d+1)
			}
			return false, ""
		}
		f := x.Call.StaticCallee()
		if f == nil || f.Blocks == nil || !inModule(fnPkgPath(f)) {
			return false, ""
		}
		for _, ret := range returnsOf(f) {
			if len(ret.Results) == 0 {
				continue
			}
			if b, w := c.sharedBacking(ret.Results[0], d+1); b {
				return b, w + " (via " + c.Name(f) + ")"
			}
		}
	}
	return false, ""
}

func init() {
	reg := registry["C11"]
	reg.Meta.Rules["C11.9"] = "a superblock writer that serves several versions writes the version it was given: if the version dispatch of Superblock.WriteTo sends more than one version to the same writer function, that function stores the Version field itself into the buffer (a constant version byte turns a version 3 superblock into a version 2 one)"
	reg.Rules = append(reg.Rules, func(c *Ctx, r *Result) {
		top := c.FnOpt("core.Superblock.WriteTo")
		if top == nil {
			r.Undec("C11.9", "core.Superblock.WriteTo#version-byte", "", "superblock writer not found")
			return
		}
		served := map[*ssa.Function][]int64{}
		for _, v := range []int64{0, 1, 2, 3} {
			blocks := mayReachUnderVersion(top, v)
			for _, site := range callsIn(top) {
				if !blocks[site.(ssa.Instruction).Block()] {
					continue
				}
				if g := site.Common().StaticCallee(); g != nil && g.Blocks != nil && strings.HasPrefix(c.Name(g), "core.Superblock.write") {
					served[g] = append(served[g], v)
				}
			}
		}
		n := 0
		var fns []*ssa.Function
		for g := range served {
			fns = append(fns, g)
		}
		sortFuncs(c, fns)
		for _, g := range fns {
			vs := served[g]
			n++
			storesField := false
			instrs(g, func(in ssa.Instruction) {
				st, ok := in.(*ssa.Store)
				if !ok {
					return
				}
				if _, isIA := st.Addr.(*ssa.IndexAddr); !isIA {
					return
				}
				if k, _ := fieldLoadKey(stripConv(st.Val)); strings.HasSuffix(k, "Superblock.Version") {
					storesField = true
				}
			})
			if len(vs) < 2 {
				r.Hold("C11.9", c.Name(g)+"#writes-the-version-it-serves", c.Pos(g.Pos()), "serves one version only")
				continue
			}
			r.Check(storesField, "C11.9", c.Name(g)+"#writes-the-version-it-serves", c.Pos(g.Pos()), "serves "+itoa(len(vs))+" superblock versions; the version byte must be the superblock's Version field, not a constant")
		}
		if n == 0 {
			r.Undec("C11.9", "core.Superblock.WriteTo#version-byte", c.Pos(top.Pos()), "no version-specific writer reached from WriteTo")
		}
	})
}

// keptFieldBits: which bits of the field `key` can reach v (through masks, ors and phis; an upper bound).
func keptFieldBits(v ssa.Value, key string, d int) uint64 {
	if d > 12 {
		return ^uint64(0)
	}
	switch x := v.(type) {
	case *ssa.UnOp:
		if k, _ := fieldLoadKey(x); k == key {
			return ^uint64(0)
		}
		return 0
	case *ssa.Convert:
		return keptFieldBits(x.X, key, d+1)
	case *ssa.ChangeType:
		return keptFieldBits(x.X, key, d+1)
	case *ssa.Phi:
		var out uint64
		for _, e := range x.Edges {
			out |= keptFieldBits(e, key, d+1)
		}
		return out
	case *ssa.BinOp:
		switch x.Op {
		case token.AND:
			if m, ok := constInt(x.Y); ok {
				return keptFieldBits(x.X, key, d+1) & uint64(m)
			}
			if m, ok := constInt(x.X); ok {
				return keptFieldBits(x.Y, key, d+1) & uint64(m)
			}
			return keptFieldBits(x.X, key, d+1) & keptFieldBits(x.Y, key, d+1)
		case token.OR, token.XOR, token.ADD:
			return keptFieldBits(x.X, key, d+1) | keptFieldBits(x.Y, key, d+1)
		case token.AND_NOT:
			if m, ok := constInt(x.Y); ok {
				return keptFieldBits(x.X, key, d+1) &^ uint64(m)
			}
			return keptFieldBits(x.X, key, d+1)
		}
		if valueReadsField(x, key, 0) {
			return ^uint64(0) // shifted or otherwise transformed: not followed
		}
		return 0
	}
	if valueReadsField(v, key, 0) {
		return ^uint64(0)
	}
	return 0
}
