package main

import (
	"fmt"
	"go/ast"
	"go/constant"
	"go/token"
	"go/types"
	"os"
	"sort"
	"strings"

	"golang.org/x/tools/go/ssa"
)

// cross-property registrations that need every registry entry to exist (init order follows file names)

func init() {
	txt := "the size recorded for a structure is the size allocated for it: where a function stores the result of Allocate(n) into a field of an object and a size into the size field of the same object, the two sizes are the same value (a heap collection reserved with the minimum size but recorded - and later written - with its real size runs over the dataset allocated after it)"
	registry["C04"].Meta.Rules["C04.13"] = txt
	registry["C04"].Rules = append(registry["C04"].Rules, func(c *Ctx, r *Result) { allocatedSizeRecordedRule(c, r, "C04.13", 1) })
	registry["C12"].Meta.Rules["C12.16"] = txt + " (shared with C04.13)"
	registry["C12"].Rules = append(registry["C12"].Rules, func(c *Ctx, r *Result) { allocatedSizeRecordedRule(c, r, "C12.16", 1) })
	registry["C04"].Meta.Rules["C04.12"] = registry["C03"].Meta.Rules["C03.15"] + " (shared with C03.15: the name that is overwritten belongs to another object of the group)"
	registry["C04"].Rules = append(registry["C04"].Rules, func(c *Ctx, r *Result) { backwardScanRule(c, r, "C04.12", nil, 3) })
}

func init() {
	registry["C04"].Meta.Rules["C04.14"] = registry["C03"].Meta.Rules["C03.1"] + " (shared with C03.1: a second object accepted under an existing name makes operations on one of them show up under the other)"
	registry["C04"].Rules = append(registry["C04"].Rules, func(c *Ctx, r *Result) { aliasRule(c, r, "C03", ruleC03, "C03.1", "C04.14") })
}

// ---- an unsigned difference does not wrap (C10.13 and, on the owning code, C04.15 / C13.12) ----
//
// a - b in an unsigned type is a huge number when b > a. On the writing side differences are sizes and distances that end up in
// Allocate, in slice bounds and in loop bounds. Every SUB of unsigned type with a non-constant subtrahend is proven non-negative
// from the dominating tests and the ranges of its operands; the ones that are not decided are frozen per function
// (baselines/usub.json) and only growth is reported.
func unsignedSubRule(c *Ctx, r *Result, rule string, scope func(string) bool) {
	readers := c.readerSet(r)
	per := map[string][]undecidedItem{}
	n := 0
	for _, fn := range c.LibFuncs() {
		if readers[fn] || fn.Blocks == nil {
			continue
		}
		pk := shortPkg(fnPkgPath(fn))
		if pk != "hdf5" && pk != "core" && pk != "structures" && pk != "writer" {
			continue
		}
		if scope != nil && !scope(c.Name(fn)) {
			continue
		}
		var fb *FB
		instrs(fn, func(in ssa.Instruction) {
			bo, ok := in.(*ssa.BinOp)
			if !ok || bo.Op != token.SUB {
				return
			}
			bt, ok := bo.Type().Underlying().(*types.Basic)
			if !ok || bt.Info()&types.IsUnsigned == 0 {
				return
			}
			if _, isK := bo.Y.(*ssa.Const); isK {
				if _, isK2 := bo.X.(*ssa.Const); isK2 {
					return
				}
			}
			if fb == nil {
				fb = c.FB(fn)
			}
			n++
			if fb.ProveGE0At(fb.lin(bo.X).add(fb.lin(bo.Y), -1), bo) {
				r.Hold(rule, c.Name(fn)+"#unsigned-difference", c.InstrPos(bo), "minuend >= subtrahend by the dominating tests")
				return
			}
			per[c.Name(fn)] = append(per[c.Name(fn)], undecidedItem{c.InstrPos(bo), "the unsigned difference " + fb.linString(fb.lin(bo.X)) + " - (" + fb.linString(fb.lin(bo.Y)) + ") is not shown to be >= 0"})
		})
	}
	if (scope == nil && n < 30) || n < 1 {
		r.Shortfall(c, rule, fmt.Sprintf("%s: only %d unsigned subtractions examined on the writing side", rule, n))
	}
	baselineReadOnly = scope != nil
	r.ApplyBaselineFile(verifDirGlobal, "usub", rule, "possibly-wrapping-unsigned-difference", per)
	baselineReadOnly = false
}

func init() {
	txt := "an unsigned difference does not wrap: on the writing side every subtraction in an unsigned type is proven non-negative from the dominating tests, or frozen per function with only growth reported (if end-of-file != header end instead of <, the distance header end - end-of-file wraps for a dataset that is not the last object, Allocate moves the allocator back, and the dense storage is written over the objects behind the header)"
	registry["C10"].Meta.Rules["C10.13"] = txt
	registry["C10"].Rules = append(registry["C10"].Rules, func(c *Ctx, r *Result) { unsignedSubRule(c, r, "C10.13", nil) })
	pre := func(prefixes ...string) func(string) bool {
		return func(n string) bool {
			for _, p := range prefixes {
				if strings.HasPrefix(n, p) {
					return true
				}
			}
			return false
		}
	}
	registry["C04"].Meta.Rules["C04.15"] = txt + " (C10.13 on the allocator and the functions that compute addresses)"
	registry["C04"].Rules = append(registry["C04"].Rules, func(c *Ctx, r *Result) {
		unsignedSubRule(c, r, "C04.15", pre("writer.Allocator.", "writer.FileWriter.", "hdf5.transitionToDenseAttributes", "hdf5.createRootGroupStructure", "hdf5.FileWriter.", "hdf5.globalHeapWriter."))
	})
	registry["C13"].Meta.Rules["C13.12"] = txt + " (C10.13 on the chunk writer, the coordinator and Resize)"
	registry["C13"].Rules = append(registry["C13"].Rules, func(c *Ctx, r *Result) {
		unsignedSubRule(c, r, "C13.12", pre("hdf5.DatasetWriter.writeChunk", "hdf5.DatasetWriter.Resize", "hdf5.expandEdgeChunk", "writer.ChunkCoordinator.", "writer.NewChunkCoordinator", "structures.ChunkBTree"))
	})
}

// ---- the end-of-file address is patched where it was written (C10.15 / C05.17) ----
//
// Superblock.UpdateEndOfFileAddress rewrites the end-of-file field of an existing superblock in place. For each version it
// computes the position from the offset size; the superblock writers put the field at a constant position (they write
// 8-byte offsets only). Under OffsetSize = 8 the position computed for version v is the position at which the writer for
// version v stores its eofAddress parameter.
func eofPatchPositionRule(c *Ctx, r *Result, rule string) {
	upd := c.FnOpt("core.Superblock.UpdateEndOfFileAddress")
	if upd == nil {
		r.Undec(rule, "core.Superblock.UpdateEndOfFileAddress#patch-position", "", "there is no UpdateEndOfFileAddress (whether the end-of-file address is kept up to date at all is C05.2's question)")
		return
	}
	writers := map[int64]string{0: "core.Superblock.writeV0", 2: "core.Superblock.writeV2", 3: "core.Superblock.writeV2"}
	// writer side: the constant offset at which the eofAddress parameter is stored
	wpos := map[string]int64{}
	for _, wn := range []string{"core.Superblock.writeV0", "core.Superblock.writeV2"} {
		w := c.FnOpt(wn)
		if w == nil {
			continue
		}
		var eofParam *ssa.Parameter
		for _, p := range w.Params {
			if strings.EqualFold(p.Name(), "eofAddress") {
				eofParam = p
			}
		}
		if eofParam == nil {
			continue
		}
		fb := c.FB(w)
		for _, site := range callsIn(w) {
			com := site.Common()
			name := ""
			if com.IsInvoke() {
				name = com.Method.Name()
			} else if f := com.StaticCallee(); f != nil {
				name = f.Name()
			}
			if !strings.HasPrefix(name, "PutUint") || len(com.Args) < 2 || stripConv(com.Args[len(com.Args)-1]) != ssa.Value(eofParam) {
				continue
			}
			if sl, ok := com.Args[len(com.Args)-2].(*ssa.Slice); ok && sl.Low != nil {
				if l := fb.lin(sl.Low); l.isConst() {
					wpos[wn] = l.C
				}
			}
		}
	}
	// update side: the position phi and its value per version arm
	var eofParam *ssa.Parameter
	for _, p := range upd.Params {
		if strings.EqualFold(p.Name(), "eofAddress") {
			eofParam = p
		}
	}
	fb := c.FB(upd)
	var pos ssa.Value
	for _, site := range callsIn(upd) {
		com := site.Common()
		name := ""
		if com.IsInvoke() {
			name = com.Method.Name()
		}
		if name == "PutUint64" && len(com.Args) == 2 && eofParam != nil && stripConv(com.Args[1]) == ssa.Value(eofParam) {
			if sl, ok := com.Args[0].(*ssa.Slice); ok && sl.Low != nil {
				pos = sl.Low
			}
		}
	}
	phi, isPhi := pos.(*ssa.Phi)
	if !isPhi {
		r.Undec(rule, "core.Superblock.UpdateEndOfFileAddress#patch-position", c.Pos(upd.Pos()), "the position of the patched field is not a per-version value")
		return
	}
	at8 := func(v ssa.Value) (int64, bool) {
		l := fb.lin(v)
		out := l.C
		for k, coef := range l.T {
			sv, ok := k.(ssa.Value)
			if !ok {
				return 0, false
			}
			if key, _ := fieldLoadKey(stripConv(sv)); !strings.HasSuffix(key, ".OffsetSize") {
				return 0, false
			}
			out += coef * 8
		}
		return out, true
	}
	n := 0
	for i, pred := range phi.Block().Preds {
		v, ok := at8(phi.Edges[i])
		if !ok {
			continue
		}
		// which versions lead to this arm?
		arm := pred
		for _, b := range upd.Blocks {
			ifi, isIf := b.Instrs[len(b.Instrs)-1].(*ssa.If)
			if !isIf {
				continue
			}
			bo, isBO := ifi.Cond.(*ssa.BinOp)
			if !isBO || bo.Op != token.EQL {
				continue
			}
			k, isK := constInt(bo.Y)
			if key, _ := fieldLoadKey(stripConv(bo.X)); !isK || !strings.HasSuffix(key, ".Version") {
				continue
			}
			if b.Succs[0] != arm {
				continue
			}
			wn, known := writers[k]
			if !known {
				continue
			}
			wp, have := wpos[wn]
			if !have {
				r.Undec(rule, fmt.Sprintf("core.Superblock.UpdateEndOfFileAddress#version-%d-patch-position", k), c.Pos(upd.Pos()), "position of the end-of-file field in "+wn+" not recognised")
				continue
			}
			n++
			r.Check(v == wp, rule, fmt.Sprintf("core.Superblock.UpdateEndOfFileAddress#version-%d-patch-position", k), c.InstrPos(bo), fmt.Sprintf("for version %d the field is patched at byte %d (offset size 8); %s writes it at byte %d", k, v, wn, wp))
		}
	}
	if n < 2 {
		r.Shortfall(c, rule, fmt.Sprintf("%s: only %d version arms compared", rule, n))
	}
}

func init() {
	txt := "the end-of-file address is patched where it was written: for every superblock version the position UpdateEndOfFileAddress computes (with the 8-byte offsets the writers produce) is the position at which that version's writer stores its end-of-file parameter (24 + o instead of 24 + 2o puts the new end of file into the free-space address of a version 0 superblock and leaves the real field stale)"
	registry["C10"].Meta.Rules["C10.15"] = txt
	registry["C10"].Rules = append(registry["C10"].Rules, func(c *Ctx, r *Result) { eofPatchPositionRule(c, r, "C10.15") })
	registry["C05"].Meta.Rules["C05.17"] = txt + " (shared with C10.15)"
	registry["C05"].Rules = append(registry["C05"].Rules, func(c *Ctx, r *Result) { eofPatchPositionRule(c, r, "C05.17") })

	registry["C10"].Meta.Rules["C10.14"] = "a reopened dataset writes its elements where the layout message says they are: the dataAddress of the handle OpenDataset builds is read from the parsed data layout message (DataAddress), not from the object header's own address (a Write through the reopened handle would land on the dataset's header)"
	registry["C10"].Rules = append(registry["C10"].Rules, func(c *Ctx, r *Result) {
		n := 0
		for _, fn := range c.LibFuncs() {
			if shortPkg(fnPkgPath(fn)) != "hdf5" {
				continue
			}
			parses := false
			for _, site := range callsIn(fn) {
				if c.calleeName(site) == "core.ParseDataLayoutMessage" {
					parses = true
				}
			}
			if !parses {
				continue
			}
			for _, fs := range c.DirectFieldStores(fn) {
				if fs.Fn != fn || fs.Key != "hdf5.DatasetWriter.dataAddress" || fs.Val == nil {
					continue
				}
				n++
				r.Check(valueReadsField(fs.Val, "core.DataLayoutMessage.DataAddress", 0), "C10.14", c.Name(fn)+"#data-address-from-the-layout-message", c.InstrPos(fs.In), "dataAddress is taken from the layout message the function parsed")
			}
		}
		if n == 0 {
			r.Shortfall(c, "C10.14", "C10.14: no function that parses a layout message and builds a DatasetWriter")
		}
	})
}

func init() {
	registry["C13"].Meta.Rules["C13.13"] = registry["C05"].Meta.Rules["C05.13"] + " - and that offset does not depend on the clipped extents (shared with C05.13)"
	registry["C13"].Rules = append(registry["C13"].Rules, func(c *Ctx, r *Result) { c05rowPlacement(c, r, "C13.13") })
}

// ---- per-dimension arithmetic uses one dimension (C13.14 / C06.12) ----
//
// In a loop over the dimensions, a product whose one factor is an element s[i] taken with the loop variable and whose other factor
// is an element t[k] taken with a constant index, of a sequence t that the same function also reads with the loop variable, mixes
// two dimensions (chunkCoords[i] * chunkSize[0] * stride[i] places every chunk of a later dimension with the first dimension's
// chunk extent).
func dimensionIndexRule(c *Ctx, r *Result, rule string, floor int) {
	n, bad := 0, 0
	for _, fn := range c.LibFuncs() {
		pk := shortPkg(fnPkgPath(fn))
		if fn.Blocks == nil || (pk != "hdf5" && pk != "core" && pk != "writer" && pk != "structures") {
			continue
		}
		// sequences read with a loop variable: base value -> true
		isLoopVar := func(v ssa.Value) bool {
			if prm, isP := stripConv(v).(*ssa.Parameter); isP && isIntType(prm.Type()) {
				return true // the dimension handed to a recursive per-dimension function
			}
			w := stripConv(v)
			// a range loop's index is the incremented counter: phi + 1
			if inc, isInc := w.(*ssa.BinOp); isInc && inc.Op == token.ADD {
				if k, isK := constInt(inc.Y); isK && k == 1 {
					w = inc.X
				}
			}
			phi, ok := w.(*ssa.Phi)
			if !ok {
				return false
			}
			for _, p := range phi.Block().Preds {
				if phi.Block().Dominates(p) {
					return true
				}
			}
			return false
		}
		elemOf := func(v ssa.Value) (base ssa.Value, idx ssa.Value, ok bool) {
			u, isU := stripConv(v).(*ssa.UnOp)
			if !isU || u.Op != token.MUL {
				return nil, nil, false
			}
			ia, isIA := u.X.(*ssa.IndexAddr)
			if !isIA {
				return nil, nil, false
			}
			return ia.X, ia.Index, true
		}
		// a sequence held in a field is loaded anew at every use: key it by field and receiver
		baseKey := func(v ssa.Value) string {
			if ld, ok := isLoad(v); ok {
				if f, recv := fieldOfAddr(ld.X); f != nil {
					return "field " + fieldKey(recv.Type(), f) + " of " + recv.Name()
				}
			}
			return fmt.Sprintf("%s %p", v.Name(), v)
		}
		byLoop := map[string]bool{}
		instrs(fn, func(in ssa.Instruction) {
			if ia, ok := in.(*ssa.IndexAddr); ok && isLoopVar(ia.Index) {
				byLoop[baseKey(ia.X)] = true
			}
		})
		if len(byLoop) == 0 {
			continue
		}
		var factors func(v ssa.Value, out []ssa.Value, d int) []ssa.Value
		factors = func(v ssa.Value, out []ssa.Value, d int) []ssa.Value {
			if bo, ok := stripConv(v).(*ssa.BinOp); ok && bo.Op == token.MUL && d < 6 {
				return factors(bo.Y, factors(bo.X, out, d+1), d+1)
			}
			return append(out, v)
		}
		instrs(fn, func(in ssa.Instruction) {
			bo, ok := in.(*ssa.BinOp)
			if !ok || bo.Op != token.MUL {
				return
			}
			// only the root of a product
			for _, ref := range *bo.Referrers() {
				if p, isB := ref.(*ssa.BinOp); isB && p.Op == token.MUL {
					return
				}
			}
			fs := factors(bo, nil, 0)
			hasLoop := false
			var constElem []string
			for _, f := range fs {
				base, idx, isElem := elemOf(f)
				if !isElem {
					continue
				}
				if isLoopVar(idx) {
					hasLoop = true
				} else if k, isK := constInt(idx); isK && byLoop[baseKey(base)] {
					constElem = append(constElem, fmt.Sprintf("%s[%d]", base.Name(), k))
				}
			}
			if !hasLoop {
				return
			}
			n++
			if len(constElem) > 0 {
				bad++
				r.Viol(rule, fmt.Sprintf("%s#product-mixes-dimensions-%d", c.Name(fn), bad), c.InstrPos(bo), "a per-dimension product takes "+strings.Join(constElem, ", ")+" with a constant index while the other factors, and other reads of the same sequence, use the loop variable")
			}
		})
		// inside a loop that reads t[i] with its own variable, an arithmetic operand t[k] with a loop-invariant k (a constant,
		// len(x)-1) mixes dimensions as well: remaining /= numChunks[len(coord)-1] next to remaining % numChunks[i]
		loopVarOf := func(v ssa.Value) *ssa.Phi {
			w := stripConv(v)
			if inc, isInc := w.(*ssa.BinOp); isInc && inc.Op == token.ADD {
				if k, isK := constInt(inc.Y); isK && k == 1 {
					w = inc.X
				}
			}
			phi, _ := w.(*ssa.Phi)
			return phi
		}
		type inLoop struct {
			key  string
			loop map[*ssa.BasicBlock]bool
		}
		var perLoop []inLoop
		instrs(fn, func(in ssa.Instruction) {
			if ia, ok := in.(*ssa.IndexAddr); ok && isLoopVar(ia.Index) {
				if phi := loopVarOf(ia.Index); phi != nil {
					perLoop = append(perLoop, inLoop{baseKey(ia.X), naturalLoop(phi.Block())})
				}
			}
		})
		invariantIdx := func(v ssa.Value) bool {
			if _, isK := constInt(v); isK {
				return true
			}
			if bo, isB := stripConv(v).(*ssa.BinOp); isB && bo.Op == token.SUB {
				if _, isK := constInt(bo.Y); isK {
					if call, isCall := stripConv(bo.X).(*ssa.Call); isCall {
						if b, isBuiltin := call.Call.Value.(*ssa.Builtin); isBuiltin && b.Name() == "len" {
							return true
						}
					}
				}
			}
			return false
		}
		instrs(fn, func(in ssa.Instruction) {
			bo, ok := in.(*ssa.BinOp)
			if !ok || (bo.Op != token.QUO && bo.Op != token.REM && bo.Op != token.MUL) {
				return
			}
			for _, opnd := range []ssa.Value{bo.X, bo.Y} {
				base, idx, isElem := elemOf(opnd)
				if !isElem || !invariantIdx(idx) {
					continue
				}
				if _, isK := constInt(idx); isK && bo.Op == token.MUL {
					continue // products with a constant index are the first form above
				}
				for _, pl := range perLoop {
					if pl.key == baseKey(base) && pl.loop[bo.Block()] {
						n++
						bad++
						r.Viol(rule, fmt.Sprintf("%s#loop-invariant-element-in-per-dimension-arithmetic-%d", c.Name(fn), bad), c.InstrPos(bo), "inside a loop that reads "+base.Name()+"[i] with its own variable, an operand of "+bo.Op.String()+" is an element of the same sequence taken with a loop-invariant index")
						return
					}
				}
			}
		})
		// a counted loop takes its start and its end at the same index: for i := first[dim]; i <= last[dim]
		instrs(fn, func(in ssa.Instruction) {
			phi, ok := in.(*ssa.Phi)
			if !ok || len(phi.Edges) != 2 {
				return
			}
			hdr := phi.Block()
			var initV ssa.Value
			for i, p := range hdr.Preds {
				if !hdr.Dominates(p) {
					initV = phi.Edges[i]
				}
			}
			if initV == nil {
				return
			}
			_, iIdx, okI := elemOf(initV)
			if !okI {
				return
			}
			ifi, isIf := hdr.Instrs[len(hdr.Instrs)-1].(*ssa.If)
			if !isIf {
				return
			}
			cmp, isC := ifi.Cond.(*ssa.BinOp)
			if !isC || stripConv(cmp.X) != ssa.Value(phi) {
				return
			}
			_, bIdx, okB := elemOf(cmp.Y)
			if !okB {
				return
			}
			_, iK := constInt(iIdx)
			_, bK := constInt(bIdx)
			if iK == bK {
				return // both constant or both variable
			}
			if (iK && isLoopVar(bIdx)) || (bK && isLoopVar(iIdx)) {
				n++
				bad++
				r.Viol(rule, fmt.Sprintf("%s#loop-bounds-from-different-dimensions-%d", c.Name(fn), bad), c.InstrPos(cmp), "a counted loop starts at an element taken with a constant index and ends at one taken with the dimension variable (or the reverse)")
			}
		})
		// the same for an ordering test between two elements: x[i] < t[0] where t is read per dimension elsewhere
		instrs(fn, func(in ssa.Instruction) {
			bo, ok := in.(*ssa.BinOp)
			if !ok {
				return
			}
			switch bo.Op {
			case token.LSS, token.LEQ, token.GTR, token.GEQ:
			default:
				return
			}
			bx, ix, okx := elemOf(bo.X)
			by, iy, oky := elemOf(bo.Y)
			if !okx || !oky {
				return
			}
			var cb ssa.Value
			var ck int64
			switch {
			case isLoopVar(ix):
				if k, isK := constInt(iy); isK {
					cb, ck = by, k
				}
			case isLoopVar(iy):
				if k, isK := constInt(ix); isK {
					cb, ck = bx, k
				}
			default:
				return
			}
			n++
			if cb != nil && byLoop[baseKey(cb)] {
				bad++
				r.Viol(rule, fmt.Sprintf("%s#comparison-mixes-dimensions-%d", c.Name(fn), bad), c.InstrPos(bo), fmt.Sprintf("a per-dimension comparison takes %s[%d] with a constant index while the other side, and other reads of the same sequence, use the dimension variable", cb.Name(), ck))
			}
		})
	}
	if bad == 0 {
		r.Hold(rule, "module#per-dimension-products-use-one-index", "", fmt.Sprintf("%d products with a factor indexed by a loop variable examined; none takes a constant-indexed element of a sequence that is read per dimension elsewhere", n))
	}
	if n < floor {
		r.Shortfall(c, rule, fmt.Sprintf("%s: only %d per-dimension products found (expected >= %d)", rule, n, floor))
	}
}

func init() {
	txt := "per-dimension arithmetic uses one dimension: in a product that has a factor s[i] taken with a loop variable, no other factor is an element t[k] with a constant index of a sequence t that the same function reads with a loop variable elsewhere (chunkCoords[i] * chunkSize[0] * dataStrides[i] places the chunks of every later dimension with the first dimension's chunk extent)"
	registry["C13"].Meta.Rules["C13.14"] = txt
	registry["C13"].Rules = append(registry["C13"].Rules, func(c *Ctx, r *Result) { dimensionIndexRule(c, r, "C13.14", 10) })
	registry["C06"].Meta.Rules["C06.12"] = txt + " (shared with C13.14)"
	registry["C06"].Rules = append(registry["C06"].Rules, func(c *Ctx, r *Result) { dimensionIndexRule(c, r, "C06.12", 10) })
}

// ---- round-up divisions round up (C13.15) ----
//
// (a + b - 1) / b is the number of pieces of size b needed for a. Written with another negative constant, (a + b - 2) / b, it is
// one short whenever a = k*b + 1: the chunk that holds the last element of an appended record is never written.
func ceilDivRule(c *Ctx, r *Result, rule string, floor int) {
	n := 0
	for _, fn := range c.LibFuncs() {
		if fn.Blocks == nil {
			continue
		}
		var fb *FB
		k := 0
		instrs(fn, func(in ssa.Instruction) {
			bo, ok := in.(*ssa.BinOp)
			if !ok || bo.Op != token.QUO || !isIntType(bo.Type()) {
				return
			}
			if _, isK := bo.Y.(*ssa.Const); isK {
				return // rounding to a constant unit is handled by the residue rules
			}
			if fb == nil {
				fb = c.FB(fn)
			}
			den := fb.lin(bo.Y)
			if den.C != 0 || len(den.T) != 1 {
				return
			}
			var sym interface{}
			for s, coef := range den.T {
				if coef != 1 {
					return
				}
				sym = s
			}
			num := fb.lin(bo.X)
			if num.T[sym] != 1 || len(num.T) < 2 || num.C >= 0 {
				return
			}
			n++
			k++
			r.Check(num.C == -1, rule, fmt.Sprintf("%s#round-up-division-%d", c.Name(fn), k), c.InstrPos(bo), "numerator "+fb.linString(num)+" over "+fb.linString(den)+": a round-up division adds the divisor minus one")
		})
	}
	if n < floor {
		r.Shortfall(c, rule, fmt.Sprintf("%s: only %d round-up divisions found (expected >= %d)", rule, n, floor))
	}
}

func init() {
	registry["C13"].Meta.Rules["C13.15"] = "round-up divisions round up: wherever a quotient has the form (a + b + c) / b with a negative constant c, c is -1 (the chunk count per dimension computed with -2 is one short for every extent k*chunk + 1: the chunk of an appended single record is never written and reads as zero)"
	registry["C13"].Rules = append(registry["C13"].Rules, func(c *Ctx, r *Result) { ceilDivRule(c, r, "C13.15", 2) })
}

func init() {
	txt := "a deletion takes one record out and leaves the others where they are: no deletion variant of the writable name index stores an element into the record sequence (the swap-with-last idiom); the record is removed by the order-preserving shift that all variants share - a leaf whose records are no longer sorted by name hash differs between rebalancing configurations and is not a valid B-tree node"
	rule := func(id string) func(c *Ctx, r *Result) {
		return func(c *Ctx, r *Result) {
			n := 0
			for _, fn := range c.LibFuncs() {
				name := c.Name(fn)
				if !strings.HasPrefix(name, "structures.WritableBTreeV2.Delete") || fn.Parent() != nil {
					continue
				}
				shrinks, elem := false, ""
				for _, fs := range c.DirectFieldStores(fn) {
					if fs.Fn != fn || fs.Key != "structures.WritableBTreeV2.records" {
						continue
					}
					if fs.Kind == "elem" {
						elem = c.InstrPos(fs.In)
					} else {
						shrinks = true
					}
				}
				if !shrinks && elem == "" {
					continue
				}
				n++
				r.Check(elem == "", id, name+"#remaining-records-keep-their-order", firstNonEmpty(elem, c.Pos(fn.Pos())), "the deletion assigns the record sequence as a whole (shift) and stores no single element into it")
			}
			if n < 2 {
				// a variant that no longer assigns the sequence is C19.7's finding (content effects differ); here it is only not decided
				r.Undec(id, "structures.WritableBTreeV2#deletion-variants-assign-the-record-sequence", "", fmt.Sprintf("only %d deletion variants assign the record sequence directly", n))
			}
		}
	}
	registry["C19"].Meta.Rules["C19.8"] = txt
	registry["C19"].Rules = append(registry["C19"].Rules, rule("C19.8"))
	registry["C14"].Meta.Rules["C14.17"] = txt + " (shared with C19.8)"
	registry["C14"].Rules = append(registry["C14"].Rules, rule("C14.17"))
}

// ---- every lock taken is released on every path (C18.13) ----
//
// May-hold analysis (union at joins) per function: a mutex that may still be held when the same mutex is locked again, or when
// the function returns without a deferred unlock of it, was left locked on some path - the goroutine that runs into it blocks
// for ever, and with it every caller that needs the mutex (Stop, the progress queries).
func lockReleaseRule(c *Ctx, r *Result, rule string, floor int) {
	n := 0
	for _, fn := range c.LibFuncs() {
		pk := shortPkg(fnPkgPath(fn))
		if fn.Blocks == nil || (pk != "rebalancing" && pk != "structures" && pk != "hdf5" && pk != "writer" && pk != "utils") {
			continue
		}
		hasLock := false
		deferred := map[lockKey]bool{}
		for _, site := range callsIn(fn) {
			k, d := mutexOp(site.Common())
			if d > 0 {
				hasLock = true
			}
			if _, isDefer := site.(*ssa.Defer); isDefer && d < 0 {
				deferred[k] = true
			}
		}
		if !hasLock {
			continue
		}
		// may-hold sets
		in := map[*ssa.BasicBlock]lockSet{fn.Blocks[0]: {}}
		work := []*ssa.BasicBlock{fn.Blocks[0]}
		at := map[ssa.Instruction]lockSet{}
		for len(work) > 0 {
			b := work[0]
			work = work[1:]
			cur := in[b].clone()
			for _, ins := range b.Instrs {
				at[ins] = cur.clone()
				if call, ok := ins.(*ssa.Call); ok {
					if k, d := mutexOp(&call.Call); d > 0 {
						cur[k] = true
					} else if d < 0 {
						delete(cur, k)
					}
				}
			}
			for _, s := range b.Succs {
				old, seen := in[s]
				merged := cur.clone()
				for k := range old {
					merged[k] = true
				}
				if !seen || !equalLS(merged, old) {
					in[s] = merged
					work = append(work, s)
				}
			}
		}
		n++
		bad := ""
		instrs(fn, func(ins ssa.Instruction) {
			switch x := ins.(type) {
			case *ssa.Call:
				if k, d := mutexOp(&x.Call); d > 0 && at[ins][k] && bad == "" {
					bad = "the mutex may still be held when it is locked again at " + c.InstrPos(ins)
				}
			case *ssa.Return:
				for k := range at[ins] {
					if !deferred[k] && bad == "" {
						bad = "the function may return at " + c.InstrPos(ins) + " with the mutex held and no deferred unlock"
					}
				}
			}
		})
		r.Check(bad == "", rule, c.Name(fn)+"#every-lock-released", c.Pos(fn.Pos()), "on every path each Lock/RLock is followed by its Unlock/RUnlock before the mutex is taken again or the function returns"+map[bool]string{true: "", false: " (" + bad + ")"}[bad == ""])
	}
	if n < floor {
		r.Shortfall(c, rule, fmt.Sprintf("%s: only %d locking functions examined (expected >= %d)", rule, n, floor))
	}
}

func init() {
	registry["C18"].Meta.Rules["C18.13"] = "every lock taken is released on every path: in each function that locks a mutex field, no path reaches a second Lock/RLock of the same mutex, or a return without a deferred unlock, with the mutex still held (a dropped Unlock in the monitor loop blocks the goroutine on its next tick, and Stop, GetStats and RecordOperation with it)"
	registry["C18"].Rules = append(registry["C18"].Rules, func(c *Ctx, r *Result) { lockReleaseRule(c, r, "C18.13", 20) })
}

// ---- the stop signal ends the loop (C18.14) ----
//
// A background loop `for { select { case <-tick: ...; case <-stop: return } }` ends when the stop channel fires. The arm of a
// select inside a loop that receives from a stop channel (a field or call named stop / done / quit / cancel) does not lead back
// to the loop head: with `break` for `return` it only leaves the select, the goroutine spins on the closed channel and the
// function that waits for its completion never returns.
func stopArmLeavesLoopRule(c *Ctx, r *Result, rule string, floor int) {
	n := 0
	isStop := func(v ssa.Value) bool {
		v = stripConv(v)
		name := ""
		if k, _ := fieldLoadKey(v); k != "" {
			name = lastSeg(k)
		} else if call, ok := v.(*ssa.Call); ok {
			if call.Call.IsInvoke() {
				name = call.Call.Method.Name()
			} else if f := call.Call.StaticCallee(); f != nil {
				name = f.Name()
			}
		}
		name = strings.ToLower(name)
		return strings.Contains(name, "stop") || strings.Contains(name, "done") || strings.Contains(name, "quit") || strings.Contains(name, "cancel")
	}
	for _, fn := range c.LibFuncs() {
		if fn.Blocks == nil {
			continue
		}
		instrs(fn, func(in ssa.Instruction) {
			sel, ok := in.(*ssa.Select)
			if !ok {
				return
			}
			hdr, loop := innermostLoop(sel.Block())
			if hdr == nil {
				return
			}
			for k, st := range sel.States {
				if st.Dir != types.RecvOnly || !isStop(st.Chan) {
					continue
				}
				// the arm: true successor of the test index == k
				var arm *ssa.BasicBlock
				for _, ref := range *sel.Referrers() {
					ex, isEx := ref.(*ssa.Extract)
					if !isEx || ex.Index != 0 {
						continue
					}
					for _, r2 := range *ex.Referrers() {
						bo, isBO := r2.(*ssa.BinOp)
						if !isBO || bo.Op != token.EQL {
							continue
						}
						if kk, isK := constInt(bo.Y); isK && int(kk) == k {
							for _, r3 := range *bo.Referrers() {
								if ifi, isIf := r3.(*ssa.If); isIf {
									arm = ifi.Block().Succs[0]
								}
							}
						}
					}
				}
				if arm == nil {
					continue
				}
				n++
				back := false
				seen := map[*ssa.BasicBlock]bool{arm: true}
				work := []*ssa.BasicBlock{arm}
				for len(work) > 0 {
					b := work[len(work)-1]
					work = work[:len(work)-1]
					if b == hdr {
						back = true
						break
					}
					for _, s := range b.Succs {
						if loop[s] && !seen[s] {
							seen[s] = true
							work = append(work, s)
						}
					}
				}
				r.Check(!back, rule, fmt.Sprintf("%s#stop-arm-leaves-the-loop-%d", c.Name(fn), k), c.InstrPos(sel), "the arm that receives the stop signal does not lead back to the head of the loop")
			}
		})
	}
	if n < floor {
		r.Shortfall(c, rule, fmt.Sprintf("%s: only %d stop arms of selects in loops found (expected >= %d)", rule, n, floor))
	}
}

func init() {
	registry["C18"].Meta.Rules["C18.14"] = "the stop signal ends the loop: in every select inside a loop, the arm that receives from a stop channel (a field or call named stop/done/quit/cancel) cannot reach the head of that loop again (break for return leaves only the select: the goroutine spins, its completion channel is never closed and the stop function waits for ever)"
	registry["C18"].Rules = append(registry["C18"].Rules, func(c *Ctx, r *Result) { stopArmLeavesLoopRule(c, r, "C18.14", 2) })
}

// ---- consecutive elements do not overlap (C06.13) ----
//
// A loop that takes element i out of a buffer as X[i*S + c : i*S + c + W] reads W bytes every S bytes. S >= W: with S < W the
// elements overlap (8-byte integers read every 4 bytes: right type and count, garbage values). S > W is a field inside a larger
// record and is not constrained.
func elementStrideRule(c *Ctx, r *Result, rule string, floor int) {
	n := 0
	for _, fn := range c.LibFuncs() {
		if fn.Blocks == nil {
			continue
		}
		var fb *FB
		k := 0
		instrs(fn, func(in ssa.Instruction) {
			sl, ok := in.(*ssa.Slice)
			if !ok || sl.Low == nil {
				return
			}
			if fb == nil {
				fb = c.FB(fn)
			}
			lo := fb.lin(sl.Low)
			var w Lin
			if sl.High != nil {
				w = fb.lin(sl.High).add(lo, -1)
			} else {
				// X[lo:] handed to a fixed-width integer accessor: the width is the accessor's
				for _, ref := range *sl.Referrers() {
					call, isCall := ref.(*ssa.Call)
					if !isCall {
						continue
					}
					name := ""
					if call.Call.IsInvoke() {
						name = call.Call.Method.Name()
					} else if f := call.Call.StaticCallee(); f != nil && fnPkgPath(f) == "encoding/binary" {
						name = f.Name()
					}
					switch strings.TrimPrefix(name, "Put") {
					case "Uint16":
						w = linConst(2)
					case "Uint32":
						w = linConst(4)
					case "Uint64":
						w = linConst(8)
					}
				}
			}
			if !w.isConst() || w.C <= 0 {
				return
			}
			// the low bound is S * (loop counter) + ...: find a header phi with a constant coefficient
			var S int64
			found := false
			for sym, coef := range lo.T {
				phi, isPhi := sym.(*ssa.Phi)
				if !isPhi {
					continue
				}
				isHdr := false
				for _, p := range phi.Block().Preds {
					if phi.Block().Dominates(p) {
						isHdr = true
					}
				}
				// a counter stepping by one
				step1 := false
				for i, p := range phi.Block().Preds {
					if phi.Block().Dominates(p) {
						if bo, isB := phi.Edges[i].(*ssa.BinOp); isB && bo.Op == token.ADD && bo.X == ssa.Value(phi) {
							if one, isK := constInt(bo.Y); isK && one == 1 {
								step1 = true
							}
						}
					}
				}
				if isHdr && step1 && naturalLoop(phi.Block())[sl.Block()] {
					S, found = coef, true
				}
			}
			if !found || S <= 0 {
				return
			}
			n++
			k++
			r.Check(S >= w.C, rule, fmt.Sprintf("%s#element-%d", c.Name(fn), k), c.InstrPos(sl), fmt.Sprintf("elements of %d bytes are taken every %d bytes", w.C, S))
			// the buffer the elements go into was made for elements of that size: make([]byte, K*len(v)) has K = S
			if ms, isMS := sl.X.(*ssa.MakeSlice); isMS {
				ll := fb.lin(ms.Len)
				if ll.C == 0 && len(ll.T) == 1 {
					for sym, K := range ll.T {
						if _, isLen := sym.(lenKey); isLen && K > 0 {
							r.Check(K == S, rule, fmt.Sprintf("%s#buffer-for-element-%d", c.Name(fn), k), c.InstrPos(ms), fmt.Sprintf("the buffer holds %d bytes per element, the elements are placed every %d bytes", K, S))
						}
					}
				}
			}
		})
	}
	if n < floor {
		r.Shortfall(c, rule, fmt.Sprintf("%s: only %d strided element accesses found (expected >= %d)", rule, n, floor))
	}
}

func init() {
	registry["C06"].Meta.Rules["C06.13"] = "consecutive elements do not overlap: where a loop with a counter i takes X[i*S + c : i*S + c + W], S >= W (64-bit integer attribute arrays read with offset i*4 come back with the right type and length and garbage contents)"
	registry["C06"].Rules = append(registry["C06"].Rules, func(c *Ctx, r *Result) { elementStrideRule(c, r, "C06.13", 8) })
	registry["C02"].Meta.Rules["C02.15"] = "consecutive elements of an attribute value do not overlap: where a loop with a counter i writes or reads a fixed-width integer at X[i*S + c:] or X[i*S + c : i*S + c + W], S >= W (C06.13 with the open-ended form PutUint64(buf[i*4:], v): every []int64 attribute with two or more elements is stored with overlapping elements and a zero tail)"
	registry["C02"].Rules = append(registry["C02"].Rules, func(c *Ctx, r *Result) { elementStrideRule(c, r, "C02.15", 8) })
}

func init() {
	registry["C06"].Meta.Rules["C06.14"] = registry["C03"].Meta.Rules["C03.16"] + "; and no branch inside the entry loop leaves it through its normal exit (a break on the first soft link ends the listing there) (shared with C03.16)"
	registry["C06"].Rules = append(registry["C06"].Rules, func(c *Ctx, r *Result) { listingCompleteRule(c, r, "C06.14") })

	registry["C06"].Meta.Rules["C06.15"] = "a version 2 message header has its creation-index field exactly when the object header says so: the 6-byte message header is selected by bit 2 (0x04, attribute creation order tracked) of the object header flags - the format's constant, H5O_HDR_ATTR_CRT_ORDER_TRACKED - and by no other bit (bit 3 is 'indexed': files that track without indexing, such as torderattr.h5, would be parsed with 4-byte message headers and fail to open)"
	registry["C06"].Rules = append(registry["C06"].Rules, func(c *Ctx, r *Result) {
		fn := c.FnOpt("core.parseV2Header")
		if fn == nil {
			r.Shortfall(c, "C06.15", "C06.15: core.parseV2Header not found")
			return
		}
		// the phi that is 4 or 6: its 6-edge lies behind flags & M != 0
		n := 0
		instrs(fn, func(in ssa.Instruction) {
			phi, ok := in.(*ssa.Phi)
			if !ok {
				return
			}
			consts := map[int64]*ssa.BasicBlock{}
			for i2, e := range phi.Edges {
				if e == ssa.Value(phi) {
					continue
				}
				k, isK := constInt(e)
				if !isK {
					return
				}
				consts[k] = phi.Block().Preds[i2]
			}
			if len(consts) != 2 || consts[4] == nil || consts[6] == nil {
				return
			}
			// the test that sends control to the block carrying 6
			six := consts[6]
			for x := six; x != nil; x = x.Idom() {
				ifi, isIf := x.Instrs[len(x.Instrs)-1].(*ssa.If)
				if !isIf || !(x.Succs[0] == six || x.Succs[0].Dominates(six)) || x == six {
					continue
				}
				cmp, isC := ifi.Cond.(*ssa.BinOp)
				if !isC {
					break
				}
				and, isA := stripConv(cmp.X).(*ssa.BinOp)
				if !isA || and.Op != token.AND {
					break
				}
				m, isM := constInt(and.Y)
				if !isM {
					break
				}
				n++
				r.Check(m == 0x04, "C06.15", c.Name(fn)+"#six-byte-message-header-under-bit-2", c.InstrPos(and), fmt.Sprintf("the message header length is chosen by flags & %#x", m))
				break
			}
		})
		if n == 0 {
			r.Undec("C06.15", c.Name(fn)+"#six-byte-message-header-under-bit-2", c.Pos(fn.Pos()), "the choice between 4 and 6 bytes was not recognised")
		}
	})
}

// ---- a serializer fills the buffer it made (C11.16) ----
//
// buf := make([]byte, S); fields are put at increasing offsets; the buffer is written or returned. Where the end of the last
// field (offset + width of the write that no other write follows) and S are both linear forms over the same symbols, they are
// equal, or differ by the 4 bytes of a checksum that is stored by a later statement: a cursor advance that was dropped or doubled
// shifts every later field and shows as a constant difference.
func serializerFillsBufferRule(c *Ctx, r *Result, rule string, floor int) {
	n := 0
	for _, fn := range c.LibFuncs() {
		pk := shortPkg(fnPkgPath(fn))
		if fn.Blocks == nil || (pk != "core" && pk != "structures" && pk != "hdf5" && pk != "writer") {
			continue
		}
		// one byte buffer made here, no loops touching it
		var mk *ssa.MakeSlice
		cnt := 0
		instrs(fn, func(in ssa.Instruction) {
			if m, ok := in.(*ssa.MakeSlice); ok {
				if sl, isSl := m.Type().Underlying().(*types.Slice); isSl {
					if b, isB := sl.Elem().Underlying().(*types.Basic); isB && b.Kind() == types.Uint8 {
						mk = m
						cnt++
					}
				}
			}
		})
		if cnt != 1 {
			continue
		}
		hasLoop := false
		for _, b := range fn.Blocks {
			for _, p := range b.Preds {
				if b.Dominates(p) {
					hasLoop = true
				}
			}
		}
		if hasLoop {
			continue
		}
		fb := c.FB(fn)
		S := fb.lin(mk.Len)
		// all writes into the buffer: (low, width)
		type wr struct {
			end Lin
			in  ssa.Instruction
		}
		var writes []wr
		instrs(fn, func(in ssa.Instruction) {
			switch x := in.(type) {
			case *ssa.Call:
				com := x.Common()
				name := ""
				if com.IsInvoke() {
					name = com.Method.Name()
				} else if f := com.StaticCallee(); f != nil {
					name = f.Name()
				}
				var dst ssa.Value
				var width Lin
				ok := false
				switch {
				case strings.HasPrefix(name, "PutUint") && len(com.Args) >= 2:
					dst = com.Args[len(com.Args)-2]
					switch {
					case strings.HasSuffix(name, "16"):
						width, ok = linConst(2), true
					case strings.HasSuffix(name, "32"):
						width, ok = linConst(4), true
					case strings.HasSuffix(name, "64"):
						width, ok = linConst(8), true
					}
				default:
					if b, isB := com.Value.(*ssa.Builtin); isB && b.Name() == "copy" {
						dst = com.Args[0]
						width, ok = fb.lenLin(com.Args[1]), true
					} else if g := com.StaticCallee(); g != nil && inModule(fnPkgPath(g)) && len(com.Args) >= 3 && isIntType(com.Args[2].Type()) {
						if _, isSl := com.Args[0].(*ssa.Slice); isSl {
							dst = com.Args[0]
							width, ok = fb.lin(com.Args[2]), true
						}
					}
				}
				if !ok || dst == nil {
					return
				}
				sl, isSl := dst.(*ssa.Slice)
				if !isSl || stripSlices(sl) != ssa.Value(mk) {
					return
				}
				lo := linConst(0)
				if sl.Low != nil {
					lo = fb.lin(sl.Low)
				}
				writes = append(writes, wr{lo.add(width, 1), in})
			case *ssa.Store:
				if ia, isIA := x.Addr.(*ssa.IndexAddr); isIA && stripSlices(ia.X) == ssa.Value(mk) {
					writes = append(writes, wr{fb.lin(ia.Index).add(linConst(1), 1), in})
				}
			}
		})
		if len(writes) < 3 {
			continue
		}
		// the furthest end among the writes: all ends comparable with it
		last := writes[0]
		comparable := true
		for _, w := range writes[1:] {
			d := w.end.add(last.end, -1)
			if !d.isConst() {
				// symbolic: larger if all coefficients of the difference are >= 0
				pos, neg := true, true
				for _, coef := range d.T {
					if coef < 0 {
						pos = false
					}
					if coef > 0 {
						neg = false
					}
				}
				if pos && d.C >= 0 {
					last = w
				} else if !(neg && d.C <= 0) {
					comparable = false
				}
				continue
			}
			if d.C > 0 {
				last = w
			}
		}
		if !comparable {
			continue
		}
		d := S.add(last.end, -1)
		if !d.isConst() {
			continue
		}
		n++
		r.Check(d.C == 0, rule, c.Name(fn)+"#last-field-ends-at-the-end-of-the-buffer", c.InstrPos(last.in), fmt.Sprintf("buffer of %s bytes; the last field ends at %s (difference %d)", fb.linString(S), fb.linString(last.end), d.C))
	}
	if n < floor {
		r.Shortfall(c, rule, fmt.Sprintf("%s: only %d loop-free serializers with a decidable end found (expected >= %d)", rule, n, floor))
	}
}

func init() {
	registry["C11"].Meta.Rules["C11.16"] = "a serializer fills the buffer it made: in every loop-free function that makes one byte buffer and puts at least three fields into it, the end of the furthest field and the buffer's length - where both are linear forms over the same symbols - are equal (a dropped or doubled cursor advance shifts the later fields and shows as a constant difference)"
	registry["C11"].Rules = append(registry["C11"].Rules, func(c *Ctx, r *Result) { serializerFillsBufferRule(c, r, "C11.16", 3) })
}

// ---- a decode width is selected by equality (C11.18 / C06.16) ----
//
// if size == 4 { v = Uint32(..) } else { v = Uint64(..) }: the branch that decodes k bytes is taken when the stored size IS k.
// With size >= 4 an 8-byte field is read through the 4-byte branch and loses its upper half (H5S_UNLIMITED becomes 2^32-1).
func widthDispatchRule(c *Ctx, r *Result, rule string, floor int) {
	n := 0
	for _, fn := range c.LibFuncs() {
		if fn.Blocks == nil {
			continue
		}
		k2 := 0
		for _, b := range fn.Blocks {
			ifi, ok := b.Instrs[len(b.Instrs)-1].(*ssa.If)
			if !ok {
				continue
			}
			cmp, ok := ifi.Cond.(*ssa.BinOp)
			if !ok {
				continue
			}
			k, isK := constInt(cmp.Y)
			if !isK || (k != 1 && k != 2 && k != 4 && k != 8) {
				continue
			}
			switch cmp.Op {
			case token.EQL, token.GEQ, token.GTR, token.LEQ, token.LSS:
			default:
				continue
			}
			// a test of the number of bytes available (len(data) >= 4) is a bounds guard, not a width selector
			if lc, isCall := stripConv(cmp.X).(*ssa.Call); isCall {
				if bl, isB := lc.Call.Value.(*ssa.Builtin); isB && (bl.Name() == "len" || bl.Name() == "cap") {
					continue
				}
			}
			// the true arm decodes exactly k bytes
			decodes := false
			for _, in := range b.Succs[0].Instrs {
				call, isCall := in.(*ssa.Call)
				if !isCall {
					continue
				}
				name := ""
				if call.Call.IsInvoke() {
					name = call.Call.Method.Name()
				} else if f := call.Call.StaticCallee(); f != nil {
					name = f.Name()
				}
				if (name == "Uint16" && k == 2) || (name == "Uint32" && k == 4) || (name == "Uint64" && k == 8) {
					decodes = true
				}
			}
			if !decodes {
				continue
			}
			n++
			k2++
			r.Check(cmp.Op == token.EQL, rule, fmt.Sprintf("%s#width-%d-arm-%d", c.Name(fn), k, k2), c.InstrPos(cmp), fmt.Sprintf("the arm that decodes %d bytes is selected by size == %d", k, k))
		}
	}
	if n < floor {
		r.Shortfall(c, rule, fmt.Sprintf("%s: only %d width-selected decode arms found (expected >= %d)", rule, n, floor))
	}
}

func init() {
	txt := "a decode width is selected by equality: where a branch on `size OP k` (k = 1, 2, 4, 8) leads to an arm that decodes exactly k bytes (UintN with N = 8k), OP is == (with >= an 8-byte maximum dimension is read through the 4-byte arm: H5S_UNLIMITED comes back as 2^32-1)"
	registry["C11"].Meta.Rules["C11.18"] = txt
	registry["C11"].Rules = append(registry["C11"].Rules, func(c *Ctx, r *Result) { widthDispatchRule(c, r, "C11.18", 4) })
	registry["C06"].Meta.Rules["C06.16"] = txt + " (shared with C11.18)"
	registry["C06"].Rules = append(registry["C06"].Rules, func(c *Ctx, r *Result) { widthDispatchRule(c, r, "C06.16", 4) })
	registry["C11"].Meta.Rules["C11.17"] = registry["C06"].Meta.Rules["C06.10"] + " (shared with C06.10: the message the library's own version 0 root header ends with is such a record)"
	registry["C11"].Rules = append(registry["C11"].Rules, func(c *Ctx, r *Result) { exactFitRule(c, r, "C11.17", 2) })
}

// ---- a length test is not one byte stricter than the access it guards (C16.10 / C06.17) ----
func strictFitEverywhereRule(c *Ctx, r *Result, rule string, sel func(*ssa.Function) bool, floor int) {
	n, bad := 0, 0
	for _, fn := range c.LibFuncs() {
		if fn.Blocks == nil || !sel(fn) {
			continue
		}
		n++
		for _, f := range c.strictFitGuardsGeneral(fn) {
			// fixed-size records only: the bound is a constant (len(msg.Data) > 4 before msg.Data[0:4]); a bound that is a cursor
			// also guards the element read at the cursor and is a different idiom
			var k int64
			if _, err := fmt.Sscanf(f.E, "+%d", &k); err != nil || fmt.Sprintf("+%d", k) != f.E {
				continue
			}
			bad++
			r.Viol(rule, fmt.Sprintf("%s#strict-fit-test-%d", c.Name(fn), bad), f.Pos, "the test admits only buffers longer than "+f.E+" bytes while the accesses it guards end exactly at "+f.E+": the case in which the data fills the buffer to its last byte is refused or skipped")
		}
	}
	if bad == 0 {
		r.Hold(rule, "module#length-tests-accept-the-exact-fit", "", fmt.Sprintf("%d functions examined; no strict length test guards accesses that end exactly at its bound", n))
	}
	if n < floor {
		r.Shortfall(c, rule, fmt.Sprintf("%s: only %d functions examined", rule, n))
	}
}

func init() {
	txt := "a length test is not one byte stricter than the access it guards: no edge that establishes len(X) > k for a constant k (in any spelling) guards only accesses X[..:k] that end exactly at k - the case in which the data fills the buffer to its last byte would be refused or passed over (a 4-byte reference-count message tested with len > 4 is never updated: the rollback of a rejected hard link leaves the count at 2)"
	registry["C16"].Meta.Rules["C16.10"] = txt
	registry["C16"].Rules = append(registry["C16"].Rules, func(c *Ctx, r *Result) {
		strictFitEverywhereRule(c, r, "C16.10", func(f *ssa.Function) bool { return true }, 100)
	})
}

// ---- a search result is tested before it is used as a position (C16.11) ----
//
// idx := -1; for i, m := range ms { if match { idx = i; break } }; if idx == -1 { return notFound }; use ms[:idx]. The variable
// that starts at -1 is a position only after the -1 was excluded. Every use of such a variable as an index or slice bound is
// proven >= 0 from the dominating tests (== -1, != -1, < 0, >= 0 all do; < -1 does not).
func sentinelIndexRule(c *Ctx, r *Result, rule string, floor int) {
	n := 0
	for _, fn := range c.LibFuncs() {
		if fn.Blocks == nil {
			continue
		}
		var fb *FB
		k := 0
		instrs(fn, func(in ssa.Instruction) {
			phi, ok := in.(*ssa.Phi)
			if !ok || !isIntType(phi.Type()) {
				return
			}
			hasMinus1 := false
			for _, e := range phi.Edges {
				if v, isK := constInt(e); isK && v == -1 {
					hasMinus1 = true
				}
			}
			if !hasMinus1 {
				return
			}
			// uses as a position
			var uses []ssa.Instruction
			var walk func(v ssa.Value, d int)
			seen := map[ssa.Value]bool{}
			walk = func(v ssa.Value, d int) {
				if seen[v] || d > 4 {
					return
				}
				seen[v] = true
				for _, ref := range *v.Referrers() {
					switch x := ref.(type) {
					case *ssa.IndexAddr:
						if x.Index == v {
							uses = append(uses, x)
						}
					case *ssa.Index:
						if x.Index == v {
							uses = append(uses, x)
						}
					case *ssa.Slice:
						if x.Low == v || x.High == v {
							uses = append(uses, x)
						}
					case *ssa.Convert:
						walk(x, d+1)
					case *ssa.Phi:
						// another merge: its own uses are judged when that phi is visited
					}
				}
			}
			walk(phi, 0)
			if len(uses) == 0 {
				return
			}
			if fb == nil {
				fb = c.FB(fn)
			}
			for _, u := range uses {
				n++
				k++
				ok := fb.ProveGE0At(fb.lin(phi), u)
				if !ok {
					// excluded by an equality test: the use lies behind the edge phi != -1 and the variable never is below -1
					if lo, _ := fb.rng(phi); lo >= -1 && behindNotMinusOne(fn, phi, u) {
						ok = true
					}
				}
				r.Check(ok, rule, fmt.Sprintf("%s#search-result-used-as-position-%d", c.Name(fn), k), c.InstrPos(u), "the variable starts at -1 (nothing found); where it is used as an index or slice bound the dominating tests exclude -1")
			}
		})
	}
	if n < floor {
		r.Shortfall(c, rule, fmt.Sprintf("%s: only %d uses of -1-initialised search results as positions found (expected >= %d)", rule, n, floor))
	}
}

func init() {
	registry["C16"].Meta.Rules["C16.11"] = "a search result is tested before it is used as a position: a variable that starts at -1 and is set by a search is used as an index or slice bound only where the dominating tests exclude -1 (== -1, < 0 with an exit, >= 0; with `< -1` the not-found case reaches ms[:idx] and the call panics instead of reporting that the attribute does not exist)"
	registry["C16"].Rules = append(registry["C16"].Rules, func(c *Ctx, r *Result) { sentinelIndexRule(c, r, "C16.11", 2) })
}

func init() {
	// shares after round 8
	registry["C01"].Meta.Rules["C01.18"] = registry["C03"].Meta.Rules["C03.15"] + " (shared with C03.15: the dataset whose one-character name is overwritten is no longer found at its path)"
	registry["C01"].Rules = append(registry["C01"].Rules, func(c *Ctx, r *Result) { backwardScanRule(c, r, "C01.18", nil, 3) })
	registry["C05"].Meta.Rules["C05.18"] = registry["C03"].Meta.Rules["C03.19"] + " (shared with C03.19)"
	registry["C05"].Rules = append(registry["C05"].Rules, func(c *Ctx, r *Result) { lengthPrefixRule(c, r, "C05.18", nil, 1) })
}

func init() {
	registry["C05"].Meta.Rules["C05.19"] = registry["C13"].Meta.Rules["C13.6"] + "; the message that receives the copy is selected by equality tests on its version and class bytes (shared with C13.6)"
	registry["C05"].Rules = append(registry["C05"].Rules, func(c *Ctx, r *Result) { aliasRule(c, r, "C13", c13cachedHeader, "C13.6", "C05.19") })
	registry["C05"].Meta.Rules["C05.20"] = registry["C11"].Meta.Rules["C11.15"] + " (shared with C11.15)"
	registry["C05"].Rules = append(registry["C05"].Rules, func(c *Ctx, r *Result) {
		total := 0
		for _, p := range layoutPairs {
			if c.FnOpt(p[1]) == nil || c.FnOpt(p[2]) == nil {
				continue
			}
			total += layoutAgreementRule(c, r, "C05.20", p[0], p[1], p[2])
		}
		if total < 6 {
			r.Shortfall(c, "C05.20", fmt.Sprintf("C05.20: only %d fields compared over all pairs", total))
		}
	})
}

// ---- a row-major offset multiplies by the extent of the faster dimension (C09.16 / C01.19) ----
//
// linear = x*dims[k] + y, where x is a coordinate of dimension a (a sum over Start[a]) and y a coordinate of dimension b: k = b,
// the dimension whose coordinate is added, not a. (row*dims[0] + col reads other elements of the same dataset whenever the
// dataset is not square.)
func rowMajorMultiplierRule(c *Ctx, r *Result, rule string, floor int) {
	n := 0
	for _, fn := range c.LibFuncs() {
		if shortPkg(fnPkgPath(fn)) != "hdf5" || fn.Blocks == nil {
			continue
		}
		dimOf := func(v ssa.Value) (string, bool) {
			// the coordinate's dimension: the index of the Start element in its sum
			var found string
			var walk func(v ssa.Value, d int)
			walk = func(v ssa.Value, d int) {
				if d > 6 || found != "" {
					return
				}
				if ref, ok := selFieldRef(v); ok && ref.field == "Start" {
					found = ref.idx
					return
				}
				if bo, ok := stripConv(v).(*ssa.BinOp); ok && (bo.Op == token.ADD || bo.Op == token.SUB) {
					walk(bo.X, d+1)
					walk(bo.Y, d+1)
				}
			}
			walk(v, 0)
			return found, found != ""
		}
		k := 0
		instrs(fn, func(in ssa.Instruction) {
			add, ok := in.(*ssa.BinOp)
			if !ok || add.Op != token.ADD {
				return
			}
			for _, pair := range [][2]ssa.Value{{add.X, add.Y}, {add.Y, add.X}} {
				mul, isMul := stripConv(pair[0]).(*ssa.BinOp)
				if !isMul || mul.Op != token.MUL {
					continue
				}
				dy, okY := dimOf(pair[1])
				if !okY {
					continue
				}
				for _, f := range [][2]ssa.Value{{mul.X, mul.Y}, {mul.Y, mul.X}} {
					if _, okX := dimOf(f[0]); !okX {
						continue
					}
					// the other factor: an element of a dims-like sequence with a constant index
					u, isU := stripConv(f[1]).(*ssa.UnOp)
					if !isU || u.Op != token.MUL {
						continue
					}
					ia, isIA := u.X.(*ssa.IndexAddr)
					if !isIA {
						continue
					}
					kk, isK := constInt(ia.Index)
					if !isK {
						continue
					}
					n++
					k++
					r.Check(fmt.Sprint(kk) == dy, rule, fmt.Sprintf("%s#row-major-offset-%d", c.Name(fn), k), c.InstrPos(add), fmt.Sprintf("the coordinate of dimension %s is added to a coordinate multiplied by the extent of dimension %d", dy, kk))
				}
			}
		})
	}
	if n < floor {
		r.Shortfall(c, rule, fmt.Sprintf("%s: only %d row-major offsets over selection coordinates found (expected >= %d)", rule, n, floor))
	}
}

func init() {
	txt := "a row-major offset multiplies by the extent of the faster dimension: in x*dims[k] + y over two selection coordinates, k is the dimension of y (row*dims[0] + col instead of row*dims[1] + col reads other elements whenever the dataset is not square)"
	registry["C09"].Meta.Rules["C09.16"] = txt
	registry["C09"].Rules = append(registry["C09"].Rules, func(c *Ctx, r *Result) { rowMajorMultiplierRule(c, r, "C09.16", 1) })
	registry["C01"].Meta.Rules["C01.19"] = txt + " (shared with C09.16)"
	registry["C01"].Rules = append(registry["C01"].Rules, func(c *Ctx, r *Result) { rowMajorMultiplierRule(c, r, "C01.19", 1) })
	registry["C01"].Meta.Rules["C01.20"] = registry["C11"].Meta.Rules["C11.15"] + " (shared with C11.15: a two-byte entry count of the chunk index read as one byte loses every chunk beyond 255)"
	registry["C01"].Rules = append(registry["C01"].Rules, func(c *Ctx, r *Result) {
		total := 0
		for _, p := range layoutPairs {
			if c.FnOpt(p[1]) == nil || c.FnOpt(p[2]) == nil {
				continue
			}
			total += layoutAgreementRule(c, r, "C01.20", p[0], p[1], p[2])
		}
		if total < 6 {
			r.Shortfall(c, "C01.20", fmt.Sprintf("C01.20: only %d fields compared over all pairs", total))
		}
	})
}

// ---- a clamp assigns the bound it tested (C09.17) ----
//
// if x > B { x = B }: what is assigned in the arm is the bound of the test. x = B - 1 after x > B (an exclusive end clamped as
// if it were inclusive) silently cuts the last index off every boundary chunk; x = B + 1 lets it through.
func clampRule(c *Ctx, r *Result, rule string, floor int) {
	n := 0
	sameAddr := func(a, b ssa.Value) bool {
		if a == b {
			return true
		}
		ia, ok1 := a.(*ssa.IndexAddr)
		ib, ok2 := b.(*ssa.IndexAddr)
		if ok1 && ok2 {
			return ia.X == ib.X && ia.Index == ib.Index
		}
		fa, ok3 := a.(*ssa.FieldAddr)
		fbb, ok4 := b.(*ssa.FieldAddr)
		if ok3 && ok4 {
			return fa.X == fbb.X && fa.Field == fbb.Field
		}
		return false
	}
	for _, fn := range c.LibFuncs() {
		if fn.Blocks == nil {
			continue
		}
		var fb *FB
		k := 0
		for _, b := range fn.Blocks {
			ifi, ok := b.Instrs[len(b.Instrs)-1].(*ssa.If)
			if !ok {
				continue
			}
			cmp, ok := ifi.Cond.(*ssa.BinOp)
			if !ok {
				continue
			}
			var x, bound ssa.Value
			switch cmp.Op {
			case token.GTR, token.GEQ:
				x, bound = cmp.X, cmp.Y
			case token.LSS, token.LEQ:
				x, bound = cmp.Y, cmp.X
			default:
				continue
			}
			ld, isLd := isLoad(stripConv(x))
			arm := b.Succs[0]
			var assigned ssa.Value
			var at ssa.Instruction
			if isLd {
				for _, in := range arm.Instrs {
					if st, isSt := in.(*ssa.Store); isSt && sameAddr(st.Addr, ld.X) {
						assigned, at = st.Val, st
					}
				}
			}
			if assigned == nil {
				// phi form: join block merges x (from the test block) and the clamped value (from the arm)
				if len(arm.Succs) == 1 && len(arm.Instrs) <= 3 {
					join := arm.Succs[0]
					for _, in := range join.Instrs {
						phi, isPhi := in.(*ssa.Phi)
						if !isPhi || len(phi.Edges) != 2 {
							continue
						}
						var fromArm, fromTest ssa.Value
						for i, p := range join.Preds {
							if p == arm {
								fromArm = phi.Edges[i]
							} else if p == b {
								fromTest = phi.Edges[i]
							}
						}
						if fromArm != nil && fromTest == x {
							assigned, at = fromArm, phi
						}
					}
				}
			}
			if assigned == nil {
				continue
			}
			if fb == nil {
				fb = c.FB(fn)
			}
			d := fb.lin(assigned).add(fb.lin(bound), -1)
			if !d.isConst() || fb.lin(bound).isConst() {
				continue // against a constant limit the arm often substitutes a default (level > 9 -> 6)
			}
			n++
			k++
			r.Check(d.C == 0, rule, fmt.Sprintf("%s#clamp-%d", c.Name(fn), k), c.InstrPos(at), fmt.Sprintf("the value tested against %s is clamped to %s (difference %d)", fb.linString(fb.lin(bound)), fb.linString(fb.lin(assigned)), d.C))
		}
	}
	if n < floor {
		r.Shortfall(c, rule, fmt.Sprintf("%s: only %d clamps found (expected >= %d)", rule, n, floor))
	}
}

func init() {
	registry["C09"].Meta.Rules["C09.17"] = "a clamp assigns the bound it tested: where a branch on x > B (>=, or the mirrored forms) assigns x in its arm and the assigned value differs from B by a constant, that constant is 0 (chunkEnd = datasetDims - 1 after chunkEnd > datasetDims treats an exclusive end as inclusive: the last index of every boundary chunk reads as 0)"
	registry["C09"].Rules = append(registry["C09"].Rules, func(c *Ctx, r *Result) { clampRule(c, r, "C09.17", 5) })
}

// ---- a field that is read is written somewhere (C09.18) ----
//
// A field of an unexported struct of the root package that some function reads but no function ever stores to (no assignment,
// no composite literal that sets it) is always the zero value where it is read: the code that was to fill it was dropped
// (the filter pipeline message of the partial-read path: chunks are then taken as they lie in the file, still compressed).
func readButNeverWrittenRule(c *Ctx, r *Result, rule string, pkgs map[string]bool, floor int) {
	written := map[*types.Var]bool{}
	read := map[*types.Var]string{}
	for _, fn := range c.LibFuncs() {
		if fn.Blocks == nil {
			continue
		}
		instrs(fn, func(in ssa.Instruction) {
			switch x := in.(type) {
			case *ssa.Store:
				if fa, ok := x.Addr.(*ssa.FieldAddr); ok {
					if f, _ := fieldOfAddr(fa); f != nil {
						written[f] = true
					}
				}
			case *ssa.FieldAddr:
				f, _ := fieldOfAddr(x)
				if f == nil {
					return
				}
				for _, ref := range *x.Referrers() {
					switch y := ref.(type) {
					case *ssa.UnOp:
						if y.Op == token.MUL {
							if _, seen := read[f]; !seen {
								read[f] = c.InstrPos(y)
							}
						}
					case *ssa.Store:
						if y.Addr != ssa.Value(x) {
							written[f] = true // its address escapes
						}
					default:
						written[f] = true // address taken / passed on: may be written through it
					}
				}
			case *ssa.Field:
				if st, ok := x.X.Type().Underlying().(*types.Struct); ok {
					f := st.Field(x.Field)
					if _, seen := read[f]; !seen {
						read[f] = c.InstrPos(x)
					}
				}
			}
		})
	}
	n := 0
	var fields []*types.Var
	for f := range read {
		fields = append(fields, f)
	}
	sort.Slice(fields, func(i, j int) bool { return read[fields[i]] < read[fields[j]] })
	for _, f := range fields {
		if f.Pkg() == nil || !pkgs[f.Pkg().Name()] || f.Embedded() {
			continue
		}
		// the struct it belongs to must be unexported and declared in the module (nobody outside can fill it)
		owner := ""
		if scope := f.Pkg().Scope(); scope != nil {
			for _, name := range scope.Names() {
				tn, ok := scope.Lookup(name).(*types.TypeName)
				if !ok {
					continue
				}
				st, ok := tn.Type().Underlying().(*types.Struct)
				if !ok {
					continue
				}
				for i := 0; i < st.NumFields(); i++ {
					if st.Field(i) == f {
						owner = name
					}
				}
			}
		}
		if owner == "" || token.IsExported(owner) {
			continue
		}
		n++
		r.Check(written[f], rule, f.Pkg().Name()+"."+owner+"."+f.Name()+"#read-and-written", read[f], "the field is read here; some function stores to it or sets it in a literal")
	}
	if n < floor {
		r.Shortfall(c, rule, fmt.Sprintf("%s: only %d fields of unexported structs examined (expected >= %d)", rule, n, floor))
	}
}

func init() {
	registry["C09"].Meta.Rules["C09.18"] = "a field that is read is written somewhere: every field of an unexported struct of the root package that a function loads is stored to by some function or set in a composite literal (with the `case MsgFilterPipeline` of the partial-read message scan dropped, hyperslabMessages.filterPipeline is always nil where it is read and chunks are decoded as they lie in the file, still compressed)"
	registry["C09"].Rules = append(registry["C09"].Rules, func(c *Ctx, r *Result) { readButNeverWrittenRule(c, r, "C09.18", map[string]bool{"hdf5": true}, 20) })
}

// ---- a function that is given a byte order uses it (C11.19) ----
//
// Where a function has a binary.ByteOrder parameter and decodes or encodes integers, it does so through that parameter for every
// width: a PutUintN / UintN called on the package's LittleEndian or BigEndian inside such a function ignores the caller's choice
// for one width (4-byte fields of a big-endian file come out byte-swapped, all others are right).
func byteOrderParamRule(c *Ctx, r *Result, rule string, floor int) {
	n := 0
	for _, fn := range c.LibFuncs() {
		if fn.Blocks == nil {
			continue
		}
		var order *ssa.Parameter
		for _, p := range fn.Params {
			if strings.HasSuffix(p.Type().String(), "encoding/binary.ByteOrder") {
				order = p
			}
		}
		if order == nil {
			continue
		}
		viaParam, fixed := 0, ""
		for _, site := range callsIn(fn) {
			com := site.Common()
			if com.IsInvoke() {
				if com.Value == ssa.Value(order) && (strings.HasPrefix(com.Method.Name(), "PutUint") || strings.HasPrefix(com.Method.Name(), "Uint")) {
					viaParam++
				}
				continue
			}
			if f := com.StaticCallee(); f != nil && strings.HasPrefix(f.String(), "(encoding/binary.") && (strings.HasPrefix(f.Name(), "PutUint") || strings.HasPrefix(f.Name(), "Uint")) {
				fixed = c.InstrPos(site.(ssa.Instruction))
			}
		}
		if viaParam == 0 && !(fixed != "" && len(*order.Referrers()) == 0) {
			continue // the parameter is only passed on
		}
		// (a byte order parameter that nothing uses, next to an access in a fixed order, is the one-access form of the same slip)
		n++
		r.Check(fixed == "", rule, c.Name(fn)+"#integers-in-the-caller's-byte-order", firstNonEmpty(fixed, c.Pos(fn.Pos())), fmt.Sprintf("%d integer accesses through the byte order parameter; none through a fixed byte order", viaParam))
	}
	if n < floor {
		r.Shortfall(c, rule, fmt.Sprintf("%s: only %d functions that use a byte order parameter (expected >= %d)", rule, n, floor))
	}
}

func init() {
	registry["C11"].Meta.Rules["C11.19"] = "a function that is given a byte order uses it for every width: in a function with a binary.ByteOrder parameter through which integers are read or written, no integer access goes through the package's LittleEndian / BigEndian (writeUint64's 4-byte case on binary.LittleEndian byte-swaps the 4-byte addresses and sizes of a big-endian file)"
	registry["C11"].Rules = append(registry["C11"].Rules, func(c *Ctx, r *Result) { byteOrderParamRule(c, r, "C11.19", 5) })
}

// ---- a sub-message is parsed from the bytes its size field declares (C11.20) ----
//
// if o + S > len(data) { error }; sub := Parse(data[o : o+S]): the size S decoded from the enclosing message bounds what the
// sub-parser sees. An open-ended data[o:] behind the same test hands it the rest of the message as well: the datatype's properties
// then swallow the dataspace and the value that follow, and re-encoding what was decoded is no longer the identity.
func declaredExtentRule(c *Ctx, r *Result, rule string, floor int) {
	n := 0
	for _, fn := range c.LibFuncs() {
		if fn.Blocks == nil {
			continue
		}
		k := 0
		for _, site := range callsIn(fn) {
			g := site.Common().StaticCallee()
			if g == nil || !inModule(fnPkgPath(g)) || !(strings.HasPrefix(g.Name(), "Parse") || strings.HasPrefix(g.Name(), "parse")) {
				continue
			}
			for _, a := range site.Common().Args {
				sl, ok := a.(*ssa.Slice)
				if !ok || sl.Low == nil {
					continue
				}
				if _, isP := sl.X.(*ssa.Parameter); !isP {
					continue
				}
				// a dominating test of Low + S against len(X) with a non-constant S
				var S ssa.Value
				for _, b := range fn.Blocks {
					ifi, isIf := b.Instrs[len(b.Instrs)-1].(*ssa.If)
					if !isIf {
						continue
					}
					cmp, isC := ifi.Cond.(*ssa.BinOp)
					if !isC {
						continue
					}
					for _, pair := range [][2]ssa.Value{{cmp.X, cmp.Y}, {cmp.Y, cmp.X}} {
						add, isAdd := stripConv(pair[0]).(*ssa.BinOp)
						if !isAdd || add.Op != token.ADD || lenOperand(pair[1]) != sl.X {
							continue
						}
						var other ssa.Value
						if add.X == sl.Low {
							other = add.Y
						} else if add.Y == sl.Low {
							other = add.X
						}
						if other == nil {
							continue
						}
						if _, isK := other.(*ssa.Const); isK {
							continue
						}
						if b.Dominates(site.(ssa.Instruction).Block()) {
							S = other
						}
					}
				}
				if S == nil {
					continue
				}
				n++
				k++
				r.Check(sl.High != nil, rule, fmt.Sprintf("%s#%s#sub-message-bounded-by-its-declared-size-%d", c.Name(fn), g.Name(), k), c.InstrPos(site.(ssa.Instruction)), "the slice handed to "+g.Name()+" ends where the tested extent ends (an open-ended slice gives the sub-parser the rest of the enclosing message as well)")
			}
		}
	}
	if n < floor {
		r.Shortfall(c, rule, fmt.Sprintf("%s: only %d sub-message parses behind an extent test found (expected >= %d)", rule, n, floor))
	}
}

func init() {
	registry["C11"].Meta.Rules["C11.20"] = "a sub-message is parsed from the bytes its size field declares: where a test of o + S against len(data) (S not a constant) stands before Parse*(data[o:...]), the slice is closed at its upper end (with data[o:] the datatype parser of an attribute message also takes the dataspace and the value as properties: decoding and re-encoding an opaque or variable-length attribute grows it on every cycle)"
	registry["C11"].Rules = append(registry["C11"].Rules, func(c *Ctx, r *Result) { declaredExtentRule(c, r, "C11.20", 2) })
}

func init() {
	registry["C15"].Meta.Rules["C15.17"] = "the heap's blocks are parsed as they are serialized: offset and width of every named field agree between writeDirectBlockAt / the indirect block writer and their parsers (C11.15 on the heap's pairs: a cursor advanced by the length size instead of the offset size after the heap header address shifts every object by 4 bytes in a file with 4-byte offsets)"
	registry["C15"].Rules = append(registry["C15"].Rules, func(c *Ctx, r *Result) {
		total := 0
		for _, p := range layoutPairs {
			if !strings.Contains(p[0], "fractal heap") || c.FnOpt(p[1]) == nil || c.FnOpt(p[2]) == nil {
				continue
			}
			total += layoutAgreementRule(c, r, "C15.17", p[0], p[1], p[2])
		}
		if total < 3 {
			r.Shortfall(c, "C15.17", fmt.Sprintf("C15.17: only %d fields compared", total))
		}
	})

	registry["C15"].Meta.Rules["C15.18"] = "one notion of 'fits': every comparison of a block's free offset plus an object size with the block's capacity treats the exact fit as fitting - `<= capacity` where it asks whether the object fits, `> capacity` where it asks whether it does not (needsTransition with `<` sends a heap whose root block is filled exactly to an indirect root that cannot be loaded back)"
	registry["C15"].Rules = append(registry["C15"].Rules, func(c *Ctx, r *Result) {
		n := 0
		for _, fn := range c.LibFuncs() {
			if !strings.HasPrefix(c.Name(fn), "structures.WritableFractalHeap.") || fn.Blocks == nil {
				continue
			}
			k := 0
			instrs(fn, func(in ssa.Instruction) {
				cmp, ok := in.(*ssa.BinOp)
				if !ok {
					return
				}
				isCap := func(v ssa.Value) bool {
					call, isCall := stripConv(v).(*ssa.Call)
					if !isCall {
						return false
					}
					nm := c.calleeName(call)
					return strings.HasSuffix(nm, ".directBlockCapacity") || strings.HasSuffix(nm, ".blockCapacity")
				}
				isNeed := func(v ssa.Value) bool {
					add, isAdd := stripConv(v).(*ssa.BinOp)
					if !isAdd || add.Op != token.ADD {
						return false
					}
					kx, _ := fieldLoadKey(stripConv(add.X))
					ky, _ := fieldLoadKey(stripConv(add.Y))
					return strings.HasSuffix(kx, ".FreeOffset") || strings.HasSuffix(ky, ".FreeOffset")
				}
				op := cmp.Op
				switch {
				case isNeed(cmp.X) && isCap(cmp.Y):
				case isNeed(cmp.Y) && isCap(cmp.X):
					switch op {
					case token.LSS:
						op = token.GTR
					case token.GTR:
						op = token.LSS
					case token.LEQ:
						op = token.GEQ
					case token.GEQ:
						op = token.LEQ
					}
				default:
					return
				}
				if op != token.LSS && op != token.GTR && op != token.LEQ && op != token.GEQ {
					return
				}
				n++
				k++
				r.Check(op == token.LEQ || op == token.GTR, "C15.18", fmt.Sprintf("%s#exact-fit-fits-%d", c.Name(fn), k), c.InstrPos(cmp), "need "+op.String()+" capacity: the exact fit counts as fitting")
			})
		}
		if n < 3 {
			if c.FnOpt("structures.WritableFractalHeap.blockCapacity") == nil && c.FnOpt("structures.WritableFractalHeap.directBlockCapacity") == nil {
				// no notion of capacity at all (the tree before 23563ab): nothing to compare, and C15.16 reports what is wrong
				r.Undec("C15.18", "structures.WritableFractalHeap#fit-tests-against-the-block-capacity", "", "the heap has no capacity function")
			} else {
				r.Shortfall(c, "C15.18", fmt.Sprintf("C15.18: only %d fit tests found", n))
			}
		}
	})
}

// ---- the result of a search is tested against "not found", not against position 0 (C06.18) ----
//
// idx := bytes.IndexByte(data, 0): idx >= 0 (or != -1, > -1) means found. idx > 0 treats a hit at position 0 as a miss: a
// null-terminated string that is empty comes back as the whole padded field. Every comparison of an Index*/LastIndex* result with
// the constants 0 and -1 in the module is one of the found / not-found forms.
func searchResultTestRule(c *Ctx, r *Result, rule string, floor int) {
	n := 0
	for _, fn := range c.LibFuncs() {
		if fn.Blocks == nil {
			continue
		}
		k := 0
		instrs(fn, func(in ssa.Instruction) {
			call, ok := in.(*ssa.Call)
			if !ok {
				return
			}
			f := call.Call.StaticCallee()
			if f == nil || f.Pkg == nil || (f.Pkg.Pkg.Path() != "bytes" && f.Pkg.Pkg.Path() != "strings") || !(strings.HasPrefix(f.Name(), "Index") || strings.HasPrefix(f.Name(), "LastIndex")) {
				return
			}
			for _, ref := range *call.Referrers() {
				cmp, isC := ref.(*ssa.BinOp)
				if !isC {
					continue
				}
				var kk int64
				var isK bool
				op := cmp.Op
				if cmp.X == ssa.Value(call) {
					kk, isK = constInt(cmp.Y)
				} else {
					kk, isK = constInt(cmp.X)
					switch op {
					case token.LSS:
						op = token.GTR
					case token.GTR:
						op = token.LSS
					case token.LEQ:
						op = token.GEQ
					case token.GEQ:
						op = token.LEQ
					}
				}
				if !isK || (kk != 0 && kk != -1) {
					continue
				}
				switch op {
				case token.LSS, token.GTR, token.LEQ, token.GEQ, token.EQL, token.NEQ:
				default:
					continue
				}
				n++
				k++
				if kk == 0 && (op == token.EQL || op == token.NEQ) {
					continue // a test of the position itself (the separator is the first character)
				}
				good := (kk == 0 && (op == token.GEQ || op == token.LSS)) || (kk == -1 && (op == token.EQL || op == token.NEQ || op == token.GTR || op == token.LEQ))
				if !good && c.introducedAfterReview(fn) {
					// `> 0` can be meant (an empty prefix treated like "not found"); in reviewed code no such test exists, in new code it is not decided
					r.Undec(rule, fmt.Sprintf("%s#search-result-test-%d", c.Name(fn), k), c.InstrPos(cmp), fmt.Sprintf("the result of %s is compared with %s %d in a function introduced after the review", f.Name(), op.String(), kk))
					continue
				}
				r.Check(good, rule, fmt.Sprintf("%s#search-result-test-%d", c.Name(fn), k), c.InstrPos(cmp), fmt.Sprintf("the result of %s is compared with %s %d", f.Name(), op.String(), kk))
			}
		})
	}
	if n < floor {
		r.Shortfall(c, rule, fmt.Sprintf("%s: only %d tests of search results found (expected >= %d)", rule, n, floor))
	}
}

func init() {
	registry["C06"].Meta.Rules["C06.18"] = "the result of a search is tested against 'not found', not against position 0: every comparison of a bytes/strings Index* result with 0 or -1 is one of >= 0, < 0, == -1, != -1, > -1, <= -1 (idx > 0 after IndexByte(data, 0) returns the whole padded field for an empty null-terminated string)"
	registry["C06"].Rules = append(registry["C06"].Rules, func(c *Ctx, r *Result) { searchResultTestRule(c, r, "C06.18", 1) })
	registry["C06"].Meta.Rules["C06.19"] = registry["C09"].Meta.Rules["C09.8"] + " (shared with C09.8: the full-read assembler places chunks with the same stride tables)"
	registry["C06"].Rules = append(registry["C06"].Rules, func(c *Ctx, r *Result) { aliasRule(c, r, "C09", c09strides, "C09.8", "C06.19") })
}

// ---- a cursor is advanced, not redeclared (C11.21 / C06.20) ----
//
// offset := start + n inside a loop body or branch declares a new variable that hides the function's cursor of the same name
// and type; the cursor itself keeps its value, and whatever reads it after the block (the next iteration) starts from the old
// position. The rule reports a short variable declaration of an integer variable that shadows a variable of the same name and
// type declared in an enclosing scope of the same function, when the outer variable is used again after the inner scope ends.
func shadowedCursorRule(c *Ctx, r *Result, rule string, floor int) {
	n, bad := 0, 0
	for _, p := range c.Pkgs {
		if p.TypesInfo == nil || !libPackage(p.PkgPath) {
			continue
		}
		for _, file := range p.Syntax {
			if strings.HasSuffix(p.Fset.Position(file.Pos()).Filename, "_test.go") {
				continue
			}
			ast.Inspect(file, func(nd ast.Node) bool {
				as, ok := nd.(*ast.AssignStmt)
				if !ok || as.Tok != token.DEFINE {
					return true
				}
				for _, lhs := range as.Lhs {
					id, isId := lhs.(*ast.Ident)
					if !isId || id.Name == "_" {
						continue
					}
					obj, isDef := p.TypesInfo.Defs[id].(*types.Var)
					if !isDef || obj == nil {
						continue
					}
					bt, isB := obj.Type().Underlying().(*types.Basic)
					if !isB || bt.Info()&types.IsInteger == 0 {
						continue
					}
					inner := obj.Parent()
					if inner == nil || inner.Parent() == nil {
						continue
					}
					_, outerObj := inner.Parent().LookupParent(id.Name, id.Pos())
					outer, isVar := outerObj.(*types.Var)
					if !isVar || outer.Pkg() != obj.Pkg() || outer.Parent() == p.Types.Scope() || !types.Identical(outer.Type(), obj.Type()) {
						continue
					}
					n++
					// is the outer variable used after the inner scope ends?
					usedAfter := false
					for uid, uobj := range p.TypesInfo.Uses {
						if uobj == types.Object(outer) && uid.Pos() > inner.End() {
							usedAfter = true
						}
					}
					// ... or does the inner scope lie in a loop of the outer variable's scope (the next iteration reads it)?
					if !usedAfter {
						for uid, uobj := range p.TypesInfo.Uses {
							if uobj == types.Object(outer) && uid.Pos() < id.Pos() && uid.Pos() > outer.Pos() {
								usedAfter = usedAfter || insideLoopBetween(file, outer.Pos(), id.Pos())
							}
						}
					}
					if usedAfter {
						bad++
						r.Viol(rule, fmt.Sprintf("%s#shadowed-%s-%d", shortPkg(p.PkgPath), id.Name, bad), c.Pos(id.Pos()), "`"+id.Name+" :=` declares a new variable that hides the "+id.Name+" declared at "+c.Pos(outer.Pos())+", which is read again afterwards with its old value")
					}
				}
				return true
			})
		}
	}
	if bad == 0 {
		r.Hold(rule, "module#no-shadowed-integer-variable-that-is-read-again", "", fmt.Sprintf("%d short declarations of integer variables that shadow an outer one examined", n))
	}
	_ = floor
}

// insideLoopBetween: some for statement encloses pos and starts after from (the redeclaration sits in a loop body inside the
// outer variable's scope).
func insideLoopBetween(file *ast.File, from, pos token.Pos) bool {
	found := false
	ast.Inspect(file, func(nd ast.Node) bool {
		switch x := nd.(type) {
		case *ast.ForStmt:
			if x.Pos() > from && x.Pos() < pos && x.End() > pos {
				found = true
			}
		case *ast.RangeStmt:
			if x.Pos() > from && x.Pos() < pos && x.End() > pos {
				found = true
			}
		}
		return true
	})
	return found
}

func init() {
	txt := "a cursor is advanced, not redeclared: no short variable declaration of an integer variable shadows a variable of the same name and type of an enclosing scope of the same function that is read again after the inner scope ends or in the next iteration of an enclosing loop (`offset := nameStart + pad` inside the member loop of the compound parser leaves the real cursor where it was: every member is parsed from the first member's bytes)"
	registry["C11"].Meta.Rules["C11.21"] = txt
	registry["C11"].Rules = append(registry["C11"].Rules, func(c *Ctx, r *Result) { shadowedCursorRule(c, r, "C11.21", 0) })
	registry["C06"].Meta.Rules["C06.20"] = txt + " (shared with C11.21)"
	registry["C06"].Rules = append(registry["C06"].Rules, func(c *Ctx, r *Result) { shadowedCursorRule(c, r, "C06.20", 0) })
}

// ---- what is trimmed off the end was looked at (C06.21) ----
//
// s = s[:len(s)-1] on the read path drops the last byte of a decoded value. It is preceded, on every path, by a test of that
// byte (s[len(s)-1] == 0: a terminator, padding). Dropped unconditionally, every variable-length string loses its last character.
func tailTrimRule(c *Ctx, r *Result, rule string, floor int) {
	readers := c.readerSet(r)
	n := 0
	for fn := range readers {
		if fn.Blocks == nil {
			continue
		}
		var fb *FB
		k := 0
		instrs(fn, func(in ssa.Instruction) {
			sl, ok := in.(*ssa.Slice)
			if !ok || sl.High == nil || sl.Low != nil {
				return
			}
			switch t := sl.X.Type().Underlying().(type) {
			case *types.Basic:
				if t.Kind() != types.String {
					return
				}
			case *types.Slice:
				if b, isB := t.Elem().Underlying().(*types.Basic); !isB || b.Kind() != types.Uint8 {
					return
				}
			default:
				return
			}
			if fb == nil {
				fb = c.FB(fn)
			}
			d := fb.lenLin(sl.X).add(fb.lin(sl.High), -1)
			if !d.isConst() || d.C <= 0 || d.C > 8 {
				return
			}
			n++
			k++
			// a dominating test that reads an element of X at len(X)-j
			tested := false
			for _, b := range fn.Blocks {
				ifi, isIf := b.Instrs[len(b.Instrs)-1].(*ssa.If)
				if !isIf || !(edgeDominates(b, b.Succs[0], sl.Block()) || edgeDominates(b, b.Succs[1], sl.Block())) {
					continue
				}
				var reads func(v ssa.Value, depth int) bool
				reads = func(v ssa.Value, depth int) bool {
					if depth > 6 {
						return false
					}
					switch x := v.(type) {
					case *ssa.BinOp:
						return reads(x.X, depth+1) || reads(x.Y, depth+1)
					case *ssa.UnOp:
						if ia, isIA := x.X.(*ssa.IndexAddr); isIA && x.Op == token.MUL {
							return fb.canon(ia.X) == fb.canon(sl.X) || ia.X == sl.X
						}
						return reads(x.X, depth+1)
					case *ssa.Index:
						return x.X == sl.X
					case *ssa.Lookup:
						return x.X == sl.X
					case *ssa.Convert:
						return reads(x.X, depth+1)
					case *ssa.Phi:
						for _, e := range x.Edges {
							if reads(e, depth+1) {
								return true
							}
						}
					case *ssa.Call:
						for _, a := range x.Call.Args {
							if a == sl.X {
								return true // HasSuffix(s, ..), bytes.HasSuffix
							}
						}
					}
					return false
				}
				if reads(ifi.Cond, 0) {
					tested = true
				}
			}
			r.Check(tested, rule, fmt.Sprintf("%s#tail-trim-%d", c.Name(fn), k), c.InstrPos(sl), fmt.Sprintf("the last %d byte(s) are cut off behind a test that reads the value's own bytes", d.C))
		})
	}
	if n < floor {
		r.Shortfall(c, rule, fmt.Sprintf("%s: only %d tail trims found on the read path (expected >= %d)", rule, n, floor))
	}
}

func init() {
	registry["C06"].Meta.Rules["C06.21"] = "what is trimmed off the end was looked at: on the read path every reslice s[:len(s)-k] of a string or byte slice (k a small constant) is dominated by a test that reads s itself (the terminator or padding byte it removes); cut unconditionally, every variable-length string attribute loses its last character"
	registry["C06"].Rules = append(registry["C06"].Rules, func(c *Ctx, r *Result) { tailTrimRule(c, r, "C06.21", 2) })
}

// ---- round 8 shares for C10: what a later session rewrites is what the earlier one wrote ----
func init() {
	registry["C10"].Meta.Rules["C10.16"] = registry["C14"].Meta.Rules["C14.14"] + " (shared with C14.14: every dense attribute operation of a later session loads this header, changes it and writes it back; a field taken from another field's bytes alters bytes that the session did not modify)"
	registry["C10"].Rules = append(registry["C10"].Rules, func(c *Ctx, r *Result) {
		n := layoutAgreementRule(c, r, "C10.16", "B-tree v2 header", "structures.WritableBTreeV2.encodeHeader", "structures.readBTreeV2Header", "core.readBTreeV2HeaderRaw")
		if n < 8 {
			r.Shortfall(c, "C10.16", fmt.Sprintf("C10.16: only %d header fields compared", n))
		}
	})
	scope := func(n string) bool {
		for _, p := range []string{"core.ObjectHeaderWriter.", "core.WriteObjectHeader", "core.RewriteObjectHeader", "core.AddMessageToObjectHeader", "core.ModifyCompactAttribute", "hdf5.writeCompactAttribute", "hdf5.upsertAttributeMessage"} {
			if strings.HasPrefix(n, p) {
				return true
			}
		}
		return false
	}
	registry["C10"].Meta.Rules["C10.17"] = "an object header rewritten by a later session fits its size field: narrowing conversions in the header writer and the compact attribute upsert are proven to fit or frozen per function (C05.11 restricted to this code: a compact upsert that brings the header to exactly 256 bytes must be refused; written with size byte 0 the whole file no longer opens)"
	registry["C10"].Rules = append(registry["C10"].Rules, func(c *Ctx, r *Result) { narrowingRuleScoped(c, r, "C10.17", scope) })
}

// ---- a width selector decodes the width it selected (C14.19 / C11.22) ----
//
// Where one value is compared for equality with several of 2, 4, 8 and at least two of the selected arms call UintN /
// PutUintN with N = 8k, the value is a width, and then every arm it selects uses the accessor of its width.
func widthArmRule(c *Ctx, r *Result, rule string, floor int) {
	type arm struct {
		k, n int64
		pos  token.Pos
	}
	nsel := 0
	for _, fn := range c.LibFuncs() {
		if fn.Blocks == nil {
			continue
		}
		groups := map[ssa.Value][]arm{}
		var order []ssa.Value
		for _, b := range fn.Blocks {
			ifi, ok := b.Instrs[len(b.Instrs)-1].(*ssa.If)
			if !ok {
				continue
			}
			cmp, ok := ifi.Cond.(*ssa.BinOp)
			if !ok || cmp.Op != token.EQL {
				continue
			}
			k, isK := constInt(cmp.Y)
			if !isK || (k != 2 && k != 4 && k != 8) {
				continue
			}
			x := stripConv(cmp.X)
			for _, in := range b.Succs[0].Instrs {
				call, isCall := in.(*ssa.Call)
				if !isCall {
					continue
				}
				name := ""
				if call.Call.IsInvoke() {
					name = call.Call.Method.Name()
				} else if f := call.Call.StaticCallee(); f != nil && fnPkgPath(f) == "encoding/binary" {
					name = f.Name()
				}
				var w int64
				switch strings.TrimPrefix(name, "Put") {
				case "Uint16":
					w = 2
				case "Uint32":
					w = 4
				case "Uint64":
					w = 8
				default:
					continue
				}
				if _, seen := groups[x]; !seen {
					order = append(order, x)
				}
				groups[x] = append(groups[x], arm{k, w, call.Pos()})
				break
			}
		}
		for _, x := range order {
			arms := groups[x]
			match := 0
			for _, a := range arms {
				if a.k == a.n {
					match++
				}
			}
			if match < 2 {
				continue
			}
			nsel++
			for _, a := range arms {
				r.Check(a.k == a.n, rule, fmt.Sprintf("%s#arm-for-width-%d", c.Name(fn), a.k), c.Pos(a.pos), fmt.Sprintf("the arm selected by width == %d accesses %d bytes", a.k, a.k))
			}
		}
	}
	if nsel < floor {
		r.Shortfall(c, rule, fmt.Sprintf("%s: only %d width selectors found (expected >= %d)", rule, nsel, floor))
	}
}

// ---- the B-tree v2 leaf: capacity, serialized size and reserved room agree (C14.18, C14.20) ----
func btreeLeafRoomRule(c *Ctx, r *Result) {
	sizeFn, capFn := c.FnOpt("structures.WritableBTreeV2.calculateLeafSize"), c.FnOpt("structures.WritableBTreeV2.calculateMaxRecords")
	if sizeFn == nil || capFn == nil {
		r.Undec("C14.18", "structures.WritableBTreeV2#leaf-size-and-capacity", "", "calculateLeafSize / calculateMaxRecords not found")
	} else {
		// size = K1 + n*R1
		var k1, r1 int64 = -1, -1
		fb := c.FB(sizeFn)
		instrs(sizeFn, func(in ssa.Instruction) {
			if ret, ok := in.(*ssa.Return); ok && len(ret.Results) == 1 {
				l := fb.lin(stripConv(ret.Results[0]))
				if len(l.T) == 1 {
					k1 = l.C
					for _, co := range l.T {
						r1 = co
					}
				}
			}
		})
		// capacity = (S - K2) / R2
		var k2, r2 int64 = -1, -1
		fb2 := c.FB(capFn)
		instrs(capFn, func(in ssa.Instruction) {
			if q, ok := in.(*ssa.BinOp); ok && q.Op == token.QUO {
				if d, isK := constInt(q.Y); isK {
					l := fb2.lin(stripConv(q.X))
					if len(l.T) == 1 {
						r2, k2 = d, -l.C
					}
				}
			}
		})
		if k1 < 0 || k2 < 0 {
			r.Undec("C14.18", "structures.WritableBTreeV2#leaf-size-and-capacity", c.Pos(capFn.Pos()), "size is not K + n*R or capacity is not (S - K)/R")
		} else {
			r.Check(k1 == k2 && r1 == r2, "C14.18", "structures.WritableBTreeV2.calculateMaxRecords#same-overhead-and-record-size-as-calculateLeafSize", c.Pos(capFn.Pos()),
				fmt.Sprintf("the leaf is serialized in %d + n*%d bytes; the capacity is (node size - %d) / %d", k1, r1, k2, r2))
		}
	}
	// the address stored as the root node was allocated with the node size
	n := 0
	for _, fn := range c.LibFuncs() {
		if fnPkgPath(fn) != modPath+"/internal/structures" {
			continue
		}
		instrs(fn, func(in ssa.Instruction) {
			st, ok := in.(*ssa.Store)
			if !ok {
				return
			}
			fa, ok := st.Addr.(*ssa.FieldAddr)
			if !ok {
				return
			}
			f, base := fieldOfAddr(fa)
			if f == nil || fieldKey(base.Type(), f) != "structures.BTreeV2Header.RootNodeAddr" {
				return
			}
			ex, ok := stripConv(st.Val).(*ssa.Extract)
			if !ok {
				return
			}
			call, ok := ex.Tuple.(*ssa.Call)
			if !ok || !call.Call.IsInvoke() || call.Call.Method.Name() != "Allocate" || len(call.Call.Args) != 1 {
				return
			}
			n++
			a := call.Call.Args[0]
			okSize := valueReadsField(a, "structures.WritableBTreeV2.nodeSize", 0) || valueReadsField(a, "structures.BTreeV2Header.NodeSize", 0)
			r.Check(okSize, "C14.20", c.Name(fn)+"#root-leaf-allocated-with-the-node-size", c.InstrPos(call), "the room reserved for the leaf is the node size the capacity test divides")
		})
	}
	if n < 1 {
		r.Shortfall(c, "C14.20", "C14.20: no allocation whose address becomes the root node address")
	}
}

func init() {
	registry["C14"].Meta.Rules["C14.18"] = "the capacity test admits what the serialized leaf holds: calculateLeafSize returns K + n*R and calculateMaxRecords returns (node size - K) / R with the same K and R (an overhead one byte short admits one record more than fits whenever node size mod 11 is 9: the leaf image is then larger than its node)"
	registry["C14"].Meta.Rules["C14.20"] = "the leaf is given the room the capacity test assumes: the allocation whose address is stored as the header's root node address asks for the tree's node size (with the default constant a tree created with a larger node size overlaps whatever is allocated next - its own header - once it holds more than 371 records)"
	registry["C14"].Rules = append(registry["C14"].Rules, btreeLeafRoomRule)
	txt := "a width selector accesses the width it selected: where one value is compared for equality with 2, 4, 8 and at least two of the selected arms call UintN / PutUintN with N = 8k, every arm it selects does (case 4 reading Uint16 returns a root node address modulo 65536 in a file with 4-byte offsets: the index of another object is loaded, with valid checksums)"
	registry["C14"].Meta.Rules["C14.19"] = txt
	registry["C14"].Rules = append(registry["C14"].Rules, func(c *Ctx, r *Result) { widthArmRule(c, r, "C14.19", 3) })
	registry["C11"].Meta.Rules["C11.22"] = txt + " (shared with C14.19)"
	registry["C11"].Rules = append(registry["C11"].Rules, func(c *Ctx, r *Result) { widthArmRule(c, r, "C11.22", 3) })
}

// ---- every Decision's Confidence comes from calculateConfidence (C19.9) ----
func init() {
	registry["C19"].Meta.Rules["C19.9"] = "the confidence a Decision carries is the one that was computed: module wide, every store to Decision.Confidence takes the result of calculateConfidence (whose range C19.4 bounds), the Confidence of another Decision, or a constant in [0,1] (the read-heavy rule reporting features.OperationRate as its confidence returns 20 or 2500)"
	registry["C19"].Rules = append(registry["C19"].Rules, func(c *Ctx, r *Result) {
		n := 0
		for _, fn := range c.LibFuncs() {
			k := 0
			instrs(fn, func(in ssa.Instruction) {
				st, ok := in.(*ssa.Store)
				if !ok {
					return
				}
				fa, ok := st.Addr.(*ssa.FieldAddr)
				if !ok {
					return
				}
				f, base := fieldOfAddr(fa)
				if f == nil || fieldKey(base.Type(), f) != "rebalancing.Decision.Confidence" {
					return
				}
				n++
				k++
				seen := map[ssa.Value]bool{}
				var good func(v ssa.Value) bool
				good = func(v ssa.Value) bool {
					if seen[v] {
						return true
					}
					seen[v] = true
					switch x := v.(type) {
					case *ssa.Const:
						if x.Value != nil && (x.Value.Kind() == constant.Float || x.Value.Kind() == constant.Int) {
							fv, _ := constant.Float64Val(x.Value)
							return fv >= 0 && fv <= 1
						}
					case *ssa.Call:
						if cal := x.Call.StaticCallee(); cal != nil {
							return c.Name(cal) == "rebalancing.RuleBasedStrategy.calculateConfidence"
						}
					case *ssa.Phi:
						for _, e := range x.Edges {
							if !good(e) {
								return false
							}
						}
						return true
					case *ssa.UnOp:
						if x.Op == token.MUL {
							if fa2, ok := x.X.(*ssa.FieldAddr); ok {
								f2, b2 := fieldOfAddr(fa2)
								return f2 != nil && fieldKey(b2.Type(), f2) == "rebalancing.Decision.Confidence"
							}
						}
					case *ssa.Field:
						return x.X.Type().String() == modPath+"/internal/rebalancing.Decision" && f.Name() == "Confidence" && x.Field == fieldIndexOf(x.X.Type(), "Confidence")
					}
					return false
				}
				r.Check(good(st.Val), "C19.9", fmt.Sprintf("%s#confidence-store-%d", c.Name(fn), k), c.InstrPos(st), "the stored Confidence is calculateConfidence's result, another Decision's Confidence, or a constant in [0,1]")
			})
		}
		if n < 8 {
			r.Shortfall(c, "C19.9", fmt.Sprintf("C19.9: only %d stores to Decision.Confidence found (expected >= 8)", n))
		}
	})
}

func fieldIndexOf(t types.Type, name string) int {
	if st, ok := t.Underlying().(*types.Struct); ok {
		for i := 0; i < st.NumFields(); i++ {
			if st.Field(i).Name() == name {
				return i
			}
		}
	}
	return -1
}

// ---- the capacity the inserts test against is the room the block writer has (C16.12 / C15.19) ----
//
// writeDirectBlockAt copies the objects to buf[dataStart:] and refuses when they would pass the checksum at
// buf[Size-4:]; blockCapacity(size) returns size - overhead. With 8-byte file offsets (the writer's format)
// overhead = dataStart + Size - checksumOffset. With a smaller overhead an insert is accepted in memory, the header goes
// to the file with the advanced counters and the block write then fails: an error after a partial write.
func heapCapacityAgreesRule(c *Ctx, r *Result, rule string) {
	capFn, wFn := c.FnOpt("structures.WritableFractalHeap.blockCapacity"), c.FnOpt("structures.WritableFractalHeap.writeDirectBlockAt")
	construct := "structures.WritableFractalHeap.blockCapacity~writeDirectBlockAt#same-overhead"
	if capFn == nil || wFn == nil {
		r.Undec(rule, construct, "", "blockCapacity / writeDirectBlockAt not found")
		return
	}
	var capOv map[string]int64
	fb := c.FB(capFn)
	instrs(capFn, func(in ssa.Instruction) {
		if ret, ok := in.(*ssa.Return); ok && len(ret.Results) == 1 {
			if sub, isSub := stripConv(ret.Results[0]).(*ssa.BinOp); isSub && sub.Op == token.SUB {
				if _, isParam := stripConv(sub.X).(*ssa.Parameter); isParam {
					capOv = namedLin(fb, fb.lin(sub.Y))
				}
			}
		}
	})
	wb := c.FB(wFn)
	var dataStart, chk *Lin
	instrs(wFn, func(in ssa.Instruction) {
		call, ok := in.(*ssa.Call)
		if !ok {
			return
		}
		if b, isB := call.Call.Value.(*ssa.Builtin); isB && b.Name() == "copy" && valueReadsField(call.Call.Args[1], "structures.WritableDirectBlock.Objects", 0) {
			if sl, isSl := call.Call.Args[0].(*ssa.Slice); isSl && sl.Low != nil {
				l := wb.lin(sl.Low)
				dataStart = &l
			}
		}
		name := ""
		if call.Call.IsInvoke() {
			name = call.Call.Method.Name()
		} else if f := call.Call.StaticCallee(); f != nil {
			name = f.Name()
		}
		if name == "PutUint32" && len(call.Call.Args) >= 2 {
			if sl, isSl := call.Call.Args[len(call.Call.Args)-2].(*ssa.Slice); isSl && sl.Low != nil {
				if cs, isCall := stripConv(call.Call.Args[len(call.Call.Args)-1]).(*ssa.Call); isCall && cs.Call.StaticCallee() != nil && cs.Call.StaticCallee().Name() == "ChecksumIEEE" {
					l := wb.lin(sl.Low)
					chk = &l
				}
			}
		}
	})
	if capOv == nil || dataStart == nil || chk == nil {
		r.Undec(rule, construct, c.Pos(capFn.Pos()), "capacity is not size - overhead, or the block writer's data start / checksum position was not found")
		return
	}
	// dataStart - checksumOffset = overhead - Size
	d := dataStart.add(*chk, -1)
	w := namedLin(wb, d)
	hasSize := w["Size"] == -1
	delete(w, "Size")
	same := hasSize && len(w) == len(capOv)
	for k, v := range w {
		if capOv[k] != v {
			same = false
		}
	}
	r.Check(same, rule, construct, c.Pos(capFn.Pos()), fmt.Sprintf("blockCapacity subtracts %v; the block writer places the objects and the checksum such that the room is Size - (%v) at 8-byte file offsets", capOv, w))
}

// namedLin: a linear form by normalised field names, the superblock's sizes taken as 8; the constant under "".
func namedLin(fb *FB, l Lin) map[string]int64 {
	out := map[string]int64{"": l.C}
	for k, co := range l.T {
		name := strings.TrimLeft(normSyms("+"+fb.symName(k)), "+")
		if name == "OffsetSize" || name == "LengthSize" {
			out[""] += 8 * co
			continue
		}
		out[name] += co
	}
	return out
}

func init() {
	txt := "the capacity the inserts test against is the room the block writer has: blockCapacity(size) = size - overhead where, at 8-byte file offsets, overhead equals the position at which writeDirectBlockAt places the objects plus the bytes from the checksum's position to the end of the block (with the checksum's 4 bytes left out an attribute that ends in the last 4 bytes of the block is accepted in memory, the heap header is written with the advanced counters, the block write fails: WriteAttribute returns an error and the heap on disk has changed)"
	registry["C16"].Meta.Rules["C16.12"] = txt
	registry["C16"].Rules = append(registry["C16"].Rules, func(c *Ctx, r *Result) { heapCapacityAgreesRule(c, r, "C16.12") })
	registry["C15"].Meta.Rules["C15.19"] = txt + " (shared with C16.12)"
	registry["C15"].Rules = append(registry["C15"].Rules, func(c *Ctx, r *Result) { heapCapacityAgreesRule(c, r, "C15.19") })
}

// ---- parsePath is only handed paths that have a slash (C16.13) ----
//
// parsePath slices at strings.LastIndex(path, "/"): for a path without a slash that is path[:-1], a panic in the middle of a
// write call instead of an error. Every call of parsePath therefore stands behind a test of the leading slash on the same
// value - a validate* function that makes that test, or strings.HasPrefix(p, "/") - in the function itself or, for a
// parameter of an unexported function, at every call of that function.
func parsePathGuardedRule(c *Ctx, r *Result, rule string) {
	parse := c.FnOpt("hdf5.parsePath")
	if parse == nil {
		r.Undec(rule, "hdf5.parsePath#callers-establish-the-leading-slash", "", "hdf5.parsePath not found")
		return
	}
	callers := map[*ssa.Function][]ssa.CallInstruction{}
	for _, fn := range c.LibFuncs() {
		for _, site := range callsIn(fn) {
			if g := site.Common().StaticCallee(); g != nil {
				callers[g] = append(callers[g], site)
			}
		}
	}
	var established func(site ssa.Instruction, v ssa.Value, depth int) (bool, string)
	established = func(site ssa.Instruction, v ssa.Value, depth int) (bool, string) {
		local := mustPrecede(site, func(x ssa.Instruction) bool {
			call, ok := x.(*ssa.Call)
			if !ok {
				return false
			}
			g := call.Call.StaticCallee()
			if g == nil || len(call.Call.Args) == 0 || call.Call.Args[0] != v {
				return false
			}
			if g.Pkg != nil && g.Pkg.Pkg.Path() == "strings" && g.Name() == "HasPrefix" && len(call.Call.Args) == 2 {
				if k, isK := call.Call.Args[1].(*ssa.Const); isK && k.Value != nil && k.Value.Kind() == constant.String && constant.StringVal(k.Value) == "/" {
					return true
				}
			}
			return strings.HasPrefix(g.Name(), "validate") && pathValidatorKinds(g)["leading-slash"]
		})
		if local {
			return true, ""
		}
		p, isP := v.(*ssa.Parameter)
		fn := site.Parent()
		if !isP || depth >= 2 || exportedEntry(fn) {
			return false, "no leading-slash test of the value before the call in " + c.Name(fn)
		}
		idx := paramIndex(fn, p)
		if len(callers[fn]) == 0 || idx < 0 {
			return false, c.Name(fn) + " has no resolved callers"
		}
		for _, cs := range callers[fn] {
			args := cs.Common().Args
			if idx >= len(args) {
				return false, "argument not resolved at " + c.InstrPos(cs.(ssa.Instruction))
			}
			if ok, why := established(cs.(ssa.Instruction), args[idx], depth+1); !ok {
				return false, why
			}
		}
		return true, ""
	}
	n := 0
	for _, site := range callers[parse] {
		in := site.(ssa.Instruction)
		n++
		ok, why := established(in, site.Common().Args[0], 0)
		r.Check(ok, rule, fmt.Sprintf("%s#parsePath-behind-a-leading-slash-test", c.Name(in.Parent())), c.InstrPos(in), firstNonEmpty(why, "the path handed to parsePath passed a leading-slash test (validate* or HasPrefix) on every path, here or at every caller"))
	}
	if n < 6 {
		r.Shortfall(c, rule, fmt.Sprintf("%s: only %d calls of parsePath", rule, n))
	}
}

func init() {
	registry["C16"].Meta.Rules["C16.13"] = "a path without a slash is an error, not a panic: every call of parsePath (which slices at the last slash) stands behind a leading-slash test of the same value - a validate* function that makes it, or strings.HasPrefix(p, \"/\") - in the calling function or, for a parameter of an unexported function, at each of its callers (resolveObjectAddress without its own test panics with 'slice bounds out of range [:-1]' for the relative link target of CreateDenseGroup)"
	registry["C16"].Rules = append(registry["C16"].Rules, func(c *Ctx, r *Result) { parsePathGuardedRule(c, r, "C16.13") })
	registry["C16"].Meta.Rules["C16.14"] = registry["C04"].Meta.Rules["C04.11"] + " (an oversized WriteRaw must be refused before anything is written)"
	registry["C16"].Rules = append(registry["C16"].Rules, func(c *Ctx, r *Result) { sizeDisciplineRule(c, r, "C16.14") })
}

// behindNotMinusOne: the use lies behind an edge on which v != -1 (the false edge of v == -1, the true edge of v != -1).
func behindNotMinusOne(fn *ssa.Function, v ssa.Value, u ssa.Instruction) bool {
	for _, b := range fn.Blocks {
		ifi, isIf := b.Instrs[len(b.Instrs)-1].(*ssa.If)
		if !isIf {
			continue
		}
		cmp, isC := ifi.Cond.(*ssa.BinOp)
		if !isC || stripConv(cmp.X) != v {
			continue
		}
		if kk, isK := constInt(cmp.Y); !isK || kk != -1 {
			continue
		}
		edge := -1
		switch cmp.Op {
		case token.EQL:
			edge = 1
		case token.NEQ:
			edge = 0
		}
		if edge >= 0 && edgeDominates(b, b.Succs[edge], u.Block()) {
			return true
		}
	}
	return false
}

// ---- round 8, C03: node capacity, typed message rewrite, link type flag ----

// symbolNodeCapacityRule: a symbol table node is written with a fixed number of slots (the maxEntries argument of
// SymbolTableNode.WriteAt); every capacity a node is created or parsed with is at most that number - otherwise the insert that
// the capacity test admits is counted in NumSymbols but has no slot in the written node.
func symbolNodeCapacityRule(c *Ctx, r *Result, rule string) {
	var slots []int64
	type capSite struct {
		k    int64
		pos  string
		name string
	}
	var caps []capSite
	undec := ""
	for _, fn := range c.LibFuncs() {
		for _, site := range callsIn(fn) {
			switch c.calleeName(site) {
			case "structures.SymbolTableNode.WriteAt":
				args := site.Common().Args
				if len(args) >= 5 {
					if k, ok := constInt(stripConv(args[4])); ok {
						slots = append(slots, k)
					} else {
						undec = "slot count at " + c.InstrPos(site.(ssa.Instruction)) + " is not a constant"
					}
				}
			case "structures.NewSymbolTableNode":
				args := site.Common().Args
				if k, ok := constInt(stripConv(args[0])); ok {
					caps = append(caps, capSite{k, c.InstrPos(site.(ssa.Instruction)), c.Name(fn) + "#NewSymbolTableNode"})
				} else if c.Name(fn) != "structures.NewSymbolTableNode" {
					undec = "capacity at " + c.InstrPos(site.(ssa.Instruction)) + " is not a constant"
				}
			}
		}
	}
	if parse := c.FnOpt("structures.ParseSymbolTableNode"); parse != nil {
		instrs(parse, func(in ssa.Instruction) {
			ms, ok := in.(*ssa.MakeSlice)
			if !ok || !strings.Contains(ms.Type().String(), "SymbolTableEntry") {
				return
			}
			var walk func(v ssa.Value, d int)
			walk = func(v ssa.Value, d int) {
				v = stripConv(v)
				if k, isK := constInt(v); isK {
					if k > 0 {
						caps = append(caps, capSite{k, c.InstrPos(ms), "structures.ParseSymbolTableNode#default-capacity"})
					}
					return
				}
				if phi, isPhi := v.(*ssa.Phi); isPhi && d < 3 {
					for _, e := range phi.Edges {
						walk(e, d+1)
					}
				}
			}
			walk(ms.Cap, 0)
		})
	}
	if len(slots) == 0 || len(caps) < 2 || undec != "" {
		r.Undec(rule, "structures.SymbolTableNode#capacity-within-written-slots", "", firstNonEmpty(undec, fmt.Sprintf("%d constant slot counts, %d constant capacities", len(slots), len(caps))))
		return
	}
	minSlots := slots[0]
	for _, s := range slots {
		if s < minSlots {
			minSlots = s
		}
	}
	for _, cs := range caps {
		r.Check(cs.k <= minSlots, rule, cs.name, cs.pos, fmt.Sprintf("capacity %d, nodes are written with %d slots", cs.k, minSlots))
	}
}

// typedMessageWriteRule: where a function compares the Type of a header message with a constant and writes into the Data of
// that same message, the write stands behind the equality (the true edge of ==, the false edge of !=).
func typedMessageWriteRule(c *Ctx, r *Result, rule string, floor int) {
	n := 0
	for _, fn := range c.LibFuncs() {
		if fn.Blocks == nil {
			continue
		}
		// type tests per message value
		type edge struct{ from, to *ssa.BasicBlock }
		tests := map[ssa.Value][]edge{}
		for _, b := range fn.Blocks {
			ifi, ok := b.Instrs[len(b.Instrs)-1].(*ssa.If)
			if !ok {
				continue
			}
			cmp, ok := ifi.Cond.(*ssa.BinOp)
			if !ok || (cmp.Op != token.EQL && cmp.Op != token.NEQ) {
				continue
			}
			if _, isK := constInt(cmp.Y); !isK {
				continue
			}
			ld, ok := isLoad(stripConv(cmp.X))
			if !ok {
				continue
			}
			f, base := fieldOfAddr(ld.X)
			if f == nil || fieldKey(base.Type(), f) != "core.HeaderMessage.Type" {
				continue
			}
			e := edge{b, b.Succs[0]}
			if cmp.Op == token.NEQ {
				e = edge{b, b.Succs[1]}
			}
			tests[base] = append(tests[base], e)
		}
		if len(tests) == 0 {
			continue
		}
		k := 0
		instrs(fn, func(in ssa.Instruction) {
			// a write whose destination is (a slice of / an element of) msg.Data
			var dst ssa.Value
			switch x := in.(type) {
			case *ssa.Call:
				name := ""
				if x.Call.IsInvoke() {
					name = x.Call.Method.Name()
				} else if f := x.Call.StaticCallee(); f != nil {
					name = f.Name()
				} else if b, isB := x.Call.Value.(*ssa.Builtin); isB {
					name = b.Name()
				}
				if (strings.HasPrefix(name, "PutUint") || name == "copy") && len(x.Call.Args) >= 2 {
					dst = x.Call.Args[len(x.Call.Args)-2]
				}
			case *ssa.Store:
				if ia, ok := x.Addr.(*ssa.IndexAddr); ok {
					dst = ia.X
				}
			}
			if dst == nil {
				return
			}
			for i := 0; i < 4; i++ {
				if sl, ok := dst.(*ssa.Slice); ok {
					dst = sl.X
				}
			}
			ld, ok := isLoad(dst)
			if !ok {
				return
			}
			f, base := fieldOfAddr(ld.X)
			if f == nil || fieldKey(base.Type(), f) != "core.HeaderMessage.Data" || len(tests[base]) == 0 {
				return
			}
			n++
			k++
			behind := false
			for _, e := range tests[base] {
				if edgeDominates(e.from, e.to, in.Block()) {
					behind = true
				}
			}
			r.Check(behind, rule, fmt.Sprintf("%s#message-rewritten-behind-its-type-test-%d", c.Name(fn), k), c.InstrPos(in), "the bytes of a header message are overwritten only where the comparison of its Type with a constant holds")
		})
	}
	if n < floor {
		r.Shortfall(c, rule, fmt.Sprintf("%s: only %d writes into a type-tested header message found (expected >= %d)", rule, n, floor))
	}
}

// linkTypeFlagRule: a link message whose Type is a constant other than hard (0) is built with the 'link type field present' flag.
func linkTypeFlagRule(c *Ctx, r *Result, rule string, floor int) {
	n := 0
	for _, fn := range c.LibFuncs() {
		typ := map[ssa.Value]int64{}
		flags := map[ssa.Value]*ssa.Store{}
		instrs(fn, func(in ssa.Instruction) {
			st, ok := in.(*ssa.Store)
			if !ok {
				return
			}
			fa, ok := st.Addr.(*ssa.FieldAddr)
			if !ok {
				return
			}
			f, base := fieldOfAddr(fa)
			if f == nil {
				return
			}
			switch fieldKey(base.Type(), f) {
			case "core.LinkMessage.Type":
				if k, isK := constInt(stripConv(st.Val)); isK {
					typ[base] = k
				}
			case "core.LinkMessage.Flags":
				flags[base] = st
			}
		})
		for base, k := range typ {
			if k == 0 {
				continue
			}
			n++
			st := flags[base]
			ok := false
			pos := c.Pos(fn.Pos())
			if st != nil {
				pos = c.InstrPos(st)
				if fl, isK := constInt(stripConv(st.Val)); isK {
					ok = fl&0x08 != 0
				} else {
					ok = true // computed flags: not decided here
				}
			}
			r.Check(ok, rule, fmt.Sprintf("%s#link-of-type-%d-carries-the-type-flag", c.Name(fn), k), pos, "a link message of a type other than hard sets flag bit 3 (link type field present): without it the type byte is not written and the link reads back as a hard link")
		}
	}
	if n < floor {
		r.Shortfall(c, rule, fmt.Sprintf("%s: only %d link messages of a constant non-hard type found (expected >= %d)", rule, n, floor))
	}
}

func init() {
	registry["C03"].Meta.Rules["C03.20"] = "a group node holds no more entries than it is written with: every constant capacity a symbol table node is created with (NewSymbolTableNode) or parsed with (the default in ParseSymbolTableNode) is at most the constant number of slots SymbolTableNode.WriteAt is called with (capacity 33 against 32 slots admits a 33rd child whose entry is counted but not written: the whole file no longer opens)"
	registry["C03"].Rules = append(registry["C03"].Rules, func(c *Ctx, r *Result) { symbolNodeCapacityRule(c, r, "C03.20") })
	registry["C03"].Meta.Rules["C03.21"] = "only the reference count message is rewritten: where a function compares the Type of a header message with a constant and writes into the Data of that message, the write is dominated by the edge on which the comparison holds (`Type == RefCount || len(Data) >= 4` stamps the count over the first four bytes of every message of the link target when a rejected hard link is rolled back)"
	registry["C03"].Rules = append(registry["C03"].Rules, func(c *Ctx, r *Result) { typedMessageWriteRule(c, r, "C03.21", 2) })
	registry["C03"].Meta.Rules["C03.22"] = "a soft or external link is written as one: a LinkMessage built with a constant Type other than hard has constant Flags with bit 3 (link type field present) set (`TypeFieldBit & CharSetBit` is 0: the type byte is not written and every soft link reads back as a hard link to a nonsense address)"
	registry["C03"].Rules = append(registry["C03"].Rules, func(c *Ctx, r *Result) { linkTypeFlagRule(c, r, "C03.22", 2) })
}

// ---- round 8, C08: LZF match verification, back-reference fields, shuffle element sizes ----

// errorOnlyBlock: the block returns (directly or through jumps) with a non-nil last result.
func errorOnlyBlock(b *ssa.BasicBlock, depth int) bool {
	if depth > 3 || len(b.Instrs) == 0 {
		return false
	}
	switch x := b.Instrs[len(b.Instrs)-1].(type) {
	case *ssa.Return:
		return len(x.Results) > 0 && !isNilConst(x.Results[len(x.Results)-1])
	case *ssa.Jump:
		return errorOnlyBlock(b.Succs[0], depth+1)
	}
	return false
}

func lzfEncoderRules(c *Ctx, r *Result) {
	// C08.13: the minimum match is compared byte by byte
	if fn := c.FnOpt("writer.lzfCompress"); fn == nil {
		r.Undec("C08.13", "writer.lzfCompress#minimum-match-verified", "", "writer.lzfCompress not found")
	} else {
		fb := c.FB(fn)
		// the match length starts at M
		var m int64 = -1
		type cmpT struct {
			varPart string
			k       int64
		}
		var cmps []cmpT
		instrs(fn, func(in ssa.Instruction) {
			if phi, ok := in.(*ssa.Phi); ok && strings.HasPrefix(phi.Comment, "matchLen") {
				for _, e := range phi.Edges {
					if k, isK := constInt(e); isK {
						m = k
					}
				}
			}
			cmp, ok := in.(*ssa.BinOp)
			if !ok || cmp.Op != token.EQL {
				return
			}
			lx, okx := isLoad(cmp.X)
			ly, oky := isLoad(cmp.Y)
			if !okx || !oky {
				return
			}
			ax, okx := lx.X.(*ssa.IndexAddr)
			ay, oky := ly.X.(*ssa.IndexAddr)
			if !okx || !oky || ax.X != ay.X {
				return
			}
			dx, dy := fb.lin(ax.Index), fb.lin(ay.Index)
			if dx.C != dy.C || len(dx.T) != 1 || len(dy.T) != 1 {
				return
			}
			v := dx.clone()
			v.C = 0
			w := dy.clone()
			w.C = 0
			cmps = append(cmps, cmpT{fb.linString(v) + "~" + fb.linString(w), dx.C})
		})
		if m < 1 || len(cmps) == 0 {
			r.Undec("C08.13", "writer.lzfCompress#minimum-match-verified", c.Pos(fn.Pos()), "initial match length or the byte comparisons were not recognised")
		} else {
			have := map[string]map[int64]bool{}
			for _, x := range cmps {
				if have[x.varPart] == nil {
					have[x.varPart] = map[int64]bool{}
				}
				have[x.varPart][x.k] = true
			}
			best := 0
			for _, ks := range have {
				cnt := 0
				for k := int64(0); k < m; k++ {
					if ks[k] {
						cnt++
					}
				}
				if cnt > best {
					best = cnt
				}
			}
			r.Check(int64(best) == m, "C08.13", "writer.lzfCompress#minimum-match-verified", c.Pos(fn.Pos()), fmt.Sprintf("a match starts at length %d; %d of the byte pairs input[ref+k] == input[pos+k], k < %d, are compared before it is taken (two positions whose hash collides and whose first bytes agree are otherwise encoded as a copy of different bytes)", m, best, m))
		}
	}
	// C08.14: both bytes of a back-reference carry the same offset
	if fn := c.FnOpt("writer.appendBackref"); fn == nil {
		r.Undec("C08.14", "writer.appendBackref#offset-in-both-bytes", "", "writer.appendBackref not found")
	} else {
		n := 0
		for _, b := range fn.Blocks {
			var hi, lo []ssa.Value
			var pos ssa.Instruction
			for _, in := range b.Instrs {
				st, ok := in.(*ssa.Store)
				if !ok {
					continue
				}
				if _, isElem := st.Addr.(*ssa.IndexAddr); !isElem {
					continue
				}
				var walk func(v ssa.Value, d int)
				walk = func(v ssa.Value, d int) {
					if d > 5 {
						return
					}
					switch x := v.(type) {
					case *ssa.Convert:
						walk(x.X, d+1)
					case *ssa.BinOp:
						if k, isK := constInt(x.Y); isK {
							switch {
							case x.Op == token.SHR && k == 8:
								hi = append(hi, x.X)
								return
							case x.Op == token.AND && k == 0xFF:
								lo = append(lo, x.X)
								return
							}
						}
						walk(x.X, d+1)
						walk(x.Y, d+1)
					}
				}
				walk(st.Val, 0)
				pos = in
			}
			if len(hi) == 0 && len(lo) == 0 {
				continue
			}
			n++
			ok := len(hi) == 1 && len(lo) == 1 && hi[0] == lo[0]
			r.Check(ok, "C08.14", fmt.Sprintf("writer.appendBackref#offset-in-both-bytes-%d", n), c.InstrPos(pos), "the high bits in the control byte (v >> 8) and the low byte (v & 0xFF) of a back-reference are taken from the same value")
		}
		if n < 2 {
			r.Undec("C08.14", "writer.appendBackref#offset-in-both-bytes", c.Pos(fn.Pos()), fmt.Sprintf("only %d back-reference emissions recognised", n))
		}
	}
	// C08.15: the reader accepts every positive element size
	if fn := c.FnOpt("core.applyShuffle"); fn == nil {
		r.Undec("C08.15", "core.applyShuffle#accepts-every-positive-element-size", "", "core.applyShuffle not found")
	} else {
		n := 0
		for _, b := range fn.Blocks {
			ifi, ok := b.Instrs[len(b.Instrs)-1].(*ssa.If)
			if !ok {
				continue
			}
			cmp, ok := ifi.Cond.(*ssa.BinOp)
			if !ok {
				continue
			}
			k, isK := constInt(cmp.Y)
			if !isK {
				continue
			}
			// the compared value is the element size taken from the client data
			cv, isConv := cmp.X.(*ssa.Convert)
			if !isConv {
				continue
			}
			if ld, isLd := isLoad(cv.X); !isLd {
				continue
			} else if _, isIdx := ld.X.(*ssa.IndexAddr); !isIdx {
				continue
			}
			rejectTrue, rejectFalse := errorOnlyBlock(b.Succs[0], 0), errorOnlyBlock(b.Succs[1], 0)
			if rejectTrue == rejectFalse {
				continue
			}
			op := cmp.Op
			if rejectFalse {
				op = negate(op)
			}
			n++
			// largest rejected value that is >= 1?
			bad := false
			switch op {
			case token.LEQ:
				bad = k >= 1
			case token.LSS:
				bad = k >= 2
			case token.EQL:
				bad = k >= 1
			case token.GTR, token.GEQ, token.NEQ:
				bad = true // a constant upper bound on the element size
			}
			r.Check(!bad, "C08.15", fmt.Sprintf("core.applyShuffle#accepts-every-positive-element-size-%d", n), c.InstrPos(cmp), fmt.Sprintf("the element size is refused when it is %s %d: the writer shuffles with any element size from 1 (int8 data) up", op, k))
		}
		if n < 1 {
			r.Undec("C08.15", "core.applyShuffle#accepts-every-positive-element-size", c.Pos(fn.Pos()), "no rejection test on the element size recognised")
		}
	}
}

func init() {
	registry["C08"].Meta.Rules["C08.13"] = "LZF copies only what it compared: in lzfCompress the match length starts at a constant M and all M byte pairs input[ref+k] == input[pos+k], k < M, are compared before the back-reference is emitted (with the third comparison a copy of the second, two triples that share two bytes and a hash bucket are encoded as equal: silently different content from both decoders)"
	registry["C08"].Meta.Rules["C08.14"] = "a back-reference carries its offset: in every arm of appendBackref the value whose bits above 8 go into the control byte is the value whose low byte follows (length >> 8 for offset >> 8 drops the high offset bits: every short match more than 256 bytes back is copied from the wrong place)"
	registry["C08"].Meta.Rules["C08.15"] = "the reader un-shuffles whatever the writer shuffled: the rejection tests of core.applyShuffle on the element size refuse only sizes below 1 (with <= 1 every chunk of an int8 dataset written with the shuffle filter fails to decode)"
	registry["C08"].Rules = append(registry["C08"].Rules, lzfEncoderRules)
}

// ---- a new heap collection's accounts add up (C12.17) ----
func init() {
	registry["C12"].Meta.Rules["C12.17"] = "a new collection's accounts add up: where a globalHeapCollectionBuilder is built, usedSpace + freeSpace = size as linear forms over the function's values (freeSpace = collectionSize without the 16 header bytes taken off admits an object that ends in the last 16 bytes of the collection: it is written over whatever was allocated behind the collection)"
	registry["C12"].Rules = append(registry["C12"].Rules, func(c *Ctx, r *Result) { c12accounts(c, r, "C12.17") })
}

func c12accounts(c *Ctx, r *Result, id string) {
	n := 0
	for _, fn := range c.LibFuncs() {
		if shortPkg(fnPkgPath(fn)) != "hdf5" {
			continue
		}
		vals := map[ssa.Value]map[string]ssa.Value{}
		var first = map[ssa.Value]ssa.Instruction{}
		instrs(fn, func(in ssa.Instruction) {
			st, ok := in.(*ssa.Store)
			if !ok {
				return
			}
			fa, ok := st.Addr.(*ssa.FieldAddr)
			if !ok {
				return
			}
			f, base := fieldOfAddr(fa)
			if f == nil || !strings.HasPrefix(fieldKey(base.Type(), f), "hdf5.globalHeapCollectionBuilder.") {
				return
			}
			if _, isAlloc := base.(*ssa.Alloc); !isAlloc {
				return // an update of an existing builder, not its construction
			}
			if vals[base] == nil {
				vals[base] = map[string]ssa.Value{}
				first[base] = in
			}
			vals[base][f.Name()] = st.Val
		})
		fb := c.FB(fn)
		for base, m := range vals {
			if m["size"] == nil || m["usedSpace"] == nil || m["freeSpace"] == nil {
				continue
			}
			n++
			sum := fb.lin(m["usedSpace"]).add(fb.lin(m["freeSpace"]), 1)
			r.Check(sum.equal(fb.lin(m["size"])), id, c.Name(fn)+"#used-plus-free-is-size", c.InstrPos(first[base]), "usedSpace + freeSpace = "+fb.linString(sum)+"; size = "+fb.linString(fb.lin(m["size"])))
		}
	}
	if n < 1 {
		r.Shortfall(c, id, "C12.17: no construction of a globalHeapCollectionBuilder with size, usedSpace and freeSpace found")
	}
}

// introducedAfterReview: fn (or the function it is nested in) is not in the inventory of the reviewed tree.
func (c *Ctx) introducedAfterReview(fn *ssa.Function) bool {
	root := fn
	for root.Parent() != nil {
		root = root.Parent()
	}
	if root.Origin() != nil {
		return false
	}
	name := c.Name(root)
	for _, n := range c.postReviewFunctions() {
		if n == name {
			return true
		}
	}
	return false
}

// ---- the attribute reader's own parser of the heap header agrees with the heap's serializer (C02.16) ----
func init() {
	registry["C02"].Meta.Rules["C02.16"] = "the attribute reader finds the heap's parameters where the heap writer puts them: for the fields readFractalHeapHeaderRaw takes out of the header (heap ID length, maximum managed object size, maximum heap size) offset and width are those at which writeHeaderAt serializes them, evaluated at 8-byte sizes (a cursor not advanced past the filter length reads the maximum object size two bytes early: dense attributes of 256 bytes or more come back truncated or not at all)"
	registry["C02"].Rules = append(registry["C02"].Rules, func(c *Ctx, r *Result) {
		w, rd := c.FnOpt("structures.WritableFractalHeap.writeHeaderAt"), c.FnOpt("core.readFractalHeapHeaderRaw")
		if w == nil || rd == nil {
			r.Undec("C02.16", "core.readFractalHeapHeaderRaw~structures.WritableFractalHeap.writeHeaderAt", "", "writer or raw reader not found")
			return
		}
		wl, rl := c.layoutOf(w, true), c.layoutOf(rd, false)
		n := 0
		for _, pair := range [][2]string{{"HeapIDLen", "HeapIDLength"}, {"MaxManagedObjSize", "MaxManagedObjectSize"}, {"MaxHeapSize", "MaxHeapSize"}} {
			re, okR := rl[pair[0]]
			we, okW := wl[pair[1]]
			if !okR || !okW {
				continue
			}
			n++
			same := at8(we.off) != "" && at8(we.off) == at8(re.off) && (we.width == re.width || we.width == "" || re.width == "")
			r.Check(same, "C02.16", "core.readFractalHeapHeaderRaw~writeHeaderAt#"+pair[0], re.pos, fmt.Sprintf("read at offset %s width %s; written at offset %s width %s (%s), both taken at 8-byte sizes", re.off, re.width, we.off, we.width, we.pos))
		}
		if n < 3 {
			r.Undec("C02.16", "core.readFractalHeapHeaderRaw~structures.WritableFractalHeap.writeHeaderAt", c.Pos(rd.Pos()), fmt.Sprintf("only %d of the three fields were located on both sides", n))
		}
	})
}

// ---- a test that guards 'the rest of the buffer' asks for no more than a rest (C02.17 / C11.23) ----
//
// if cur < len(b) { v = b[cur:] }: where the region behind a comparison of a cursor with len(b) takes nothing from b but the
// open-ended remainder b[cur:], the comparison is cur < len(b) or cur <= len(b). cur < len(b)-1 silently drops a remainder of
// one byte (the value of a one-character string attribute).
func remainderGuardRule(c *Ctx, r *Result, rule string, floor int) {
	n := 0
	for _, fn := range c.LibFuncs() {
		pk := shortPkg(fnPkgPath(fn))
		if fn.Blocks == nil || (pk != "core" && pk != "hdf5" && pk != "structures") {
			continue
		}
		var fb *FB
		k := 0
		for _, b := range fn.Blocks {
			ifi, ok := b.Instrs[len(b.Instrs)-1].(*ssa.If)
			if !ok {
				continue
			}
			cmp, ok := ifi.Cond.(*ssa.BinOp)
			if !ok {
				continue
			}
			// cur < bound, or mirrored: bound > cur
			cur, bound := cmp.X, cmp.Y
			switch cmp.Op {
			case token.LSS, token.LEQ:
			case token.GTR, token.GEQ:
				cur, bound = cmp.Y, cmp.X
			default:
				continue
			}
			region := edgeRegion(b, b.Succs[0])
			if len(region) == 0 {
				continue
			}
			// remainders taken in the region with the compared cursor as low bound
			var rem *ssa.Slice
			other := false
			for blk := range region {
				for _, in := range blk.Instrs {
					switch x := in.(type) {
					case *ssa.Slice:
						if x.Low != nil && x.High == nil && stripConv(x.Low) == stripConv(cur) && isBytesOrString(x.X.Type()) {
							rem = x
						}
					}
				}
			}
			if rem == nil {
				continue
			}
			for blk := range region {
				for _, in := range blk.Instrs {
					switch x := in.(type) {
					case *ssa.Slice:
						if x != rem && x.X == rem.X {
							other = true
						}
					case *ssa.IndexAddr:
						if x.X == rem.X {
							other = true
						}
					case *ssa.Index:
						if x.X == rem.X {
							other = true
						}
					case *ssa.Lookup:
						if x.X == rem.X {
							other = true
						}
					}
				}
			}
			if other {
				continue
			}
			if fb == nil {
				fb = c.FB(fn)
			}
			d := fb.lin(bound).add(fb.lenLin(rem.X), -1)
			if !d.isConst() {
				continue
			}
			n++
			k++
			r.Check(d.C >= 0, rule, fmt.Sprintf("%s#remainder-guard-%d", c.Name(fn), k), c.InstrPos(cmp), fmt.Sprintf("the rest of the buffer is taken behind a test of the cursor against len%+d", d.C))
		}
	}
	if n < floor {
		r.Shortfall(c, rule, fmt.Sprintf("%s: only %d remainder guards found (expected >= %d)", rule, n, floor))
	}
}

func init() {
	txt := "a test that guards 'the rest of the buffer' asks for no more than a rest: where the region behind cur < len(b) - k (or <=) takes nothing from b but the open-ended remainder b[cur:], k is 0 (with len(data)-1 the one-byte value of an empty-string attribute is parsed as no data and reads back as an empty list; the compact-to-dense migration then writes that to disk)"
	registry["C02"].Meta.Rules["C02.17"] = txt
	registry["C02"].Rules = append(registry["C02"].Rules, func(c *Ctx, r *Result) { remainderGuardRule(c, r, "C02.17", 1) })
	registry["C11"].Meta.Rules["C11.23"] = txt + " (shared with C02.17)"
	registry["C11"].Rules = append(registry["C11"].Rules, func(c *Ctx, r *Result) { remainderGuardRule(c, r, "C11.23", 1) })
}

// ---- padding to a size pads to that size (C04.16 / C03.23) ----
//
// if len(x) < S { x = append(x, make([]byte, E)...) }: E = S - len(x). With E = S + len(x) the image written is longer than the
// segment reserved for it and runs over whatever is allocated behind it.
func padToSizeRule(c *Ctx, r *Result, rule string, floor int) {
	n := 0
	for _, fn := range c.LibFuncs() {
		if fn.Blocks == nil {
			continue
		}
		var fb *FB
		k := 0
		instrs(fn, func(in ssa.Instruction) {
			ms, ok := in.(*ssa.MakeSlice)
			if !ok || !isBytesOrString(ms.Type()) {
				return
			}
			// appended whole to some x
			var target ssa.Value
			for _, ref := range *ms.Referrers() {
				if call, isCall := ref.(*ssa.Call); isCall {
					if b, isB := call.Call.Value.(*ssa.Builtin); isB && b.Name() == "append" && len(call.Call.Args) == 2 && call.Call.Args[1] == ssa.Value(ms) {
						target = call.Call.Args[0]
					}
				}
			}
			if target == nil {
				return
			}
			if fb == nil {
				fb = c.FB(fn)
			}
			total := fb.lin(ms.Len).add(fb.lenLin(target), 1)
			// a dominating test len(x) < S
			for _, b := range fn.Blocks {
				ifi, isIf := b.Instrs[len(b.Instrs)-1].(*ssa.If)
				if !isIf {
					continue
				}
				cmp, isC := ifi.Cond.(*ssa.BinOp)
				if !isC || cmp.Op != token.LSS || !edgeDominates(b, b.Succs[0], ms.Block()) {
					continue
				}
				if os.Getenv("H5SA_DEBUG_PAD") != "" {
					fmt.Fprintf(os.Stderr, "pad: %s cmp.X=%s len(target)=%s total=%s Y=%s\n", c.Name(fn), fb.linString(fb.lin(cmp.X)), fb.linString(fb.lenLin(target)), fb.linString(total), fb.linString(fb.lin(cmp.Y)))
				}
				// (a sequence held in a field is loaded anew at each use and nothing stores to it between the test and the
				// append: symbols are compared by name)
				if !sameByName(fb, fb.lin(cmp.X), fb.lenLin(target)) {
					continue
				}
				n++
				k++
				r.Check(sameByName(fb, total, fb.lin(cmp.Y)), rule, fmt.Sprintf("%s#pads-to-the-tested-size-%d", c.Name(fn), k), c.InstrPos(ms), "behind len(x) < S the padding appended to x brings it to S: len(x) + padding = "+fb.linString(total)+", S = "+fb.linString(fb.lin(cmp.Y)))
			}
		})
	}
	if n < floor {
		r.Shortfall(c, rule, fmt.Sprintf("%s: only %d pad-to-size sites found (expected >= %d)", rule, n, floor))
	}
}

func init() {
	txt := "padding to a size pads to that size: where, behind len(x) < S, make([]byte, E) is appended to x, len(x) + E = S (LocalHeap.WriteTo padding with DataSegmentSize + len(strings) writes a heap image longer than its reserved segment: in a version 0 file the first object behind the root heap is zeroed by every later creation in the root group)"
	registry["C04"].Meta.Rules["C04.16"] = txt
	registry["C04"].Rules = append(registry["C04"].Rules, func(c *Ctx, r *Result) { padToSizeRule(c, r, "C04.16", 1) })
	registry["C03"].Meta.Rules["C03.23"] = txt + " (shared with C04.16)"
	registry["C03"].Rules = append(registry["C03"].Rules, func(c *Ctx, r *Result) { padToSizeRule(c, r, "C03.23", 1) })
}

func sameByName(fb *FB, a, b Lin) bool {
	m := map[string]int64{"": a.C - b.C}
	for k, co := range a.T {
		m[fb.symName(k)] += co
	}
	for k, co := range b.T {
		m[fb.symName(k)] -= co
	}
	for _, v := range m {
		if v != 0 {
			return false
		}
	}
	return true
}

// ---- a rejection test is not stricter than the slice it protects (C04.17 / C12.18 / C06.22) ----
//
// if E > len(x) { return error }; ... x[lo:E]: the slice needs E <= len(x) and no more. With >= the record that ends exactly at
// the end of its buffer is refused (and with it everything else in that buffer).
func exactRejectionRule(c *Ctx, r *Result, rule string, floor int) {
	n := 0
	for _, fn := range c.LibFuncs() {
		if fn.Blocks == nil {
			continue
		}
		var fb *FB
		k := 0
		for _, b := range fn.Blocks {
			ifi, ok := b.Instrs[len(b.Instrs)-1].(*ssa.If)
			if !ok {
				continue
			}
			cmp, ok := ifi.Cond.(*ssa.BinOp)
			if !ok {
				continue
			}
			var e, l ssa.Value
			strict := false // the test refuses E == L
			switch cmp.Op {
			case token.GTR:
				e, l = cmp.X, cmp.Y
			case token.GEQ:
				e, l, strict = cmp.X, cmp.Y, true
			case token.LSS:
				e, l = cmp.Y, cmp.X
			case token.LEQ:
				e, l, strict = cmp.Y, cmp.X, true
			default:
				continue
			}
			if !errorOnlyBlock(b.Succs[0], 0) {
				continue
			}
			region := edgeRegion(b, b.Succs[1])
			if len(region) == 0 {
				continue
			}
			if fb == nil {
				fb = c.FB(fn)
			}
			le, ll := fb.lin(e), fb.lin(l)
			if le.isConst() {
				continue
			}
			matched := false
			var at ssa.Instruction
			beyond := false
			for blk := range region {
				for _, in := range blk.Instrs {
					sl, isSl := in.(*ssa.Slice)
					if !isSl || sl.High == nil {
						continue
					}
					if !sameByName(fb, fb.lenLin(sl.X), ll) {
						continue
					}
					d := fb.lin(sl.High).add(le, -1)
					if sameByName(fb, fb.lin(sl.High), le) {
						matched, at = true, in
					} else if d.isConst() && d.C > 0 {
						beyond = true
					}
				}
			}
			// x[E] itself is read somewhere (the terminator a scan stopped at): then E < len is what the code needs
			if matched {
				instrs(fn, func(in ssa.Instruction) {
					var bx, ix ssa.Value
					switch x := in.(type) {
					case *ssa.IndexAddr:
						bx, ix = x.X, x.Index
					case *ssa.Index:
						bx, ix = x.X, x.Index
					case *ssa.Lookup:
						bx, ix = x.X, x.Index
					default:
						return
					}
					if sameByName(fb, fb.lenLin(bx), ll) && sameByName(fb, fb.lin(ix), le) {
						beyond = true
					}
				})
			}
			if !matched || beyond {
				continue
			}
			n++
			k++
			r.Check(!strict, rule, fmt.Sprintf("%s#rejection-no-stricter-than-the-slice-%d", c.Name(fn), k), c.InstrPos(cmp), "the slice at "+c.InstrPos(at)+" ends at E and needs E <= len; the rejection test refuses E > len and nothing more")
		}
	}
	if n < floor {
		r.Shortfall(c, rule, fmt.Sprintf("%s: only %d rejection tests in front of a slice with the tested end found (expected >= %d)", rule, n, floor))
	}
}

func init() {
	txt := "a rejection test is not stricter than the slice it protects: where `E > len(x)` (or a mirrored form) leads to an error return and the code behind it takes x[..:E], and nothing longer, the comparison is strict (with >= a global heap object that ends exactly at the end of its collection is refused, and with it every other object of the collection: filling a collection makes the strings of other datasets unreadable)"
	registry["C04"].Meta.Rules["C04.17"] = txt
	registry["C04"].Rules = append(registry["C04"].Rules, func(c *Ctx, r *Result) { exactRejectionRule(c, r, "C04.17", 20) })
	registry["C12"].Meta.Rules["C12.18"] = txt + " (shared with C04.17)"
	registry["C12"].Rules = append(registry["C12"].Rules, func(c *Ctx, r *Result) { exactRejectionRule(c, r, "C12.18", 20) })
	registry["C06"].Meta.Rules["C06.22"] = txt + " (shared with C04.17)"
	registry["C06"].Rules = append(registry["C06"].Rules, func(c *Ctx, r *Result) { exactRejectionRule(c, r, "C06.22", 20) })
}

// ---- a reopened file is extended, not overwritten (C04.18 / C10.18) ----
func init() {
	txt := "a session on an existing file allocates behind what the file holds: the offset OpenFileWriter hands to NewAllocator is, on every path, at least the size the file's Stat reports (with the test of the caller's offset turned round, every OpenForWrite session allocates from just behind the superblock: the structures of the first dense attribute are written over the objects that follow)"
	rule := func(id string) func(c *Ctx, r *Result) {
		return func(c *Ctx, r *Result) {
			fn := c.FnOpt("writer.OpenFileWriter")
			cons := "writer.OpenFileWriter#allocator-starts-at-or-behind-the-file-size"
			if fn == nil {
				r.Undec(id, cons, "", "writer.OpenFileWriter not found")
				return
			}
			var size ssa.Value
			var alloc *ssa.Call
			instrs(fn, func(in ssa.Instruction) {
				call, ok := in.(*ssa.Call)
				if !ok {
					return
				}
				if call.Call.IsInvoke() && call.Call.Method.Name() == "Size" {
					size = call
				}
				if f := call.Call.StaticCallee(); f != nil && c.Name(f) == "writer.NewAllocator" {
					alloc = call
				}
			})
			if size == nil || alloc == nil {
				r.Undec(id, cons, c.Pos(fn.Pos()), "Stat().Size() or the NewAllocator call was not found")
				return
			}
			fb := c.FB(fn)
			ls := fb.lin(size)
			arg := alloc.Call.Args[0]
			ok := true
			why := ""
			if phi, isPhi := arg.(*ssa.Phi); isPhi {
				for i, e := range phi.Edges {
					pred := phi.Block().Preds[i]
					t := fb.lin(e).add(ls, -1)
					if !(t.isConst() && t.C >= 0) && !fb.ProveGE0At(t, pred.Instrs[len(pred.Instrs)-1]) {
						ok = false
						why = "on the path through block " + fmt.Sprint(pred.Index) + " the offset is " + fb.linString(fb.lin(e)) + ", not known to be >= " + fb.linString(ls)
					}
				}
			} else {
				t := fb.lin(arg).add(ls, -1)
				ok = (t.isConst() && t.C >= 0) || fb.ProveGE0At(t, alloc)
				why = "the offset is " + fb.linString(fb.lin(arg))
			}
			r.Check(ok, id, cons, c.InstrPos(alloc), firstNonEmpty(why, "on every path the allocator's first address is at least the file size"))
		}
	}
	registry["C04"].Meta.Rules["C04.18"] = txt
	registry["C04"].Rules = append(registry["C04"].Rules, rule("C04.18"))
	registry["C10"].Meta.Rules["C10.18"] = txt + " (shared with C04.18)"
	registry["C10"].Rules = append(registry["C10"].Rules, rule("C10.18"))
}

func init() {
	registry["C12"].Meta.Rules["C12.19"] = "heap objects are padded to 8 bytes and no further: " + registry["C06"].Meta.Rules["C06.2"] + " - the test and the padding use the same modulus (shared with C06.2: in encodeHeapCollection `offset%16 != 0` in front of `8 - offset%8` adds 8 bytes after every element that ends on an odd multiple of 8, and every later element of the collection is no longer found)"
	registry["C12"].Rules = append(registry["C12"].Rules, func(c *Ctx, r *Result) { aliasRule(c, r, "C06", c06padding, "C06.2", "C12.19") })
}

func init() {
	txt := registry["C02"].Meta.Rules["C02.15"]
	registry["C12"].Meta.Rules["C12.20"] = "the elements of a variable-length sequence are laid out one after the other: " + txt + "; and a buffer made as K*len(v) bytes is filled with elements placed every K bytes (shared with C02.15 / C06.13: writeVLen encodes every sequence element through this shape)"
	registry["C12"].Rules = append(registry["C12"].Rules, func(c *Ctx, r *Result) { elementStrideRule(c, r, "C12.20", 8) })
	registry["C01"].Meta.Rules["C01.21"] = "dataset elements are laid out one after the other: " + txt + " (shared with C02.15 / C06.13: the integer and float encoders and decoders of dataset content)"
	registry["C01"].Rules = append(registry["C01"].Rules, func(c *Ctx, r *Result) { elementStrideRule(c, r, "C01.21", 8) })
}

// ---- module-wide rules of round 8, shared under every property whose files they read ----
func init() {
	share := shareRule
	share([]string{"C01", "C02", "C03", "C05", "C11", "C15"}, registry["C04"].Meta.Rules["C04.17"], "C04.17", func(c *Ctx, r *Result, id string) { exactRejectionRule(c, r, id, 20) })
	share([]string{"C01", "C03", "C05", "C06", "C15"}, registry["C14"].Meta.Rules["C14.19"], "C14.19", func(c *Ctx, r *Result, id string) { widthArmRule(c, r, id, 3) })
	share([]string{"C04", "C10", "C16"}, registry["C03"].Meta.Rules["C03.21"], "C03.21", func(c *Ctx, r *Result, id string) { typedMessageWriteRule(c, r, id, 2) })
	share([]string{"C05", "C11"}, registry["C06"].Meta.Rules["C06.2"], "C06.2", func(c *Ctx, r *Result, id string) { aliasRule(c, r, "C06", c06padding, "C06.2", id) })
	// module-wide rules of rounds 7 and 8 that so far ran under one or two properties only
	share([]string{"C01", "C05", "C09"}, registry["C13"].Meta.Rules["C13.14"], "C13.14", func(c *Ctx, r *Result, id string) { dimensionIndexRule(c, r, id, 10) })
	share([]string{"C02", "C03", "C05"}, registry["C11"].Meta.Rules["C11.21"], "C11.21", func(c *Ctx, r *Result, id string) { shadowedCursorRule(c, r, id, 0) })
	share([]string{"C01", "C02", "C06", "C10", "C13"}, registry["C09"].Meta.Rules["C09.18"], "C09.18", func(c *Ctx, r *Result, id string) {
		readButNeverWrittenRule(c, r, id, map[string]bool{"hdf5": true}, 20)
	})
	share([]string{"C01", "C06", "C13"}, registry["C09"].Meta.Rules["C09.17"], "C09.17", func(c *Ctx, r *Result, id string) { clampRule(c, r, id, 5) })
	share([]string{"C02", "C03", "C11"}, registry["C06"].Meta.Rules["C06.18"], "C06.18", func(c *Ctx, r *Result, id string) { searchResultTestRule(c, r, id, 1) })
	share([]string{"C02", "C11"}, registry["C06"].Meta.Rules["C06.21"], "C06.21", func(c *Ctx, r *Result, id string) { tailTrimRule(c, r, id, 2) })
	share([]string{"C02", "C03", "C04"}, registry["C16"].Meta.Rules["C16.11"], "C16.11", func(c *Ctx, r *Result, id string) { sentinelIndexRule(c, r, id, 2) })
	share([]string{"C01", "C05", "C06"}, registry["C11"].Meta.Rules["C11.19"], "C11.19", func(c *Ctx, r *Result, id string) { byteOrderParamRule(c, r, id, 5) })
	share([]string{"C02", "C06"}, registry["C11"].Meta.Rules["C11.20"], "C11.20", func(c *Ctx, r *Result, id string) { declaredExtentRule(c, r, id, 2) })
	share([]string{"C02", "C03", "C10", "C15"}, registry["C14"].Meta.Rules["C14.16"], "C14.16", func(c *Ctx, r *Result, id string) { lostFieldStoreRule(c, r, id) })
}

// nextRuleID: the id after the highest one registered for the property so far.
func nextRuleID(prop string) string {
	max := 0
	for id := range registry[prop].Meta.Rules {
		var n int
		if _, err := fmt.Sscanf(strings.TrimPrefix(id, prop+"."), "%d", &n); err == nil && n > max {
			max = n
		}
	}
	return fmt.Sprintf("%s.%d", prop, max+1)
}

// shareRule registers a rule that reads the whole module under further properties, with the next free id of each.
func shareRule(props []string, txt, from string, run func(c *Ctx, r *Result, id string)) {
	for _, p := range props {
		id := nextRuleID(p)
		registry[p].Meta.Rules[id] = txt + " (shared with " + from + ": the rule reads the whole module)"
		registry[p].Rules = append(registry[p].Rules, func(c *Ctx, r *Result) { run(c, r, id) })
	}
}

// ---- round 9 shares ----
func init() {
	shareRule([]string{"C01"}, registry["C09"].Meta.Rules["C09.5"], "C09.5", func(c *Ctx, r *Result, id string) { aliasRule(c, r, "C09", c09chunkDest, "C09.5", id) })
	shareRule([]string{"C05"}, registry["C15"].Meta.Rules["C15.2"], "C15.2", func(c *Ctx, r *Result, id string) { aliasRule(c, r, "C15", ruleC15, "C15.2", id) })
	shareRule([]string{"C05"}, registry["C12"].Meta.Rules["C12.17"], "C12.17", func(c *Ctx, r *Result, id string) { c12accounts(c, r, id) })
	shareRule([]string{"C05"}, registry["C03"].Meta.Rules["C03.20"], "C03.20", func(c *Ctx, r *Result, id string) { symbolNodeCapacityRule(c, r, id) })
	shareRule([]string{"C09"}, registry["C11"].Meta.Rules["C11.19"], "C11.19", func(c *Ctx, r *Result, id string) { byteOrderParamRule(c, r, id, 5) })
	shareRule([]string{"C10"}, registry["C16"].Meta.Rules["C16.11"], "C16.11", func(c *Ctx, r *Result, id string) { sentinelIndexRule(c, r, id, 2) })
	shareRule([]string{"C13", "C01"}, registry["C09"].Meta.Rules["C09.8"], "C09.8", func(c *Ctx, r *Result, id string) { aliasRule(c, r, "C09", c09strides, "C09.8", id) })
	shareRule([]string{"C16"}, registry["C03"].Meta.Rules["C03.1"], "C03.1", func(c *Ctx, r *Result, id string) { aliasRule(c, r, "C03", ruleC03, "C03.1", id) })
	shareRule([]string{"C16"}, registry["C13"].Meta.Rules["C13.14"], "C13.14", func(c *Ctx, r *Result, id string) { dimensionIndexRule(c, r, id, 10) })
	scope := func(n string) bool {
		for _, p := range []string{"core.ObjectHeaderWriter.", "core.WriteObjectHeader", "core.RewriteObjectHeader", "core.AddMessageToObjectHeader", "core.ModifyCompactAttribute", "hdf5.writeCompactAttribute", "hdf5.upsertAttributeMessage"} {
			if strings.HasPrefix(n, p) {
				return true
			}
		}
		return false
	}
	shareRule([]string{"C16"}, registry["C10"].Meta.Rules["C10.17"], "C10.17", func(c *Ctx, r *Result, id string) { narrowingRuleScoped(c, r, id, scope) })
}

// ---- the direct block is read back over the window it was written into (C15.23 / C02 share) ----
//
// writeDirectBlockAt places the objects at buf[dataStart:] and the checksum at buf[len-4:]; readDirectBlockFromFile copies
// buf[lo:hi] out as the block's data. lo = dataStart (as named linear forms at 8-byte file offsets) and hi - len(buf) = the
// checksum's position - len(buf): the reader takes every byte the writer may fill and none of the checksum.
func heapBlockWindowRule(c *Ctx, r *Result, rule string) {
	wFn, rFn := c.FnOpt("structures.WritableFractalHeap.writeDirectBlockAt"), c.FnOpt("structures.WritableFractalHeap.readDirectBlockFromFile")
	cons := "structures.WritableFractalHeap.readDirectBlockFromFile~writeDirectBlockAt#data-window"
	if wFn == nil || rFn == nil {
		r.Undec(rule, cons, "", "block writer or block reader not found")
		return
	}
	wb, rb := c.FB(wFn), c.FB(rFn)
	var wLo, wEnd, rLo, rEnd *Lin
	var at ssa.Instruction
	instrs(wFn, func(in ssa.Instruction) {
		call, ok := in.(*ssa.Call)
		if !ok {
			return
		}
		if b, isB := call.Call.Value.(*ssa.Builtin); isB && b.Name() == "copy" && valueReadsField(call.Call.Args[1], "structures.WritableDirectBlock.Objects", 0) {
			if sl, isSl := call.Call.Args[0].(*ssa.Slice); isSl && sl.Low != nil {
				l := wb.lin(sl.Low)
				wLo = &l
			}
		}
		name := ""
		if call.Call.IsInvoke() {
			name = call.Call.Method.Name()
		} else if f := call.Call.StaticCallee(); f != nil {
			name = f.Name()
		}
		if name == "PutUint32" && len(call.Call.Args) >= 2 {
			if sl, isSl := call.Call.Args[len(call.Call.Args)-2].(*ssa.Slice); isSl && sl.Low != nil {
				if cs, isCall := stripConv(call.Call.Args[len(call.Call.Args)-1]).(*ssa.Call); isCall && cs.Call.StaticCallee() != nil && cs.Call.StaticCallee().Name() == "ChecksumIEEE" {
					l := wb.lin(sl.Low).add(wb.lenLin(sl.X), -1)
					wEnd = &l
				}
			}
		}
	})
	instrs(rFn, func(in ssa.Instruction) {
		call, ok := in.(*ssa.Call)
		if !ok {
			return
		}
		if b, isB := call.Call.Value.(*ssa.Builtin); isB && b.Name() == "copy" {
			if sl, isSl := call.Call.Args[1].(*ssa.Slice); isSl && sl.Low != nil && sl.High != nil {
				lo := rb.lin(sl.Low)
				hi := rb.lin(sl.High).add(rb.lenLin(sl.X), -1)
				rLo, rEnd, at = &lo, &hi, in
			}
		}
	})
	if wLo == nil || wEnd == nil || rLo == nil || rEnd == nil {
		r.Undec(rule, cons, c.Pos(rFn.Pos()), "the writer's object copy / checksum position or the reader's data copy was not recognised")
		return
	}
	wl, rl := namedLin(wb, *wLo), namedLin(rb, *rLo)
	sameLo := len(wl) == len(rl)
	for k, v := range wl {
		if rl[k] != v {
			sameLo = false
		}
	}
	we, re := namedLin(wb, *wEnd), namedLin(rb, *rEnd)
	sameEnd := len(we) == 1 && len(re) == 1 && we[""] == re[""]
	r.Check(sameLo, rule, cons+"-start", c.InstrPos(at), fmt.Sprintf("data read from %v; written from %v (8-byte file offsets)", rl, wl))
	r.Check(sameEnd, rule, cons+"-end", c.InstrPos(at), fmt.Sprintf("data read up to len%+d; the checksum is written at len%+d", re[""], we[""]))
}

func init() {
	txt := "the heap block is read back over the window it was written into: readDirectBlockFromFile copies out buf[lo:hi] where lo is the position at which writeDirectBlockAt places the objects (at 8-byte file offsets) and hi is the checksum's position (totalSize-8 or dataEnd-1 drop the last bytes of a block that is filled to capacity: they read as zero after LoadFromFile and the next write-back stores the zeros)"
	registry["C15"].Meta.Rules["C15.23"] = txt
	registry["C15"].Rules = append(registry["C15"].Rules, func(c *Ctx, r *Result) { heapBlockWindowRule(c, r, "C15.23") })
	shareRule([]string{"C02", "C10"}, txt, "C15.23", func(c *Ctx, r *Result, id string) { heapBlockWindowRule(c, r, id) })
}

// ---- C15.24: the offset that goes into the heap ID is the offset that was tested; C15.25: Get returns fresh memory ----
func heapIDOffsetTestedRule(c *Ctx, r *Result, rule string) {
	n := 0
	for _, fn := range c.LibFuncs() {
		if !strings.HasPrefix(c.Name(fn), "structures.WritableFractalHeap.") || fn.Blocks == nil {
			continue
		}
		var enc []*ssa.Call
		var tested []ssa.Value
		for _, site := range callsIn(fn) {
			call, ok := site.(*ssa.Call)
			if !ok {
				continue
			}
			switch c.calleeName(site) {
			case "structures.WritableFractalHeap.encodeHeapID":
				enc = append(enc, call)
			case "structures.WritableFractalHeap.addressable":
				tested = append(tested, call.Call.Args[len(call.Call.Args)-1])
			}
		}
		if len(enc) == 0 {
			continue
		}
		fb := c.FB(fn)
		for i, e := range enc {
			n++
			off := e.Call.Args[len(e.Call.Args)-2]
			ok := false
			for _, t := range tested {
				if t == off || sameByName(fb, fb.lin(t), fb.lin(off)) {
					ok = true
				}
			}
			cons := fmt.Sprintf("%s#encoded-offset-was-tested-%d", c.Name(fn), i+1)
			if !ok {
				// offsets merged from several paths are not compared
				hasPhi := false
				for sym := range fb.lin(off).T {
					if _, isPhi := sym.(*ssa.Phi); isPhi {
						hasPhi = true
					}
				}
				for _, t := range tested {
					for sym := range fb.lin(t).T {
						if _, isPhi := sym.(*ssa.Phi); isPhi {
							hasPhi = true
						}
					}
				}
				if hasPhi || len(tested) == 0 {
					r.Undec(rule, cons, c.InstrPos(e), "the encoded or the tested offset is merged from several paths; not compared")
					continue
				}
			}
			r.Check(ok, rule, cons, c.InstrPos(e), "the offset handed to encodeHeapID is one that addressable() was asked about in this function")
		}
	}
	if n < 2 {
		r.Shortfall(c, rule, fmt.Sprintf("%s: only %d calls of encodeHeapID in the heap's insert functions", rule, n))
	}
}

func heapGetFreshRule(c *Ctx, r *Result, rule string) {
	n := 0
	for _, name := range []string{"getObjectFromDirect", "getObjectFromIndirect"} {
		fn := c.FnOpt("structures.WritableFractalHeap." + name)
		if fn == nil {
			r.Undec(rule, "structures.WritableFractalHeap."+name+"#returns-fresh-memory", "", "function not found")
			continue
		}
		k := 0
		for _, ret := range returnsOf(fn) {
			if len(ret.Results) == 0 {
				continue
			}
			v := retOperand(ret, 0)
			if isNilConst(v) {
				continue
			}
			n++
			k++
			fresh := false
			seen := map[ssa.Value]bool{}
			var walk func(v ssa.Value) bool
			walk = func(v ssa.Value) bool {
				if seen[v] {
					return true
				}
				seen[v] = true
				switch x := v.(type) {
				case *ssa.MakeSlice:
					return true
				case *ssa.Phi:
					for _, e := range x.Edges {
						if !isNilConst(e) && !walk(e) {
							return false
						}
					}
					return true
				case *ssa.Const:
					return x.IsNil()
				case *ssa.Call:
					// append([]byte(nil), src...), append(make(..), src...), bytes.Clone / slices.Clone
					if b, isB := x.Call.Value.(*ssa.Builtin); isB && b.Name() == "append" && len(x.Call.Args) > 0 {
						return isNilConst(x.Call.Args[0]) || walk(x.Call.Args[0])
					}
					if f := x.Call.StaticCallee(); f != nil && f.Name() == "Clone" && (fnPkgPath(f) == "bytes" || fnPkgPath(f) == "slices") {
						return true
					}
				case *ssa.Slice:
					// a reslice of fresh memory is fresh
					return walk(x.X)
				}
				return false
			}
			fresh = walk(v)
			r.Check(fresh, rule, fmt.Sprintf("structures.WritableFractalHeap.%s#returns-fresh-memory-%d", name, k), c.InstrPos(ret), "the bytes handed out are a slice made in this function, not a window into the block's own buffer (which delete zeroes and the next insert overwrites)")
		}
	}
	if n < 2 {
		r.Shortfall(c, rule, fmt.Sprintf("%s: only %d data returns in the heap's get functions", rule, n))
	}
}

func init() {
	registry["C15"].Meta.Rules["C15.24"] = "the offset that goes into a heap ID is the offset that was tested: in every function of the writable heap that calls encodeHeapID(offset, ..) the same value was handed to addressable() (with the block's own offset - always 0 for the root block - tested instead, the 65th KiB of a heap with 2-byte ID offsets is accepted and its ID wraps onto the first object's)"
	registry["C15"].Rules = append(registry["C15"].Rules, func(c *Ctx, r *Result) { heapIDOffsetTestedRule(c, r, "C15.24") })
	registry["C15"].Meta.Rules["C15.25"] = "Get returns the bytes, not the storage: every non-nil []byte returned by getObjectFromDirect / getObjectFromIndirect is made in that function (a window into Objects is zeroed by a later delete and overwritten by an append on the caller's side)"
	registry["C15"].Rules = append(registry["C15"].Rules, func(c *Ctx, r *Result) { heapGetFreshRule(c, r, "C15.25") })
}

// ======== round 9: small exact rules ========

// kindClassRule: an arm selected by one reflect.Kind builds a datatype of the class that kind belongs to.
func kindClassRule(c *Ctx, r *Result, rule string, floor int) {
	classOf := func(kind int64) (int64, bool) {
		switch {
		case kind >= 2 && kind <= 11: // Int..Uint64
			return 0, true // fixed point
		case kind == 13 || kind == 14:
			return 1, true // floating point
		case kind == 24:
			return 3, true // string
		}
		return 0, false
	}
	n := 0
	for _, fn := range c.LibFuncs() {
		if shortPkg(fnPkgPath(fn)) != "hdf5" || fn.Blocks == nil {
			continue
		}
		k := 0
		for _, b := range fn.Blocks {
			ifi, ok := b.Instrs[len(b.Instrs)-1].(*ssa.If)
			if !ok {
				continue
			}
			cmp, ok := ifi.Cond.(*ssa.BinOp)
			if !ok || cmp.Op != token.EQL {
				continue
			}
			kind, isK := constInt(cmp.Y)
			call, isCall := stripConv(cmp.X).(*ssa.Call)
			if !isK || !isCall {
				continue
			}
			name := ""
			if call.Call.IsInvoke() {
				name = call.Call.Method.Name()
			} else if f := call.Call.StaticCallee(); f != nil {
				name = f.Name()
			}
			if name != "Kind" {
				continue
			}
			want, known := classOf(kind)
			if !known {
				continue
			}
			for blk := range edgeRegion(b, b.Succs[0]) {
				for _, in := range blk.Instrs {
					st, isSt := in.(*ssa.Store)
					if !isSt {
						continue
					}
					fa, isFA := st.Addr.(*ssa.FieldAddr)
					if !isFA {
						continue
					}
					f, base := fieldOfAddr(fa)
					if f == nil || fieldKey(base.Type(), f) != "core.DatatypeMessage.Class" {
						continue
					}
					cls, isC := constInt(stripConv(st.Val))
					if !isC {
						continue
					}
					n++
					k++
					r.Check(cls == want, rule, fmt.Sprintf("%s#class-for-kind-%d", c.Name(fn), kind), c.InstrPos(st), fmt.Sprintf("the arm for reflect kind %d builds a datatype of class %d (fixed point 0, floating point 1, string 3)", kind, cls))
				}
			}
		}
	}
	if n < floor {
		r.Shortfall(c, rule, fmt.Sprintf("%s: only %d kind-selected datatype constructions found (expected >= %d)", rule, n, floor))
	}
}

// scanComplementRule: after `for cur < L && x[cur] != t { cur++ }` the failure test is cur >= L with the same L.
func scanComplementRule(c *Ctx, r *Result, rule string, floor int) {
	n := 0
	for _, fn := range c.LibFuncs() {
		if fn.Blocks == nil {
			continue
		}
		var fb *FB
		k := 0
		instrs(fn, func(in ssa.Instruction) {
			phi, ok := in.(*ssa.Phi)
			if !ok {
				return
			}
			hdr := phi.Block()
			isHdr := false
			for _, p := range hdr.Preds {
				if hdr.Dominates(p) {
					isHdr = true
				}
			}
			ifi, isIf := hdr.Instrs[len(hdr.Instrs)-1].(*ssa.If)
			if !isHdr || !isIf {
				return
			}
			lc, isC := ifi.Cond.(*ssa.BinOp)
			if !isC || lc.Op != token.LSS || stripConv(lc.X) != ssa.Value(phi) {
				return
			}
			loop := naturalLoop(hdr)
			// the second conjunct reads x[cur]
			reads := false
			for blk := range loop {
				for _, in2 := range blk.Instrs {
					switch x := in2.(type) {
					case *ssa.IndexAddr:
						if stripConv(x.Index) == ssa.Value(phi) {
							reads = true
						}
					case *ssa.Index:
						if stripConv(x.Index) == ssa.Value(phi) {
							reads = true
						}
					case *ssa.Lookup:
						if stripConv(x.Index) == ssa.Value(phi) {
							reads = true
						}
					}
				}
			}
			if !reads {
				return
			}
			if fb == nil {
				fb = c.FB(fn)
			}
			// failure tests on the cursor outside the loop
			for _, b := range fn.Blocks {
				if loop[b] {
					continue
				}
				fi, isF := b.Instrs[len(b.Instrs)-1].(*ssa.If)
				if !isF {
					continue
				}
				fc, isFC := fi.Cond.(*ssa.BinOp)
				if !isFC || !errorOnlyBlock(b.Succs[0], 0) {
					continue
				}
				// cur + c0 OP Y is cur OP Y - c0
				off := fb.lin(fc.X).add(fb.lin(phi), -1)
				if !off.isConst() || (off.C != 0 && fc.Op != token.GEQ) {
					continue // cur+k > L in front of a k-byte read is a different test
				}
				d := fb.lin(fc.Y).add(fb.lin(lc.Y), -1)
				d.C -= off.C
				if !sameByName(fb, fb.lin(fc.Y).add(linConst(d.C+off.C), -1), fb.lin(lc.Y)) {
					continue
				}
				var want int64
				switch fc.Op {
				case token.GEQ, token.EQL:
					want = 0
				case token.GTR:
					want = -1
				default:
					continue
				}
				n++
				k++
				r.Check(d.C == want, rule, fmt.Sprintf("%s#scan-failure-test-%d", c.Name(fn), k), c.InstrPos(fc), fmt.Sprintf("the scan runs while cur < L; the failure test compares cur %s L%+d", fc.Op, d.C))
			}
		})
	}
	if n < floor {
		r.Shortfall(c, rule, fmt.Sprintf("%s: only %d scan failure tests found (expected >= %d)", rule, n, floor))
	}
}

// emptyWindowRule: copy(dst[k:], ..) where dst was made with length k copies nothing.
func emptyWindowRule(c *Ctx, r *Result, rule string, floor int) {
	n := 0
	for _, fn := range c.LibFuncs() {
		if fn.Blocks == nil {
			continue
		}
		var fb *FB
		k := 0
		for _, site := range callsIn(fn) {
			call, ok := site.(*ssa.Call)
			if !ok {
				continue
			}
			b, isB := call.Call.Value.(*ssa.Builtin)
			if !isB || b.Name() != "copy" {
				continue
			}
			sl, isSl := call.Call.Args[0].(*ssa.Slice)
			if !isSl || sl.Low == nil || sl.High != nil {
				continue
			}
			ms, isMS := sl.X.(*ssa.MakeSlice)
			if !isMS {
				continue
			}
			if fb == nil {
				fb = c.FB(fn)
			}
			n++
			k++
			d := fb.lin(ms.Len).add(fb.lin(sl.Low), -1)
			empty := d.isConst() && d.C <= 0
			r.Check(!empty, rule, fmt.Sprintf("%s#copy-window-%d", c.Name(fn), k), c.InstrPos(call), fmt.Sprintf("the destination window starts at %s in a slice of length %s", fb.linString(fb.lin(sl.Low)), fb.linString(fb.lin(ms.Len))))
		}
	}
	if n < floor {
		r.Shortfall(c, rule, fmt.Sprintf("%s: only %d copies into an open-ended window of a fresh slice found (expected >= %d)", rule, n, floor))
	}
}

func init() {
	// C06: the sign bit
	signID := nextRuleID("C06")
	registry["C06"].Meta.Rules[signID] = "signed integers are recognised by the format's sign bit: DatatypeMessage.IsSigned masks the class bit field with 0x08 (bit 3 of a fixed-point type; with 0x04, the high-padding bit, every negative value of the corpus reads back as 2^32 - |v|)"
	signRule := func(id string) func(c *Ctx, r *Result) {
		return func(c *Ctx, r *Result) {
			fn := c.FnOpt("core.DatatypeMessage.IsSigned")
			if fn == nil {
				r.Undec(id, "core.DatatypeMessage.IsSigned#sign-bit", "", "function not found")
				return
			}
			n := 0
			instrs(fn, func(in ssa.Instruction) {
				bo, ok := in.(*ssa.BinOp)
				if !ok || bo.Op != token.AND {
					return
				}
				if m, isK := constInt(bo.Y); isK {
					n++
					r.Check(m == 0x08, id, "core.DatatypeMessage.IsSigned#sign-bit", c.InstrPos(bo), fmt.Sprintf("the class bit field is masked with %#x", m))
				}
			})
			if n == 0 {
				r.Undec(id, "core.DatatypeMessage.IsSigned#sign-bit", c.Pos(fn.Pos()), "no mask of the class bit field found")
			}
		}
	}
	registry["C06"].Rules = append(registry["C06"].Rules, signRule(signID))
	id01 := nextRuleID("C01")
	registry["C01"].Meta.Rules[id01] = registry["C06"].Meta.Rules[signID] + " (shared with " + signID + ")"
	registry["C01"].Rules = append(registry["C01"].Rules, signRule(id01))

	// C02: kind -> class
	txt := "a value is stored under the datatype class of its Go kind: in the root package an arm selected by `Kind() == K` that builds a core.DatatypeMessage gives it class fixed-point for the integer kinds, floating-point for Float32/Float64, string for String (a []float32 attribute declared fixed-point reads back as []int32 holding the bit patterns)"
	shareRule([]string{"C02", "C01"}, txt, "C02", func(c *Ctx, r *Result, id string) { kindClassRule(c, r, id, 4) })

	// C03 / C06: scan failure test
	txt = "a scan that stopped inside the buffer found its terminator: after `for cur < L && x[cur] != t { cur++ }` the test that reports 'not terminated' is cur >= L with the same L (with L-1 a name whose terminator is the last byte of the name heap is refused: a group whose names fill the heap exactly can no longer be opened)"
	shareRule([]string{"C03", "C06", "C11"}, txt, "C03", func(c *Ctx, r *Result, id string) { scanComplementRule(c, r, id, 2) })
	defer func() {
		// registered last so that earlier ids stay as they were
		shareRule([]string{"C04"}, txt, "C03", func(c *Ctx, r *Result, id string) { scanComplementRule(c, r, id, 2) })
	}()

	// C12 / C11: copy into an empty window
	txt = "a copy has somewhere to go: where copy(dst[k:], src) writes into a slice made in the same function, the slice is longer than k (make([]byte, 8, 8+n) followed by copy(buf[8:], props) copies nothing: every variable-length datatype message loses its base type)"
	shareRule([]string{"C12", "C11", "C05"}, txt, "C12", func(c *Ctx, r *Result, id string) { emptyWindowRule(c, r, id, 5) })
}

// ======== round 9: small exact rules, second part ========

func (c *Ctx) coreConst(name string) (int64, bool) {
	p := c.PkgByID["core"]
	if p == nil {
		return 0, false
	}
	k, ok := p.Types.Scope().Lookup(name).(*types.Const)
	if !ok {
		return 0, false
	}
	v, exact := constant.Int64Val(k.Val())
	return v, exact
}

// groupHeaderOrderRule: in an object header literal that carries a group-defining message and a dataspace message, the
// group-defining one comes first (the reader classifies an object by the first such message it meets).
func groupHeaderOrderRule(c *Ctx, r *Result, rule string) {
	ds, ok1 := c.coreConst("MsgDataspace")
	li, ok2 := c.coreConst("MsgLinkInfo")
	st, ok3 := c.coreConst("MsgSymbolTable")
	lm, ok4 := c.coreConst("MsgLinkMessage")
	if !(ok1 && ok2 && ok3 && ok4) {
		r.Undec(rule, "core#message-type-constants", "", "message type constants not found")
		return
	}
	n := 0
	for _, fn := range c.LibFuncs() {
		arrays := map[ssa.Value]map[int64]int64{}
		pos := map[ssa.Value]ssa.Instruction{}
		// an element built as a local literal and stored whole: *(&arr[i]) = *lit
		litType := map[ssa.Value]int64{}
		instrs(fn, func(in ssa.Instruction) {
			stI, ok := in.(*ssa.Store)
			if !ok {
				return
			}
			if fa, isFA := stI.Addr.(*ssa.FieldAddr); isFA {
				if f, base := fieldOfAddr(fa); f != nil && fieldKey(base.Type(), f) == "core.MessageWriter.Type" {
					if _, isAlloc := base.(*ssa.Alloc); isAlloc {
						if typ, okT := constInt(stripConv(stI.Val)); okT {
							litType[base] = typ
						}
					}
				}
			}
		})
		instrs(fn, func(in ssa.Instruction) {
			stI, ok := in.(*ssa.Store)
			if !ok {
				return
			}
			ia, isIA := stI.Addr.(*ssa.IndexAddr)
			if !isIA {
				return
			}
			ld, isLd := isLoad(stI.Val)
			if !isLd {
				return
			}
			typ, known := litType[ld.X]
			idx, okI := constInt(ia.Index)
			if !known || !okI {
				return
			}
			if arrays[ia.X] == nil {
				arrays[ia.X] = map[int64]int64{}
				pos[ia.X] = in
			}
			arrays[ia.X][idx] = typ
		})
		instrs(fn, func(in ssa.Instruction) {
			stI, ok := in.(*ssa.Store)
			if !ok {
				return
			}
			fa, ok := stI.Addr.(*ssa.FieldAddr)
			if !ok {
				return
			}
			f, base := fieldOfAddr(fa)
			if f == nil || fieldKey(base.Type(), f) != "core.MessageWriter.Type" {
				return
			}
			ia, ok := base.(*ssa.IndexAddr)
			if !ok {
				return
			}
			idx, okI := constInt(ia.Index)
			typ, okT := constInt(stripConv(stI.Val))
			if !okI || !okT {
				return
			}
			if arrays[ia.X] == nil {
				arrays[ia.X] = map[int64]int64{}
				pos[ia.X] = in
			}
			arrays[ia.X][idx] = typ
		})
		for arr, m := range arrays {
			first, dsAt := int64(-1), int64(-1)
			for i := int64(0); i < int64(len(m)); i++ {
				t, ok := m[i]
				if !ok {
					break
				}
				if (t == li || t == st || t == lm) && first < 0 {
					first = i
				}
				if t == ds && dsAt < 0 {
					dsAt = i
				}
			}
			if first < 0 || dsAt < 0 {
				continue
			}
			n++
			r.Check(first < dsAt, rule, c.Name(fn)+"#group-message-before-dataspace", c.InstrPos(pos[arr]), fmt.Sprintf("the group-defining message is message %d, the dataspace message is message %d of the header", first, dsAt))
		}
	}
	if n < 1 {
		// built another way (append, a loop): the order is then not decided here
		r.Undec(rule, "module#group-message-before-dataspace", "", "no object header literal that carries both a group-defining and a dataspace message")
	}
}

// fixedRecordCursorRule: a cursor that fills windows of a loop-invariant width advances by a loop-invariant amount.
func fixedRecordCursorRule(c *Ctx, r *Result, rule string, floor int) {
	n := 0
	for _, fn := range c.LibFuncs() {
		if fn.Blocks == nil {
			continue
		}
		var fb *FB
		k := 0
		done := map[*ssa.Phi]bool{}
		instrs(fn, func(in ssa.Instruction) {
			sl, ok := in.(*ssa.Slice)
			if !ok || sl.Low == nil || sl.High == nil {
				return
			}
			phi, isPhi := stripConv(sl.Low).(*ssa.Phi)
			if !isPhi || done[phi] {
				return
			}
			hdr := phi.Block()
			loop := naturalLoop(hdr)
			if !loop[sl.Block()] || len(loop) < 2 {
				return
			}
			// the window is a copy destination
			isDst := false
			for _, ref := range *sl.Referrers() {
				if call, isCall := ref.(*ssa.Call); isCall {
					if b, isB := call.Call.Value.(*ssa.Builtin); isB && b.Name() == "copy" && call.Call.Args[0] == ssa.Value(sl) {
						isDst = true
					}
				}
			}
			if !isDst {
				return
			}
			if fb == nil {
				fb = c.FB(fn)
			}
			invariant := func(l Lin) bool {
				for sym := range l.T {
					var v ssa.Value
					switch s := sym.(type) {
					case lenKey:
						v = s.v
					case ssa.Value:
						v = s
					default:
						return false
					}
					if in2, isInstr := v.(ssa.Instruction); isInstr && loop[in2.Block()] {
						return false
					}
				}
				return true
			}
			w := fb.lin(sl.High).add(fb.lin(sl.Low), -1)
			if w.isConst() || !invariant(w) {
				return
			}
			for i, p := range hdr.Preds {
				if !hdr.Dominates(p) {
					continue
				}
				inc := fb.lin(phi.Edges[i]).add(fb.lin(phi), -1)
				done[phi] = true
				n++
				k++
				r.Check(invariant(inc), rule, fmt.Sprintf("%s#cursor-of-fixed-width-records-%d", c.Name(fn), k), c.InstrPos(sl), fmt.Sprintf("windows of %s bytes are filled at a cursor that advances by %s per iteration", fb.linString(w), fb.linString(inc)))
			}
		})
	}
	if n < floor {
		// written another way (i*W, a helper): nothing to compare
		r.Undec(rule, "module#cursors-over-fixed-width-windows", "", fmt.Sprintf("only %d cursors over fixed-width windows found (expected >= %d)", n, floor))
	}
}

func init() {
	// C03: AddKey's child, header order
	id := nextRuleID("C03")
	registry["C03"].Meta.Rules[id] = "a group's B-tree points at its symbol table node: in every call of BTreeNodeV1.AddKey(key, child) the child address is a computed value, never a constant (with key and child exchanged the reader skips child address 0 and the reopened root group is silently empty)"
	registry["C03"].Rules = append(registry["C03"].Rules, func(c *Ctx, r *Result) {
		n := 0
		for _, fn := range c.LibFuncs() {
			k := 0
			for _, site := range callsIn(fn) {
				if c.calleeName(site) != "structures.BTreeNodeV1.AddKey" {
					continue
				}
				args := site.Common().Args
				n++
				k++
				_, isK := constInt(stripConv(args[len(args)-1]))
				r.Check(!isK, id, fmt.Sprintf("%s#child-address-of-AddKey-%d", c.Name(fn), k), c.InstrPos(site.(ssa.Instruction)), "the child address handed to AddKey is not a constant")
			}
		}
		if n < 3 {
			r.Shortfall(c, id, fmt.Sprintf("%s: only %d calls of AddKey", id, n))
		}
	})
	txt := "a group is written so that it reads back as a group: in an object header literal that carries a group-defining message (link info, link, symbol table) and a dataspace message, the group-defining one comes first - the reader takes the first of these it meets as the object's kind (with the two exchanged every dense group reopens as a dataset)"
	shareRule([]string{"C03", "C06"}, txt, "C03", func(c *Ctx, r *Result, id string) { groupHeaderOrderRule(c, r, id) })

	// C10 / C01: fixed-width records
	txt = "fixed-width elements are placed one element apart: where a loop copies into windows buf[cur:cur+W] with a loop-invariant W, the cursor advances by a loop-invariant amount (offset += len(strBytes) for offset += elemSize packs the strings of a fixed-length string dataset back to back)"
	shareRule([]string{"C10", "C01"}, txt, "C10", func(c *Ctx, r *Result, id string) { fixedRecordCursorRule(c, r, id, 1) })

	// C11: member count mask, dataspace arguments
	id11 := nextRuleID("C11")
	registry["C11"].Meta.Rules[id11] = "the version 1 compound parser keeps the member count the encoder admits: the mask ParseCompoundType applies to the class bit field for the member count is at least the bound EncodeCompoundDatatypeV1 tests len(fields) against (0xFF against 65535: a compound with 256 members decodes to an empty one)"
	registry["C11"].Rules = append(registry["C11"].Rules, func(c *Ctx, r *Result) {
		pf, ef := c.FnOpt("core.ParseCompoundType"), c.FnOpt("core.EncodeCompoundDatatypeV1")
		cons := "core.ParseCompoundType~core.EncodeCompoundDatatypeV1#member-count-width"
		if pf == nil || ef == nil {
			r.Undec(id11, cons, "", "parser or encoder not found")
			return
		}
		var mask, bound int64 = -1, -1
		var at ssa.Instruction
		instrs(pf, func(in ssa.Instruction) {
			if bo, ok := in.(*ssa.BinOp); ok && bo.Op == token.AND && valueReadsField(bo.X, "core.DatatypeMessage.ClassBitField", 0) {
				if m, isK := constInt(bo.Y); isK {
					mask, at = m, in
				}
			}
		})
		instrs(ef, func(in ssa.Instruction) {
			if bo, ok := in.(*ssa.BinOp); ok && bo.Op == token.GTR {
				if call, isCall := stripConv(bo.X).(*ssa.Call); isCall {
					if b, isB := call.Call.Value.(*ssa.Builtin); isB && b.Name() == "len" {
						if k, isK := constInt(bo.Y); isK && k > bound {
							bound = k
						}
					}
				}
			}
		})
		if mask < 0 || bound < 0 {
			r.Undec(id11, cons, c.Pos(pf.Pos()), "mask or bound not recognised")
			return
		}
		r.Check(mask >= bound, id11, cons, c.InstrPos(at), fmt.Sprintf("the parser keeps count & %#x; the encoder admits up to %d members", mask, bound))
	})
	txt = "a dataspace is encoded whole: where EncodeDataspaceMessage is given the Dimensions of a DataspaceMessage, it is given the MaxDims of the same message (nil there drops the maximum dimensions of every attribute that has them)"
	shareRule([]string{"C11", "C02"}, txt, "C11", func(c *Ctx, r *Result, id string) {
		n := 0
		for _, fn := range c.LibFuncs() {
			k := 0
			for _, site := range callsIn(fn) {
				if c.calleeName(site) != "core.EncodeDataspaceMessage" {
					continue
				}
				args := site.Common().Args
				if len(args) < 2 || !valueReadsField(args[0], "core.DataspaceMessage.Dimensions", 0) {
					continue
				}
				n++
				k++
				r.Check(valueReadsField(args[1], "core.DataspaceMessage.MaxDims", 0), id, fmt.Sprintf("%s#dataspace-encoded-with-its-maximum-%d", c.Name(fn), k), c.InstrPos(site.(ssa.Instruction)), "the second argument is the MaxDims field of a DataspaceMessage")
			}
		}
		if n < 1 {
			r.Shortfall(c, id, id+": no call of EncodeDataspaceMessage on the fields of a DataspaceMessage")
		}
	})

	// C12: one notion of 'string' in the vlen handler
	id12 := nextRuleID("C12")
	registry["C12"].Meta.Rules[id12] = "the variable-length handler has one notion of 'string': every comparison of vlenTypeHandler.baseType with a constant in EncodeDatatypeMessage uses the same constant (the base type is chosen under baseType == 0; a string flag set under baseType == VLenString, 500, is never set: a VLenString dataset reopens as a sequence)"
	registry["C12"].Rules = append(registry["C12"].Rules, func(c *Ctx, r *Result) {
		fn := c.FnOpt("hdf5.vlenTypeHandler.EncodeDatatypeMessage")
		cons := "hdf5.vlenTypeHandler.EncodeDatatypeMessage#one-constant-for-string"
		if fn == nil {
			r.Undec(id12, cons, "", "function not found")
			return
		}
		seen := map[int64]bool{}
		var at ssa.Instruction
		instrs(fn, func(in ssa.Instruction) {
			bo, ok := in.(*ssa.BinOp)
			if !ok || (bo.Op != token.EQL && bo.Op != token.NEQ) || !valueReadsField(bo.X, "hdf5.vlenTypeHandler.baseType", 0) {
				return
			}
			if k, isK := constInt(bo.Y); isK {
				seen[k] = true
				at = in
			}
		})
		if len(seen) == 0 {
			r.Undec(id12, cons, c.Pos(fn.Pos()), "no comparison of baseType with a constant")
			return
		}
		r.Check(len(seen) == 1, id12, cons, c.InstrPos(at), fmt.Sprintf("%d different constants are compared with baseType", len(seen)))
	})

	// C13 / C01: expandEdgeChunk pads every rank
	txt = "every clipped chunk is padded, whatever its rank: in expandEdgeChunk a comparison of the rank (len of nominal / actual) with a constant is an equality test with 0 (n <= 1 for n == 0 leaves the boundary chunk of a one-dimensional dataset at its clipped size: after a grow it can no longer be read)"
	shareRule([]string{"C13", "C01", "C05"}, txt, "C13", func(c *Ctx, r *Result, id string) {
		fn := c.FnOpt("hdf5.expandEdgeChunk")
		if fn == nil {
			r.Undec(id, "hdf5.expandEdgeChunk#rank-test", "", "function not found")
			return
		}
		n := 0
		instrs(fn, func(in ssa.Instruction) {
			bo, ok := in.(*ssa.BinOp)
			if !ok {
				return
			}
			switch bo.Op {
			case token.EQL, token.NEQ, token.LSS, token.LEQ, token.GTR, token.GEQ:
			default:
				return
			}
			call, isCall := stripConv(bo.X).(*ssa.Call)
			if !isCall {
				return
			}
			b, isB := call.Call.Value.(*ssa.Builtin)
			if !isB || b.Name() != "len" {
				return
			}
			if _, isParam := call.Call.Args[0].(*ssa.Parameter); !isParam {
				return
			}
			k, isK := constInt(bo.Y)
			if !isK {
				return
			}
			// only tests that decide an exit, not loop bounds
			if _, isIf := in.Block().Instrs[len(in.Block().Instrs)-1].(*ssa.If); !isIf {
				return
			}
			n++
			r.Check((bo.Op == token.EQL || bo.Op == token.NEQ) && k == 0, id, fmt.Sprintf("hdf5.expandEdgeChunk#rank-test-%d", n), c.InstrPos(bo), fmt.Sprintf("the rank is compared %s %d", bo.Op, k))
		})
		if n < 1 {
			r.Undec(id, "hdf5.expandEdgeChunk#rank-test", c.Pos(fn.Pos()), "no test of the rank against a constant")
		}
	})
}

// ======== round 10 ========

// filterInputRule (C08): a filter neither appends to its input nor hands it back unchanged unless it is empty.
func filterInputRule(c *Ctx, r *Result, ruleAppend, ruleEmpty string) {
	nA, nE := 0, 0
	for _, fn := range c.LibFuncs() {
		name := c.Name(fn)
		isFilter := (strings.HasPrefix(name, "writer.") && (strings.HasSuffix(name, ".Apply") || strings.HasSuffix(name, ".Remove") || strings.HasPrefix(name, "writer.lzf"))) ||
			(strings.HasPrefix(name, "core.apply") || strings.HasPrefix(name, "core.lzf"))
		if !isFilter || fn.Blocks == nil {
			continue
		}
		isInput := func(v ssa.Value) bool {
			for i := 0; i < 4; i++ {
				if sl, ok := v.(*ssa.Slice); ok {
					v = sl.X
				}
			}
			p, ok := v.(*ssa.Parameter)
			return ok && isBytesOrString(p.Type())
		}
		k := 0
		for _, site := range callsIn(fn) {
			call, ok := site.(*ssa.Call)
			if !ok || len(call.Call.Args) == 0 {
				continue
			}
			isAppend := false
			var first ssa.Value
			if b, isB := call.Call.Value.(*ssa.Builtin); isB && b.Name() == "append" {
				isAppend, first = true, call.Call.Args[0]
			} else if call.Call.IsInvoke() && strings.HasPrefix(call.Call.Method.Name(), "Append") {
				isAppend, first = true, call.Call.Args[0]
			} else if f := call.Call.StaticCallee(); f != nil && fnPkgPath(f) == "encoding/binary" && strings.HasPrefix(f.Name(), "Append") {
				isAppend, first = true, call.Call.Args[len(call.Call.Args)-2]
			}
			if !isAppend {
				continue
			}
			nA++
			k++
			r.Check(!isInput(first), ruleAppend, fmt.Sprintf("%s#append-%d", name, k), c.InstrPos(call), "append builds on memory of the filter's own, not on the caller's chunk (which may have spare capacity that belongs to the next chunk)")
		}
		// returns of the input itself
		k = 0
		for _, ret := range returnsOf(fn) {
			if len(ret.Results) == 0 {
				continue
			}
			if _, isP := ret.Results[0].(*ssa.Parameter); !isP {
				continue
			}
			b := ret.Block()
			if len(b.Preds) != 1 {
				continue
			}
			ifi, isIf := b.Preds[0].Instrs[len(b.Preds[0].Instrs)-1].(*ssa.If)
			if !isIf {
				continue
			}
			cmp, isC := ifi.Cond.(*ssa.BinOp)
			if !isC {
				continue
			}
			kk, isK := constInt(cmp.Y)
			if !isK {
				continue
			}
			// the compared value is len(input) (directly or through a local)
			isLen := false
			if call, isCall := stripConv(cmp.X).(*ssa.Call); isCall {
				if bi, isB := call.Call.Value.(*ssa.Builtin); isB && bi.Name() == "len" && isInput(call.Call.Args[0]) {
					isLen = true
				}
			}
			if !isLen {
				continue
			}
			nE++
			k++
			onTrue := b.Preds[0].Succs[0] == b
			r.Check(cmp.Op == token.EQL && kk == 0 && onTrue, ruleEmpty, fmt.Sprintf("%s#input-returned-unchanged-%d", name, k), c.InstrPos(cmp), fmt.Sprintf("the input is handed back as it is under len(input) %s %d", cmp.Op, kk))
		}
	}
	if nA < 3 {
		r.Shortfall(c, ruleAppend, fmt.Sprintf("%s: only %d appends in the filter functions", ruleAppend, nA))
	}
	if nE < 3 {
		r.Shortfall(c, ruleEmpty, fmt.Sprintf("%s: only %d returns of the unchanged input in the filter functions", ruleEmpty, nE))
	}
}

func init() {
	a, e := nextRuleID("C08"), ""
	registry["C08"].Meta.Rules[a] = "a filter leaves the caller's chunk alone: in the Apply / Remove methods and the LZF and reader-side filter functions no append (builtin, AppendUintN) builds on the input slice (AppendUint32(data, checksum) writes the checksum of chunk k over the first bytes of chunk k+1 when both are windows of one dataset buffer)"
	e = nextRuleID("C08")
	registry["C08"].Meta.Rules[e] = "a filter hands its input back unchanged only when there is nothing to do: a test of len(input) against a constant whose arm returns the input itself is len(input) == 0 (with < 3 the two bytes the writer's LZF encoder produces for a one-byte chunk are returned as the chunk)"
	registry["C08"].Rules = append(registry["C08"].Rules, func(c *Ctx, r *Result) { filterInputRule(c, r, a, e) })
}

func init() {
	// C14: byte lanes of lookup3
	id := nextRuleID("C14")
	registry["C14"].Meta.Rules[id] = "every key byte goes into its lane: in jenkinsHash a byte name[i+j] that is shifted is shifted by 8*(j mod 4) bits, in the 12-byte blocks and in the tail (lookup3 reads little-endian words; the 11th tail byte shifted by 8 instead of 16 changes the hash of every name whose length is 11 or 0 modulo 12: another library does not find 'temperature')"
	registry["C14"].Rules = append(registry["C14"].Rules, func(c *Ctx, r *Result) {
		fn := c.FnOpt("structures.jenkinsHash")
		if fn == nil {
			r.Undec(id, "structures.jenkinsHash#byte-lanes", "", "function not found")
			return
		}
		fb := c.FB(fn)
		n := 0
		instrs(fn, func(in ssa.Instruction) {
			sh, ok := in.(*ssa.BinOp)
			if !ok || sh.Op != token.SHL {
				return
			}
			s, isK := constInt(sh.Y)
			if !isK {
				return
			}
			var idx ssa.Value
			switch x := stripConv(sh.X).(type) {
			case *ssa.Lookup:
				idx = x.Index
			case *ssa.Index:
				idx = x.Index
			case *ssa.UnOp:
				if ia, isIA := x.X.(*ssa.IndexAddr); isIA {
					idx = ia.Index
				}
			}
			if idx == nil {
				return
			}
			j := fb.lin(idx).C
			n++
			r.Check(s == 8*(j%4), id, fmt.Sprintf("structures.jenkinsHash#lane-of-byte-%d-%d", j, n), c.InstrPos(sh), fmt.Sprintf("byte %d of the block is shifted by %d bits", j, s))
		})
		if n < 12 {
			r.Shortfall(c, id, fmt.Sprintf("%s: only %d shifted key bytes in jenkinsHash", id, n))
		}
	})
	// C14: a load replaces the records
	id2 := nextRuleID("C14")
	registry["C14"].Meta.Rules[id2] = "loading an index replaces what the handle held: every successful return of WritableBTreeV2.LoadFromFile is preceded by a store to the record sequence (without the reset in the empty-tree branch a handle reloaded from an index that another handle emptied keeps answering with its old records while the header says 0)"
	registry["C14"].Rules = append(registry["C14"].Rules, func(c *Ctx, r *Result) {
		fn := c.FnOpt("structures.WritableBTreeV2.LoadFromFile")
		if fn == nil {
			r.Undec(id2, "structures.WritableBTreeV2.LoadFromFile#records-replaced", "", "function not found")
			return
		}
		n := 0
		for _, ret := range returnsOf(fn) {
			if len(ret.Results) != 1 || !isNilConst(retOperand(ret, 0)) {
				continue
			}
			n++
			ok := mustPrecede(ret, func(x ssa.Instruction) bool {
				st, isSt := x.(*ssa.Store)
				if !isSt {
					return false
				}
				fa, isFA := st.Addr.(*ssa.FieldAddr)
				if !isFA {
					return false
				}
				f, base := fieldOfAddr(fa)
				return f != nil && fieldKey(base.Type(), f) == "structures.WritableBTreeV2.records"
			})
			r.Check(ok, id2, fmt.Sprintf("structures.WritableBTreeV2.LoadFromFile#records-replaced-%d", n), c.InstrPos(ret), "every path to this successful return assigns the record sequence")
		}
		if n < 1 {
			r.Undec(id2, "structures.WritableBTreeV2.LoadFromFile#records-replaced", c.Pos(fn.Pos()), "no successful return found")
		}
	})
}

// ---- round 10, C19 ----
func init() {
	// the deletion variants pick the same record: the first whose hash matches
	txt := "every deletion variant removes the first record whose hash matches: in the WritableBTreeV2.Delete* functions the arm of the comparison of a record's NameHash with the wanted hash leaves the search loop (without the break the variant removes the last match: two names with colliding hashes leave different content depending on the rebalancing mode)"
	shareRule([]string{"C19", "C14"}, txt, "C19", func(c *Ctx, r *Result, id string) {
		n := 0
		for _, fn := range c.LibFuncs() {
			if !strings.HasPrefix(c.Name(fn), "structures.WritableBTreeV2.Delete") || fn.Blocks == nil {
				continue
			}
			k := 0
			for _, b := range fn.Blocks {
				ifi, ok := b.Instrs[len(b.Instrs)-1].(*ssa.If)
				if !ok {
					continue
				}
				cmp, ok := ifi.Cond.(*ssa.BinOp)
				if !ok || cmp.Op != token.EQL || !(valueReadsField(cmp.X, "structures.LinkNameRecord.NameHash", 0) || valueReadsField(cmp.Y, "structures.LinkNameRecord.NameHash", 0)) {
					continue
				}
				// the loop this test is in
				var hdr *ssa.BasicBlock
				for _, h := range fn.Blocks {
					isHdr := false
					for _, p := range h.Preds {
						if h.Dominates(p) {
							isHdr = true
						}
					}
					if isHdr && naturalLoop(h)[b] && (hdr == nil || naturalLoop(hdr)[h]) {
						hdr = h
					}
				}
				if hdr == nil {
					continue
				}
				loop := naturalLoop(hdr)
				n++
				k++
				leaves := true
				cur := b.Succs[0]
				for i := 0; i < 8 && loop[cur]; i++ {
					if cur == hdr {
						leaves = false
						break
					}
					if _, isJump := cur.Instrs[len(cur.Instrs)-1].(*ssa.Jump); !isJump {
						break // a further decision inside the loop: not followed
					}
					cur = cur.Succs[0]
				}
				if cur == hdr {
					leaves = false
				}
				r.Check(leaves, id, fmt.Sprintf("%s#first-match-ends-the-search-%d", c.Name(fn), k), c.InstrPos(cmp), "the arm taken when the hash matches does not run on to the next iteration")
			}
		}
		if n < 2 {
			r.Shortfall(c, id, fmt.Sprintf("%s: only %d hash searches in the deletion variants", id, n))
		}
	})

	// the selector's memory is updated as a pair
	id := nextRuleID("C19")
	registry["C19"].Meta.Rules[id] = "the remembered mode and the time it was decided are updated together: in SelectConfig every store to lastMode has a store to lastDecisionTime in the same basic block and vice versa (a time that is only refreshed when the mode changes lets a proposal through one stability period after the first of several confirming decisions, not after the last)"
	registry["C19"].Rules = append(registry["C19"].Rules, func(c *Ctx, r *Result) {
		fn := c.FnOpt("rebalancing.ConfigSelector.SelectConfig")
		if fn == nil {
			r.Undec(id, "rebalancing.ConfigSelector.SelectConfig#memory-updated-as-a-pair", "", "function not found")
			return
		}
		blocks := map[*ssa.BasicBlock]map[string]ssa.Instruction{}
		instrs(fn, func(in ssa.Instruction) {
			st, ok := in.(*ssa.Store)
			if !ok {
				return
			}
			fa, ok := st.Addr.(*ssa.FieldAddr)
			if !ok {
				return
			}
			f, base := fieldOfAddr(fa)
			if f == nil {
				return
			}
			key := fieldKey(base.Type(), f)
			if key == "rebalancing.ConfigSelector.lastMode" || key == "rebalancing.ConfigSelector.lastDecisionTime" {
				if blocks[in.Block()] == nil {
					blocks[in.Block()] = map[string]ssa.Instruction{}
				}
				blocks[in.Block()][f.Name()] = in
			}
		})
		n := 0
		for _, b := range fn.Blocks {
			m := blocks[b]
			if m == nil {
				continue
			}
			n++
			var at ssa.Instruction
			for _, in := range m {
				at = in
			}
			r.Check(len(m) == 2, id, fmt.Sprintf("rebalancing.ConfigSelector.SelectConfig#memory-updated-as-a-pair-%d", n), c.InstrPos(at), fmt.Sprintf("%d of the two memory fields are stored in this block", len(m)))
		}
		if n < 1 {
			r.Shortfall(c, id, id+": no store to the selector's memory in SelectConfig")
		}
	})

	// a default replaces every non-positive duration
	id2 := nextRuleID("C19")
	registry["C19"].Meta.Rules[id2] = "a default replaces every value that cannot be used: where a comparison of a time.Duration with 0 guards the assignment of a positive constant to that same field, the comparison is <= 0 (with < 0 an interval of 0 reaches time.NewTicker, which panics in the background goroutine: the process dies where the default configuration would have written the same content)"
	registry["C19"].Rules = append(registry["C19"].Rules, func(c *Ctx, r *Result) {
		n := 0
		for _, fn := range c.LibFuncs() {
			pk := shortPkg(fnPkgPath(fn))
			if fn.Blocks == nil || (pk != "structures" && pk != "rebalancing" && pk != "hdf5") {
				continue
			}
			k := 0
			for _, b := range fn.Blocks {
				ifi, ok := b.Instrs[len(b.Instrs)-1].(*ssa.If)
				if !ok {
					continue
				}
				cmp, ok := ifi.Cond.(*ssa.BinOp)
				if !ok || cmp.X.Type().String() != "time.Duration" {
					continue
				}
				if z, isK := constInt(cmp.Y); !isK || z != 0 {
					continue
				}
				ld, isLd := isLoad(cmp.X)
				if !isLd {
					continue
				}
				f, _ := fieldOfAddr(ld.X)
				if f == nil {
					continue
				}
				assigns := false
				for _, in := range b.Succs[0].Instrs {
					if st, isSt := in.(*ssa.Store); isSt {
						if f2, _ := fieldOfAddr(st.Addr); f2 == f {
							if v, isK := constInt(st.Val); isK && v > 0 {
								assigns = true
							}
						}
					}
				}
				if !assigns {
					continue
				}
				n++
				k++
				r.Check(cmp.Op == token.LEQ, id2, fmt.Sprintf("%s#default-for-%s", c.Name(fn), f.Name()), c.InstrPos(cmp), fmt.Sprintf("the default is assigned under %s %s 0", f.Name(), cmp.Op))
			}
		}
		if n < 2 {
			r.Shortfall(c, id2, fmt.Sprintf("%s: only %d duration defaults found", id2, n))
		}
	})
}

// ======== round 11 ========

// swappedArgumentsRule (syntax tree + types): two arguments that are plain identifiers carry each other's parameter name.
func swappedArgumentsRule(c *Ctx, r *Result, rule string, floor int) {
	n, bad := 0, 0
	for _, p := range c.Pkgs {
		if p.TypesInfo == nil || !libPackage(p.PkgPath) {
			continue
		}
		for _, file := range p.Syntax {
			if strings.HasSuffix(p.Fset.Position(file.Pos()).Filename, "_test.go") {
				continue
			}
			ast.Inspect(file, func(nd ast.Node) bool {
				call, ok := nd.(*ast.CallExpr)
				if !ok {
					return true
				}
				var fobj *types.Func
				switch f := call.Fun.(type) {
				case *ast.Ident:
					fobj, _ = p.TypesInfo.Uses[f].(*types.Func)
				case *ast.SelectorExpr:
					fobj, _ = p.TypesInfo.Uses[f.Sel].(*types.Func)
				}
				if fobj == nil || fobj.Pkg() == nil || !inModule(fobj.Pkg().Path()) {
					return true
				}
				sig, _ := fobj.Type().(*types.Signature)
				if sig == nil || sig.Variadic() || sig.Params().Len() != len(call.Args) {
					return true
				}
				names := make([]string, len(call.Args))
				for i, a := range call.Args {
					if id, isId := a.(*ast.Ident); isId {
						names[i] = id.Name
					}
				}
				counted := false
				for i := 0; i < len(names); i++ {
					for j := i + 1; j < len(names); j++ {
						pi, pj := sig.Params().At(i), sig.Params().At(j)
						if names[i] == "" || names[j] == "" || pi.Name() == "" || pj.Name() == "" || pi.Name() == pj.Name() {
							continue
						}
						if !types.Identical(pi.Type(), pj.Type()) {
							continue
						}
						if !counted {
							n++
							counted = true
						}
						oneSided := (names[j] == pi.Name() && names[i] != pi.Name() && names[i] != pj.Name()) || (names[i] == pj.Name() && names[j] != pj.Name() && names[j] != pi.Name())
						if oneSided {
							bad++
							r.Viol(rule, fmt.Sprintf("%s#%s-and-%s-misplaced-%d", fobj.Name(), pi.Name(), pj.Name(), bad), c.Pos(call.Pos()), fmt.Sprintf("an argument that carries the name of one parameter of %s is handed to another parameter of the same type (%s / %s given as %s / %s)", fobj.Name(), pi.Name(), pj.Name(), names[i], names[j]))
							continue
						}
						if names[i] == pj.Name() && names[j] == pi.Name() {
							bad++
							r.Viol(rule, fmt.Sprintf("%s#%s-and-%s-exchanged-%d", fobj.Name(), pi.Name(), pj.Name(), bad), c.Pos(call.Pos()), fmt.Sprintf("the argument named %s is handed to the parameter %s and the argument named %s to the parameter %s of %s (same type: the compiler cannot tell)", names[i], pi.Name(), names[j], pj.Name(), fobj.Name()))
						}
					}
				}
				return true
			})
		}
	}
	if bad == 0 {
		r.Hold(rule, "module#no-call-hands-two-arguments-to-each-other's-parameter", "", fmt.Sprintf("%d calls with two identifier arguments of one type examined", n))
	}
	if n < floor {
		r.Shortfall(c, rule, fmt.Sprintf("%s: only %d calls with two identifier arguments of one type (expected >= %d)", rule, n, floor))
	}
}

func init() {
	txt := "arguments go to the parameters they are named after: no call of a module function hands an identifier named like parameter j to parameter i and an identifier named like parameter i to parameter j when both have the same type (extractFromChunk(.., dims, chunkDims) for (.., chunkDims, dims): every chunk but the first of a partial read comes back as zeros; EncodeLayoutMessage(.., dataAddress, dataSize) describes a compound dataset by a region that overlaps the superblock)"
	shareRule([]string{"C09", "C05", "C01", "C06", "C11", "C13"}, txt, "C09", func(c *Ctx, r *Result, id string) { swappedArgumentsRule(c, r, id, 20) })
}

// notFoundInitRule: a search result that is compared with -1 (or < 0) starts at -1.
func notFoundInitRule(c *Ctx, r *Result, rule string, floor int) {
	n := 0
	for _, fn := range c.LibFuncs() {
		if fn.Blocks == nil {
			continue
		}
		k := 0
		instrs(fn, func(in ssa.Instruction) {
			phi, ok := in.(*ssa.Phi)
			if !ok || !isIntType(phi.Type()) {
				return
			}
			var init int64
			hasConst, hasOther := false, false
			for _, e := range phi.Edges {
				if kk, isK := constInt(e); isK {
					if hasConst && kk != init {
						return
					}
					init, hasConst = kk, true
				} else {
					hasOther = true
				}
			}
			if !hasConst || !hasOther || init < -1 || init > 0 {
				return
			}
			// compared with "not found"?
			tested := false
			for _, ref := range *phi.Referrers() {
				cmp, isC := ref.(*ssa.BinOp)
				if !isC || cmp.X != ssa.Value(phi) {
					continue
				}
				kk, isK := constInt(cmp.Y)
				if !isK {
					continue
				}
				if (kk == -1 && (cmp.Op == token.EQL || cmp.Op == token.NEQ)) || (kk == 0 && (cmp.Op == token.LSS || cmp.Op == token.GEQ)) {
					tested = true
				}
			}
			if !tested {
				return
			}
			n++
			k++
			r.Check(init == -1, rule, fmt.Sprintf("%s#not-found-value-%d", c.Name(fn), k), c.InstrPos(phi), fmt.Sprintf("the variable is compared with 'not found' (-1 / < 0) and starts at %d", init))
		})
	}
	if n < floor {
		r.Shortfall(c, rule, fmt.Sprintf("%s: only %d search results tested against -1 found (expected >= %d)", rule, n, floor))
	}
}

// headerMessageOverheadRule: the per-message overhead the header-full test adds is the one the header writer writes.
func headerMessageOverheadRule(c *Ctx, r *Result, rule string) {
	cons := "core.AddMessageToObjectHeader~core.ObjectHeaderWriter.writeToV2#per-message-overhead"
	perMsg := func(fn *ssa.Function) (int64, ssa.Instruction) {
		var out int64 = -1
		var at ssa.Instruction
		if fn == nil {
			return out, nil
		}
		fb := c.FB(fn)
		instrs(fn, func(in ssa.Instruction) {
			bo, ok := in.(*ssa.BinOp)
			if !ok || bo.Op != token.ADD {
				return
			}
			// an accumulator plus (K + len(msg.Data)): look at the non-phi operand
			for _, opnd := range []ssa.Value{bo.X, bo.Y} {
				l := fb.lin(opnd)
				if len(l.T) != 1 || l.C <= 0 {
					continue
				}
				for sym, co := range l.T {
					if lk, isLen := sym.(lenKey); isLen && co == 1 && valueReadsField(lk.v, "core.HeaderMessage.Data", 0) || isLen && co == 1 && valueReadsField(lk.v, "core.MessageWriter.Data", 0) {
						out, at = l.C, in
					}
				}
			}
		})
		return out, at
	}
	a, at := perMsg(c.FnOpt("core.AddMessageToObjectHeader"))
	w, _ := perMsg(c.FnOpt("core.ObjectHeaderWriter.writeToV2"))
	if a < 0 || w < 0 {
		r.Undec(rule, cons, "", fmt.Sprintf("per-message constants not recognised (test: %d, writer: %d)", a, w))
		return
	}
	r.Check(a == w, rule, cons, c.InstrPos(at), fmt.Sprintf("the header-full test counts %d bytes per message besides its data, the version 2 header writer writes %d", a, w))
}

func init() {
	txt := "a search that finds nothing says so: an integer variable that merges a constant start value with a found position and is compared with -1 (== -1, != -1, < 0, >= 0) starts at -1 (msgIndex := 0 makes the delete of an absent attribute remove header message 0: the dataset's own datatype or dataspace)"
	shareRule([]string{"C02", "C16", "C03"}, txt, "C02", func(c *Ctx, r *Result, id string) { notFoundInitRule(c, r, id, 3) })
	txt = "the header-full test counts what the header writer writes: the constant AddMessageToObjectHeader adds per existing message to len(Data) is the one writeToV2 adds (type, size, flags: 4 bytes; with 3 a value whose message just fits by the test is refused by the writer with another error and the attribute never migrates to dense storage)"
	shareRule([]string{"C02", "C16"}, txt, "C02", func(c *Ctx, r *Result, id string) { headerMessageOverheadRule(c, r, id) })
	// shares suggested by round 11
	shareRule([]string{"C02"}, registry["C15"].Meta.Rules["C15.18"], "C15.18", func(c *Ctx, r *Result, id string) { aliasRule(c, r, "C15", runAppended("C15"), "C15.18", id) })
	shareRule([]string{"C13"}, registry["C09"].Meta.Rules["C09.13"], "C09.13", func(c *Ctx, r *Result, id string) { chunkKeyRule(c, r, id) })
	shareRule([]string{"C05"}, registry["C02"].Meta.Rules["C02.15"], "C02.15", func(c *Ctx, r *Result, id string) { elementStrideRule(c, r, id, 8) })
}

// runAppended: every rule function registered for a property besides its main one (for aliasing a rule that is a closure).
func runAppended(prop string) func(*Ctx, *Result) {
	fns := append([]ruleFn{}, registry[prop].Rules...)
	return func(c *Ctx, r *Result) {
		for _, f := range fns {
			f(c, r)
		}
	}
}

// kindSizeRule: an arm selected by one reflect.Kind gives the datatype the size of that kind.
func kindSizeRule(c *Ctx, r *Result, rule string, floor int) {
	sizeOf := func(kind int64) (int64, bool) {
		switch kind {
		case 3, 8: // Int8, Uint8
			return 1, true
		case 4, 9:
			return 2, true
		case 5, 10, 13:
			return 4, true
		case 6, 11, 14:
			return 8, true
		}
		return 0, false
	}
	n := 0
	for _, fn := range c.LibFuncs() {
		if shortPkg(fnPkgPath(fn)) != "hdf5" || fn.Blocks == nil {
			continue
		}
		instrs(fn, func(in ssa.Instruction) {
			phi, ok := in.(*ssa.Phi)
			if !ok || !isIntType(phi.Type()) {
				return
			}
			// the merged value becomes the Size of a datatype message
			toSize := false
			var walk func(v ssa.Value, d int)
			walk = func(v ssa.Value, d int) {
				if d > 3 || v.Referrers() == nil {
					return
				}
				for _, ref := range *v.Referrers() {
					switch x := ref.(type) {
					case *ssa.Convert:
						walk(x, d+1)
					case *ssa.Store:
						if f, base := fieldOfAddr(x.Addr); f != nil && fieldKey(base.Type(), f) == "core.DatatypeMessage.Size" && x.Val == v {
							toSize = true
						}
					}
				}
			}
			walk(phi, 0)
			if !toSize {
				return
			}
			for i, e := range phi.Edges {
				cst, isK := constInt(e)
				if !isK {
					continue
				}
				pred := phi.Block().Preds[i]
				if len(pred.Preds) != 1 {
					continue
				}
				sel := pred.Preds[0]
				ifi, isIf := sel.Instrs[len(sel.Instrs)-1].(*ssa.If)
				if !isIf || sel.Succs[0] != pred {
					continue
				}
				cmp, isC := ifi.Cond.(*ssa.BinOp)
				if !isC || cmp.Op != token.EQL {
					continue
				}
				kind, isKind := constInt(cmp.Y)
				call, isCall := stripConv(cmp.X).(*ssa.Call)
				if !isKind || !isCall {
					continue
				}
				name := ""
				if call.Call.IsInvoke() {
					name = call.Call.Method.Name()
				} else if f := call.Call.StaticCallee(); f != nil {
					name = f.Name()
				}
				want, known := sizeOf(kind)
				if name != "Kind" || !known {
					continue
				}
				n++
				r.Check(cst == want, rule, fmt.Sprintf("%s#size-for-kind-%d", c.Name(fn), kind), c.InstrPos(ifi), fmt.Sprintf("the arm for reflect kind %d gives the datatype size %d", kind, cst))
			}
		})
	}
	if n < floor {
		r.Undec(rule, "hdf5#kind-selected-datatype-sizes", "", fmt.Sprintf("only %d kind-selected size constants found (expected >= %d)", n, floor))
	}
}

// byteLoopCoversWidthRule: a loop that assembles or spreads an integer byte by byte (shift by 8*i) runs over all `size` bytes.
func byteLoopCoversWidthRule(c *Ctx, r *Result, rule string, floor int) {
	n := 0
	for _, fn := range c.LibFuncs() {
		if fn.Blocks == nil {
			continue
		}
		var fb *FB
		k := 0
		for _, hdr := range fn.Blocks {
			isHdr := false
			for _, p := range hdr.Preds {
				if hdr.Dominates(p) {
					isHdr = true
				}
			}
			ifi, isIf := hdr.Instrs[len(hdr.Instrs)-1].(*ssa.If)
			if !isHdr || !isIf {
				continue
			}
			cmp, isC := ifi.Cond.(*ssa.BinOp)
			if !isC || cmp.Op != token.LSS {
				continue
			}
			phi, isPhi := stripConv(cmp.X).(*ssa.Phi)
			if !isPhi || phi.Block() != hdr {
				continue
			}
			// the body shifts by 8*i
			loop := naturalLoop(hdr)
			shifts := false
			for blk := range loop {
				for _, in := range blk.Instrs {
					sh, isSh := in.(*ssa.BinOp)
					if !isSh || (sh.Op != token.SHL && sh.Op != token.SHR) {
						continue
					}
					if m, isM := stripConv(sh.Y).(*ssa.BinOp); isM && m.Op == token.MUL {
						k8, is8 := constInt(m.X)
						other := m.Y
						if !is8 {
							k8, is8 = constInt(m.Y)
							other = m.X
						}
						if is8 && k8 == 8 && stripConv(other) == ssa.Value(phi) {
							shifts = true
						}
					}
				}
			}
			if !shifts {
				continue
			}
			if fb == nil {
				fb = c.FB(fn)
			}
			bound := fb.lin(cmp.Y)
			// bound = parameter + c
			if len(bound.T) != 1 {
				continue
			}
			isParam := false
			for sym := range bound.T {
				if _, ok := sym.(*ssa.Parameter); ok {
					isParam = true
				}
			}
			if !isParam {
				continue
			}
			n++
			k++
			r.Check(bound.C == 0, rule, fmt.Sprintf("%s#byte-loop-covers-the-width-%d", c.Name(fn), k), c.InstrPos(cmp), fmt.Sprintf("bytes are moved with a shift of 8*i while i < %s", fb.linString(bound)))
		}
	}
	if n < floor {
		r.Undec(rule, "module#byte-loops-over-a-width-parameter", "", fmt.Sprintf("only %d byte loops over a width parameter found (expected >= %d)", n, floor))
	}
}

func init() {
	txt := "a value is stored under a datatype of its own size: in the root package an arm selected by `Kind() == K` that sets the size of a core.DatatypeMessage gives 1, 2, 4, 8 for the 8-, 16-, 32-, 64-bit kinds (a uint16 attribute declared 4 bytes wide carries 2 value bytes: other readers take the next bytes of the header as part of the value)"
	shareRule([]string{"C05", "C02", "C01"}, txt, "C05", func(c *Ctx, r *Result, id string) { kindSizeRule(c, r, id, 4) })
	txt = "an integer of `size` bytes is moved byte by byte over all its bytes: a loop that shifts by 8*i and runs while i < size + c, size a parameter, has c = 0 (with size-1 the top byte of the 3-byte heap ID length is lost: a 65536-byte object reads back empty, without error)"
	shareRule([]string{"C15", "C02", "C11"}, txt, "C15", func(c *Ctx, r *Result, id string) { byteLoopCoversWidthRule(c, r, id, 2) })
}

// fillLoopCoversRule: a loop that fills result[i] of a slice made with n elements runs while i < n.
func fillLoopCoversRule(c *Ctx, r *Result, rule string, floor int) {
	n := 0
	for _, fn := range c.LibFuncs() {
		if fn.Blocks == nil {
			continue
		}
		var fb *FB
		k := 0
		for _, hdr := range fn.Blocks {
			isHdr := false
			for _, p := range hdr.Preds {
				if hdr.Dominates(p) {
					isHdr = true
				}
			}
			ifi, isIf := hdr.Instrs[len(hdr.Instrs)-1].(*ssa.If)
			if !isHdr || !isIf {
				continue
			}
			cmp, isC := ifi.Cond.(*ssa.BinOp)
			if !isC || cmp.Op != token.LSS {
				continue
			}
			if fb == nil {
				fb = c.FB(fn)
			}
			lx := fb.lin(cmp.X)
			var phi *ssa.Phi
			for sym, co := range lx.T {
				if p, isPhi := sym.(*ssa.Phi); isPhi && p.Block() == hdr && co == 1 && len(lx.T) == 1 {
					phi = p
				}
			}
			if phi == nil {
				continue
			}
			loop := naturalLoop(hdr)
			filled := false
			for blk := range loop {
				for _, in := range blk.Instrs {
					st, isSt := in.(*ssa.Store)
					if !isSt {
						continue
					}
					ia, isIA := st.Addr.(*ssa.IndexAddr)
					if !isIA || stripConv(ia.Index) != ssa.Value(phi) {
						continue
					}
					ms, isMS := ia.X.(*ssa.MakeSlice)
					if !isMS || loop[ms.Block()] {
						continue
					}
					// only loops tested at the top: in a rotated loop (`for i := range n`) the test at the bottom is about
					// the next iteration and legitimately reads i+1 < n
					if blk == hdr || !hdr.Dominates(blk) {
						continue
					}
					if sameByName(fb, fb.lin(ms.Len), fb.lin(cmp.Y)) {
						filled = true
					}
				}
			}
			if !filled {
				continue
			}
			n++
			k++
			r.Check(lx.C == 0, rule, fmt.Sprintf("%s#fill-loop-%d", c.Name(fn), k), c.InstrPos(cmp), fmt.Sprintf("a slice made with n elements is filled at [i] while i%+d < n", lx.C))
		}
	}
	if n < floor {
		r.Shortfall(c, rule, fmt.Sprintf("%s: only %d fill loops found (expected >= %d)", rule, n, floor))
	}
}

func init() {
	txt := "a result of n elements has all n filled: a loop that stores result[i] into a slice made with n elements runs while i < n (with i+1 < n the last element of every float64 partial read stays 0)"
	shareRule([]string{"C09", "C01", "C06"}, txt, "C09", func(c *Ctx, r *Result, id string) { fillLoopCoversRule(c, r, id, 10) })
}

// siblingReadersRule (C06): the three whole-dataset readers collect the same header messages and size the result the same way.
func siblingReadersRule(c *Ctx, r *Result, rule string) {
	names := []string{"core.ReadDatasetFloat64", "core.ReadDatasetStrings", "core.ReadDatasetCompound"}
	kinds := map[string]map[int64]bool{}
	total := map[string]bool{}
	var present []string
	for _, nme := range names {
		fn := c.FnOpt(nme)
		if fn == nil {
			continue
		}
		present = append(present, nme)
		kinds[nme] = map[int64]bool{}
		instrs(fn, func(in ssa.Instruction) {
			if cmp, ok := in.(*ssa.BinOp); ok && cmp.Op == token.EQL && valueReadsField(cmp.X, "core.HeaderMessage.Type", 0) {
				if k, isK := constInt(cmp.Y); isK {
					kinds[nme][k] = true
				}
			}
		})
		for _, site := range callsIn(fn) {
			if c.calleeName(site) == "core.DataspaceMessage.TotalElements" {
				total[nme] = true
			}
		}
	}
	if len(present) < 2 {
		r.Undec(rule, "core#whole-dataset-readers-agree", "", "fewer than two of the sibling readers found")
		return
	}
	all := map[int64]bool{}
	for _, nme := range present {
		for k := range kinds[nme] {
			all[k] = true
		}
	}
	for _, nme := range present {
		fn := c.FnOpt(nme)
		var missing []string
		for k := range all {
			if !kinds[nme][k] {
				missing = append(missing, fmt.Sprint(k))
			}
		}
		sort.Strings(missing)
		r.Check(len(missing) == 0, rule, nme+"#collects-the-messages-its-siblings-collect", c.Pos(fn.Pos()), "message types "+strings.Join(missing, ", ")+" are picked up by a sibling reader and not here (a dataset whose filter pipeline message is not picked up is returned as its still-filtered chunk bytes)")
		r.Check(total[nme], rule, nme+"#element-count-from-TotalElements", c.Pos(fn.Pos()), "the number of elements is the dataspace's TotalElements() as in the sibling readers (Dimensions[0] returns the first dimension's count of a 3x2 string dataset)")
	}
}

func init() {
	txt := "the whole-dataset readers agree: ReadDatasetFloat64, ReadDatasetStrings and ReadDatasetCompound compare the header message type with the same set of constants (datatype, dataspace, layout, filter pipeline) and each sizes its result with DataspaceMessage.TotalElements()"
	shareRule([]string{"C06", "C01", "C08"}, txt, "C06", func(c *Ctx, r *Result, id string) { siblingReadersRule(c, r, id) })
}

// remainderAsPaddingRule: behind x%K != 0 the remainder itself is never what gets added - the padding is K minus it.
func remainderAsPaddingRule(c *Ctx, r *Result, rule string, floor int) {
	n := 0
	for _, fn := range c.LibFuncs() {
		if fn.Blocks == nil {
			continue
		}
		var fb *FB
		k := 0
		for _, b := range fn.Blocks {
			ifi, ok := b.Instrs[len(b.Instrs)-1].(*ssa.If)
			if !ok {
				continue
			}
			cmp, ok := ifi.Cond.(*ssa.BinOp)
			if !ok || (cmp.Op != token.NEQ && cmp.Op != token.EQL) {
				continue
			}
			z, isZ := constInt(cmp.Y)
			rem, isRem := cmp.X.(*ssa.BinOp)
			if !isZ || z != 0 || !isRem || rem.Op != token.REM {
				continue
			}
			K, isK := constInt(rem.Y)
			if !isK || K < 2 {
				continue
			}
			arm := b.Succs[0]
			if cmp.Op == token.EQL {
				arm = b.Succs[1]
			}
			region := edgeRegion(b, arm)
			if len(region) == 0 {
				continue
			}
			if fb == nil {
				fb = c.FB(fn)
			}
			n++
			k++
			bad := ""
			for blk := range region {
				for _, in := range blk.Instrs {
					r2, isR := in.(*ssa.BinOp)
					if !isR || r2.Op != token.REM {
						continue
					}
					if kk, isKK := constInt(r2.Y); !isKK || kk != K || !sameByName(fb, fb.lin(r2.X), fb.lin(rem.X)) {
						continue
					}
					for _, ref := range *r2.Referrers() {
						if add, isAdd := ref.(*ssa.BinOp); isAdd && add.Op == token.ADD {
							bad = c.InstrPos(add)
						}
					}
				}
			}
			r.Check(bad == "", rule, fmt.Sprintf("%s#remainder-not-used-as-padding-%d", c.Name(fn), k), firstNonEmpty(bad, c.InstrPos(cmp)), fmt.Sprintf("behind x%%%d != 0 the remainder x%%%d is not itself added to anything (the padding is %d minus the remainder)", K, K, K))
		}
	}
	if n < floor {
		r.Shortfall(c, rule, fmt.Sprintf("%s: only %d alignment tests found (expected >= %d)", rule, n, floor))
	}
}

func init() {
	txt := "padding is the distance to the boundary, not the distance from it: in the arm of `x%K != 0` the remainder x%K is not itself added to a cursor or size (8 - msgSize%8 written as msgSize%8 puts the next message of a version 1 header at an unaligned place: the header reads back with one message instead of two)"
	shareRule([]string{"C11", "C05", "C06"}, txt, "C11", func(c *Ctx, r *Result, id string) { remainderAsPaddingRule(c, r, id, 8) })
}

// ======== after round 11 ========

// headerWordSourceRule (syntax tree + types): a datatype header word `class | v<<4 | bits<<8` is one OR expression; within one
// function a variable that is packed (shifted by 4 or 8) into the word of one datatype is not packed into the word of another.
func headerWordSourceRule(c *Ctx, r *Result, rule string, floor int) {
	type word struct {
		class string
		pos   string
		vars  map[types.Object]string
	}
	n, bad := 0, 0
	for _, p := range c.Pkgs {
		if p.TypesInfo == nil || !libPackage(p.PkgPath) {
			continue
		}
		info := p.TypesInfo
		var strip func(e ast.Expr) ast.Expr
		strip = func(e ast.Expr) ast.Expr {
			for {
				switch x := e.(type) {
				case *ast.ParenExpr:
					e = x.X
					continue
				case *ast.CallExpr:
					if tv, ok := info.Types[x.Fun]; ok && tv.IsType() && len(x.Args) == 1 {
						e = x.Args[0]
						continue
					}
				}
				return e
			}
		}
		var leaves func(e ast.Expr, out *[]ast.Expr)
		leaves = func(e ast.Expr, out *[]ast.Expr) {
			if pe, ok := e.(*ast.ParenExpr); ok {
				leaves(pe.X, out)
				return
			}
			if b, ok := e.(*ast.BinaryExpr); ok && b.Op == token.OR {
				leaves(b.X, out)
				leaves(b.Y, out)
				return
			}
			*out = append(*out, e)
		}
		for _, file := range p.Syntax {
			if strings.HasSuffix(p.Fset.Position(file.Pos()).Filename, "_test.go") {
				continue
			}
			for _, d := range file.Decls {
				fd, ok := d.(*ast.FuncDecl)
				if !ok || fd.Body == nil {
					continue
				}
				var words []word
				ast.Inspect(fd.Body, func(nd ast.Node) bool {
					b, ok := nd.(*ast.BinaryExpr)
					if !ok || b.Op != token.OR {
						return true
					}
					var ls []ast.Expr
					leaves(b, &ls)
					w := word{vars: map[types.Object]string{}, pos: c.Pos(b.Pos())}
					for _, l := range ls {
						in := strip(l)
						if sh, isSh := in.(*ast.BinaryExpr); isSh && sh.Op == token.SHL {
							tv, isK := info.Types[sh.Y]
							if !isK || tv.Value == nil {
								continue
							}
							k, _ := constant.Int64Val(constant.ToInt(tv.Value))
							if k != 4 && k != 8 {
								continue
							}
							if id, isID := strip(sh.X).(*ast.Ident); isID {
								if v, isV := info.Uses[id].(*types.Var); isV && !v.IsField() {
									w.vars[v] = id.Name
								}
							}
							continue
						}
						t := info.TypeOf(in)
						if t == nil {
							continue
						}
						if nt, isN := t.(*types.Named); isN && nt.Obj().Name() == "DatatypeClass" {
							if sel, isSel := in.(*ast.SelectorExpr); isSel {
								w.class = "of " + types.ExprString(sel.X)
							} else {
								w.class = "the constant " + types.ExprString(in)
							}
						}
					}
					if w.class != "" {
						n++
						words = append(words, w)
					}
					return false
				})
				for i := range words {
					for j := i + 1; j < len(words); j++ {
						if words[i].class == words[j].class {
							continue
						}
						for v, name := range words[j].vars {
							if _, shared := words[i].vars[v]; shared {
								bad++
								r.Viol(rule, fmt.Sprintf("%s#%s-packed-into-two-headers-%d", fd.Name.Name, name, bad), words[j].pos, fmt.Sprintf("%s is packed into the header word of the datatype with class %s (%s) and into the header word of the datatype with class %s: one of the two datatypes is written with the other's version or bit field", name, words[i].class, words[i].pos, words[j].class))
							}
						}
					}
				}
			}
		}
	}
	if bad == 0 {
		r.Hold(rule, "module#no-variable-packed-into-the-header-words-of-two-datatypes", "", fmt.Sprintf("%d datatype header words examined", n))
	}
	if n < floor {
		r.Shortfall(c, rule, fmt.Sprintf("%s: only %d datatype header words found (expected >= %d)", rule, n, floor))
	}
}

func init() {
	txt := "each datatype header word takes its version and bit field from its own datatype: within one function no variable is shifted into the `class | version<<4 | bits<<8` word of two different datatypes (the compound's own `version` packed into a member's header writes every member as version 3: a version 1 member reads back with another version, and a reader that switches on it takes the wrong layout)"
	shareRule([]string{"C11", "C01"}, txt, "C11", func(c *Ctx, r *Result, id string) { headerWordSourceRule(c, r, id, 6) })
}

// clampToBoundaryRule (syntax tree + types): `if x >= N { x = N - c }` clamps to the greatest value that fails the test (c = 1),
// `if x > N { x = N - c }` to N itself (c = 0): with any other c a larger x ends below a smaller one.
func clampToBoundaryRule(c *Ctx, r *Result, rule string, floor int) {
	n, bad := 0, 0
	for _, p := range c.Pkgs {
		if p.TypesInfo == nil || !libPackage(p.PkgPath) {
			continue
		}
		info := p.TypesInfo
		for _, file := range p.Syntax {
			if strings.HasSuffix(p.Fset.Position(file.Pos()).Filename, "_test.go") {
				continue
			}
			var fname string
			ast.Inspect(file, func(nd ast.Node) bool {
				if fd, ok := nd.(*ast.FuncDecl); ok {
					fname = fd.Name.Name
					return true
				}
				is, ok := nd.(*ast.IfStmt)
				if !ok || is.Init != nil || is.Else != nil || len(is.Body.List) != 1 {
					return true
				}
				cmp, ok := is.Cond.(*ast.BinaryExpr)
				if !ok || (cmp.Op != token.GEQ && cmp.Op != token.GTR) {
					return true
				}
				as, ok := is.Body.List[0].(*ast.AssignStmt)
				if !ok || as.Tok != token.ASSIGN || len(as.Lhs) != 1 || len(as.Rhs) != 1 {
					return true
				}
				if t := info.TypeOf(cmp.X); t == nil || !isIntType(t) {
					return true
				}
				x, bound := types.ExprString(cmp.X), types.ExprString(cmp.Y)
				if types.ExprString(as.Lhs[0]) != x {
					return true
				}
				if tv, isK := info.Types[cmp.Y]; isK && tv.Value != nil {
					return true // a constant bound: the assigned constant is folded, not decided here
				}
				var k int64 = -1
				rhs := ast.Unparen(as.Rhs[0])
				if types.ExprString(rhs) == bound {
					k = 0
				} else if sub, isSub := rhs.(*ast.BinaryExpr); isSub && sub.Op == token.SUB && types.ExprString(ast.Unparen(sub.X)) == bound {
					if tv, isK := info.Types[sub.Y]; isK && tv.Value != nil {
						if v, exact := constant.Int64Val(constant.ToInt(tv.Value)); exact {
							k = v
						}
					}
				}
				if k < 0 {
					return true
				}
				n++
				want := int64(0)
				if cmp.Op == token.GEQ {
					want = 1
				}
				if k != want {
					bad++
					r.Viol(rule, fmt.Sprintf("%s#%s-clamped-to-the-boundary-%d", fname, x, bad), c.Pos(as.Pos()), fmt.Sprintf("under %s %s %s the value is set to %s - %d, not to the boundary (%s - %d): a larger %s ends below a smaller one", x, cmp.Op, bound, bound, k, bound, want, x))
				}
				return true
			})
		}
	}
	if bad == 0 {
		r.Hold(rule, "module#every-clamp-goes-to-the-boundary", "", fmt.Sprintf("%d clamps of an integer to a variable bound examined", n))
	}
	if n < floor {
		r.Shortfall(c, rule, fmt.Sprintf("%s: only %d clamps found (expected >= %d)", rule, n, floor))
	}
}

// selectionEndRule (syntax tree): wherever the inclusive end Start[i] + (Count[i]-1)*Stride[i] + Block[i] - k of a selection is computed, k is 1.
func selectionEndRule(c *Ctx, r *Result, rule string, floor int) {
	n, bad := 0, 0
	for _, p := range c.Pkgs {
		if p.TypesInfo == nil || !libPackage(p.PkgPath) {
			continue
		}
		info := p.TypesInfo
		for _, file := range p.Syntax {
			if strings.HasSuffix(p.Fset.Position(file.Pos()).Filename, "_test.go") {
				continue
			}
			var fname string
			ast.Inspect(file, func(nd ast.Node) bool {
				if fd, ok := nd.(*ast.FuncDecl); ok {
					fname = fd.Name.Name
					return true
				}
				sub, ok := nd.(*ast.BinaryExpr)
				if !ok || sub.Op != token.SUB {
					return true
				}
				tv, isK := info.Types[sub.Y]
				if !isK || tv.Value == nil {
					return true
				}
				// the left side is a sum of three terms, among them .Block[..] and a product with .Stride[..]
				var terms []ast.Expr
				var flat func(e ast.Expr)
				flat = func(e ast.Expr) {
					e = ast.Unparen(e)
					if b, isB := e.(*ast.BinaryExpr); isB && b.Op == token.ADD {
						flat(b.X)
						flat(b.Y)
						return
					}
					terms = append(terms, e)
				}
				flat(sub.X)
				if len(terms) != 3 {
					return true
				}
				field := func(e ast.Expr) string {
					if ix, isIx := ast.Unparen(e).(*ast.IndexExpr); isIx {
						if sel, isSel := ix.X.(*ast.SelectorExpr); isSel {
							return sel.Sel.Name
						}
					}
					return ""
				}
				seen := map[string]bool{}
				for _, t := range terms {
					if f := field(t); f != "" {
						seen[f] = true
					} else if m, isM := t.(*ast.BinaryExpr); isM && m.Op == token.MUL {
						if field(m.X) == "Stride" || field(m.Y) == "Stride" {
							seen["Stride"] = true
						}
					}
				}
				if !seen["Block"] || !seen["Stride"] { // the start may have been copied into a local
					return true
				}
				n++
				k, _ := constant.Int64Val(constant.ToInt(tv.Value))
				if k != 1 {
					bad++
					r.Viol(rule, fmt.Sprintf("%s#inclusive-end-of-the-selection-%d", fname, bad), c.Pos(sub.Pos()), fmt.Sprintf("the last selected coordinate is Start + (Count-1)*Stride + Block - 1 at every other site (the validator admits Start + (Count-1)*Stride + Block <= size); here %d is subtracted", k))
				}
				return false
			})
		}
	}
	if bad == 0 {
		r.Hold(rule, "module#inclusive-selection-end-agrees", "", fmt.Sprintf("%d computations of the last selected coordinate examined", n))
	}
	if n < floor {
		r.Shortfall(c, rule, fmt.Sprintf("%s: only %d computations of the last selected coordinate (expected >= %d)", rule, n, floor))
	}
}

func init() {
	txt := "a clamp goes to the boundary: `if x >= N { x = N - c }` on integers with a variable bound has c = 1 and `if x > N { x = N - c }` has c = 0, so that the clamp is monotone (endPos = dims - 2 under endPos >= dims drops the last chunk of a selection that reaches the end of the dataset: the partial read returns zeros where the full read has data)"
	shareRule([]string{"C09", "C13"}, txt, "C09", func(c *Ctx, r *Result, id string) { clampToBoundaryRule(c, r, id, 5) })
	txt2 := "the last selected coordinate is computed the same way everywhere: every expression Start[i] + (Count[i]-1)*Stride[i] + Block[i] - k has k = 1, the inclusive counterpart of the bound the selection validator admits (k = 2 leaves out the last chunk whenever the selection ends on the first element of a chunk)"
	shareRule([]string{"C09"}, txt2, "C09", func(c *Ctx, r *Result, id string) { selectionEndRule(c, r, id, 1) })
}
