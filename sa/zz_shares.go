package main

// cross-property registrations that need every registry entry to exist (init order follows file names)

func init() {
	txt := "the size recorded for a structure is the size allocated for it: where a function stores the result of Allocate(n) into a field of an object and a size into the size field of the same object, the two sizes are the same value (a heap collection reserved with the minimum size but recorded - and later written - with its real size runs over the dataset allocated after it)"
	registry["C04"].Meta.Rules["C04.13"] = txt
	registry["C04"].Rules = append(registry["C04"].Rules, func(c *Ctx, r *Result) { allocatedSizeRecordedRule(c, r, "C04.13", 1) })
	registry["C12"].Meta.Rules["C12.16"] = txt + " (shared with C04.13)"
	registry["C12"].Rules = append(registry["C12"].Rules, func(c *Ctx, r *Result) { allocatedSizeRecordedRule(c, r, "C12.16", 1) })
	registry["C04"].Meta.Rules["C04.12"] = registry["C03"].Meta.Rules["C03.15"] + " (shared with C03.15: the name that is overwritten belongs to another object of the group)"
	registry["C04"].Rules = append(registry["C04"].Rules, func(c *Ctx, r *Result) { backwardScanRule(c, r, "C04.12", nil, 3) })
}

func init() {
	registry["C04"].Meta.Rules["C04.14"] = registry["C03"].Meta.Rules["C03.1"] + " (shared with C03.1: a second object accepted under an existing name makes operations on one of them show up under the other)"
	registry["C04"].Rules = append(registry["C04"].Rules, func(c *Ctx, r *Result) { aliasRule(c, r, "C03", ruleC03, "C03.1", "C04.14") })
}
