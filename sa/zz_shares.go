package main

import (
	"fmt"
	"go/token"
	"go/types"
	"strings"

	"golang.org/x/tools/go/ssa"
)

// cross-property registrations that need every registry entry to exist (init order follows file names)

func init() {
	txt := "the size recorded for a structure is the size allocated for it: where a function stores the result of Allocate(n) into a field of an object and a size into the size field of the same object, the two sizes are the same value (a heap collection reserved with the minimum size but recorded - and later written - with its real size runs over the dataset allocated after it)"
	registry["C04"].Meta.Rules["C04.13"] = txt
	registry["C04"].Rules = append(registry["C04"].Rules, func(c *Ctx, r *Result) { allocatedSizeRecordedRule(c, r, "C04.13", 1) })
	registry["C12"].Meta.Rules["C12.16"] = txt + " (shared with C04.13)"
	registry["C12"].Rules = append(registry["C12"].Rules, func(c *Ctx, r *Result) { allocatedSizeRecordedRule(c, r, "C12.16", 1) })
	registry["C04"].Meta.Rules["C04.12"] = registry["C03"].Meta.Rules["C03.15"] + " (shared with C03.15: the name that is overwritten belongs to another object of the group)"
	registry["C04"].Rules = append(registry["C04"].Rules, func(c *Ctx, r *Result) { backwardScanRule(c, r, "C04.12", nil, 3) })
}

func init() {
	registry["C04"].Meta.Rules["C04.14"] = registry["C03"].Meta.Rules["C03.1"] + " (shared with C03.1: a second object accepted under an existing name makes operations on one of them show up under the other)"
	registry["C04"].Rules = append(registry["C04"].Rules, func(c *Ctx, r *Result) { aliasRule(c, r, "C03", ruleC03, "C03.1", "C04.14") })
}

// ---- an unsigned difference does not wrap (C10.13 and, on the owning code, C04.15 / C13.12) ----
//
// a - b in an unsigned type is a huge number when b > a. On the writing side differences are sizes and distances that end up in
// Allocate, in slice bounds and in loop bounds. Every SUB of unsigned type with a non-constant subtrahend is proven non-negative
// from the dominating tests and the ranges of its operands; the ones that are not decided are frozen per function
// (baselines/usub.json) and only growth is reported.
func unsignedSubRule(c *Ctx, r *Result, rule string, scope func(string) bool) {
	readers := c.readerSet(r)
	per := map[string][]undecidedItem{}
	n := 0
	for _, fn := range c.LibFuncs() {
		if readers[fn] || fn.Blocks == nil {
			continue
		}
		pk := shortPkg(fnPkgPath(fn))
		if pk != "hdf5" && pk != "core" && pk != "structures" && pk != "writer" {
			continue
		}
		if scope != nil && !scope(c.Name(fn)) {
			continue
		}
		var fb *FB
		instrs(fn, func(in ssa.Instruction) {
			bo, ok := in.(*ssa.BinOp)
			if !ok || bo.Op != token.SUB {
				return
			}
			bt, ok := bo.Type().Underlying().(*types.Basic)
			if !ok || bt.Info()&types.IsUnsigned == 0 {
				return
			}
			if _, isK := bo.Y.(*ssa.Const); isK {
				if _, isK2 := bo.X.(*ssa.Const); isK2 {
					return
				}
			}
			if fb == nil {
				fb = c.FB(fn)
			}
			n++
			if fb.ProveGE0At(fb.lin(bo.X).add(fb.lin(bo.Y), -1), bo) {
				r.Hold(rule, c.Name(fn)+"#unsigned-difference", c.InstrPos(bo), "minuend >= subtrahend by the dominating tests")
				return
			}
			per[c.Name(fn)] = append(per[c.Name(fn)], undecidedItem{c.InstrPos(bo), "the unsigned difference " + fb.linString(fb.lin(bo.X)) + " - (" + fb.linString(fb.lin(bo.Y)) + ") is not shown to be >= 0"})
		})
	}
	if (scope == nil && n < 30) || n < 1 {
		r.Shortfall(c, rule, fmt.Sprintf("%s: only %d unsigned subtractions examined on the writing side", rule, n))
	}
	baselineReadOnly = scope != nil
	r.ApplyBaselineFile(verifDirGlobal, "usub", rule, "possibly-wrapping-unsigned-difference", per)
	baselineReadOnly = false
}

func init() {
	txt := "an unsigned difference does not wrap: on the writing side every subtraction in an unsigned type is proven non-negative from the dominating tests, or frozen per function with only growth reported (if end-of-file != header end instead of <, the distance header end - end-of-file wraps for a dataset that is not the last object, Allocate moves the allocator back, and the dense storage is written over the objects behind the header)"
	registry["C10"].Meta.Rules["C10.13"] = txt
	registry["C10"].Rules = append(registry["C10"].Rules, func(c *Ctx, r *Result) { unsignedSubRule(c, r, "C10.13", nil) })
	pre := func(prefixes ...string) func(string) bool {
		return func(n string) bool {
			for _, p := range prefixes {
				if strings.HasPrefix(n, p) {
					return true
				}
			}
			return false
		}
	}
	registry["C04"].Meta.Rules["C04.15"] = txt + " (C10.13 on the allocator and the functions that compute addresses)"
	registry["C04"].Rules = append(registry["C04"].Rules, func(c *Ctx, r *Result) {
		unsignedSubRule(c, r, "C04.15", pre("writer.Allocator.", "writer.FileWriter.", "hdf5.transitionToDenseAttributes", "hdf5.createRootGroupStructure", "hdf5.FileWriter.", "hdf5.globalHeapWriter."))
	})
	registry["C13"].Meta.Rules["C13.12"] = txt + " (C10.13 on the chunk writer, the coordinator and Resize)"
	registry["C13"].Rules = append(registry["C13"].Rules, func(c *Ctx, r *Result) {
		unsignedSubRule(c, r, "C13.12", pre("hdf5.DatasetWriter.writeChunk", "hdf5.DatasetWriter.Resize", "hdf5.expandEdgeChunk", "writer.ChunkCoordinator.", "writer.NewChunkCoordinator", "structures.ChunkBTree"))
	})
}
