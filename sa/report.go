package main

import (
	"bufio"
	"encoding/json"
	"fmt"
	"os"
	"path/filepath"
	"sort"
	"strings"
)

// Status of an obligation.
const (
	Holds     = "holds"
	Violated  = "violated"
	Undecided = "undecided" // counted, never reported
	Excepted  = "exception" // frozen exception with a reason
)

// Obligation is one rule instance examined on this run.
type Obligation struct {
	Rule      string `json:"rule"`
	Construct string `json:"construct"`
	Pos       string `json:"pos"`
	Status    string `json:"status"`
	Detail    string `json:"detail,omitempty"`
}

type Result struct {
	Prop   string
	Obls   []Obligation
	Errors []string
	Notes  []string
	floors map[string]int
	seen   map[string]int
}

func NewResult(prop string) *Result {
	return &Result{Prop: prop, floors: map[string]int{}, seen: map[string]int{}}
}

func (r *Result) Errorf(f string, a ...interface{}) {
	r.Errors = append(r.Errors, fmt.Sprintf(f, a...))
}
func (r *Result) Notef(f string, a ...interface{}) { r.Notes = append(r.Notes, fmt.Sprintf(f, a...)) }

// Add records an obligation. Constructs are made unique per rule by an ordinal suffix.
func (r *Result) Add(rule, construct, pos, status, detail string) {
	key := rule + " " + construct
	n := r.seen[key]
	r.seen[key] = n + 1
	if n > 0 {
		construct = fmt.Sprintf("%s#%d", construct, n+1)
	}
	r.Obls = append(r.Obls, Obligation{rule, construct, pos, status, detail})
}

func (r *Result) Hold(rule, construct, pos, detail string) {
	r.Add(rule, construct, pos, Holds, detail)
}
func (r *Result) Viol(rule, construct, pos, detail string) {
	r.Add(rule, construct, pos, Violated, detail)
}
func (r *Result) Undec(rule, construct, pos, detail string) {
	r.Add(rule, construct, pos, Undecided, detail)
}
func (r *Result) Except(rule, construct, pos, detail string) {
	r.Add(rule, construct, pos, Excepted, detail)
}

// Check records holds/violated by condition.
func (r *Result) Check(ok bool, rule, construct, pos, detail string) {
	if ok {
		r.Hold(rule, construct, pos, detail)
	} else {
		r.Viol(rule, construct, pos, detail)
	}
}

// Floor demands that a rule examined at least n instances (anti-vacuity).
func (r *Result) Floor(rule string, n int) { r.floors[rule] = n }

func (r *Result) count(rule string) int {
	n := 0
	for _, o := range r.Obls {
		if o.Rule == rule {
			n++
		}
	}
	return n
}

// ---- known findings ----

type KnownFinding struct {
	Prop, Rule, Construct, What string
}

func loadKnown(path string) ([]KnownFinding, []string, error) {
	f, err := os.Open(path)
	if err != nil {
		if os.IsNotExist(err) {
			return nil, nil, nil
		}
		return nil, nil, err
	}
	defer f.Close()
	var out []KnownFinding
	var fixed []string
	sc := bufio.NewScanner(f)
	sc.Buffer(make([]byte, 1<<20), 1<<20)
	for sc.Scan() {
		line := strings.TrimSpace(sc.Text())
		if line == "" || strings.HasPrefix(line, "#") {
			continue
		}
		if strings.HasPrefix(line, "fixed:") {
			fixed = append(fixed, line)
			continue
		}
		if !strings.HasPrefix(line, "known:") {
			return nil, nil, fmt.Errorf("known_findings: unparsable line %q", line)
		}
		rest := strings.TrimSpace(strings.TrimPrefix(line, "known:"))
		what := ""
		if i := strings.Index(rest, " -- "); i >= 0 {
			what = strings.TrimSpace(rest[i+4:])
			rest = rest[:i]
		}
		kf := KnownFinding{What: what}
		for _, tok := range strings.Fields(rest) {
			kv := strings.SplitN(tok, "=", 2)
			if len(kv) != 2 {
				return nil, nil, fmt.Errorf("known_findings: bad token %q", tok)
			}
			switch kv[0] {
			case "property":
				kf.Prop = kv[1]
			case "rule":
				kf.Rule = kv[1]
			case "construct":
				kf.Construct = kv[1]
			default:
				return nil, nil, fmt.Errorf("known_findings: bad key %q", kv[0])
			}
		}
		if kf.Prop == "" || kf.Rule == "" || kf.Construct == "" {
			return nil, nil, fmt.Errorf("known_findings: incomplete line %q", line)
		}
		out = append(out, kf)
	}
	return out, fixed, sc.Err()
}

// ---- evidence ----

type evidence struct {
	PropertyID  string                 `json:"property_id"`
	Tier        string                 `json:"tier"`
	Seed        int                    `json:"seed"`
	Level       string                 `json:"level"`
	Coverage    map[string]interface{} `json:"coverage"`
	Assumptions []string               `json:"assumptions"`
	WallS       float64                `json:"wall_s"`
	Violations  int                    `json:"violations"`
}

// Finish prints the report, writes evidence + violations file and returns the exit code.
func (r *Result) Finish(c *Ctx, verifDir string, seed int, wall float64, meta PropMeta, configs []string, selftest interface{}) int {
	evDir := filepath.Join(verifDir, "evidence")
	os.MkdirAll(evDir, 0o755)
	evPath := filepath.Join(evDir, r.Prop+".json")
	violPath := filepath.Join(evDir, r.Prop+".violations.txt")

	// floors
	for rule, n := range r.floors {
		if got := r.count(rule); got < n {
			r.Shortfall(c, rule, fmt.Sprintf("rule %s examined %d instances, floor is %d (a rule that matches too little passes vacuously)", rule, got, n))
		}
	}
	known, _, err := loadKnown(filepath.Join(verifDir, "known_findings.txt"))
	if err != nil {
		r.Errorf("%v", err)
	}
	sort.SliceStable(r.Obls, func(i, j int) bool {
		if r.Obls[i].Rule != r.Obls[j].Rule {
			return r.Obls[i].Rule < r.Obls[j].Rule
		}
		return r.Obls[i].Construct < r.Obls[j].Construct
	})
	isKnown := func(o Obligation) *KnownFinding {
		for i := range known {
			k := &known[i]
			if k.Prop == r.Prop && k.Rule == o.Rule && k.Construct == o.Construct {
				return k
			}
		}
		return nil
	}
	r.applyExceptions()
	var nHold, nViol, nUndec, nExc, nKnown int
	var viols []Obligation
	var knownMatched []string
	perRule := map[string]map[string]int{}
	distinct := map[string]bool{}
	for _, o := range r.Obls {
		if perRule[o.Rule] == nil {
			perRule[o.Rule] = map[string]int{}
		}
		perRule[o.Rule][o.Status]++
		if o.Status != Undecided {
			distinct[o.Rule+" "+o.Construct] = true
		}
		switch o.Status {
		case Holds:
			nHold++
		case Undecided:
			nUndec++
		case Excepted:
			nExc++
		case Violated:
			if k := isKnown(o); k != nil {
				nKnown++
				knownMatched = append(knownMatched, o.Rule+" "+o.Construct)
				fmt.Printf("KNOWN-FINDING: property=%s rule=%s construct=%s at %s: %s\n", r.Prop, o.Rule, o.Construct, o.Pos, firstNonEmpty(k.What, o.Detail))
			} else {
				nViol++
				viols = append(viols, o)
			}
		}
	}
	// report
	fmt.Printf("== %s (%s) tier=%s configs=%v: %d obligations: %d hold, %d exception, %d undecided, %d known findings, %d violations\n",
		r.Prop, meta.Title, c.Tier, configs, len(r.Obls), nHold, nExc, nUndec, nKnown, nViol)
	var rules []string
	for k := range perRule {
		rules = append(rules, k)
	}
	sort.Strings(rules)
	for _, k := range rules {
		m := perRule[k]
		fmt.Printf("   rule %-8s instances=%d holds=%d exception=%d undecided=%d violated=%d  %s\n", k,
			m[Holds]+m[Excepted]+m[Undecided]+m[Violated], m[Holds], m[Excepted], m[Undecided], m[Violated], meta.Rules[k])
	}
	for _, n := range r.Notes {
		fmt.Printf("   note: %s\n", n)
	}
	// samples: a few obligations of each rule, written out
	var samples []Obligation
	cnt := map[string]int{}
	for _, o := range r.Obls {
		if o.Status == Undecided {
			continue
		}
		if cnt[o.Rule] < 4 {
			samples = append(samples, o)
			cnt[o.Rule]++
		}
	}
	ruleDocs := map[string]string{}
	for _, k := range rules {
		ruleDocs[k] = meta.Rules[k]
	}
	ev := evidence{
		PropertyID: r.Prop, Tier: c.Tier, Seed: seed, Level: "other",
		Coverage: map[string]interface{}{
			"explanation":            meta.Explanation,
			"evaluations":            len(r.Obls),
			"distinct_nontrivial":    len(distinct),
			"rule":                   "one evaluation = one rule instance (rule id + construct = function#role[#n]) found by role-based discovery in the type-checked SSA program of /repo as it is now; non-trivial = the instance carried a decided obligation (holds / exception / violated), undecided instances are excluded",
			"obligations":            len(r.Obls) - nUndec,
			"discharged":             nHold + nExc,
			"not_decided":            nUndec,
			"known_findings_matched": knownMatched,
			"per_rule":               perRule,
			"rules":                  ruleDocs,
			"samples":                samples,
			"packages":               len(c.Pkgs),
			"functions":              len(c.AllFuncs),
			"configurations":         configs,
			"does_not_decide":        meta.DoesNotDecide,
			"notes":                  r.Notes,
			"exhaustive":             false,
		},
		Assumptions: []string{
			"go/packages + go/types + go/ssa (x/tools v0.50.0) represent the program the compiler builds",
			"VTA call graph over-approximates dynamic dispatch; static callees are exact",
			"the rules decide the structural clauses named in coverage.rules; the behavioural remainder listed in does_not_decide is not decided",
		},
		WallS: wall, Violations: nViol,
	}
	if selftest != nil {
		ev.Coverage["mutant_selftest"] = selftest
	}
	if len(r.Errors) > 0 {
		ev.Coverage["checker_errors"] = r.Errors
	}
	b, _ := json.MarshalIndent(ev, "", " ")
	if err := os.WriteFile(evPath, append(b, '\n'), 0o644); err != nil {
		fmt.Printf("CHECKER-ERROR cannot write evidence: %v\n", err)
		return 2
	}
	if len(r.Errors) > 0 {
		for _, e := range r.Errors {
			fmt.Printf("CHECKER-ERROR property=%s %s\n", r.Prop, e)
		}
		// a rule that could not run (floor, anchor) does not take back what another rule decided: with a violation
		// at hand the run reports it; without one the run is a checker error
		if nViol == 0 {
			return 2
		}
	}
	os.Remove(violPath)
	if nViol > 0 {
		var sb strings.Builder
		for _, o := range viols {
			line := fmt.Sprintf("property=%s rule=%s construct=%s at %s: %s", r.Prop, o.Rule, o.Construct, o.Pos, o.Detail)
			fmt.Println("  FINDING " + line)
			sb.WriteString(line + "\n")
		}
		os.WriteFile(violPath, []byte(sb.String()), 0o644)
		fmt.Printf("VIOLATION property=%s replay=%s\n", r.Prop, violPath)
		return 1
	}
	return 0
}

func firstNonEmpty(a, b string) string {
	if a != "" {
		return a
	}
	return b
}

// PropMeta documents a property's rules for the evidence and the report.
type PropMeta struct {
	Title         string
	Explanation   string
	DoesNotDecide string
	Rules         map[string]string
}

// applyExceptions turns reported instances listed in the frozen exception table into excepted ones.
func (r *Result) applyExceptions() {
	for i := range r.Obls {
		o := &r.Obls[i]
		if o.Status == Violated {
			if reason, ok := exceptionFor(r.Prop, o.Rule, o.Construct); ok {
				o.Status = Excepted
				o.Detail = "exception: " + reason + " [" + o.Detail + "]"
			}
		}
	}
}

// Shortfall: a rule found fewer instances of its pattern than the reviewed tree has. On a tree whose functions are those of
// the review this is a checker error (the rule has lost its anchor). When functions were introduced since the review, the
// instances may have moved into them: the shortfall is then recorded as a not-decided obligation naming those functions.
func (r *Result) Shortfall(c *Ctx, rule, msg string) {
	if news := c.postReviewFunctions(); len(news) > 0 {
		shown := news
		if len(shown) > 4 {
			shown = shown[:4]
		}
		r.Undec(rule, "instances#fewer-than-reviewed", "", msg+"; functions introduced after the review: "+strings.Join(shown, ", "))
		return
	}
	r.Errorf("%s", msg)
}
