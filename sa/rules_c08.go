package main

import (
	"fmt"
	"go/constant"
	"go/token"
	"go/types"
	"sort"
	"strings"

	"golang.org/x/tools/go/ssa"
)

func init() {
	register("C08", PropMeta{
		Title: "Filter pipelines are lossless, self-compatible and detect corruption",
		Explanation: "Agreement rules between the writer-side filters (internal/writer) and the separate reader-side decoder (internal/core): identifier tables, order of application, container format of the deflate stream, header layout of the pipeline message, client-data slots; " +
			"plus necessary conditions inside single filters: the Fletcher-32 sum reads every input byte, its 32-bit accumulators cannot wrap, both Remove implementations compare the stored with the recomputed sum and fail on a difference; every value packed into an LZF control byte fits its bit field; a skipped optional filter passes its input on.",
		DoesNotDecide: "that decode(encode(x)) == x for all payloads (the match finder, Huffman coding and the arithmetic of the checksum are not modelled); compatibility of the checksum with the reference implementation's",
		Rules: map[string]string{
			"C08.1": "every filter the writer can put in a pipeline has the same identifier on the reader side and a decoding arm there",
			"C08.2": "Apply walks the pipeline forwards, both Remove implementations walk it backwards over all filters",
			"C08.3": "pipeline message: the version the encoder writes selects, in the decoder, the header length and per-filter fields the encoder produced",
			"C08.4": "Fletcher-32: every byte is summed, accumulators cannot wrap, decoders compare and fail on mismatch",
			"C08.5": "a filter error is ignored only under the optional flag, and then the filter's input is passed on unchanged",
			"C08.6": "LZF: offset and length fit the bit fields of the control bytes at every call of the back-reference encoder",
			"C08.7": "deflate: encoder and both decoders use the same container package; shuffle: reader takes the element size from the client-data slot the writer fills",
		},
	}, ruleC08)
}

func ruleC08(c *Ctx, r *Result) {
	c08ids(c, r)
	c08order(c, r)
	c08message(c, r)
	c08fletcher(c, r)
	c08optional(c, r)
	c08lzf(c, r)
	c08container(c, r)
}

func (c *Ctx) pkgTypesOf(short string) *types.Package {
	if p := c.SSAPkg[short]; p != nil {
		return p.Pkg
	}
	return nil
}

// typedConsts: name -> value for package-level constants of the named type.
func (c *Ctx) typedConsts(pkgShort, typeName string) map[string]int64 {
	out := map[string]int64{}
	p := c.pkgTypesOf(pkgShort)
	if p == nil {
		return out
	}
	for _, n := range p.Scope().Names() {
		if k, ok := p.Scope().Lookup(n).(*types.Const); ok {
			if nt := namedOf(k.Type()); nt != nil && nt.Obj().Name() == typeName && nt.Obj().Pkg() == p {
				if v, ok := constant.Int64Val(k.Val()); ok {
					out[n] = v
				}
			}
		}
	}
	return out
}

// constReturn: the function returns one constant on every path.
func constReturn(fn *ssa.Function) (int64, bool) {
	var val int64
	n := 0
	for _, ret := range returnsOf(fn) {
		k, ok := constInt(retOperand(ret, 0))
		if !ok {
			return 0, false
		}
		if n > 0 && k != val {
			return 0, false
		}
		val = k
		n++
	}
	return val, n > 0
}

// switchArms: constants compared (==) with a load of the named field in fn, with the block each arm jumps to.
func switchArms(fn *ssa.Function, fieldName string) map[int64]*ssa.BasicBlock {
	out := map[int64]*ssa.BasicBlock{}
	for _, b := range fn.Blocks {
		ifi, ok := b.Instrs[len(b.Instrs)-1].(*ssa.If)
		if !ok {
			continue
		}
		bo, ok := ifi.Cond.(*ssa.BinOp)
		if !ok || bo.Op != token.EQL {
			continue
		}
		k, ok := constInt(bo.Y)
		x := bo.X
		if !ok {
			k, ok = constInt(bo.X)
			x = bo.Y
		}
		if !ok {
			continue
		}
		reads := false
		for f := range fieldsReadBy(x) {
			if strings.HasSuffix(f, "."+fieldName) {
				reads = true
			}
		}
		if fld, isF := x.(*ssa.Field); isF {
			if f, _ := fieldOfAddr(fld); f != nil && f.Name() == fieldName {
				reads = true
			}
		}
		if reads {
			out[k] = b.Succs[0]
		}
	}
	return out
}

func c08ids(c *Ctx, r *Result) {
	wc := c.typedConsts("writer", "FilterID")
	rc := c.typedConsts("core", "FilterID")
	if len(wc) < 5 || len(rc) < 5 {
		r.Errorf("C08.1: filter identifier tables not found (writer %d, core %d constants)", len(wc), len(rc))
		return
	}
	// same value -> same filter: pair by value, then every pair of names that denote the same filter must share a value
	alias := map[string]string{"FilterGZIP": "FilterDeflate", "FilterFletcher32": "FilterFletcher", "FilterNBIT": "FilterNBit"}
	for _, wn := range sortedKeys(wc) {
		if wn == "FilterNone" {
			continue
		}
		rn := wn
		if a, ok := alias[wn]; ok {
			rn = a
		}
		rv, ok := rc[rn]
		if !ok {
			r.Undec("C08.1", "writer."+wn+"~core."+rn+"#same-identifier", "", "no reader-side constant of that name")
			continue
		}
		r.Check(rv == wc[wn], "C08.1", "writer."+wn+"~core."+rn+"#same-identifier", "", "writer "+itoa(int(wc[wn]))+", reader "+itoa(int(rv)))
	}
	// decoding arms
	af := c.Fn(r, "core.applyFilter")
	if af == nil {
		return
	}
	arms := switchArms(af, "ID")
	iface := c.NamedType(r, "writer", "Filter")
	if iface == nil {
		return
	}
	it, _ := iface.Underlying().(*types.Interface)
	p := c.pkgTypesOf("writer")
	n := 0
	for _, name := range p.Scope().Names() {
		tn, ok := p.Scope().Lookup(name).(*types.TypeName)
		if !ok || it == nil {
			continue
		}
		nt, ok := tn.Type().(*types.Named)
		if !ok || types.IsInterface(nt) || !types.Implements(types.NewPointer(nt), it) {
			continue
		}
		idFn := c.FnOpt("writer." + name + ".ID")
		applyFn := c.FnOpt("writer." + name + ".Apply")
		if idFn == nil || applyFn == nil {
			r.Errorf("C08.1: writer.%s implements Filter but ID/Apply were not resolved", name)
			continue
		}
		id, ok := constReturn(idFn)
		if !ok {
			r.Undec("C08.1", "writer."+name+"#reader-decodes-identifier", c.Pos(idFn.Pos()), "ID() is not a constant")
			continue
		}
		// a filter whose Apply can never succeed cannot be in a written file
		if len(successReturns(applyFn)) == 0 {
			r.Hold("C08.1", "writer."+name+"#reader-decodes-identifier", c.Pos(idFn.Pos()), "Apply never succeeds: the writer cannot produce data in this format")
			n++
			continue
		}
		n++
		arm, has := arms[id]
		okArm := false
		if has {
			// the arm calls a decoder (does not fall into the unsupported default)
			for _, b := range sortedBlocks(reachableFrom(arm, nil)) {
				for _, in := range b.Instrs {
					if call, ok := in.(*ssa.Call); ok && strings.HasPrefix(c.calleeName(call), "core.apply") {
						okArm = true
					}
				}
			}
			if !okArm {
				for _, in := range arm.Instrs {
					if call, ok := in.(*ssa.Call); ok && strings.HasPrefix(c.calleeName(call), "core.apply") {
						okArm = true
					}
				}
			}
		}
		r.Check(has && okArm, "C08.1", "writer."+name+"#reader-decodes-identifier", c.Pos(idFn.Pos()), "core.applyFilter has a decoding arm for identifier "+itoa(int(id)))
	}
	if n < 4 {
		r.Errorf("C08.1: only %d writer filter implementations found", n)
	}
	r.Floor("C08.1", 9)
}

func sortedBlocks(m map[*ssa.BasicBlock]bool) []*ssa.BasicBlock {
	var out []*ssa.BasicBlock
	for b := range m {
		out = append(out, b)
	}
	sort.Slice(out, func(i, j int) bool { return out[i].Index < out[j].Index })
	return out
}

// loopIndexOf: the index value used to pick the element on which `method` is invoked / the element passed to callee.
// Returns the step of the index phi (+1 / -1), its initial value and the phi.
func indexStep(idx ssa.Value) (step int64, init ssa.Value, phi *ssa.Phi, ok bool) {
	switch x := idx.(type) {
	case *ssa.Phi:
		phi = x
	case *ssa.BinOp:
		// range loops: the element index is phi+1 computed in the header
		if p, isPhi := x.X.(*ssa.Phi); isPhi && x.Op == token.ADD {
			if k, isK := constInt(x.Y); isK {
				// index = p + k where p = phi(-1, index)
				for _, e := range p.Edges {
					if e == ssa.Value(x) {
						for _, e2 := range p.Edges {
							if e2 != ssa.Value(x) {
								init = e2
							}
						}
						return k, init, p, true
					}
				}
			}
		}
		return 0, nil, nil, false
	default:
		return 0, nil, nil, false
	}
	for _, e := range phi.Edges {
		if bo, isB := e.(*ssa.BinOp); isB && (bo.Op == token.ADD || bo.Op == token.SUB) && bo.X == ssa.Value(phi) {
			if k, isK := constInt(bo.Y); isK {
				if bo.Op == token.SUB {
					k = -k
				}
				step = k
				ok = true
				continue
			}
		}
		init = e
	}
	return
}

func c08order(c *Ctx, r *Result) {
	type walk struct {
		fn     string
		callee func(site ssa.CallInstruction) bool
		want   int64
	}
	isInvoke := func(m string) func(ssa.CallInstruction) bool {
		return func(site ssa.CallInstruction) bool {
			return site.Common().IsInvoke() && site.Common().Method.Name() == m
		}
	}
	ws := []walk{
		{"writer.FilterPipeline.Apply", isInvoke("Apply"), +1},
		{"writer.FilterPipeline.Remove", isInvoke("Remove"), -1},
		{"core.FilterPipelineMessage.ApplyFilters", func(site ssa.CallInstruction) bool { return c.calleeName(site) == "core.applyFilter" }, -1},
	}
	for _, w := range ws {
		fn := c.Fn(r, w.fn)
		if fn == nil {
			continue
		}
		fb := c.FB(fn)
		found := false
		for _, site := range callsIn(fn) {
			if !w.callee(site) {
				continue
			}
			found = true
			// the element: receiver (invoke) or first argument, loaded from filters[idx]
			var elem ssa.Value
			if site.Common().IsInvoke() {
				elem = site.Common().Value
			} else {
				elem = site.Common().Args[0]
			}
			ld, ok := isLoad(elem)
			var ia *ssa.IndexAddr
			if ok {
				ia, _ = ld.X.(*ssa.IndexAddr)
				if al, isAl := ld.X.(*ssa.Alloc); isAl && ia == nil {
					// `filter := filters[i]` spilled into a local: the single store into it
					for _, ref := range *al.Referrers() {
						if st, isSt := ref.(*ssa.Store); isSt && st.Addr == ssa.Value(al) {
							if l2, isL := isLoad(st.Val); isL {
								ia, _ = l2.X.(*ssa.IndexAddr)
							}
						}
					}
				}
			}
			if ia == nil {
				r.Undec("C08.2", w.fn+"#direction", c.InstrPos(site.(ssa.Instruction)), "element is not filters[i]")
				continue
			}
			step, init, _, ok := indexStep(ia.Index)
			if !ok {
				r.Undec("C08.2", w.fn+"#direction", c.InstrPos(site.(ssa.Instruction)), "index is not a unit-step loop variable")
				continue
			}
			dir := "forwards"
			if w.want < 0 {
				dir = "backwards"
			}
			r.Check(step == w.want, "C08.2", w.fn+"#direction", c.InstrPos(site.(ssa.Instruction)), "walks the filter list "+dir+" (step "+itoa64(step)+")")
			if w.want < 0 {
				// starts at len-1: init == len(filters) - 1
				l := fb.lin(init)
				want := fb.lenOfOperand(ia.X).add(linConst(1), -1)
				if sl, isLoad2 := isLoad(ia.X); isLoad2 {
					want = fb.lenLin(sl).add(linConst(1), -1)
				}
				r.Check(l.equal(want), "C08.2", w.fn+"#starts-at-last-filter", c.InstrPos(site.(ssa.Instruction)), "initial index is len(filters)-1 (got "+fb.linString(l)+")")
				// loop runs while i >= 0: the header test
				okCond := false
				for _, b := range fn.Blocks {
					if ifi, isIf := b.Instrs[len(b.Instrs)-1].(*ssa.If); isIf {
						if bo, isB := ifi.Cond.(*ssa.BinOp); isB && bo.X == ia.Index && bo.Op == token.GEQ {
							if k, isK := constInt(bo.Y); isK && k == 0 {
								okCond = true
							}
						}
					}
				}
				r.Check(okCond, "C08.2", w.fn+"#down-to-first-filter", c.InstrPos(site.(ssa.Instruction)), "loop continues while i >= 0")
			}
		}
		if !found {
			// for _, f := range slices.Backward(filters) / slices.All / slices.Values: the loop body is a yield closure; the
			// direction is the iterator's
			for _, an := range fn.AnonFuncs {
				if an.Synthetic != "range-over-func yield" {
					continue
				}
				for _, site := range callsIn(an) {
					if !w.callee(site) {
						continue
					}
					// the iterator the enclosing function ranges over
					dirOf := ""
					for _, s2 := range callsIn(fn) {
						if g := s2.Common().StaticCallee(); g != nil {
							o := g
							if g.Origin() != nil {
								o = g.Origin()
							}
							if o.Pkg != nil && o.Pkg.Pkg.Path() == "slices" {
								switch o.Name() {
								case "Backward":
									dirOf = "backwards"
								case "All", "Values":
									dirOf = "forwards"
								}
							}
						}
					}
					if dirOf == "" {
						continue
					}
					found = true
					want := "forwards"
					if w.want < 0 {
						want = "backwards"
					}
					r.Check(dirOf == want, "C08.2", w.fn+"#direction", c.InstrPos(site.(ssa.Instruction)), "walks the filter list "+want+" (range over slices iterator: "+dirOf+")")
					if w.want < 0 && dirOf == want {
						r.Hold("C08.2", w.fn+"#starts-at-last-filter", c.InstrPos(site.(ssa.Instruction)), "slices.Backward starts at the last element")
						r.Hold("C08.2", w.fn+"#down-to-first-filter", c.InstrPos(site.(ssa.Instruction)), "slices.Backward ends at the first element")
					}
				}
			}
		}
		if !found {
			r.Shortfall(c, "C08.2", fmt.Sprintf("C08.2: %s no longer applies the filters one by one", w.fn))
		}
	}
	r.Floor("C08.2", 7)
}

// c08message: header layout of the pipeline message as produced by the encoder vs. what the decoder does for that version.
func c08message(c *Ctx, r *Result) {
	enc := c.Fn(r, "writer.FilterPipeline.EncodePipelineMessage")
	ef := c.Fn(r, "writer.encodeFilter")
	dec := c.Fn(r, "core.ParseFilterPipelineMessage")
	if enc == nil || ef == nil || dec == nil {
		return
	}
	// encoder: version constant stored at header[0], header length
	var version int64 = -1
	var hdrLen int64 = -1
	var vpos ssa.Instruction
	instrs(enc, func(in ssa.Instruction) {
		st, ok := in.(*ssa.Store)
		if !ok {
			return
		}
		ia, ok := st.Addr.(*ssa.IndexAddr)
		if !ok {
			return
		}
		idx, ok := constInt(ia.Index)
		if !ok || idx != 0 {
			return
		}
		if k, ok := constInt(st.Val); ok {
			version = k
			vpos = in
			switch mk := ia.X.(type) {
			case *ssa.MakeSlice:
				if n, ok := constInt(mk.Len); ok {
					hdrLen = n
				}
			case *ssa.Slice:
				// make([]byte, const) compiles to new([const]byte)[:]
				if at, ok := derefArray(mk.X.Type()); ok {
					hdrLen = at
				}
			}
		}
	})
	if version < 0 || hdrLen < 0 {
		r.Errorf("C08.3: version byte / header length of EncodePipelineMessage not recognised")
		return
	}
	// encoder: does it write a name-length field unconditionally?  PutUint16 calls on buf[2:4]
	encFields := 0
	instrs(ef, func(in ssa.Instruction) {
		if call, ok := in.(*ssa.Call); ok && strings.HasSuffix(c.calleeName(call), "PutUint16") {
			always := true
			for _, ret := range returnsOf(ef) {
				if !mustPrecede(ret, func(x ssa.Instruction) bool { return x == ssa.Instruction(call) }) {
					always = false
				}
			}
			if always {
				encFields++
			}
		}
	})
	// decoder: header length for that version = 2 + (6 if version == 1); per-filter 16-bit reads: unconditional ones + those under version == 1
	decHdr := int64(2)
	var uncond, underV1 int
	fb := c.FB(dec)
	_ = fb
	v1blocks := map[*ssa.BasicBlock]bool{}
	for _, b := range dec.Blocks {
		ifi, ok := b.Instrs[len(b.Instrs)-1].(*ssa.If)
		if !ok {
			continue
		}
		bo, ok := ifi.Cond.(*ssa.BinOp)
		if !ok || bo.Op != token.EQL {
			continue
		}
		if k, ok := constInt(bo.Y); ok && k == 1 && isVersionValue(bo.X) {
			// blocks only reachable through the true edge
			for _, x := range dec.Blocks {
				if edgeDominates(b, b.Succs[0], x) {
					v1blocks[x] = true
				}
			}
		}
	}
	if len(v1blocks) == 0 {
		r.Errorf("C08.3: the decoder's `version == 1` branches were not recognised")
		return
	}
	instrs(dec, func(in ssa.Instruction) {
		switch x := in.(type) {
		case *ssa.Call:
			if strings.HasSuffix(c.calleeName(x), ".Uint16") {
				if v1blocks[x.Block()] {
					underV1++
				} else {
					uncond++
				}
			}
		case *ssa.BinOp:
			// offset += 6 in a v1-only block before the filter loop
			if x.Op == token.ADD && v1blocks[x.Block()] {
				if k, ok := constInt(x.Y); ok && k == 6 && x.Block().Index < 8 {
					if version == 1 {
						decHdr = 8
					}
				}
			}
		}
	})
	decFields := uncond
	if version == 1 {
		decFields += underV1
	}
	pos := c.InstrPos(vpos)
	r.Check(hdrLen == decHdr, "C08.3", "writer.FilterPipeline.EncodePipelineMessage#header-length-for-written-version", pos,
		"encoder writes version "+itoa(int(version))+" followed by a "+itoa(int(hdrLen))+"-byte header; for that version the decoder starts the first filter at offset "+itoa(int(decHdr)))
	r.Check(encFields == decFields, "C08.3", "writer.encodeFilter#per-filter-fields-for-written-version", c.Pos(ef.Pos()),
		"encoder writes "+itoa(encFields)+" 16-bit fields per filter unconditionally; for version "+itoa(int(version))+" the decoder reads "+itoa(decFields))
	r.Floor("C08.3", 2)
}

func isVersionValue(v ssa.Value) bool {
	// data[0] load
	for {
		if cv, ok := v.(*ssa.Convert); ok {
			v = cv.X
			continue
		}
		break
	}
	ld, ok := isLoad(v)
	if !ok {
		return false
	}
	ia, ok := ld.X.(*ssa.IndexAddr)
	if !ok {
		return false
	}
	k, ok := constInt(ia.Index)
	return ok && k == 0
}

func c08fletcher(c *Ctx, r *Result) {
	// decoders compare and fail
	for _, name := range []string{"writer.Fletcher32Filter.Remove", "core.applyFletcher32"} {
		fn := c.Fn(r, name)
		if fn == nil {
			continue
		}
		verified := false
		instrs(fn, func(in ssa.Instruction) {
			bo, ok := in.(*ssa.BinOp)
			if !ok || (bo.Op != token.NEQ && bo.Op != token.EQL) {
				return
			}
			isSum := func(v ssa.Value) bool {
				call, ok := v.(*ssa.Call)
				return ok && strings.Contains(strings.ToLower(c.calleeName(call)), "fletcher32")
			}
			isStored := func(v ssa.Value) bool {
				call, ok := v.(*ssa.Call)
				return ok && strings.HasSuffix(c.calleeName(call), ".Uint32")
			}
			if !((isSum(bo.X) && isStored(bo.Y)) || (isSum(bo.Y) && isStored(bo.X))) {
				return
			}
			for _, ref := range *bo.Referrers() {
				if ifi, ok := ref.(*ssa.If); ok {
					mis := ifi.Block().Succs[0]
					if bo.Op == token.EQL {
						mis = ifi.Block().Succs[1]
					}
					if ret, ok := mis.Instrs[len(mis.Instrs)-1].(*ssa.Return); ok {
						if idx := errResultIndex(fn.Signature); idx >= 0 && !isNilConst(retOperand(ret, idx)) {
							verified = true
						}
					}
				}
			}
		})
		r.Check(verified, "C08.4", name+"#verifies-checksum", c.Pos(fn.Pos()), "the stored checksum is compared with the recomputed one and a difference is an error")
	}
	// the data returned is the input minus exactly the 4 checksum bytes, and Apply appends exactly 4
	if fn := c.Fn(r, "writer.Fletcher32Filter.Apply"); fn != nil {
		fb := c.FB(fn)
		// the slice returned on success is 4 bytes longer than the input (make(len+4), or appends that add up to it)
		want := fb.lenOfOperand(fn.Params[1]).add(linConst(4), 1)
		rets := successReturns(fn)
		ok := len(rets) > 0
		for _, ret := range rets {
			if !fb.lenOfOperand(retOperand(ret, 0)).equal(want) {
				ok = false
			}
		}
		r.Check(ok, "C08.4", "writer.Fletcher32Filter.Apply#appends-4-bytes", c.Pos(fn.Pos()), "output length is len(data)+4")
		// checksum computed over the whole input and stored at result[len(data):]
		okSum := false
		for _, site := range callsIn(fn) {
			if c.calleeName(site) == "writer.calculateFletcher32" && site.Common().Args[0] == ssa.Value(fn.Params[1]) {
				okSum = true
			}
		}
		r.Check(okSum, "C08.4", "writer.Fletcher32Filter.Apply#sum-over-whole-input", c.Pos(fn.Pos()), "calculateFletcher32 receives the unmodified input")
	}
	sum := c.Fn(r, "writer.calculateFletcher32")
	if sum == nil {
		return
	}
	c08sumCoverage(c, r, sum, "C08.4")
	c08sumNoWrap(c, r, sum, "C08.4")
	r.Floor("C08.4", 6)
}

// c08sumCoverage: every index of the input is read. Cursor variables are the integer phis built from 0 by copies and
// constant positive steps (nested loops hand the cursor from one phi to the next). (a) Every step p -> p+s is taken only after
// data[p+0..p+s-1] were read; (b) after the outermost cursor loop, on each path to the return, reads of data[i+0..i+t-1] are
// followed by a proof that len(data)-i <= t from the loop-exit condition and the branch conditions of that path (equalities and
// disequalities with constants included).
func c08sumCoverage(c *Ctx, r *Result, fn *ssa.Function, rule string) {
	fb := c.FB(fn)
	data := fn.Params[0]
	cons := c.Name(fn) + "#every-byte-summed"
	// candidate cursors: all int phis; remove those with an edge that is not 0, another cursor, or cursor + positive constant
	cur := map[*ssa.Phi]bool{}
	instrs(fn, func(in ssa.Instruction) {
		if phi, ok := in.(*ssa.Phi); ok && isIntType(phi.Type()) {
			cur[phi] = true
		}
	})
	edgeKind := func(e ssa.Value) (base *ssa.Phi, step int64, ok bool) {
		if k, isK := constInt(e); isK && k == 0 {
			return nil, 0, true
		}
		if p, isP := e.(*ssa.Phi); isP && cur[p] {
			return p, 0, true
		}
		if bo, isB := e.(*ssa.BinOp); isB && bo.Op == token.ADD {
			if p, isP := bo.X.(*ssa.Phi); isP && cur[p] {
				if k, isK := constInt(bo.Y); isK && k > 0 {
					return p, k, true
				}
			}
		}
		return nil, 0, false
	}
	for changed := true; changed; {
		changed = false
		for phi := range cur {
			for _, e := range phi.Edges {
				if _, _, ok := edgeKind(e); !ok {
					delete(cur, phi)
					changed = true
					break
				}
			}
		}
	}
	// outermost cursor: has a constant-0 edge; lowest block index
	var best *ssa.Phi
	for phi := range cur {
		has0 := false
		for _, e := range phi.Edges {
			if k, isK := constInt(e); isK && k == 0 {
				has0 = true
			}
		}
		if has0 && (best == nil || phi.Block().Index < best.Block().Index) {
			best = phi
		}
	}
	if best == nil {
		r.Viol(rule, cons, c.Pos(fn.Pos()), "no input cursor starting at 0 found: cannot establish that every byte is read")
		return
	}
	// reads of data[p+k] for cursors p
	type rd struct {
		p   *ssa.Phi
		off int64
		blk *ssa.BasicBlock
	}
	var reads []rd
	instrs(fn, func(in ssa.Instruction) {
		ia, ok := in.(*ssa.IndexAddr)
		if !ok || ia.X != ssa.Value(data) {
			return
		}
		l := fb.lin(ia.Index)
		if len(l.T) != 1 {
			return
		}
		for k, coef := range l.T {
			if p, isP := k.(*ssa.Phi); isP && cur[p] && coef == 1 {
				reads = append(reads, rd{p, l.C, ia.Block()})
			}
		}
	})
	// a multi-byte read binary.<order>.UintN(data[p+k:]) reads the N bytes from p+k (it panics on a shorter slice)
	instrs(fn, func(in ssa.Instruction) {
		call, ok := in.(*ssa.Call)
		if !ok || len(call.Call.Args) == 0 {
			return
		}
		name := c.calleeName(call)
		if !strings.Contains(name, "binary") {
			return
		}
		width := int64(0)
		switch {
		case strings.HasSuffix(name, ".Uint16"):
			width = 2
		case strings.HasSuffix(name, ".Uint32"):
			width = 4
		case strings.HasSuffix(name, ".Uint64"):
			width = 8
		default:
			return
		}
		sl, ok := call.Call.Args[len(call.Call.Args)-1].(*ssa.Slice)
		if !ok || sl.X != ssa.Value(data) || sl.Low == nil {
			return
		}
		l := fb.lin(sl.Low)
		if len(l.T) != 1 {
			return
		}
		for k, coef := range l.T {
			if p, isP := k.(*ssa.Phi); isP && cur[p] && coef == 1 {
				for j := int64(0); j < width; j++ {
					reads = append(reads, rd{p, l.C + j, call.Block()})
				}
			}
		}
	})
	// (a) steps
	steps := 0
	for _, phi := range sortedPhis(cur) {
		for i, e := range phi.Edges {
			base, step, _ := edgeKind(e)
			if step == 0 {
				continue
			}
			steps++
			pred := phi.Block().Preds[i]
			for k := int64(0); k < step; k++ {
				ok := false
				for _, x := range reads {
					if x.p == base && x.off == k && x.blk.Dominates(pred) {
						ok = true
					}
				}
				if !ok {
					r.Viol(rule, cons, c.Pos(phi.Pos()), "the cursor advances by "+itoa(int(step))+" but data[i+"+itoa(int(k))+"] is not read on every path to that step")
					return
				}
			}
		}
	}
	if steps == 0 {
		r.Viol(rule, cons, c.Pos(best.Pos()), "the input cursor never advances")
		return
	}
	// (b) tail after the outermost loop
	hdr := best.Block()
	inLoop := map[*ssa.BasicBlock]bool{}
	for _, b := range fn.Blocks {
		if hdr.Dominates(b) && reachableFrom(b, nil)[hdr] && b != hdr {
			inLoop[b] = true
		}
	}
	var exitEdges [][2]*ssa.BasicBlock
	for _, b := range sortedBlocks(inLoop) {
		for _, s := range b.Succs {
			if !inLoop[s] && s != hdr {
				exitEdges = append(exitEdges, [2]*ssa.BasicBlock{b, s})
			}
		}
	}
	for _, s := range hdr.Succs {
		if !inLoop[s] {
			exitEdges = append(exitEdges, [2]*ssa.BasicBlock{hdr, s})
		}
	}
	if len(exitEdges) == 0 {
		r.Viol(rule, cons, c.Pos(best.Pos()), "loop exit not found")
		return
	}
	lenData := fb.lenOfOperand(data)
	iLin := fb.lin(best)
	rest := lenData.add(iLin, -1) // D = len(data) - i
	paths, okAll := 0, true
	var bad string
	type neq struct {
		l Lin
		k int64
	}
	var walk func(b *ssa.BasicBlock, facts []Lin, ne []neq, tail map[int64]bool, depth int)
	walk = func(b *ssa.BasicBlock, facts []Lin, ne []neq, tail map[int64]bool, depth int) {
		if depth > 16 || inLoop[b] || b == hdr {
			okAll = false
			bad = "the code after the main loop re-enters a loop"
			return
		}
		t2 := map[int64]bool{}
		for k := range tail {
			t2[k] = true
		}
		for _, x := range reads {
			if x.blk == b && x.p == best {
				t2[x.off] = true
			}
		}
		last := b.Instrs[len(b.Instrs)-1]
		switch x := last.(type) {
		case *ssa.Return:
			paths++
			t := int64(0)
			for t2[t] {
				t++
			}
			// smallest U in 0..16 with U - D >= 0, then skip excluded values
			U := int64(-1)
			for u := int64(0); u <= 16; u++ {
				if fb.prove(linConst(u).add(rest, -1), facts, 3) {
					U = u
					break
				}
			}
			for U > 0 {
				excluded := false
				for _, q := range ne {
					if q.l.equal(rest) && q.k == U {
						excluded = true
					}
				}
				if !excluded {
					break
				}
				U--
			}
			if U < 0 || U > t {
				okAll = false
				left := "an unbounded number of"
				if U >= 0 {
					left = "up to " + itoa(int(U))
				}
				bad = "on a path to the return at " + c.InstrPos(x) + " " + itoa(int(t)) + " trailing byte(s) are read while " + left + " bytes can remain"
			}
		case *ssa.If:
			neT, neF := ne, ne
			if bo, ok := x.Cond.(*ssa.BinOp); ok && (bo.Op == token.EQL || bo.Op == token.NEQ) {
				if k, isK := constInt(bo.Y); isK {
					q := neq{fb.lin(bo.X), k}
					if bo.Op == token.EQL {
						neF = append(append([]neq{}, ne...), q)
					} else {
						neT = append(append([]neq{}, ne...), q)
					}
				}
			}
			walk(b.Succs[0], fb.condFacts(x.Cond, true, append([]Lin{}, facts...)), neT, t2, depth+1)
			walk(b.Succs[1], fb.condFacts(x.Cond, false, append([]Lin{}, facts...)), neF, t2, depth+1)
		case *ssa.Jump:
			walk(b.Succs[0], facts, ne, t2, depth+1)
		default:
			okAll = false
			bad = "unexpected terminator"
		}
	}
	for _, e := range exitEdges {
		walk(e[1], fb.edgeFacts(e[0], e[1]), nil, map[int64]bool{}, 0)
	}
	if paths == 0 {
		okAll = false
		bad = "no return reached from the loop exit"
	}
	detail := itoa(steps) + " cursor step(s) each preceded by reads of the bytes stepped over; " + itoa(paths) + " path(s) after the loop read the remaining len(data)-i bytes"
	if !okAll {
		detail = bad
	}
	r.Check(okAll, rule, cons, c.Pos(best.Pos()), detail)
}

func sortedPhis(m map[*ssa.Phi]bool) []*ssa.Phi {
	var out []*ssa.Phi
	for p := range m {
		out = append(out, p)
	}
	sort.Slice(out, func(i, j int) bool {
		if out[i].Block().Index != out[j].Block().Index {
			return out[i].Block().Index < out[j].Block().Index
		}
		return out[i].Pos() < out[j].Pos()
	})
	return out
}

// c08sumNoWrap: every 32-bit addition in the checksum is shown not to exceed 2^32-1: by interval reasoning (operands reduced
// modulo 65535 before being added), or, for accumulation across a counted inner loop, by the closed-form worst case
// a1 <= A1 + K*W, a2 <= A2 + K*A1 + W*K*(K+1)/2.
func c08sumNoWrap(c *Ctx, r *Result, fn *ssa.Function, rule string) {
	fb := c.FB(fn)
	const max32 = int64(1)<<32 - 1
	n := 0
	instrs(fn, func(in ssa.Instruction) {
		bo, ok := in.(*ssa.BinOp)
		if !ok || bo.Op != token.ADD {
			return
		}
		b, ok := bo.Type().Underlying().(*types.Basic)
		if ok && (b.Kind() == types.Uint16 || b.Kind() == types.Uint8) {
			// sums kept in a narrower type: the addition wraps modulo 2^16 (2^8) before the reduction modulo 65535
			n++
			_, ah := fb.rng(bo.X)
			_, bh := fb.rng(bo.Y)
			_, thi := fb.typeRange(bo.Type())
			r.Check(ah+bh <= thi, rule, c.Name(fn)+"#accumulator-cannot-wrap", c.InstrPos(bo), "addition in "+b.Name()+" with operand maxima "+itoa64(ah)+" and "+itoa64(bh)+": the sum must stay below "+itoa64(thi+1)+" (a wrapped sum is not a Fletcher sum; 65535 and 65536 become the same residue)")
			return
		}
		if !ok || b.Kind() != types.Uint32 {
			return
		}
		n++
		_, ah := fb.rng(bo.X)
		_, bh := fb.rng(bo.Y)
		cons := c.Name(fn) + "#accumulator-cannot-wrap"
		if ah <= max32 && bh <= max32 && ah+bh <= max32 && !(ah == max32 || bh == max32) {
			r.Hold(rule, cons, c.InstrPos(bo), "operands bounded by "+itoa64(ah)+" and "+itoa64(bh))
			return
		}
		if bound, ok := c08countedAccum(fb, bo); ok {
			r.Check(bound <= max32, rule, cons, c.InstrPos(bo), "worst case over the counted inner loop is "+itoa64(bound)+" (limit "+itoa64(max32)+")")
			return
		}
		r.Viol(rule, cons, c.InstrPos(bo), "no bound below 2^32 established for this 32-bit accumulation (operand maxima "+itoa64(ah)+", "+itoa64(bh)+"): a wrapped sum is not a Fletcher sum")
	})
	if n < 2 {
		r.Errorf("C08.4: calculateFletcher32 has %d accumulator additions (expected at least 2)", n)
	}
}

func itoa64(v int64) string {
	if v >= inf {
		return "unbounded"
	}
	neg := v < 0
	if neg {
		v = -v
	}
	if v == 0 {
		return "0"
	}
	var b []byte
	for v > 0 {
		b = append([]byte{byte('0' + v%10)}, b...)
		v /= 10
	}
	if neg {
		return "-" + string(b)
	}
	return string(b)
}

// c08countedAccum: bo is `acc + x` feeding phi acc in an inner loop with a provable iteration bound K.
// Returns the worst-case value of the sum.
func c08countedAccum(fb *FB, bo *ssa.BinOp) (int64, bool) {
	accPhi, other := accumPhi(bo)
	if accPhi == nil {
		return 0, false
	}
	hdr := accPhi.Block()
	K, ok := loopTripBound(fb, hdr)
	if !ok {
		return 0, false
	}
	// initial value of the accumulator (edges other than the back edge)
	initMax := int64(0)
	for _, e := range accPhi.Edges {
		if e == ssa.Value(bo) {
			continue
		}
		_, h := fb.rng(e)
		if h > initMax {
			initMax = h
		}
	}
	// increment: either bounded directly (first-order) or itself an accumulation in the same loop (second-order)
	if obo, isB := other.(*ssa.BinOp); isB && obo.Op == token.ADD {
		if p2, inc := accumPhi(obo); p2 != nil && p2.Block() == hdr {
			_, w := fb.rng(inc)
			a1 := int64(0)
			for _, e := range p2.Edges {
				if e == ssa.Value(obo) {
					continue
				}
				_, h := fb.rng(e)
				if h > a1 {
					a1 = h
				}
			}
			if w >= inf || a1 >= inf || initMax >= inf {
				return 0, false
			}
			tri := satMul(w, satMul(K, K+1)/2)
			return satAdd(satAdd(initMax, satMul(K, a1)), tri), true
		}
	}
	_, w := fb.rng(other)
	if w >= inf || initMax >= inf {
		return 0, false
	}
	return satAdd(initMax, satMul(K, w)), true
}

// accumPhi: bo = phi + x (or x + phi) where phi has bo as one of its edges.
func accumPhi(bo *ssa.BinOp) (*ssa.Phi, ssa.Value) {
	try := func(a, b ssa.Value) (*ssa.Phi, ssa.Value) {
		if p, ok := a.(*ssa.Phi); ok {
			for _, e := range p.Edges {
				if e == ssa.Value(bo) {
					return p, b
				}
			}
		}
		return nil, nil
	}
	if p, o := try(bo.X, bo.Y); p != nil {
		return p, o
	}
	return try(bo.Y, bo.X)
}

// loopTripBound: the loop with header hdr has an index phi i with constant step s > 0 and continues while i < E where
// E - i0 <= B is provable at the loop entry for a constant B: at most ceil(B/s) iterations.
func loopTripBound(fb *FB, hdr *ssa.BasicBlock) (int64, bool) {
	ifi, ok := hdr.Instrs[len(hdr.Instrs)-1].(*ssa.If)
	if !ok {
		return 0, false
	}
	cmp, ok := ifi.Cond.(*ssa.BinOp)
	if !ok || cmp.Op != token.LSS {
		return 0, false
	}
	phi, ok := cmp.X.(*ssa.Phi)
	if !ok || phi.Block() != hdr {
		return 0, false
	}
	step, init, _, ok := indexStep(phi)
	if !ok || step <= 0 || init == nil {
		return 0, false
	}
	// entry predecessor
	var pre *ssa.BasicBlock
	for i, e := range phi.Edges {
		if e == init {
			pre = hdr.Preds[i]
		}
	}
	if pre == nil {
		return 0, false
	}
	span := fb.lin(cmp.Y).add(fb.lin(init), -1) // E - i0
	facts := fb.edgeFacts(pre, hdr)
	// find the smallest constant B in a small candidate set: constants appearing in the function
	var cands []int64
	instrs(fb.fn, func(in ssa.Instruction) {
		for _, op := range in.Operands(nil) {
			if op == nil || *op == nil {
				continue
			}
			if k, ok := constInt(*op); ok && k > 0 && k < 1<<30 {
				cands = append(cands, k, 2*k)
			}
		}
	})
	sort.Slice(cands, func(i, j int) bool { return cands[i] < cands[j] })
	for _, B := range cands {
		if fb.prove(linConst(B).add(span, -1), facts, 3) {
			return (B + step - 1) / step, true
		}
	}
	return 0, false
}

// c08optional: in core ApplyFilters the error of applyFilter may be ignored only when the optional bit was tested, and the
// running buffer on that path is the filter's input.
func c08optional(c *Ctx, r *Result) {
	fn := c.Fn(r, "core.FilterPipelineMessage.ApplyFilters")
	if fn == nil {
		return
	}
	for _, site := range callsIn(fn) {
		if c.calleeName(site) != "core.applyFilter" {
			continue
		}
		call := site.(*ssa.Call)
		var data, errv ssa.Value
		for _, ref := range *call.Referrers() {
			if ex, ok := ref.(*ssa.Extract); ok {
				if ex.Index == 0 {
					data = ex
				} else {
					errv = ex
				}
			}
		}
		if errv == nil {
			r.Viol("C08.5", c.Name(fn)+"#filter-error-examined", c.InstrPos(call), "the error of applyFilter is dropped")
			continue
		}
		// the err != nil edge
		var errBlk, errSucc *ssa.BasicBlock
		for _, ref := range *errv.Referrers() {
			if bo, ok := ref.(*ssa.BinOp); ok && bo.Op == token.NEQ {
				for _, r2 := range *bo.Referrers() {
					if ifi, ok := r2.(*ssa.If); ok {
						errBlk, errSucc = ifi.Block(), ifi.Block().Succs[0]
					}
				}
			}
		}
		if errBlk == nil {
			r.Viol("C08.5", c.Name(fn)+"#filter-error-examined", c.InstrPos(call), "no `err != nil` test found")
			continue
		}
		// on the error arm: an If on (flags & 1) != 0; its false edge returns an error; its true edge continues the loop
		okFlag, okErr := false, false
		var contEdge [2]*ssa.BasicBlock
		for b := range reachableFrom(errSucc, map[*ssa.BasicBlock]bool{call.Block(): true}) {
			if !edgeDominates(errBlk, errSucc, b) {
				continue
			}
			ifi, ok := b.Instrs[len(b.Instrs)-1].(*ssa.If)
			if !ok {
				continue
			}
			if readsFlagBit(ifi.Cond) {
				okFlag = true
				if ret, ok := b.Succs[1].Instrs[len(b.Succs[1].Instrs)-1].(*ssa.Return); ok && !isNilConst(retOperand(ret, 1)) {
					okErr = true
				}
				contEdge = [2]*ssa.BasicBlock{b, b.Succs[0]}
			}
		}
		r.Check(okFlag && okErr, "C08.5", c.Name(fn)+"#error-ignored-only-if-optional", c.InstrPos(call), "a filter error is skipped only after testing flag bit 0; otherwise it is returned")
		// the buffer phi on the continue path must not take the failed call's data result
		okBuf := true
		if data != nil && contEdge[0] != nil {
			for b := range reachableFrom(contEdge[1], map[*ssa.BasicBlock]bool{call.Block(): true}) {
				for _, in := range b.Instrs {
					phi, ok := in.(*ssa.Phi)
					if !ok {
						break
					}
					for i, e := range phi.Edges {
						if e == data {
							// does this phi edge come from the skip path?
							p := b.Preds[i]
							if p == contEdge[0] || reachableFrom(contEdge[1], map[*ssa.BasicBlock]bool{call.Block(): true})[p] {
								okBuf = false
							}
						}
					}
				}
			}
			// also the header phi directly fed from the continue block
			for _, b := range fn.Blocks {
				for _, in := range b.Instrs {
					phi, ok := in.(*ssa.Phi)
					if !ok {
						break
					}
					for i, e := range phi.Edges {
						if e == data && edgeDominates(contEdge[0], contEdge[1], b.Preds[i]) {
							okBuf = false
						}
					}
				}
			}
		}
		r.Check(okBuf, "C08.5", c.Name(fn)+"#skipped-filter-passes-input-on", c.InstrPos(call), "after a skipped optional filter the running buffer is still the filter's input, not the failed call's (nil) result")
	}
	r.Floor("C08.5", 2)
}

func readsFlagBit(v ssa.Value) bool {
	found := false
	seen := map[ssa.Value]bool{}
	var walk func(v ssa.Value, d int)
	walk = func(v ssa.Value, d int) {
		if v == nil || seen[v] || d > 8 {
			return
		}
		seen[v] = true
		switch x := v.(type) {
		case *ssa.BinOp:
			if x.Op == token.AND {
				if k, ok := constInt(x.Y); ok && k == 1 {
					for f := range fieldsReadBy(x.X) {
						if strings.HasSuffix(f, ".Flags") {
							found = true
						}
					}
					if fld, ok := x.X.(*ssa.Field); ok {
						if f, _ := fieldOfAddr(fld); f != nil && f.Name() == "Flags" {
							found = true
						}
					}
				}
			}
			walk(x.X, d+1)
			walk(x.Y, d+1)
		case *ssa.UnOp:
			walk(x.X, d+1)
		case *ssa.Phi:
			for _, e := range x.Edges {
				walk(e, d+1)
			}
		}
	}
	walk(v, 0)
	return found
}

// c08lzf: at every call of appendBackref the arguments satisfy the encoder's field widths:
// 1 <= offset <= 8192 (13 bits after the decrement), 3 <= length <= 264 (3 bits (length-2 in 1..6) or one byte length-9).
func c08lzf(c *Ctx, r *Result) {
	ab := c.Fn(r, "writer.appendBackref")
	if ab == nil {
		return
	}
	// derive the field widths from the callee itself: offset>>8 is OR-ed under a 3-bit field shifted by 5 => offset-1 < 2^13;
	// byte(length-9) => length-9 <= 255
	offBits, lenMax := int64(-1), int64(-1)
	instrs(ab, func(in ssa.Instruction) {
		switch x := in.(type) {
		case *ssa.BinOp:
			if x.Op == token.SHR {
				if k, ok := constInt(x.Y); ok {
					// used in an OR with something shifted left by s => field has s bits above k
					for _, ref := range *x.Referrers() {
						if or, ok := ref.(*ssa.BinOp); ok && or.Op == token.OR {
							other := or.X
							if other == ssa.Value(x) {
								other = or.Y
							}
							if shl, ok := other.(*ssa.BinOp); ok && shl.Op == token.SHL {
								if s, ok := constInt(shl.Y); ok {
									offBits = k + s
								}
							}
							if kc, ok := constInt(other); ok {
								// 0xE0 | (offset>>8): low zero bits of the constant
								s := int64(0)
								for s < 8 && (kc>>uint(s))&1 == 0 {
									s++
								}
								if offBits < 0 || k+s < offBits {
									offBits = k + s
								}
							}
						}
					}
				}
			}
		case *ssa.Convert:
			if b, ok := x.Type().Underlying().(*types.Basic); ok && b.Kind() == types.Uint8 {
				if sub, ok := x.X.(*ssa.BinOp); ok && sub.Op == token.SUB && sub.X == ssa.Value(ab.Params[2]) {
					if k, ok := constInt(sub.Y); ok {
						lenMax = 255 + k
					}
				}
			}
		}
	})
	if offBits < 0 || lenMax < 0 {
		r.Errorf("C08.6: field widths of appendBackref not recognised (offset bits %d, max length %d)", offBits, lenMax)
		return
	}
	maxOff := int64(1) << uint(offBits) // offset is decremented first: offset-1 < 2^bits
	n := 0
	for _, fn := range c.LibFuncs() {
		for _, site := range callsIn(fn) {
			if c.calleeName(site) != "writer.appendBackref" {
				continue
			}
			n++
			fb := c.FB(fn)
			in := site.(ssa.Instruction)
			off := fb.lin(site.Common().Args[1])
			ln := fb.lin(site.Common().Args[2])
			ok1 := fb.ProveGE0At(linConst(maxOff).add(off, -1), in) && fb.ProveGE0At(off.add(linConst(1), -1), in)
			r.Check(ok1, "C08.6", c.Name(fn)+"#backref-offset-fits-"+itoa(int(offBits))+"-bits", c.InstrPos(in), "1 <= offset <= "+itoa(int(maxOff))+" at the call (offset-1 is packed into "+itoa(int(offBits))+" bits; a larger value spills into the length bits)")
			ok2 := fb.ProveGE0At(linConst(lenMax).add(ln, -1), in) && fb.ProveGE0At(ln.add(linConst(3), -1), in)
			r.Check(ok2, "C08.6", c.Name(fn)+"#backref-length-in-range", c.InstrPos(in), "3 <= length <= "+itoa(int(lenMax))+" at the call")
		}
	}
	// the decoder's unpacking uses the same widths
	for _, name := range []string{"core.lzfDecompress", "writer.lzfDecompress"} {
		fn := c.Fn(r, name)
		if fn == nil {
			continue
		}
		var maskOK, addOK bool
		instrs(fn, func(in ssa.Instruction) {
			if bo, ok := in.(*ssa.BinOp); ok {
				if bo.Op == token.AND {
					if k, ok := constInt(bo.Y); ok && k == (int64(1)<<uint(offBits-8))-1 {
						maskOK = true
					}
				}
				if bo.Op == token.ADD {
					if k, ok := constInt(bo.Y); ok && k == lenMax-255 {
						addOK = true
					}
				}
			}
		})
		r.Check(maskOK && addOK, "C08.6", name+"#unpacks-same-fields", c.Pos(fn.Pos()), "decoder masks "+itoa(int(offBits-8))+" high offset bits and adds "+itoa(int(lenMax-255))+" to the long length byte")
		// the run-length field is what is left of the control byte above the offset bits: (ctrl >> s) & m with
		// s = offBits-8 and m covering all 8-s remaining bits; the short length is that field + 2
		runOK, runAt := false, c.Pos(fn.Pos())
		seenRun := false
		instrs(fn, func(in ssa.Instruction) {
			bo, ok := in.(*ssa.BinOp)
			if !ok || bo.Op != token.AND {
				return
			}
			m, okm := constInt(bo.Y)
			sh, oks := stripConv(bo.X).(*ssa.BinOp)
			if !okm || !oks || sh.Op != token.SHR {
				return
			}
			s, okk := constInt(sh.Y)
			if !okk || s != offBits-8 {
				return
			}
			if b, isB := sh.X.Type().Underlying().(*types.Basic); !isB || b.Kind() != types.Uint8 {
				return
			}
			seenRun = true
			runAt = c.InstrPos(bo)
			runOK = m == (int64(1)<<uint(8-s))-1
		})
		if seenRun {
			r.Check(runOK, "C08.6", name+"#run-length-field-whole", runAt, "the short run length is taken from all "+itoa(int(8-(offBits-8)))+" bits of the control byte above the offset bits (a narrower mask shortens matches of 6 to 8 bytes)")
		}
	}
	if n == 0 {
		r.Errorf("C08.6: no call of appendBackref found")
	}
	r.Floor("C08.6", 4)
}

// c08container: packages providing the deflate container on the encoder and the decoders; shuffle client data.
func c08container(c *Ctx, r *Result) {
	pkgOf := func(fnName string, want string) (string, string) {
		fn := c.Fn(r, fnName)
		if fn == nil {
			return "", ""
		}
		for _, site := range callsIn(fn) {
			if f := site.Common().StaticCallee(); f != nil && f.Pkg != nil && strings.HasPrefix(f.Pkg.Pkg.Path(), "compress/") && strings.HasPrefix(f.Name(), want) {
				return f.Pkg.Pkg.Path(), c.InstrPos(site.(ssa.Instruction))
			}
		}
		return "", c.Pos(fn.Pos())
	}
	enc, epos := pkgOf("writer.GZIPFilter.Apply", "NewWriter")
	d1, p1 := pkgOf("writer.GZIPFilter.Remove", "NewReader")
	d2, p2 := pkgOf("core.applyDeflate", "NewReader")
	if enc == "" {
		r.Errorf("C08.7: GZIPFilter.Apply does not use a compress/* writer")
		return
	}
	_ = epos
	r.Check(d1 == enc, "C08.7", "writer.GZIPFilter.Apply~writer.GZIPFilter.Remove#same-container", p1, "encoder uses "+enc+", writer-side decoder "+d1)
	r.Check(d2 == enc, "C08.7", "writer.GZIPFilter.Apply~core.applyDeflate#same-container", p2, "encoder uses "+enc+", reader-side decoder "+d2+" (a gzip stream is not a zlib stream)")
	// the whole deflate arm of the reader's dispatch: every stream reader opened below it is of the encoder's container
	if af := c.FnOpt("core.applyFilter"); af != nil {
		readersBelow := func(root *ssa.Function) map[string]string {
			out := map[string]string{}
			for f := range c.Reach([]*ssa.Function{root}, func(f *ssa.Function) bool { return !libPackage(fnPkgPath(f)) }) {
				if f.Blocks == nil || !libPackage(fnPkgPath(f)) {
					continue
				}
				for _, site := range callsIn(f) {
					if g := site.Common().StaticCallee(); g != nil && g.Pkg != nil && strings.HasPrefix(g.Pkg.Pkg.Path(), "compress/") && strings.HasPrefix(g.Name(), "NewReader") {
						out[g.Pkg.Pkg.Path()] = c.InstrPos(site.(ssa.Instruction))
					}
				}
			}
			return out
		}
		var arm map[*ssa.BasicBlock]bool
		for _, b := range af.Blocks {
			ifi, ok := b.Instrs[len(b.Instrs)-1].(*ssa.If)
			if !ok {
				continue
			}
			bo, ok := ifi.Cond.(*ssa.BinOp)
			if !ok || bo.Op != token.EQL {
				continue
			}
			k, isK := constInt(bo.Y)
			if !isK || k != 1 {
				continue
			}
			if key, _ := fieldLoadKey(bo.X); !strings.HasSuffix(key, ".ID") {
				continue
			}
			arm = edgeRegion(b, b.Succs[0])
		}
		if arm == nil {
			r.Undec("C08.7", "core.applyFilter#deflate-arm", c.Pos(af.Pos()), "the arm for filter id 1 was not found in the dispatch")
		} else {
			found := map[string]string{}
			for _, site := range callsIn(af) {
				in := site.(ssa.Instruction)
				if !arm[in.Block()] {
					continue
				}
				g := site.Common().StaticCallee()
				if g == nil {
					continue
				}
				if g.Pkg != nil && strings.HasPrefix(g.Pkg.Pkg.Path(), "compress/") && strings.HasPrefix(g.Name(), "NewReader") {
					found[g.Pkg.Pkg.Path()] = c.InstrPos(in)
				} else if libPackage(fnPkgPath(g)) {
					for k, v := range readersBelow(g) {
						found[k] = v
					}
				}
			}
			okArm, where, names := true, c.Pos(af.Pos()), []string{}
			for _, k := range sortedKeys(found) {
				names = append(names, k)
				if k != enc {
					okArm, where = false, found[k]
				}
			}
			r.Check(okArm && len(found) > 0, "C08.7", "core.applyFilter#deflate-arm-opens-only-the-encoder's-container", where, "encoder uses "+enc+"; the reader's arm for filter id 1 opens "+strings.Join(names, ", ")+" (a decoder chosen by sniffing the first payload bytes misreads every stream whose header bytes differ from the sniffed ones, e.g. another compression level)")
		}
	}
	// shuffle: writer Encode puts elementSize into cd_values[0]; the reader takes clientData[0]
	if encf := c.Fn(r, "writer.ShuffleFilter.Encode"); encf != nil {
		slot := int64(-1)
		instrs(encf, func(in ssa.Instruction) {
			if st, ok := in.(*ssa.Store); ok {
				if ia, ok := st.Addr.(*ssa.IndexAddr); ok {
					if valueReadsField(st.Val, "writer.ShuffleFilter.elementSize", 0) {
						if k, ok := constInt(ia.Index); ok {
							slot = k
						}
					}
				}
			}
		})
		rd := c.Fn(r, "core.applyShuffle")
		rslot := int64(-1)
		if rd != nil {
			instrs(rd, func(in ssa.Instruction) {
				if ia, ok := in.(*ssa.IndexAddr); ok && ia.X == ssa.Value(rd.Params[1]) {
					if k, ok := constInt(ia.Index); ok {
						rslot = k
					}
				}
			})
		}
		r.Check(slot >= 0 && slot == rslot, "C08.7", "writer.ShuffleFilter.Encode~core.applyShuffle#element-size-slot", c.Pos(encf.Pos()), "writer stores the element size in client-data slot "+itoa(int(slot))+", reader takes slot "+itoa(int(rslot)))
	}
	// shuffle index formulas: the reader's source index is the writer's destination index and vice versa
	c08shuffleInverse(c, r)
	r.Floor("C08.7", 4)
}

// c08shuffleInverse compares the index expressions of the three shuffle loops after renaming loop variables by role.
func c08shuffleInverse(c *Ctx, r *Result) {
	type form struct{ src, dst string }
	get := func(name string) (form, bool) {
		fn := c.FnOpt(name)
		if fn == nil {
			return form{}, false
		}
		var f form
		okAll := false
		instrs(fn, func(in ssa.Instruction) {
			st, ok := in.(*ssa.Store)
			if !ok {
				return
			}
			dia, ok := st.Addr.(*ssa.IndexAddr)
			if !ok {
				return
			}
			ld, ok := isLoad(st.Val)
			if !ok {
				return
			}
			sia, ok := ld.X.(*ssa.IndexAddr)
			if !ok {
				return
			}
			if b, ok := st.Val.Type().Underlying().(*types.Basic); !ok || b.Kind() != types.Uint8 {
				return
			}
			f.dst = roleExpr(fn, dia.Index)
			f.src = roleExpr(fn, sia.Index)
			okAll = true
		})
		return f, okAll
	}
	wa, ok1 := get("writer.ShuffleFilter.Apply")
	wr, ok2 := get("writer.ShuffleFilter.Remove")
	cr, ok3 := get("core.applyShuffle")
	if !ok1 || !ok2 || !ok3 {
		r.Undec("C08.7", "shuffle#index-formulas", "", "byte-move statement not recognised in one of the shuffle loops")
		return
	}
	r.Check(wa.src == wr.dst && wa.dst == wr.src, "C08.7", "writer.ShuffleFilter.Apply~writer.ShuffleFilter.Remove#inverse-index-maps", "", "Apply moves "+wa.src+" -> "+wa.dst+"; Remove moves "+wr.src+" -> "+wr.dst)
	r.Check(wa.src == cr.dst && wa.dst == cr.src, "C08.7", "writer.ShuffleFilter.Apply~core.applyShuffle#inverse-index-maps", "", "Apply moves "+wa.src+" -> "+wa.dst+"; the reader moves "+cr.src+" -> "+cr.dst)
}

// roleExpr prints an index expression with loop variables named by the bound of their loop ("E" for the one bounded by the
// element size, "N" for the one bounded by the element count) and the two quantities as "size"/"num".
func roleExpr(fn *ssa.Function, v ssa.Value) string {
	var size, num ssa.Value
	// num = len/size (QUO); size = the divisor
	instrs(fn, func(in ssa.Instruction) {
		if bo, ok := in.(*ssa.BinOp); ok && bo.Op == token.QUO && num == nil {
			num = bo
			size = bo.Y
		}
	})
	same := func(a, b ssa.Value) bool {
		if a == b {
			return true
		}
		la, ok1 := isLoad(a)
		lb, ok2 := isLoad(b)
		if ok1 && ok2 {
			return sameFieldAddr(la.X, lb.X)
		}
		if ca, ok := a.(*ssa.Convert); ok {
			return sameV(ca.X, b)
		}
		return false
	}
	_ = same
	loopVar := func(p *ssa.Phi) string {
		// bound: If(p < B) in p's block
		if ifi, ok := p.Block().Instrs[len(p.Block().Instrs)-1].(*ssa.If); ok {
			if cmp, ok := ifi.Cond.(*ssa.BinOp); ok && cmp.X == ssa.Value(p) {
				if sameV(cmp.Y, num) {
					return "elem"
				}
				if sameV(cmp.Y, size) {
					return "byte"
				}
			}
		}
		return "?"
	}
	var pr func(v ssa.Value) string
	pr = func(v ssa.Value) string {
		switch x := v.(type) {
		case *ssa.Phi:
			return loopVar(x)
		case *ssa.Convert:
			return pr(x.X)
		case *ssa.BinOp:
			a, b := pr(x.X), pr(x.Y)
			if x.Op == token.ADD || x.Op == token.MUL {
				if a > b {
					a, b = b, a
				}
			}
			return "(" + a + x.Op.String() + b + ")"
		}
		if sameV(v, num) {
			return "num"
		}
		if sameV(v, size) {
			return "size"
		}
		return "?"
	}
	return pr(v)
}

func sameV(a, b ssa.Value) bool {
	if a == nil || b == nil {
		return false
	}
	if a == b {
		return true
	}
	if ca, ok := a.(*ssa.Convert); ok {
		return sameV(ca.X, b)
	}
	if cb, ok := b.(*ssa.Convert); ok {
		return sameV(a, cb.X)
	}
	la, ok1 := isLoad(a)
	lb, ok2 := isLoad(b)
	if ok1 && ok2 {
		return sameFieldAddr(la.X, lb.X) || sameIndexAddr(la.X, lb.X)
	}
	return false
}

func sameIndexAddr(a, b ssa.Value) bool {
	ia, ok1 := a.(*ssa.IndexAddr)
	ib, ok2 := b.(*ssa.IndexAddr)
	if !ok1 || !ok2 || ia.X != ib.X {
		return false
	}
	ka, ok1 := constInt(ia.Index)
	kb, ok2 := constInt(ib.Index)
	return ok1 && ok2 && ka == kb
}

func derefArray(t types.Type) (int64, bool) {
	if p, ok := t.Underlying().(*types.Pointer); ok {
		t = p.Elem()
	}
	if a, ok := t.Underlying().(*types.Array); ok {
		return a.Len(), true
	}
	return 0, false
}

// ---- additional necessary condition found by the third round of seeded changes ----

func init() {
	reg := registry["C08"]
	reg.Meta.Rules["C08.8"] = "LZF decoders replicate a back-reference byte by byte (or with a copy proven not to overlap): source and destination of a back-reference may overlap, and a block move does not re-read what it has just written"
	reg.Rules = append(reg.Rules, c08lzfOverlap)
}

// c08lzfOverlap: in each lzfDecompress, a builtin copy whose source and destination are slices of the same buffer must have
// src.High <= dst.Low proven (no overlap); the byte-serial form `output = append(output, output[srcPos+i])` is the reference.
func c08lzfOverlap(c *Ctx, r *Result) { lzfOverlapRule(c, r, "C08.8") }

func lzfOverlapRule(c *Ctx, r *Result, rule string) {
	n := 0
	for _, name := range []string{"core.lzfDecompress", "writer.lzfDecompress"} {
		fn := c.Fn(r, name)
		if fn == nil {
			continue
		}
		n++
		fb := c.FB(fn)
		bad := ""
		serial := false
		instrs(fn, func(in ssa.Instruction) {
			call, ok := in.(*ssa.Call)
			if !ok {
				return
			}
			b, ok := call.Call.Value.(*ssa.Builtin)
			if !ok {
				return
			}
			switch b.Name() {
			case "copy":
				dst, ok1 := call.Call.Args[0].(*ssa.Slice)
				src, ok2 := call.Call.Args[1].(*ssa.Slice)
				if !ok1 || !ok2 || !sameBufferChain(dst.X, src.X) {
					return
				}
				if src.High == nil || dst.Low == nil || !fb.ProveGE0At(fb.lin(dst.Low).add(fb.lin(src.High), -1), call) {
					bad = c.InstrPos(call)
				}
			case "append":
				// append(output, output[lo:hi]...): a block of the buffer appended to itself; it may only read what is already there
				if len(call.Call.Args) == 2 {
					if sl, ok := call.Call.Args[1].(*ssa.Slice); ok && sameBufferChain(sl.X, call.Call.Args[0]) {
						if sl.High == nil || !fb.ProveGE0At(fb.lenOfOperand(call.Call.Args[0]).add(fb.lin(sl.High), -1), call) {
							bad = c.InstrPos(call)
						}
						return
					}
				}
				// append(output, output[k]): one byte re-read from the buffer being extended
				if len(call.Call.Args) == 2 {
					if sl, ok := call.Call.Args[1].(*ssa.Slice); ok {
						if al, ok := sl.X.(*ssa.Alloc); ok {
							for _, ref := range *al.Referrers() {
								if ia, ok := ref.(*ssa.IndexAddr); ok {
									for _, r2 := range *ia.Referrers() {
										if st, ok := r2.(*ssa.Store); ok {
											if ld, ok := isLoad(st.Val); ok {
												if ia2, ok := ld.X.(*ssa.IndexAddr); ok && sameBufferChain(ia2.X, call.Call.Args[0]) {
													serial = true
												}
											}
										}
									}
								}
							}
						}
					}
				}
			}
		})
		switch {
		case bad != "":
			r.Viol(rule, name+"#backref-replicated-serially", bad, "a back-reference is expanded with a block copy inside the output buffer whose ranges are not shown to be disjoint: with offset < length the bytes written by this very reference must be re-read (run-length style data decodes to zeros)")
		case serial:
			r.Hold(rule, name+"#backref-replicated-serially", c.Pos(fn.Pos()), "back-references are expanded byte by byte from the growing output")
		default:
			r.Undec(rule, name+"#backref-replicated-serially", c.Pos(fn.Pos()), "expansion of back-references not recognised")
		}
	}
	if n < 2 {
		r.Errorf(rule + ": lzfDecompress implementations not found")
	}
	r.Floor(rule, 2)
}

// sameBufferChain: both values are versions of one growing buffer (the same value, or connected through phi / append / slices.Grow / re-slice).
func sameBufferChain(a, b ssa.Value) bool {
	roots := func(v ssa.Value) map[ssa.Value]bool {
		out := map[ssa.Value]bool{}
		var walk func(v ssa.Value, d int)
		walk = func(v ssa.Value, d int) {
			if v == nil || out[v] || d > 12 {
				return
			}
			out[v] = true
			switch x := v.(type) {
			case *ssa.Phi:
				for _, e := range x.Edges {
					walk(e, d+1)
				}
			case *ssa.Slice:
				walk(x.X, d+1)
			case *ssa.Call:
				if b, ok := x.Call.Value.(*ssa.Builtin); ok && b.Name() == "append" {
					walk(x.Call.Args[0], d+1)
				} else if f := x.Call.StaticCallee(); f != nil && f.Name() == "Grow" {
					walk(x.Call.Args[0], d+1)
				}
			}
		}
		walk(v, 0)
		return out
	}
	ra, rb := roots(a), roots(b)
	for v := range ra {
		if rb[v] {
			if _, isConst := v.(*ssa.Const); isConst {
				continue
			}
			return true
		}
	}
	return false
}

func init() {
	reg := registry["C08"]
	reg.Meta.Rules["C08.9"] = "a filter hands out its result in a buffer nobody else holds: Apply/Remove of every writer-side filter and every reader-side decoder returns its input, a part of it, or a buffer made in that call - never a buffer kept in the filter's state or in a package variable (the next chunk would overwrite the encoded bytes of the previous one)"
	reg.Meta.Rules["C08.10"] = "the inflate output limit is the global chunk limit; if it is made to depend on the stored size, the factor is at least 1032 (the largest expansion a deflate stream can reach), so that no chunk the encoder produced is rejected"
	reg.Rules = append(reg.Rules, func(c *Ctx, r *Result) {
		// ---- C08.9
		var stateful func(v ssa.Value, d int) (bool, string)
		stateful = func(v ssa.Value, d int) (bool, string) {
			if d > 8 {
				return false, ""
			}
			switch x := v.(type) {
			case *ssa.Slice:
				return stateful(x.X, d+1)
			case *ssa.Convert:
				return stateful(x.X, d+1)
			case *ssa.ChangeType:
				return stateful(x.X, d+1)
			case *ssa.Phi:
				for _, e := range x.Edges {
					if b, w := stateful(e, d+1); b {
						return b, w
					}
				}
			case *ssa.UnOp:
				if x.Op == token.MUL {
					if f, _ := fieldOfAddr(x.X); f != nil {
						return true, "field " + f.Name()
					}
					if g, ok := x.X.(*ssa.Global); ok {
						return true, "package variable " + g.Name()
					}
					if ia, ok := x.X.(*ssa.IndexAddr); ok {
						return stateful(ia.X, d+1)
					}
				}
			case *ssa.Global:
				return true, "package variable " + x.Name()
			case *ssa.Call:
				if b, ok := x.Call.Value.(*ssa.Builtin); ok && b.Name() == "append" {
					return stateful(x.Call.Args[0], d+1)
				}
			}
			return false, ""
		}
		n := 0
		for _, fn := range c.LibFuncs() {
			pk := shortPkg(fnPkgPath(fn))
			isFilter := false
			switch {
			case pk == "writer" && fn.Signature.Recv() != nil && (fn.Name() == "Apply" || fn.Name() == "Remove") && strings.Contains(c.Name(fn), "Filter"):
				isFilter = true
			case pk == "core" && strings.HasPrefix(fn.Name(), "apply") && fn.Signature.Results().Len() == 2:
				isFilter = true
			}
			if !isFilter || fn.Blocks == nil || fn.Signature.Results().Len() < 1 || !isByteSlice(fn.Signature.Results().At(0).Type()) {
				continue
			}
			for _, ret := range successReturns(fn) {
				n++
				bad, what := stateful(retOperand(ret, 0), 0)
				r.Check(!bad, "C08.9", c.Name(fn)+"#result-not-shared-state", c.InstrPos(ret), "the returned bytes are the input, part of it, or a buffer made in this call (a result in shared state - "+what+" - would be overwritten by the next call while the caller still holds it)")
			}
		}
		if n < 10 {
			r.Errorf("C08.9: only %d filter result returns found", n)
		}
		// ---- C08.10
		fn := c.Fn(r, "core.applyDeflate")
		if fn == nil {
			return
		}
		found := false
		for _, site := range callsIn(fn) {
			call, ok := site.(*ssa.Call)
			if !ok {
				continue
			}
			f := call.Call.StaticCallee()
			if f == nil || f.Pkg == nil || f.Pkg.Pkg.Path() != "io" || f.Name() != "LimitReader" {
				continue
			}
			found = true
			ok2, why := true, "constant limit"
			seen := map[ssa.Value]bool{}
			var walk func(v ssa.Value, d int)
			walk = func(v ssa.Value, d int) {
				if seen[v] || d > 10 {
					return
				}
				seen[v] = true
				switch x := v.(type) {
				case *ssa.Const:
				case *ssa.Convert:
					walk(x.X, d+1)
				case *ssa.Phi:
					for _, e := range x.Edges {
						walk(e, d+1)
					}
				case *ssa.BinOp:
					if x.Op == token.MUL {
						kx, okx := constInt(x.X)
						ky, oky := constInt(x.Y)
						switch {
						case oky && len(dataParamsOpt(x.X, true)) > 0:
							if ky < 1032 {
								ok2, why = false, "limit = stored size * "+itoa(int(ky))
							} else {
								why = "limit includes stored size * " + itoa(int(ky))
							}
							return
						case okx && len(dataParamsOpt(x.Y, true)) > 0:
							if kx < 1032 {
								ok2, why = false, "limit = stored size * "+itoa(int(kx))
							} else {
								why = "limit includes stored size * " + itoa(int(kx))
							}
							return
						}
					}
					walk(x.X, d+1)
					walk(x.Y, d+1)
				case *ssa.Call:
					if b, isB := x.Call.Value.(*ssa.Builtin); isB && (b.Name() == "len" || b.Name() == "cap") {
						ok2, why = false, "the limit depends on the stored size without a factor" // len(data) alone: expansion factor 1
						return
					}
					for _, a := range x.Call.Args {
						walk(a, d+1)
					}
				default:
					if len(dataParams(v)) > 0 {
						ok2, why = false, "the limit depends on the input in a way that is not recognised"
					}
				}
			}
			walk(call.Call.Args[1], 0)
			r.Check(ok2, "C08.10", c.Name(fn)+"#inflate-limit-admits-every-encoded-chunk", c.InstrPos(call), why+" (a deflate stream can expand up to 1032:1; go's zlib reaches more than 1024:1 on constant data)")
		}
		if !found {
			r.Undec("C08.10", c.Name(fn)+"#inflate-limit-admits-every-encoded-chunk", c.Pos(fn.Pos()), "no io.LimitReader in applyDeflate")
		}
	})
}

// identityOnEmpty: fn returns its []byte parameter unchanged with a nil error on an edge where that parameter is known to
// be empty (len(p) == 0).
func identityOnEmpty(fn *ssa.Function) bool {
	var data *ssa.Parameter
	for _, p := range fn.Params {
		if isByteSlice(p.Type()) {
			data = p
			break
		}
	}
	if data == nil {
		return false
	}
	for _, ret := range successReturns(fn) {
		if len(ret.Results) < 1 || retOperand(ret, 0) != ssa.Value(data) {
			continue
		}
		for _, b := range fn.Blocks {
			ifi, ok := b.Instrs[len(b.Instrs)-1].(*ssa.If)
			if !ok || b.Succs[0] == b.Succs[1] {
				continue
			}
			bo, ok := ifi.Cond.(*ssa.BinOp)
			if !ok {
				continue
			}
			k, isK := constInt(bo.Y)
			if !isK || k != 0 || lenOperand(bo.X) != ssa.Value(data) {
				continue
			}
			var empty *ssa.BasicBlock
			switch bo.Op {
			case token.EQL, token.LEQ:
				empty = b.Succs[0]
			case token.NEQ, token.GTR:
				empty = b.Succs[1]
			default:
				continue
			}
			if empty == ret.Block() || edgeDominates(b, empty, ret.Block()) {
				return true
			}
		}
	}
	return false
}

func init() {
	reg := registry["C08"]
	reg.Meta.Rules["C08.11"] = "an empty chunk takes the same road on both sides: where a writer-side filter's Apply passes an empty input through unchanged, the reader-side decoder for that filter (and the filter's own Remove) does so too - otherwise the reader tries to decode zero bytes as a compressed stream"
	reg.Rules = append(reg.Rules, func(c *Ctx, r *Result) {
		pairs := [][3]string{
			{"writer.GZIPFilter.Apply", "writer.GZIPFilter.Remove", "core.applyDeflate"},
			{"writer.ShuffleFilter.Apply", "writer.ShuffleFilter.Remove", "core.applyShuffle"},
			{"writer.LZFFilter.Apply", "writer.LZFFilter.Remove", "core.applyLZF"},
			{"writer.Fletcher32Filter.Apply", "writer.Fletcher32Filter.Remove", "core.applyFletcher32"},
			{"writer.BZIP2Filter.Apply", "writer.BZIP2Filter.Remove", "core.applyBZIP2"},
		}
		n := 0
		for _, p := range pairs {
			enc := c.FnOpt(p[0])
			if enc == nil || enc.Blocks == nil {
				continue
			}
			encPass := identityOnEmpty(enc)
			for _, dn := range p[1:] {
				dec := c.FnOpt(dn)
				if dec == nil || dec.Blocks == nil {
					continue
				}
				n++
				if !encPass {
					r.Hold("C08.11", p[0]+"~"+dn+"#empty-chunk-same-road", c.Pos(enc.Pos()), "the encoder encodes an empty input like any other")
					continue
				}
				if identityOnEmpty(dec) {
					r.Hold("C08.11", p[0]+"~"+dn+"#empty-chunk-same-road", c.Pos(dec.Pos()), "both sides pass an empty chunk through unchanged")
					continue
				}
				// a decoder that opens a decompression stream fails on zero bytes; a plain loop over the bytes does nothing
				streams := false
				for _, site := range callsIn(dec) {
					if g := site.Common().StaticCallee(); g != nil && g.Pkg != nil && strings.HasPrefix(g.Pkg.Pkg.Path(), "compress/") {
						streams = true
					}
				}
				if streams {
					r.Viol("C08.11", p[0]+"~"+dn+"#empty-chunk-same-road", c.Pos(dec.Pos()), "the encoder returns an empty input unchanged, but the decoder opens a decompression stream on the stored bytes: zero bytes are not a valid stream")
				} else {
					r.Undec("C08.11", p[0]+"~"+dn+"#empty-chunk-same-road", c.Pos(dec.Pos()), "the encoder passes an empty input through; the decoder has no such shortcut and no decompression stream - what it does with zero bytes is not decided")
				}
			}
		}
		if n < 6 {
			r.Errorf("C08.11: only %d encoder/decoder pairs resolved", n)
		}
	})
}
