package main

import (
	"fmt"
	"go/token"
	"go/types"
	"os"
	"sort"
	"strings"

	"golang.org/x/tools/go/ssa"
)

// Loop progress (C07.7). A loop iteration that changes nothing repeats forever: if some path from the loop header back
// to the header hands every loop-carried value (header phi) back unchanged, stores nothing and calls nothing but
// repeatable reads (positional ReadAt, byte-order decoding, buffer pool get/release, pure helpers), then the next iteration
// evaluates the same conditions on the same values and takes the same path again. Such a path is reported. Paths that store
// to memory or call anything else are not decided by this rule (their state may live in memory) and are not counted.

// repeatableCall: a call whose result and effect do not depend on how often it is made with the same arguments.
func (c *Ctx) repeatableCall(site ssa.CallInstruction) bool {
	com := site.Common()
	if _, isB := com.Value.(*ssa.Builtin); isB {
		switch com.Value.Name() {
		case "len", "cap", "min", "max":
			return true
		}
		return false
	}
	if com.IsInvoke() {
		// io.ReaderAt.ReadAt: positional, does not move a cursor
		return com.Method.Name() == "ReadAt"
	}
	f := com.StaticCallee()
	if f == nil {
		return false
	}
	n := c.Name(f)
	switch {
	case strings.HasPrefix(f.String(), "(encoding/binary.") && strings.Contains(f.Name(), "Uint"):
		return true
	case n == "utils.GetBuffer", n == "utils.ReleaseBuffer":
		return true
	}
	if f.Blocks != nil && inModule(fnPkgPath(f)) && len(f.Blocks) <= 12 && pureFunction(f) {
		return true
	}
	return false
}

type progressStats struct{ loops, paths, skipped int }

// stuckPaths enumerates the cycle paths of the loop with header h that change nothing; returns a description of the first.
func (c *Ctx) stuckPath(h *ssa.BasicBlock, loop map[*ssa.BasicBlock]bool, st *progressStats) (string, bool) {
	var hphis []*ssa.Phi
	for _, in := range h.Instrs {
		if p, ok := in.(*ssa.Phi); ok {
			hphis = append(hphis, p)
		}
	}
	quiet := map[*ssa.BasicBlock]int{} // 1 = only repeatable instructions, 2 = not
	isQuiet := func(b *ssa.BasicBlock) bool {
		if q := quiet[b]; q != 0 {
			return q == 1
		}
		q := 1
		for _, in := range b.Instrs {
			switch x := in.(type) {
			case *ssa.Store, *ssa.MapUpdate, *ssa.Send, *ssa.Go, *ssa.Defer, *ssa.RunDefers, *ssa.Panic, *ssa.Select, *ssa.Next:
				q = 2
			case *ssa.UnOp:
				if x.Op.String() == "<-" {
					q = 2
				}
			case *ssa.Call:
				if !c.repeatableCall(x) {
					q = 2
					if os.Getenv("H5SA_DEBUG_PROGRESS") != "" && strings.Contains(c.Name(b.Parent()), os.Getenv("H5SA_DEBUG_PROGRESS")) {
						fmt.Fprintf(os.Stderr, "progress: %s block %d not quiet: %s\n", c.Name(b.Parent()), b.Index, x.String())
					}
				}
			}
		}
		quiet[b] = q
		return q == 1
	}
	if !isQuiet(h) {
		return "", false
	}
	budget := 20000
	var path []*ssa.BasicBlock
	onPath := map[*ssa.BasicBlock]bool{}
	found := ""
	var dfs func(b *ssa.BasicBlock)
	// value of v at the end of the path, relative to the header phis: does it resolve to header phi `want`?
	predOf := func(blk *ssa.BasicBlock) *ssa.BasicBlock {
		for i := len(path) - 1; i > 0; i-- {
			if path[i] == blk {
				return path[i-1]
			}
		}
		return nil
	}
	var resolve func(v ssa.Value, want *ssa.Phi, d int) bool
	resolve = func(v ssa.Value, want *ssa.Phi, d int) bool {
		if v == want {
			return true
		}
		if d > 16 {
			return false
		}
		// the whole of a sequence is the sequence: x[:], x[0:], x[:len(x)], x[0:len(x)]
		if sl, ok := v.(*ssa.Slice); ok && sl.Max == nil {
			lowZero := sl.Low == nil
			if k, isK := constIntOpt(sl.Low); isK && k == 0 {
				lowZero = true
			}
			highAll := sl.High == nil
			if call, isCall := sl.High.(*ssa.Call); isCall {
				if bi, isB := call.Call.Value.(*ssa.Builtin); isB && bi.Name() == "len" && len(call.Call.Args) == 1 && call.Call.Args[0] == sl.X {
					highAll = true
				}
			}
			if _, isPtr := sl.X.Type().Underlying().(*types.Pointer); !isPtr && lowZero && highAll {
				return resolve(sl.X, want, d+1)
			}
		}
		if p, ok := v.(*ssa.Phi); ok && p.Block() != h && loop[p.Block()] {
			pr := predOf(p.Block())
			if pr == nil {
				return false
			}
			for i, pp := range p.Block().Preds {
				if pp == pr {
					return resolve(p.Edges[i], want, d+1)
				}
			}
		}
		return false
	}
	dfs = func(b *ssa.BasicBlock) {
		if budget <= 0 || found != "" {
			return
		}
		path = append(path, b)
		onPath[b] = true
		defer func() { path = path[:len(path)-1]; delete(onPath, b) }()
		for _, s := range b.Succs {
			if s == h {
				budget--
				st.paths++
				// back edge b -> h: every header phi gets itself back?
				idx := -1
				for i, p := range h.Preds {
					if p == b {
						idx = i
					}
				}
				same := idx >= 0
				for _, p := range hphis {
					if !same {
						break
					}
					same = resolve(p.Edges[idx], p, 0)
				}
				if same {
					var names []string
					for _, x := range path {
						names = append(names, fmt.Sprint(x.Index))
					}
					found = "blocks " + strings.Join(names, ">") + " back to " + fmt.Sprint(h.Index)
					return
				}
				continue
			}
			if !loop[s] || onPath[s] || !isQuiet(s) {
				continue // inner cycles are loops of their own; a block that stores/calls may change the state
			}
			dfs(s)
		}
	}
	dfs(h)
	if budget <= 0 {
		st.skipped++
		return "", false
	}
	return found, found != ""
}

func loopProgressRule(c *Ctx, r *Result, rule string, fns []*ssa.Function, floor int) {
	sort.Slice(fns, func(i, j int) bool { return c.Name(fns[i]) < c.Name(fns[j]) })
	st := &progressStats{}
	for _, fn := range fns {
		if fn.Blocks == nil {
			continue
		}
		k := 0
		for _, h := range fn.Blocks {
			isHeader := false
			for _, p := range h.Preds {
				if h.Dominates(p) {
					isHeader = true
				}
			}
			if !isHeader {
				continue
			}
			st.loops++
			k++
			loop := naturalLoop(h)
			cons := fmt.Sprintf("%s#loop-%d", c.Name(fn), k)
			pos := c.Pos(fn.Pos())
		findPos:
			for _, b := range fn.Blocks {
				if !loop[b] {
					continue
				}
				for _, in := range b.Instrs {
					if in.Pos().IsValid() {
						pos = c.InstrPos(in)
						break findPos
					}
				}
			}
			if desc, stuck := c.stuckPath(h, loop, st); stuck {
				r.Viol(rule, cons+"#iteration-without-progress", pos, "an iteration can return to the loop head with every loop-carried value unchanged, without a store and with only repeatable reads ("+desc+"): the next iteration takes the same path again, for ever")
			} else {
				r.Hold(rule, cons, pos, "no state-preserving cycle path")
			}
		}
	}
	if st.loops < floor {
		r.Shortfall(c, rule, fmt.Sprintf("%s: only %d loops examined (expected >= %d)", rule, st.loops, floor))
	}
	r.Notef("%s: %d loops, %d cycle paths examined, %d loops beyond the path budget", rule, st.loops, st.paths, st.skipped)
}

func init() {
	reg := registry["C07"]
	reg.Meta.Rules["C07.7"] = "every loop iteration on the read path makes progress: no path from a loop head back to it hands all loop-carried values back unchanged while storing nothing and calling only repeatable reads (positional ReadAt, byte-order decoding, buffer pool, pure helpers); such an iteration repeats for ever on the input that selects it (a zero-size header message that is skipped without advancing the cursor)"
	reg.Rules = append(reg.Rules, func(c *Ctx, r *Result) {
		readers := c.readerSet(r)
		var fns []*ssa.Function
		for f := range readers {
			fns = append(fns, f)
		}
		loopProgressRule(c, r, "C07.7", fns, 100)
	})
}

// ---- narrow arithmetic on the read path (C07.8) ----
//
// A sum, difference or product computed in an 8- or 16-bit unsigned type wraps. On the read path the operands are sizes and
// counts taken from the file, so a length test written as len(data) < int(4+size) with a 16-bit size passes for size = 0xFFFC and
// the slice behind it panics. Every ADD/SUB/MUL/SHL whose result type is uint8 or uint16 and whose operand ranges do not keep
// the result inside the type is counted per function; the count is frozen (baselines/C07.8.json) and only growth is reported.
func narrowWrapRule(c *Ctx, r *Result, rule string) {
	readers := c.readerSet(r)
	per := map[string][]undecidedItem{}
	n := 0
	for fn := range readers {
		if fn.Blocks == nil {
			continue
		}
		var fb *FB
		instrs(fn, func(in ssa.Instruction) {
			bo, ok := in.(*ssa.BinOp)
			if !ok {
				return
			}
			switch bo.Op {
			case token.ADD, token.SUB, token.MUL, token.SHL:
			default:
				return
			}
			bt, ok := bo.Type().Underlying().(*types.Basic)
			if !ok || (bt.Kind() != types.Uint8 && bt.Kind() != types.Uint16) {
				return
			}
			_, kx := bo.X.(*ssa.Const)
			_, ky := bo.Y.(*ssa.Const)
			if kx && ky {
				return
			}
			if fb == nil {
				fb = c.FB(fn)
			}
			n++
			if fb.narrowOpFits(bo) {
				r.Hold(rule, c.Name(fn)+"#narrow-"+bo.Op.String(), c.InstrPos(bo), "operand ranges keep the result inside "+bt.Name())
				return
			}
			// with the tests that dominate the operation
			_, thi := fb.typeRange(bo.Type())
			fits := false
			switch bo.Op {
			case token.ADD:
				fits = fb.ProveGE0At(linConst(thi).add(fb.lin(bo.X), -1).add(fb.lin(bo.Y), -1), bo)
			case token.SUB:
				fits = fb.ProveGE0At(fb.lin(bo.X).add(fb.lin(bo.Y), -1), bo)
			case token.SHL:
				if k, isK := constInt(bo.X); isK && k > 0 {
					maxShift := int64(0)
					for (k << uint(maxShift+1)) <= thi {
						maxShift++
					}
					fits = fb.ProveGE0At(linConst(maxShift).add(fb.lin(bo.Y), -1), bo) && fb.ProveGE0At(fb.lin(bo.Y), bo)
				}
			case token.MUL:
				if k, isK := constInt(bo.Y); isK && k > 0 {
					fits = fb.ProveGE0At(linConst(thi/k).add(fb.lin(bo.X), -1), bo)
				} else if k, isK := constInt(bo.X); isK && k > 0 {
					fits = fb.ProveGE0At(linConst(thi/k).add(fb.lin(bo.Y), -1), bo)
				}
			}
			if fits {
				r.Hold(rule, c.Name(fn)+"#narrow-"+bo.Op.String(), c.InstrPos(bo), "the dominating tests keep the result inside "+bt.Name())
				return
			}
			per[c.Name(fn)] = append(per[c.Name(fn)], undecidedItem{c.InstrPos(bo), "the " + bt.Name() + " operation " + bo.Op.String() + " is not shown to stay inside the type (it wraps)"})
		})
	}
	if n < 10 {
		r.Shortfall(c, rule, fmt.Sprintf("%s: only %d narrow operations examined on the read path", rule, n))
	}
	r.ApplyBaseline(verifDirGlobal, rule, "possibly-wrapping-narrow-operation", per)
}

func init() {
	reg := registry["C07"]
	reg.Meta.Rules["C07.8"] = "sizes from the file are not added up in 8 or 16 bits: every ADD/SUB/MUL/SHL on the read path whose result type is uint8 or uint16 stays inside the type by the ranges of its operands; the operations that are not decided are frozen per function and only growth is reported (len(data) < int(4+size) with a 16-bit size passes for 0xFFFC and the slice behind it panics)"
	reg.Rules = append(reg.Rules, func(c *Ctx, r *Result) { narrowWrapRule(c, r, "C07.8") })
}

func constIntOpt(v ssa.Value) (int64, bool) {
	if v == nil {
		return 0, false
	}
	return constInt(v)
}
