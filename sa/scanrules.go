package main

import (
	"fmt"
	"go/constant"
	"go/token"
	"go/types"
	"sort"
	"strings"

	"golang.org/x/tools/go/ssa"
)

// innermostLoop returns header and body of the smallest natural loop containing b (nil when b is in no loop).
func innermostLoop(b *ssa.BasicBlock) (*ssa.BasicBlock, map[*ssa.BasicBlock]bool) {
	var hdr *ssa.BasicBlock
	var body map[*ssa.BasicBlock]bool
	for _, h := range b.Parent().Blocks {
		isHeader := false
		for _, p := range h.Preds {
			if h.Dominates(p) {
				isHeader = true
			}
		}
		if !isHeader {
			continue
		}
		l := naturalLoop(h)
		if l[b] && (body == nil || len(l) < len(body)) {
			hdr, body = h, l
		}
	}
	return hdr, body
}

// elementOfIteration: v is (a field of) the element a loop visits: it is read through an IndexAddr/Index that lies in the loop.
func elementOfIteration(v ssa.Value, loop map[*ssa.BasicBlock]bool, depth int) bool {
	if depth > 8 {
		return false
	}
	switch x := v.(type) {
	case *ssa.UnOp:
		if x.Op == token.MUL {
			return elementOfIteration(x.X, loop, depth+1)
		}
	case *ssa.Field:
		return elementOfIteration(x.X, loop, depth+1)
	case *ssa.FieldAddr:
		return elementOfIteration(x.X, loop, depth+1)
	case *ssa.IndexAddr:
		return loop[x.Block()]
	case *ssa.Index:
		return loop[x.Block()]
	case *ssa.Convert:
		return elementOfIteration(x.X, loop, depth+1)
	case *ssa.ChangeType:
		return elementOfIteration(x.X, loop, depth+1)
	case *ssa.Alloc:
		// per-iteration copy of the element: one store, of the element
		var st *ssa.Store
		for _, ref := range *x.Referrers() {
			if s, ok := ref.(*ssa.Store); ok && s.Addr == x {
				if st != nil {
					return false
				}
				st = s
			}
		}
		return st != nil && loop[st.Block()] && elementOfIteration(st.Val, loop, depth+1)
	}
	return false
}

// kindFilterScans: a loop that looks for the elements of one kind (`if e.Kind != K { continue }`, `if e.Kind == K { ... }`,
// a switch over e.Kind) visits every element: the edge taken for an element of another kind stays inside the loop. An edge
// that leaves the loop normally there (a break) ends the search at the first element of another kind, and whatever the loop
// was to find behind it (the Attribute Info message that says the attributes are in dense storage, a link with that name)
// is taken as absent. Edges that leave through a return are validation and are not constrained.
func (c *Ctx) kindFilterScans(r *Result, rule string, fns []*ssa.Function, floor int) {
	sort.Slice(fns, func(i, j int) bool { return c.Name(fns[i]) < c.Name(fns[j]) })
	n := 0
	for _, fn := range fns {
		if fn.Blocks == nil {
			continue
		}
		k := 0
		for _, b := range fn.Blocks {
			ifi, ok := b.Instrs[len(b.Instrs)-1].(*ssa.If)
			if !ok {
				continue
			}
			bo, ok := ifi.Cond.(*ssa.BinOp)
			if !ok || (bo.Op != token.EQL && bo.Op != token.NEQ) {
				continue
			}
			var elem ssa.Value
			if _, isK := bo.Y.(*ssa.Const); isK {
				elem = bo.X
			} else if _, isK := bo.X.(*ssa.Const); isK {
				elem = bo.Y
			}
			if elem == nil || isNilConst(bo.X) || isNilConst(bo.Y) {
				continue
			}
			hdr, loop := innermostLoop(b)
			exits := map[*ssa.BasicBlock]bool{}
			if hdr == nil {
				// a range statement whose body never reaches its back edge is compiled without one: the body block is
				// entered from the length test and every path leaves
				var rb *ssa.BasicBlock
				for x := b; x != nil; x = x.Idom() {
					if x.Comment == "rangeindex.body" && len(x.Preds) == 1 {
						rb = x
						break
					}
				}
				if rb == nil {
					continue
				}
				if h2, _ := innermostLoop(rb); h2 != nil {
					continue
				}
				pre := rb.Preds[0]
				if _, isIf := pre.Instrs[len(pre.Instrs)-1].(*ssa.If); !isIf || pre.Succs[0] != rb {
					continue
				}
				loop = map[*ssa.BasicBlock]bool{}
				for _, x := range fn.Blocks {
					if rb.Dominates(x) && x != pre.Succs[1] {
						loop[x] = true
					}
				}
				exits[pre.Succs[1]] = true
			} else {
				for _, s := range hdr.Succs {
					if !loop[s] {
						exits[s] = true
					}
				}
			}
			if !elementOfIteration(elem, loop, 0) {
				continue
			}
			// a field of the element, not the element of a byte slice or string; and not the loop's own condition
			if !throughField(elem, 0) || b == hdr {
				continue
			}
			other := b.Succs[1]
			if bo.Op == token.NEQ {
				other = b.Succs[0]
			}
			leaves := false
			if !loop[other] {
				t := other
				for i := 0; i < 3 && !exits[t]; i++ {
					if len(t.Instrs) == 1 && len(t.Succs) == 1 {
						t = t.Succs[0]
					} else {
						break
					}
				}
				leaves = exits[t]
				if !leaves {
					continue // leaves through other code (return): validation, not a search
				}
			}
			n++
			k++
			cons := fmt.Sprintf("%s#kind-filter-%d", c.Name(fn), k)
			r.Check(!leaves, rule, cons, c.InstrPos(bo), "an element of another kind is skipped, the scan goes on (a break here ends the search at the first element of another kind)")
		}
	}
	if n < floor {
		r.Shortfall(c, rule, fmt.Sprintf("%s: only %d kind-filtering loops found (expected >= %d)", rule, n, floor))
	}
}

func (c *Ctx) reachFromNames(names ...string) []*ssa.Function {
	var roots []*ssa.Function
	for _, n := range names {
		if f := c.FnOpt(n); f != nil {
			roots = append(roots, f)
		}
	}
	set := c.Reach(roots, func(f *ssa.Function) bool { return !libPackage(fnPkgPath(f)) })
	var fns []*ssa.Function
	for f := range set {
		if libPackage(fnPkgPath(f)) && f.Blocks != nil {
			fns = append(fns, f)
		}
	}
	return fns
}

func init() {
	attrRoots := []string{"hdf5.DatasetWriter.WriteAttribute", "hdf5.DatasetWriter.DeleteAttribute", "hdf5.GroupWriter.WriteAttribute", "hdf5.GroupWriter.DeleteAttribute", "hdf5.FileWriter.OpenForWrite", "hdf5.FileWriter.OpenDataset"}
	txt := "a search over the header messages visits all of them: in the functions below the attribute write/delete API a loop that filters elements by kind continues past an element of another kind (a break there hides the Attribute Info message behind the first other message, and the handle writes compact attributes next to the dense storage)"
	registry["C02"].Meta.Rules["C02.10"] = txt
	registry["C02"].Rules = append(registry["C02"].Rules, func(c *Ctx, r *Result) {
		c.kindFilterScans(r, "C02.10", c.reachFromNames(attrRoots...), 15)
	})
	registry["C10"].Meta.Rules["C10.9"] = txt + " (shared with C02.10)"
	registry["C10"].Rules = append(registry["C10"].Rules, func(c *Ctx, r *Result) {
		c.kindFilterScans(r, "C10.9", c.reachFromNames(attrRoots...), 15)
	})
}

// copyCompleteRule: where content is copied into an explicit window dst[a:b] on the writing side, the window is not provably
// shorter than what is copied into it: if len(src) - (b - a) >= 1 follows from slice bounds, make sizes and the dominating tests,
// copy silently drops the tail (an object of n bytes copied into a window of n-1 keeps its old last byte). A window that is
// proven long enough holds; everything else (a deliberate truncation to a field width among it) is not decided.
func copyCompleteRule(c *Ctx, r *Result, rule string) { copyCompleteRuleScoped(c, r, rule, nil) }

func copyCompleteRuleScoped(c *Ctx, r *Result, rule string, scope func(string) bool) {
	readers := c.readerSet(r)
	n := 0
	for _, fn := range c.LibFuncs() {
		if readers[fn] {
			continue
		}
		pk := shortPkg(fnPkgPath(fn))
		if pk != "hdf5" && pk != "core" && pk != "structures" && pk != "writer" {
			continue
		}
		if scope != nil && !scope(c.Name(fn)) {
			continue
		}
		var fb *FB
		k := 0
		instrs(fn, func(in ssa.Instruction) {
			call, ok := in.(*ssa.Call)
			if !ok {
				return
			}
			b, ok := call.Call.Value.(*ssa.Builtin)
			if !ok || b.Name() != "copy" {
				return
			}
			if sl, isSl := call.Call.Args[0].(*ssa.Slice); !isSl || sl.High == nil {
				return
			}
			if fb == nil {
				fb = c.FB(fn)
			}
			n++
			k++
			cons := fmt.Sprintf("%s#window-copy-%d", c.Name(fn), k)
			d, s := fb.lenLin(call.Call.Args[0]), fb.lenLin(call.Call.Args[1])
			switch {
			case fb.ProveGE0At(s.add(d, -1).add(linConst(1), -1), call):
				r.Viol(rule, cons, c.InstrPos(call), "the window is provably shorter than the source: len(dst) = "+fb.linString(d)+", len(src) = "+fb.linString(s)+" (copy drops the tail without an error)")
			case fb.ProveGE0At(d.add(s, -1), call):
				r.Hold(rule, cons, c.InstrPos(call), "len(dst) = "+fb.linString(d)+" >= len(src) = "+fb.linString(s))
			default:
				r.Undec(rule, cons, c.InstrPos(call), "neither len(dst) >= len(src) nor len(src) > len(dst) follows: len(dst) = "+fb.linString(d)+", len(src) = "+fb.linString(s))
			}
		})
	}
	if (scope == nil && n < 10) || n < 1 {
		r.Shortfall(c, rule, fmt.Sprintf("%s: only %d copy sites examined on the writing side", rule, n))
	}
}

func init() {
	txt := "content copied into its place arrives completely: no copy into an explicit window dst[a:b] on the writing side has a window that is provably shorter than its source (len(src) - (b - a) >= 1 from slice bounds, allocation sizes and dominating tests: an overwrite whose window is one byte short keeps the old last byte and reports success); windows proven long enough hold, the rest - deliberate truncation to a field width - is not decided"
	registry["C02"].Meta.Rules["C02.11"] = txt
	registry["C02"].Rules = append(registry["C02"].Rules, func(c *Ctx, r *Result) { copyCompleteRule(c, r, "C02.11") })
}

// accumulatedFlag: v is a boolean that a loop starts at k0 and can only flip to !k0 (found/clipped flags). Returns k0.
func accumulatedFlag(v ssa.Value) (bool, bool) {
	phi, ok := v.(*ssa.Phi)
	if !ok {
		return false, false
	}
	var k0 *bool
	seen := map[*ssa.Phi]bool{}
	var consts []bool
	var walk func(p *ssa.Phi, top bool) bool
	walk = func(p *ssa.Phi, top bool) bool {
		if seen[p] {
			return true
		}
		seen[p] = true
		for i, e := range p.Edges {
			switch x := e.(type) {
			case *ssa.Const:
				if x.Value == nil || x.Value.Kind() != constant.Bool {
					return false
				}
				b := constant.BoolVal(x.Value)
				if top && !p.Block().Dominates(p.Block().Preds[i]) {
					k0 = &b // the value on entry to the loop
				} else {
					consts = append(consts, b)
				}
			case *ssa.Phi:
				if !walk(x, false) {
					return false
				}
			default:
				return false
			}
		}
		return true
	}
	if !walk(phi, true) || k0 == nil || len(consts) == 0 {
		return false, false
	}
	for _, b := range consts {
		if b == *k0 {
			return false, false
		}
	}
	return *k0, true
}

// c05rowPlacement: the data of a clipped boundary chunk reaches the nominal buffer row by row.
func c05rowPlacement(c *Ctx, r *Result, rule string) {
	fn := c.FnOpt("hdf5.expandEdgeChunk")
	if fn == nil {
		r.ViolMissing(c, c.FnOpt("hdf5.DatasetWriter.writeChunkedData"), rule, "hdf5#clipped-chunks-expanded-to-nominal-shape", "", "there is no expandEdgeChunk: the clipped data of a boundary chunk is not placed into a buffer of the nominal chunk shape")
		return
	}
	var nominal *ssa.Parameter
	for _, p := range fn.Params {
		if p.Name() == "nominal" {
			nominal = p
		}
	}
	if nominal == nil && len(fn.Params) >= 3 {
		nominal = fn.Params[2]
	}
	fb := c.FB(fn)
	n := 0
	instrs(fn, func(in ssa.Instruction) {
		call, ok := in.(*ssa.Call)
		if !ok {
			return
		}
		if b, isB := call.Call.Value.(*ssa.Builtin); !isB || b.Name() != "copy" {
			return
		}
		dst := call.Call.Args[0]
		var low ssa.Value
		base := dst
		for {
			if s, isS := base.(*ssa.Slice); isS {
				if s.Low != nil {
					low = s.Low
				}
				base = s.X
				continue
			}
			break
		}
		if _, isMk := base.(*ssa.MakeSlice); !isMk {
			return
		}
		n++
		cons := fmt.Sprintf("%s#copy-into-nominal-buffer-%d", c.Name(fn), n)
		if low != nil && dataParamsOpt(low, false)[nominal] {
			// ... and from nothing else: the position of a row in the nominal chunk does not depend on how much of the chunk is real
			var actualP *ssa.Parameter
			for _, p := range fn.Params {
				if p.Name() == "actual" {
					actualP = p
				}
			}
			if actualP == nil && len(fn.Params) >= 2 {
				actualP = fn.Params[1]
			}
			r.Check(actualP == nil || !dataParamsOpt(low, false)[actualP], rule, cons, c.InstrPos(call), "the destination offset is computed from the nominal chunk dimensions and does not depend on the clipped extents (a stride taken from the clipped shape puts every row after the first plane at the wrong place)")
			return
		}
		// a bulk copy is right only when nothing but the slowest dimension is clipped: one dimension, or a flag that a loop
		// over the dimensions left untouched
		if fb.ProveGE0At(linConst(1).add(fb.lenLin(nominal), -1), call) {
			r.Hold(rule, cons, c.InstrPos(call), "bulk copy for a one-dimensional chunk")
			return
		}
		okFlag := false
		for _, b := range fn.Blocks {
			ifi, isIf := b.Instrs[len(b.Instrs)-1].(*ssa.If)
			if !isIf {
				continue
			}
			cond, neg := ifi.Cond, false
			for {
				u, isNot := cond.(*ssa.UnOp)
				if !isNot || u.Op != token.NOT {
					break
				}
				cond, neg = u.X, !neg
			}
			k0, isFlag := accumulatedFlag(cond)
			if !isFlag {
				continue
			}
			// successor on which the flag still has its initial value
			idx := 1
			if k0 != neg {
				idx = 0
			}
			if edgeDominates(b, b.Succs[idx], call.Block()) {
				okFlag = true
			}
		}
		r.Check(okFlag, rule, cons, c.InstrPos(call), "a copy of the clipped data in one piece is guarded by a flag that a loop over the dimensions left at its initial value (rows of a clipped chunk are shorter than nominal rows: copied in one piece, every row after the first lands at the wrong offset)")
	})
	if n == 0 {
		r.Undec(rule, c.Name(fn)+"#copy-into-nominal-buffer", c.Pos(fn.Pos()), "no copy into a buffer made in expandEdgeChunk found (the buffer may come from elsewhere: C13.8 decides whether it is fresh)")
	}
}

func init() {
	txt := "the data of a clipped boundary chunk is placed into the nominal chunk buffer row by row: in expandEdgeChunk every copy into the new buffer has a destination offset computed from the nominal dimensions; a copy in one piece is accepted only for one dimension or behind a flag that a loop over the dimensions left untouched"
	registry["C05"].Meta.Rules["C05.13"] = txt
	registry["C05"].Rules = append(registry["C05"].Rules, func(c *Ctx, r *Result) { c05rowPlacement(c, r, "C05.13") })
	registry["C01"].Meta.Rules["C01.13"] = txt + " (shared with C05.13)"
	registry["C01"].Rules = append(registry["C01"].Rules, func(c *Ctx, r *Result) { c05rowPlacement(c, r, "C01.13") })
}

func init() {
	txt := registry["C05"].Meta.Rules["C05.11"]
	registry["C08"].Meta.Rules["C08.12"] = txt + "; a signed operand is also proven non-negative (an 8-byte LZF match sent to the long form has its length byte computed as byte(8-9) = 255) (shared with C05.11)"
	registry["C08"].Rules = append(registry["C08"].Rules, func(c *Ctx, r *Result) { narrowingRule(c, r, "C08.12") })
}

// ---- positions recorded by a parsing loop are not write addresses (C10.10) ----
//
// A field whose only non-constant stores take the value of a parsing loop's cursor (a loop-carried position, not a value decoded
// from the file) records where something stood in the structure as it was parsed. Nothing on the writing side maintains such a
// field (that is how it is found: no store outside the read path), so once the structure is changed through a cached copy - a
// message added, removed or resized - the recorded position is stale. A file write addressed by such a field patches bytes at
// the place where the thing used to be.

func valueClass(v ssa.Value, d int, seen map[ssa.Value]bool) (decoded, loopCarried bool) {
	if d > 12 || seen[v] {
		return
	}
	seen[v] = true
	switch x := v.(type) {
	case *ssa.Call:
		return true, false // a result computed elsewhere (byte-order decoding, helpers): treated as decoded
	case *ssa.Extract:
		return true, false
	case *ssa.UnOp:
		if x.Op == token.MUL {
			return true, false // loaded from memory
		}
		return valueClass(x.X, d+1, seen)
	case *ssa.BinOp:
		d1, l1 := valueClass(x.X, d+1, seen)
		d2, l2 := valueClass(x.Y, d+1, seen)
		return d1 || d2, l1 || l2
	case *ssa.Convert:
		return valueClass(x.X, d+1, seen)
	case *ssa.ChangeType:
		return valueClass(x.X, d+1, seen)
	case *ssa.Phi:
		isHdr := false
		for _, p := range x.Block().Preds {
			if x.Block().Dominates(p) {
				isHdr = true
			}
		}
		if isHdr {
			// a cursor: every value that comes round the loop is the cursor itself advanced by something
			var advanced func(e ssa.Value, d int) bool
			advanced = func(e ssa.Value, d int) bool {
				if e == ssa.Value(x) {
					return true
				}
				if d > 8 {
					return false
				}
				switch y := e.(type) {
				case *ssa.BinOp:
					return y.Op == token.ADD && (advanced(y.X, d+1) || advanced(y.Y, d+1))
				case *ssa.Phi:
					if y.Block() == x.Block() {
						return false
					}
					for _, e2 := range y.Edges {
						if !advanced(e2, d+1) {
							return false
						}
					}
					return true
				}
				return false
			}
			cur := true
			for i, e := range x.Edges {
				if x.Block().Dominates(x.Block().Preds[i]) && !advanced(e, 0) {
					cur = false
				}
			}
			if cur {
				return false, true
			}
		}
		dec := false
		lc := isHdr
		for _, e := range x.Edges {
			d1, l1 := valueClass(e, d+1, seen)
			dec = dec || d1
			lc = lc || l1
		}
		return dec, lc
	}
	return
}

func (c *Ctx) cursorPositionFields(r *Result) map[string]string {
	if v, ok := c.cache["cursorfields"].(map[string]string); ok {
		return v
	}
	readers := c.readerSet(r)
	cursor := map[string]string{}
	other := map[string]bool{}
	for _, fn := range c.LibFuncs() {
		for _, fs := range c.DirectFieldStores(fn) {
			if fs.Fn != fn || fs.Val == nil || fs.Kind != "set" {
				continue
			}
			bt, ok := fs.Val.Type().Underlying().(*types.Basic)
			if !ok || bt.Info()&types.IsInteger == 0 {
				continue
			}
			if _, isK := fs.Val.(*ssa.Const); isK {
				continue
			}
			dec, lc := valueClass(fs.Val, 0, map[ssa.Value]bool{})
			if readers[fn] && lc && !dec {
				if _, seen := cursor[fs.Key]; !seen {
					cursor[fs.Key] = c.InstrPos(fs.In)
				}
			} else {
				other[fs.Key] = true
			}
		}
	}
	for k := range other {
		delete(cursor, k)
	}
	c.cache["cursorfields"] = cursor
	return cursor
}

func parsePositionRule(c *Ctx, r *Result, rule string) {
	fields := c.cursorPositionFields(r)
	for _, k := range sortedKeys(fields) {
		r.Notef("%s: position field %s (recorded at %s)", rule, k, fields[k])
	}
	n := 0
	for _, fn := range c.LibFuncs() {
		for _, site := range callsIn(fn) {
			com := site.Common()
			name := ""
			if com.IsInvoke() {
				name = com.Method.Name()
			} else if f := com.StaticCallee(); f != nil {
				name = f.Name()
			}
			if name != "WriteAt" && name != "WriteAtAddress" {
				continue
			}
			args := com.Args
			if len(args) == 0 {
				continue
			}
			addr := args[len(args)-1]
			n++
			bad := ""
			for _, k := range sortedKeys(fields) {
				if valueReadsField(addr, k, 0) {
					bad = k
				}
			}
			cons := fmt.Sprintf("%s#%s@%s", c.Name(fn), name, c.InstrPos(site.(ssa.Instruction)))
			if bad != "" {
				r.Viol(rule, c.Name(fn)+"#write-addressed-by-"+bad, c.InstrPos(site.(ssa.Instruction)), "the write address is computed from "+bad+", a position recorded by the parsing loop at "+fields[bad]+" and maintained nowhere on the writing side: after a message was added, removed or resized through the cached header it no longer says where the message is")
			} else {
				_ = cons
			}
		}
	}
	if len(fields) == 0 || n < 20 {
		r.Shortfall(c, rule, fmt.Sprintf("%s: %d parse-position fields, %d WriteAt/WriteAtAddress call sites (expected >= 1 and >= 20)", rule, len(fields), n))
		return
	}
	r.Hold(rule, "file-writes#not-addressed-by-parse-positions", "", fmt.Sprintf("%d WriteAt/WriteAtAddress call sites examined against %d parse-position fields; none is addressed by one", n, len(fields)))
}

func init() {
	registry["C10"].Meta.Rules["C10.10"] = "a position recorded while parsing is not a write address: a field whose only non-constant stores take the cursor of a parsing loop (not a value decoded from the file) and that nothing on the writing side maintains is stale as soon as the structure is changed through a cached copy; no WriteAt/WriteAtAddress address is computed from such a field (an in-place patch at HeaderMessage.Offset writes where the message used to be - or at address 4 for a message added in memory)"
	registry["C10"].Rules = append(registry["C10"].Rules, func(c *Ctx, r *Result) { parsePositionRule(c, r, "C10.10") })
}

// ---- a handle does not write through a slice it was given (C04.10) ----
//
// A slice field that is assigned a parameter as it came (no copy) shares its backing array with whoever made the call - and
// with every other object that was set up from the same slice variable (two datasets created from one `dims`). Reading through
// such a field is fine; an element store or a copy into it changes the caller's variable and the sibling objects.
func borrowedSliceFields(c *Ctx, pkg string) map[string]string {
	out := map[string]string{}
	for _, fn := range c.LibFuncs() {
		if shortPkg(fnPkgPath(fn)) != pkg {
			continue
		}
		for _, fs := range c.DirectFieldStores(fn) {
			if fs.Fn != fn || fs.Val == nil || fs.Kind != "set" {
				continue
			}
			if _, isSl := fs.Val.Type().Underlying().(*types.Slice); !isSl {
				continue
			}
			v := fs.Val
			for {
				switch x := v.(type) {
				case *ssa.Slice:
					v = x.X
					continue
				case *ssa.ChangeType:
					v = x.X
					continue
				}
				break
			}
			if p, isP := v.(*ssa.Parameter); isP && exportedEntry(fn) {
				if _, seen := out[fs.Key]; !seen {
					out[fs.Key] = c.Name(fn) + " keeps parameter " + p.Name() + " at " + c.InstrPos(fs.In)
				}
			}
		}
	}
	return out
}

func borrowedWriteRule(c *Ctx, r *Result, rule, pkg string, floor int) {
	fields := borrowedSliceFields(c, pkg)
	writes := map[string][]string{}
	for _, fn := range c.LibFuncs() {
		if shortPkg(fnPkgPath(fn)) != pkg {
			continue
		}
		for _, fs := range c.DirectFieldStores(fn) {
			if fs.Fn == fn && fs.Kind == "elem" {
				if _, ok := fields[fs.Key]; ok {
					writes[fs.Key] = append(writes[fs.Key], c.Name(fn)+" stores an element at "+c.InstrPos(fs.In))
				}
			}
		}
		for _, site := range callsIn(fn) {
			b, isB := site.Common().Value.(*ssa.Builtin)
			if !isB || b.Name() != "copy" {
				continue
			}
			if k, _ := fieldLoadKey(stripSlices(site.Common().Args[0])); k != "" {
				if _, ok := fields[k]; ok {
					writes[k] = append(writes[k], c.Name(fn)+" copies into it at "+c.InstrPos(site.(ssa.Instruction)))
				}
			}
		}
	}
	for _, k := range sortedKeys(fields) {
		cons := k + "#kept-parameter-is-only-read"
		if w := writes[k]; len(w) > 0 {
			sort.Strings(w)
			r.Viol(rule, cons, strings.TrimPrefix(w[0][strings.LastIndex(w[0], " at ")+4:], ""), fields[k]+"; "+strings.Join(w, "; ")+": the store changes the caller's slice and every other object set up from it (a second dataset created from the same dims variable gets the first one's new shape)")
		} else {
			r.Hold(rule, cons, "", fields[k]+"; no element store and no copy goes through the field")
		}
	}
	if len(fields) < floor {
		r.Shortfall(c, rule, fmt.Sprintf("%s: only %d slice fields that keep a parameter found in package %s", rule, len(fields), pkg))
	}
}

func init() {
	registry["C04"].Meta.Rules["C04.10"] = "a handle does not write through a slice it was given: a slice field of the root package that is assigned a parameter without a copy shares its backing array with the caller and with sibling objects created from the same variable; no element store and no copy() goes into such a field"
	registry["C04"].Rules = append(registry["C04"].Rules, func(c *Ctx, r *Result) { borrowedWriteRule(c, r, "C04.10", "hdf5", 3) })
}

// exportedEntry: fn can be called from outside the module (exported function, or exported method of an exported type).
func exportedEntry(fn *ssa.Function) bool {
	obj, ok := fn.Object().(*types.Func)
	if !ok || !obj.Exported() {
		return false
	}
	if recv := obj.Type().(*types.Signature).Recv(); recv != nil {
		t := recv.Type()
		if p, isP := t.(*types.Pointer); isP {
			t = p.Elem()
		}
		if n, isN := t.(*types.Named); isN && !n.Obj().Exported() {
			return false
		}
	}
	return true
}

func init() {
	registry["C04"].Meta.Rules["C04.11"] = "a write of element bytes stays inside the dataset: WriteAtAddress at the dataset's data address and writeChunkedData are reached only after the byte count was compared for equality with the dataset's dataSize and a mismatch returned an error (a buffer that is merely not shorter runs past the dataset into the objects allocated behind it) (shared with C01.3)"
	registry["C04"].Rules = append(registry["C04"].Rules, func(c *Ctx, r *Result) { sizeDisciplineRule(c, r, "C04.11") })
}

// ---- a record that ends exactly at the end of its block is accepted (C06.10) ----
//
// In a loop `for cur < end` the state cur == end is the regular end: everything was consumed. A test inside the loop that
// compares the cursor advanced by the size of the next record with the same bound therefore has to let cur + size == end
// pass; written with >= it refuses the record that ends flush with the block, without an error (the loop just ends), and
// whatever that record was - the last message of an object header - is missing from the result.
func exactFitRule(c *Ctx, r *Result, rule string, floor int) {
	readers := c.readerSet(r)
	var fns []*ssa.Function
	for f := range readers {
		fns = append(fns, f)
	}
	sort.Slice(fns, func(i, j int) bool { return c.Name(fns[i]) < c.Name(fns[j]) })
	n := 0
	for _, fn := range fns {
		if fn.Blocks == nil {
			continue
		}
		k := 0
		for _, h := range fn.Blocks {
			ifi, ok := h.Instrs[len(h.Instrs)-1].(*ssa.If)
			if !ok {
				continue
			}
			isHeader := false
			for _, p := range h.Preds {
				if h.Dominates(p) {
					isHeader = true
				}
			}
			if !isHeader {
				continue
			}
			cmp, ok := ifi.Cond.(*ssa.BinOp)
			if !ok {
				continue
			}
			var cur *ssa.Phi
			var bound ssa.Value
			switch cmp.Op {
			case token.LSS:
				cur, _ = cmp.X.(*ssa.Phi)
				bound = cmp.Y
			case token.GTR:
				cur, _ = cmp.Y.(*ssa.Phi)
				bound = cmp.X
			}
			if cur == nil || cur.Block() != h {
				continue
			}
			loop := naturalLoop(h)
			for _, b := range fn.Blocks {
				if !loop[b] || b == h {
					continue
				}
				if2, ok := b.Instrs[len(b.Instrs)-1].(*ssa.If)
				if !ok {
					continue
				}
				c2, ok := if2.Cond.(*ssa.BinOp)
				if !ok {
					continue
				}
				// normalise to  lhs OP bound
				lhs, op := c2.X, c2.Op
				if c2.X == bound {
					lhs = c2.Y
					switch c2.Op {
					case token.LSS:
						op = token.GTR
					case token.LEQ:
						op = token.GEQ
					case token.GTR:
						op = token.LSS
					case token.GEQ:
						op = token.LEQ
					}
				} else if c2.Y != bound {
					continue
				}
				if op != token.GTR && op != token.GEQ {
					continue
				}
				// lhs = cur + something
				add, isAdd := lhs.(*ssa.BinOp)
				if !isAdd || add.Op != token.ADD || !dependsOnValue(lhs, cur, 0) {
					continue
				}
				// a position that is read next (index, slice start, read offset) is a start, not the end of a record:
				// for a start, pos >= bound is the right test
				isStart := false
				if refs := lhs.Referrers(); refs != nil {
					for _, ref := range *refs {
						switch u := ref.(type) {
						case *ssa.IndexAddr:
							isStart = isStart || u.Index == lhs
						case *ssa.Index:
							isStart = isStart || u.Index == lhs
						case *ssa.Lookup:
							isStart = isStart || u.Index == lhs
						case *ssa.Slice:
							isStart = isStart || u.Low == lhs
						case *ssa.Convert:
							if r2 := u.Referrers(); r2 != nil {
								for _, x := range *r2 {
									if _, isCall := x.(ssa.CallInstruction); isCall {
										isStart = true
									}
								}
							}
						}
					}
				}
				if isStart {
					continue
				}
				n++
				k++
				cons := fmt.Sprintf("%s#record-fit-test-%d", c.Name(fn), k)
				r.Check(op == token.GTR, rule, cons, c.InstrPos(c2), "the loop runs while the cursor is below the bound, so cursor + size == bound is a record that ends exactly at the end of the block: the test lets it pass (>); with >= the last record of a full block is dropped without an error")
			}
		}
	}
	if n < floor {
		r.Shortfall(c, rule, fmt.Sprintf("%s: only %d record-fit tests found in cursor loops (expected >= %d)", rule, n, floor))
	}
}

func init() {
	registry["C06"].Meta.Rules["C06.10"] = "a record that ends exactly at the end of its block is read: in a reader loop `for cur < end`, a test of cur + size against the same bound lets equality pass (>), because cur == end is the loop's own regular end state; with >= the last record of a completely filled block (the last message of a version 1 object header) is dropped silently"
	registry["C06"].Rules = append(registry["C06"].Rules, func(c *Ctx, r *Result) { exactFitRule(c, r, "C06.10", 2) })
}

// ---- the chunk placed into the array is the chunk the pipeline delivered (C06.11) ----
//
// A filtered chunk whose filters could not be undone (an optional filter this library does not implement) arrives with the
// wrong length, and the placement step reports "chunk data truncated". That error is the only thing standing between
// still-encoded bytes and the caller. The bytes handed to the placement step are therefore the buffer the file read filled or
// the result of ApplyFilters, on every path - not a buffer made afterwards (padding the chunk to its nominal size makes the
// length test pass and returns encoded bytes as values).
func c06chunkOrigin(c *Ctx, r *Result, rule string) {
	fn := c.FnOpt("core.readChunkedData")
	if fn == nil {
		r.Shortfall(c, rule, rule+": core.readChunkedData not found")
		return
	}
	filled := map[ssa.Value]bool{}
	for _, site := range callsIn(fn) {
		com := site.Common()
		name := ""
		if com.IsInvoke() {
			name = com.Method.Name()
		} else if f := com.StaticCallee(); f != nil {
			name = f.Name()
		}
		if name == "ReadAt" || name == "ReadFull" {
			for _, a := range com.Args {
				filled[stripSlices(a)] = true
			}
		}
	}
	n := 0
	for _, site := range callsIn(fn) {
		callee := site.Common().StaticCallee()
		if callee == nil || !libPackage(fnPkgPath(callee)) {
			continue
		}
		idx := -1
		for i, p := range callee.Params {
			if p.Name() == "chunkData" {
				idx = i
			}
		}
		if idx < 0 || c.Name(callee) == c.Name(fn) {
			continue
		}
		if strings.Contains(callee.Name(), "ApplyFilters") {
			continue
		}
		n++
		bad := ""
		seen := map[ssa.Value]bool{}
		var walk func(v ssa.Value)
		walk = func(v ssa.Value) {
			if seen[v] {
				return
			}
			seen[v] = true
			switch x := v.(type) {
			case *ssa.Phi:
				for _, e := range x.Edges {
					walk(e)
				}
				return
			case *ssa.Extract:
				if call, ok := x.Tuple.(*ssa.Call); ok && strings.Contains(c.calleeName(call), "ApplyFilters") {
					return
				}
			case *ssa.Slice:
				walk(x.X)
				return
			}
			if filled[v] {
				return
			}
			bad = v.String() + " at " + c.Pos(v.Pos())
		}
		walk(site.Common().Args[idx])
		cons := c.Name(fn) + "#" + callee.Name() + "#chunk-is-what-was-read-or-decoded"
		r.Check(bad == "", rule, cons, c.InstrPos(site.(ssa.Instruction)), "the bytes placed into the array are the buffer filled by the file read or the result of ApplyFilters on every path"+map[bool]string{true: "", false: " (other origin: " + bad + ")"}[bad == ""])
	}
	if n == 0 {
		r.Shortfall(c, rule, rule+": no placement call with a chunkData parameter found in readChunkedData")
	}
}

func init() {
	registry["C06"].Meta.Rules["C06.11"] = "a chunk that could not be decoded fails, it is not made to fit: in readChunkedData the bytes handed to the placement step are, on every path, the buffer the file read filled or the result of ApplyFilters - never a buffer made afterwards (zero-padding to the nominal size defeats the placement step's length test, the only thing that turns a chunk still encoded by an unsupported optional filter into an error)"
	registry["C06"].Rules = append(registry["C06"].Rules, func(c *Ctx, r *Result) { c06chunkOrigin(c, r, "C06.11") })
}

// field-width and copy-completeness obligations shared with the properties that own the code
func init() {
	pre := func(prefixes ...string) func(string) bool {
		return func(n string) bool {
			for _, p := range prefixes {
				if strings.HasPrefix(n, p) {
					return true
				}
			}
			return false
		}
	}
	share := func(prop, idN, idC, what string, scope func(string) bool) {
		reg := registry[prop]
		if idN != "" {
			reg.Meta.Rules[idN] = "values written into narrower fields fit them, in " + what + ": every conversion of a non-constant integer to a narrower unsigned type has its operand proven within the target type (and non-negative); not-decided conversions are frozen per function and only growth is reported (C05.11 restricted to this code)"
			reg.Rules = append(reg.Rules, func(c *Ctx, r *Result) { narrowingRuleScoped(c, r, idN, scope) })
		}
		reg.Meta.Rules[idC] = "content is copied into its place completely, in " + what + ": no copy into an explicit window dst[a:b] has a window provably shorter than its source (C02.11 restricted to this code)"
		reg.Rules = append(reg.Rules, func(c *Ctx, r *Result) { copyCompleteRuleScoped(c, r, idC, scope) })
	}
	share("C11", "C11.10", "C11.11", "the metadata encoders of package core and the superblock/object header writers", pre("core."))
	share("C12", "C12.10", "C12.11", "the global heap writer", pre("hdf5.globalHeap", "hdf5.encodeVLen", "hdf5.encodeString", "hdf5.DatasetWriter.writeVLen"))
	share("C13", "C13.10", "C13.11", "the chunk writer and the chunk index", pre("hdf5.DatasetWriter.writeChunk", "hdf5.expandEdgeChunk", "hdf5.DatasetWriter.Resize", "structures.ChunkBTree", "structures.serializeChunkBTreeNode", "writer.Chunk", "hdf5.ChunkCoordinator", "writer.ChunkCoordinator"))
	share("C14", "C14.10", "C14.11", "the writable name index (B-tree v2)", pre("structures.WritableBTreeV2", "structures.insertRecordSorted", "structures.jenkinsHash"))
	share("C15", "", "C15.9", "the writable fractal heap", pre("structures.WritableFractalHeap", "structures.WritableIndirectBlock", "structures.WritableDirectBlock"))
}

func init() {
	registry["C03"].Meta.Rules["C03.13"] = "a search visits every candidate: in every loop of the module that filters the elements it visits by a kind or type field, an element of another kind is skipped and the scan goes on; a break there ends the search at the first other element and what lies behind it (a link, a message) is reported as absent (C02.10 over the whole module)"
	registry["C03"].Rules = append(registry["C03"].Rules, func(c *Ctx, r *Result) { c.kindFilterScans(r, "C03.13", c.LibFuncs(), 40) })
}

// throughField: the value is read through a struct field (e.Kind, e.Type, p.hdr.ID), not directly out of an indexed sequence.
func throughField(v ssa.Value, d int) bool {
	if d > 8 {
		return false
	}
	switch x := v.(type) {
	case *ssa.Field, *ssa.FieldAddr:
		return true
	case *ssa.UnOp:
		return throughField(x.X, d+1)
	case *ssa.Convert:
		return throughField(x.X, d+1)
	case *ssa.ChangeType:
		return throughField(x.X, d+1)
	}
	return false
}

// ---- padded lengths agree between encoder and decoder (C11.12) ----

// padForms: the round-up expressions ((x + a) / m) * m and (x + a) &^ (m-1) of fn, as "a/m" strings.
func padForms(fn *ssa.Function) map[string]token.Pos {
	out := map[string]token.Pos{}
	if fn == nil {
		return out
	}
	instrs(fn, func(in ssa.Instruction) {
		bo, ok := in.(*ssa.BinOp)
		if !ok {
			return
		}
		switch bo.Op {
		case token.MUL:
			m, okm := constInt(bo.Y)
			q, okq := stripConv(bo.X).(*ssa.BinOp)
			if !okm || !okq || q.Op != token.QUO {
				return
			}
			m2, ok2 := constInt(q.Y)
			add, okA := stripConv(q.X).(*ssa.BinOp)
			if !ok2 || m2 != m || !okA || add.Op != token.ADD {
				return
			}
			if a, okc := constInt(add.Y); okc {
				out[fmt.Sprintf("+%d/%d", a, m)] = bo.Pos()
			}
		case token.AND_NOT:
			k, okk := constInt(bo.Y)
			add, okA := stripConv(bo.X).(*ssa.BinOp)
			if !okk || !okA || add.Op != token.ADD {
				return
			}
			if a, okc := constInt(add.Y); okc {
				out[fmt.Sprintf("+%d/%d", a, k+1)] = bo.Pos()
			}
		}
	})
	return out
}

func init() {
	registry["C11"].Meta.Rules["C11.12"] = "padded lengths agree: where an encoder and its decoder both round a length up with ((n + a) / m) * m, they use the same a and m (the version 1 compound member name is padded with a = 8 because the terminating NUL is not counted in n; a decoder that rounds with a = 7 lands 8 bytes early for every name whose length is a multiple of 8)"
	registry["C11"].Rules = append(registry["C11"].Rules, func(c *Ctx, r *Result) {
		pairs := [][2]string{{"core.EncodeCompoundDatatypeV1", "core.parseCompoundV1"}}
		n := 0
		for _, p := range pairs {
			enc, dec := c.FnOpt(p[0]), c.FnOpt(p[1])
			cons := p[0] + "~" + p[1] + "#same-padding"
			if enc == nil || dec == nil {
				r.Shortfall(c, "C11.12", "C11.12: "+p[0]+" or "+p[1]+" not found")
				continue
			}
			pe, pd := padForms(enc), padForms(dec)
			if len(pe) == 0 || len(pd) == 0 {
				r.Undec("C11.12", cons, c.Pos(dec.Pos()), "one side does not round with ((n + a) / m) * m; not compared")
				continue
			}
			n++
			ke, kd := strings.Join(sortedKeys(pe), " "), strings.Join(sortedKeys(pd), " ")
			pos := c.Pos(dec.Pos())
			for _, k := range sortedKeys(pd) {
				if _, ok := pe[k]; !ok {
					pos = c.Pos(pd[k])
				}
			}
			r.Check(ke == kd, "C11.12", cons, pos, "encoder rounds with "+ke+", decoder with "+kd)
		}
		if n == 0 {
			r.Shortfall(c, "C11.12", "C11.12: no encoder/decoder pair with round-up expressions on both sides")
		}
	})
}

// ---- a dataset is written through one layout (C12.12 / C01.14) ----
//
// dataAddress means two things: for a contiguous dataset it is where the element bytes go, for a chunked one it is the address
// of the chunk index. A function that writes element bytes therefore does it through writeChunkedData or by WriteAtAddress at
// dataAddress, never both on one path: the second write lands on the chunk index that the first has just written.
func layoutExclusiveRule(c *Ctx, r *Result, rule string) {
	n := 0
	for _, fn := range c.LibFuncs() {
		if shortPkg(fnPkgPath(fn)) != "hdf5" {
			continue
		}
		var chunked, contiguous []ssa.Instruction
		for _, site := range callsIn(fn) {
			name := c.calleeName(site)
			switch {
			case name == "hdf5.DatasetWriter.writeChunkedData":
				chunked = append(chunked, site.(ssa.Instruction))
			case strings.HasSuffix(name, ".WriteAtAddress"):
				args := site.Common().Args
				if valueReadsField(args[len(args)-1], "hdf5.DatasetWriter.dataAddress", 0) {
					contiguous = append(contiguous, site.(ssa.Instruction))
				}
			}
		}
		if len(chunked) == 0 || len(contiguous) == 0 {
			continue
		}
		n++
		bad := ""
		for _, a := range chunked {
			for _, b := range contiguous {
				if canReach(a, b) {
					bad = c.InstrPos(a) + " -> " + c.InstrPos(b)
				} else if canReach(b, a) {
					bad = c.InstrPos(b) + " -> " + c.InstrPos(a)
				}
			}
		}
		r.Check(bad == "", rule, c.Name(fn)+"#one-layout-per-write", c.InstrPos(chunked[0]), "the chunked write and the write at dataAddress exclude each other on every path"+map[bool]string{true: "", false: " (path " + bad + ": for a chunked dataset dataAddress is the chunk index, which the second write overwrites)"}[bad == ""])
	}
	if n < 2 {
		r.Shortfall(c, rule, fmt.Sprintf("%s: only %d functions with both a chunked and a contiguous write", rule, n))
	}
}

func init() {
	txt := "a dataset is written through one layout: in every function of the root package that can write element bytes both ways, the call of writeChunkedData and the WriteAtAddress at dataAddress exclude each other on every path (for a chunked dataset dataAddress is the address of the chunk index: a fall-through after the chunked write puts the heap references of a variable-length dataset on top of the index node)"
	registry["C12"].Meta.Rules["C12.12"] = txt
	registry["C12"].Rules = append(registry["C12"].Rules, func(c *Ctx, r *Result) { layoutExclusiveRule(c, r, "C12.12") })
	registry["C01"].Meta.Rules["C01.14"] = txt + " (shared with C12.12)"
	registry["C01"].Rules = append(registry["C01"].Rules, func(c *Ctx, r *Result) { layoutExclusiveRule(c, r, "C01.14") })
}

// ---- a fixed-size field is filled completely (C14.12) ----
//
// copy(arr[:], src[:k]) into a local array of N bytes that is then used as a value (a 7-byte heap ID in a name index record):
// with k < N the last bytes stay zero, with k > N the tail of the source is dropped. Where both lengths are constants they are
// equal.
func arrayFillRule(c *Ctx, r *Result, rule string, scope func(string) bool, floor int) {
	n := 0
	for _, fn := range c.LibFuncs() {
		if scope != nil && !scope(c.Name(fn)) {
			continue
		}
		k := 0
		for _, site := range callsIn(fn) {
			b, isB := site.Common().Value.(*ssa.Builtin)
			if !isB || b.Name() != "copy" {
				continue
			}
			constLen := func(v ssa.Value) (int64, bool) {
				sl, ok := v.(*ssa.Slice)
				if !ok {
					return 0, false
				}
				pt, ok := sl.X.Type().Underlying().(*types.Pointer)
				if !ok {
					return 0, false
				}
				at, ok := pt.Elem().Underlying().(*types.Array)
				if !ok {
					return 0, false
				}
				lo, hi := int64(0), at.Len()
				if sl.Low != nil {
					v, ok := constInt(sl.Low)
					if !ok {
						return 0, false
					}
					lo = v
				}
				if sl.High != nil {
					v, ok := constInt(sl.High)
					if !ok {
						return 0, false
					}
					hi = v
				}
				return hi - lo, true
			}
			d, ok1 := constLen(site.Common().Args[0])
			s, ok2 := constLen(site.Common().Args[1])
			if !ok1 || !ok2 {
				continue
			}
			// a whole smaller array copied into a wider scratch array is a zero extension; the rule is about a window of
			// the source chosen by the programmer
			if sl := site.Common().Args[1].(*ssa.Slice); sl.High == nil && s < d {
				continue
			}
			n++
			k++
			r.Check(d == s, rule, fmt.Sprintf("%s#fixed-size-copy-%d", c.Name(fn), k), c.InstrPos(site.(ssa.Instruction)), fmt.Sprintf("destination of %d bytes, source of %d bytes", d, s))
		}
	}
	if n < floor {
		r.Shortfall(c, rule, fmt.Sprintf("%s: only %d copies between fixed-size arrays found (expected >= %d)", rule, n, floor))
	}
}

func init() {
	registry["C14"].Meta.Rules["C14.12"] = "a fixed-size field is filled completely: where the name index copies between windows of fixed-size arrays (the 7-byte heap ID of a record from the 8 bytes of the integer), destination and source have the same constant length - a shorter source leaves the last byte zero, and the record then points at another heap object or at none"
	registry["C14"].Rules = append(registry["C14"].Rules, func(c *Ctx, r *Result) {
		arrayFillRule(c, r, "C14.12", func(n string) bool { return strings.HasPrefix(n, "structures.") }, 2)
	})
}

// ---- an in-place write-back writes every part (C14.13 / C15.11) ----
//
// WriteAt of a loaded structure writes each of its parts (leaf and header of the name index; header and direct block of the heap)
// through a method of the same type (encode*/write*At). Every return of success lies behind each of those calls - or behind the
// test of a boolean "modified" flag, which C14.9 ties to every content-changing method. A part that is skipped on some other
// condition (the record count did not change) stays as it was in the file while the methods of the type report success.
func writeBackCompleteRule(c *Ctx, r *Result, rule, typeKey string, floor int) {
	w := c.FnOpt(typeKey + ".WriteAt")
	if w == nil || w.Blocks == nil {
		r.Shortfall(c, rule, rule+": "+typeKey+".WriteAt not found")
		return
	}
	parts := map[string][]ssa.Instruction{}
	for _, site := range callsIn(w) {
		name := c.calleeName(site)
		if !strings.HasPrefix(name, typeKey+".") {
			continue
		}
		m := lastSeg(name)
		if strings.HasPrefix(m, "encode") || (strings.HasPrefix(m, "write") && strings.HasSuffix(m, "At")) {
			parts[name] = append(parts[name], site.(ssa.Instruction))
		}
	}
	// returns of success that are the skip arm of a boolean flag test
	flagSkip := map[*ssa.BasicBlock]bool{}
	for _, b := range w.Blocks {
		ifi, ok := b.Instrs[len(b.Instrs)-1].(*ssa.If)
		if !ok {
			continue
		}
		cond := ifi.Cond
		if u, isU := cond.(*ssa.UnOp); isU && u.Op == token.NOT {
			cond = u.X
		}
		if key, _ := fieldLoadKey(cond); strings.HasPrefix(key, typeKey+".") {
			if bt, isB := cond.Type().Underlying().(*types.Basic); isB && bt.Kind() == types.Bool {
				flagSkip[b.Succs[0]], flagSkip[b.Succs[1]] = true, true
			}
		}
	}
	n := 0
	for _, name := range sortedKeys(parts) {
		for _, b := range w.Blocks {
			ret, isRet := b.Instrs[len(b.Instrs)-1].(*ssa.Return)
			if !isRet || !isSuccessReturn(ret) || flagSkip[b] {
				continue
			}
			n++
			ok := mustPrecede(ret, func(in ssa.Instruction) bool {
				for _, p := range parts[name] {
					if in == p {
						return true
					}
				}
				return false
			})
			r.Check(ok, rule, c.Name(w)+"#"+lastSeg(name)+"#on-every-successful-path", c.InstrPos(parts[name][0]), "every return of success lies behind "+lastSeg(name)+" (a part that is skipped on a condition other than a 'modified' flag keeps its old bytes in the file)")
		}
	}
	if n < floor {
		r.Shortfall(c, rule, fmt.Sprintf("%s: only %d part/return pairs in %s.WriteAt", rule, n, typeKey))
	}
}

func init() {
	txt := "an in-place write-back writes every part: each return of success of WriteAt lies behind each encode*/write*At call of the type (leaf and header; header and direct block), or behind the test of a boolean 'modified' flag; a part skipped on another condition - the record count has not changed since loading - leaves the old bytes in the file although an update, or a delete followed by an insert, changed the records"
	registry["C14"].Meta.Rules["C14.13"] = txt
	registry["C14"].Rules = append(registry["C14"].Rules, func(c *Ctx, r *Result) { writeBackCompleteRule(c, r, "C14.13", "structures.WritableBTreeV2", 2) })
	registry["C15"].Meta.Rules["C15.11"] = txt + " (shared with C14.13)"
	registry["C15"].Rules = append(registry["C15"].Rules, func(c *Ctx, r *Result) { writeBackCompleteRule(c, r, "C15.11", "structures.WritableFractalHeap", 2) })
}

// ---- what a heap returns under an id does not depend on the bytes stored there (C15.12) ----
//
// The heap is a store of opaque bytes. On the read path of the writable heap (GetObject and the getObject* helpers) no branch
// tests a byte of the stored content: neither an element of a block's Objects nor an element of the buffer the object was copied
// into. A branch that does (all bytes zero means "deleted") makes some stored value unreadable.
func heapContentIndependence(c *Ctx, r *Result, rule string) {
	n := 0
	for _, fn := range c.LibFuncs() {
		name := c.Name(fn)
		if !strings.HasPrefix(name, "structures.WritableFractalHeap.GetObject") && !strings.HasPrefix(name, "structures.WritableFractalHeap.getObject") {
			continue
		}
		n++
		isContent := func(v ssa.Value) bool {
			root := stripSlices(v)
			if k, _ := fieldLoadKey(root); strings.HasSuffix(k, ".Objects") {
				return true
			}
			if mk, ok := root.(*ssa.MakeSlice); ok {
				// a buffer filled from Objects by copy
				for _, ref := range *mk.Referrers() {
					_ = ref
				}
				for _, site := range callsIn(fn) {
					if b, isB := site.Common().Value.(*ssa.Builtin); isB && b.Name() == "copy" && stripSlices(site.Common().Args[0]) == ssa.Value(mk) {
						if k, _ := fieldLoadKey(stripSlices(site.Common().Args[1])); strings.HasSuffix(k, ".Objects") {
							return true
						}
					}
				}
			}
			return false
		}
		var readsContent func(v ssa.Value, d int) bool
		readsContent = func(v ssa.Value, d int) bool {
			if d > 8 {
				return false
			}
			switch x := v.(type) {
			case *ssa.UnOp:
				if ia, ok := x.X.(*ssa.IndexAddr); ok && x.Op == token.MUL {
					return isContent(ia.X)
				}
				return readsContent(x.X, d+1)
			case *ssa.Index:
				return isContent(x.X)
			case *ssa.BinOp:
				return readsContent(x.X, d+1) || readsContent(x.Y, d+1)
			case *ssa.Convert:
				return readsContent(x.X, d+1)
			case *ssa.Call:
				if b, isB := x.Call.Value.(*ssa.Builtin); isB && (b.Name() == "len" || b.Name() == "cap") {
					return false
				}
				for _, a := range x.Call.Args {
					if isContent(a) {
						return true // bytes.Equal(data, zeros), allZero(data), ...
					}
				}
			}
			return false
		}
		bad := ""
		for _, b := range fn.Blocks {
			if ifi, ok := b.Instrs[len(b.Instrs)-1].(*ssa.If); ok && readsContent(ifi.Cond, 0) {
				bad = c.InstrPos(ifi.Cond.(ssa.Instruction))
			}
		}
		r.Check(bad == "", rule, name+"#no-branch-on-stored-bytes", c.Pos(fn.Pos()), "no branch of the read path tests a byte of the stored object"+map[bool]string{true: "", false: " (branch at " + bad + ": the value that satisfies the test can be stored but not read back)"}[bad == ""])
	}
	if n < 2 {
		r.Shortfall(c, rule, fmt.Sprintf("%s: only %d read-path functions of the writable heap found", rule, n))
	}
}

func init() {
	registry["C15"].Meta.Rules["C15.12"] = "the heap returns what was stored whatever it is: on the read path of the writable heap (GetObject, getObject*) no branch condition reads a byte of a block's Objects or of the buffer copied from it - a content test (all zero means deleted) makes a legitimately stored value unreadable"
	registry["C15"].Rules = append(registry["C15"].Rules, func(c *Ctx, r *Result) { heapContentIndependence(c, r, "C15.12") })
}

// ---- every creation call validates its path the same way (C03.14) ----
//
// parsePath splits a path at its last slash and hands the last component to the parent's name heap. An empty component ("//", or
// "/" for a dataset) is stored as an empty name whose heap offset the next name reuses: the reopened group lists that name twice.
// The validators that stand before parsePath are siblings: what one of them rejects (empty path, no leading slash, the root
// itself, consecutive slashes) all of them reject, and every exported function that hands a parameter to parsePath runs one first.
func pathValidatorKinds(fn *ssa.Function) map[string]bool {
	out := map[string]bool{}
	if fn == nil || len(fn.Params) != 1 {
		return out
	}
	p := ssa.Value(fn.Params[0])
	strConst := func(v ssa.Value) (string, bool) {
		k, ok := v.(*ssa.Const)
		if !ok || k.Value == nil || k.Value.Kind() != constant.String {
			return "", false
		}
		return constant.StringVal(k.Value), true
	}
	instrs(fn, func(in ssa.Instruction) {
		switch x := in.(type) {
		case *ssa.BinOp:
			if x.Op != token.EQL && x.Op != token.NEQ {
				return
			}
			other := x.Y
			if x.Y == p {
				other = x.X
			} else if x.X != p {
				// p[0] != '/'
				isFirst := false
				switch idx := stripConv(x.X).(type) {
				case *ssa.Lookup:
					isFirst = idx.X == p
				case *ssa.Index:
					isFirst = idx.X == p
				}
				if k, okk := constInt(x.Y); isFirst && okk && k == '/' {
					out["leading-slash"] = true
				}
				return
			}
			if s, ok := strConst(other); ok {
				switch s {
				case "":
					out["empty"] = true
				case "/":
					out["root"] = true
				}
			}
		case *ssa.Call:
			f := x.Call.StaticCallee()
			if f == nil || f.Pkg == nil || f.Pkg.Pkg.Path() != "strings" || len(x.Call.Args) != 2 || x.Call.Args[0] != p {
				return
			}
			s, ok := strConst(x.Call.Args[1])
			if !ok {
				return
			}
			switch {
			case f.Name() == "HasPrefix" && s == "/":
				out["leading-slash"] = true
			case (f.Name() == "Contains" || f.Name() == "Index" || f.Name() == "Count" || f.Name() == "LastIndex") && s == "//":
				out["consecutive-slashes"] = true
			}
		}
	})
	return out
}

func pathValidationRule(c *Ctx, r *Result, rule string) {
	parse := c.FnOpt("hdf5.parsePath")
	if parse == nil {
		r.Shortfall(c, rule, rule+": hdf5.parsePath not found")
		return
	}
	validators := map[*ssa.Function]bool{}
	type entry struct {
		fn   *ssa.Function
		site ssa.Instruction
		ok   bool
	}
	var entries []entry
	for _, fn := range c.LibFuncs() {
		if shortPkg(fnPkgPath(fn)) != "hdf5" {
			continue
		}
		for _, site := range callsIn(fn) {
			if site.Common().StaticCallee() != parse {
				continue
			}
			param, isP := site.Common().Args[0].(*ssa.Parameter)
			if !isP {
				continue
			}
			in := site.(ssa.Instruction)
			validated := mustPrecede(in, func(x ssa.Instruction) bool {
				call, ok := x.(*ssa.Call)
				if !ok {
					return false
				}
				g := call.Call.StaticCallee()
				if g == nil || !strings.HasPrefix(g.Name(), "validate") || len(call.Call.Args) != 1 || call.Call.Args[0] != ssa.Value(param) {
					return false
				}
				validators[g] = true
				return true
			})
			entries = append(entries, entry{fn, in, validated})
		}
	}
	all := map[string]bool{}
	kinds := map[*ssa.Function]map[string]bool{}
	for v := range validators {
		kinds[v] = pathValidatorKinds(v)
		for k := range kinds[v] {
			all[k] = true
		}
	}
	var vs []*ssa.Function
	for v := range validators {
		vs = append(vs, v)
	}
	sort.Slice(vs, func(i, j int) bool { return c.Name(vs[i]) < c.Name(vs[j]) })
	for _, v := range vs {
		var missing []string
		for _, k := range sortedKeys(all) {
			if !kinds[v][k] {
				missing = append(missing, k)
			}
		}
		r.Check(len(missing) == 0, rule, c.Name(v)+"#rejects-what-its-siblings-reject", c.Pos(v.Pos()), "tests "+strings.Join(sortedKeys(kinds[v]), ", ")+map[bool]string{true: "", false: "; missing: " + strings.Join(missing, ", ") + " (a path with an empty last component is stored as an empty name, and the next name in that group is listed twice)"}[len(missing) == 0])
	}
	n := 0
	for _, e := range entries {
		if !exportedEntry(e.fn) {
			continue
		}
		n++
		// an exported function that is only a thin front of another validated one is fine when it validated itself; otherwise
		// every path to parsePath must have passed a validator
		r.Check(e.ok, rule, c.Name(e.fn)+"#path-validated-before-parsePath", c.InstrPos(e.site), "the path parameter passes a validate* function on every path to parsePath")
	}
	if len(vs) < 2 || n < 4 {
		r.Shortfall(c, rule, fmt.Sprintf("%s: %d path validators, %d exported functions that parse a path parameter", rule, len(vs), n))
	}
}

func init() {
	registry["C03"].Meta.Rules["C03.14"] = "every creation call validates its path, and the validators agree: each exported function of the root package that hands a parameter to parsePath has run a validate* function on it on every path, and every such validator makes all the tests any of them makes (empty path, leading slash, the root itself, consecutive slashes) - a path with an empty last component ('//', or '/' for a dataset) would be stored as an empty name whose heap offset the next name reuses, so that the reopened group lists that name twice"
	registry["C03"].Rules = append(registry["C03"].Rules, func(c *Ctx, r *Result) { pathValidationRule(c, r, "C03.14") })
}

// ---- a backward scan reaches index 0 (C03.15) ----
//
// for i := len(s)-1; i >= 0; i-- { if s[i] ... } looks at every element. With i > 0 the first element is never looked at; for the
// name heap, whose first name starts at offset 0, a heap that holds one one-character name counts as empty and the next name is
// written over it. The rule covers loops that count an index down by one, index a sequence with exactly that index (and not with
// i-1: pairwise loops legitimately stop at 1) and exit when i drops below a constant bound.
func backwardScanRule(c *Ctx, r *Result, rule string, scope func(string) bool, floor int) {
	n := 0
	for _, fn := range c.LibFuncs() {
		if scope != nil && !scope(c.Name(fn)) {
			continue
		}
		k := 0
		for _, h := range fn.Blocks {
			ifi, ok := h.Instrs[len(h.Instrs)-1].(*ssa.If)
			if !ok {
				continue
			}
			cmp, ok := ifi.Cond.(*ssa.BinOp)
			if !ok || (cmp.Op != token.GEQ && cmp.Op != token.GTR) {
				continue
			}
			phi, ok := cmp.X.(*ssa.Phi)
			if !ok || phi.Block() != h {
				continue
			}
			bound, okb := constInt(cmp.Y)
			if !okb {
				continue
			}
			// counts down by one on every back edge
			down := true
			back := 0
			for i, p := range h.Preds {
				if !h.Dominates(p) {
					continue
				}
				back++
				bo, isB := phi.Edges[i].(*ssa.BinOp)
				if !isB || bo.X != ssa.Value(phi) {
					down = false
					continue
				}
				kk, okk := constInt(bo.Y)
				if !(okk && ((bo.Op == token.SUB && kk == 1) || (bo.Op == token.ADD && kk == -1))) {
					down = false
				}
			}
			if !down || back == 0 {
				continue
			}
			loop := naturalLoop(h)
			usesI, usesIminus := false, false
			for b := range loop {
				for _, in := range b.Instrs {
					var idx ssa.Value
					switch x := in.(type) {
					case *ssa.IndexAddr:
						idx = x.Index
					case *ssa.Index:
						idx = x.Index
					case *ssa.Lookup:
						idx = x.Index
					default:
						continue
					}
					if stripConv(idx) == ssa.Value(phi) {
						usesI = true
					} else if bo, isB := stripConv(idx).(*ssa.BinOp); isB && bo.X == ssa.Value(phi) && bo.Op == token.SUB {
						usesIminus = true
					}
				}
			}
			if !usesI || usesIminus {
				continue
			}
			n++
			k++
			// lowest index visited: bound for >=, bound+1 for >
			low := bound
			if cmp.Op == token.GTR {
				low = bound + 1
			}
			r.Check(low <= 0, rule, fmt.Sprintf("%s#backward-scan-%d", c.Name(fn), k), c.InstrPos(cmp), fmt.Sprintf("the scan counts the index down to %d; the element at index 0 is looked at only if that is 0", low))
		}
	}
	if n < floor {
		r.Shortfall(c, rule, fmt.Sprintf("%s: only %d backward scans found (expected >= %d)", rule, n, floor))
	}
}

func init() {
	registry["C03"].Meta.Rules["C03.15"] = "a backward scan reaches index 0: a loop that counts an index down by one and indexes a sequence with exactly that index runs while the index is >= 0 (with > 0 the first element is never examined: a name heap holding a single one-character name at offset 0 is taken as empty by PrepareForModification, and the second name of the group overwrites the first)"
	registry["C03"].Rules = append(registry["C03"].Rules, func(c *Ctx, r *Result) { backwardScanRule(c, r, "C03.15", nil, 3) })
}

// ---- the group reader lists every entry (C03.16 / C17.6) ----
//
// In Group.loadChildren each entry of the group's index becomes a child, or the call fails. The only entries passed over are
// soft links (a documented limitation, recorded under C03). Any other branch that sends an entry back to the loop head without
// appending a child - its address equals the group's own, its address lies beyond the size of the file - makes a link that is
// in the file disappear from the listing without an error.
func listingCompleteRule(c *Ctx, r *Result, rule string) {
	root := c.FnOpt("hdf5.Group.loadChildren")
	if root == nil {
		r.Shortfall(c, rule, rule+": hdf5.Group.loadChildren not found")
		return
	}
	// loadChildren and the same-package functions below it that append to a group's children (helpers the entry loops
	// were moved into)
	appends := func(f *ssa.Function) bool {
		for _, fs := range c.DirectFieldStores(f) {
			if strings.HasSuffix(fs.Key, "hdf5.Group.children") {
				return true
			}
		}
		return false
	}
	total := 0
	var fns []*ssa.Function
	for f := range c.Reach([]*ssa.Function{root}, func(f *ssa.Function) bool { return shortPkg(fnPkgPath(f)) != "hdf5" }) {
		if shortPkg(fnPkgPath(f)) == "hdf5" && f.Blocks != nil && (f == root || (appends(f) && !strings.HasPrefix(c.Name(f), "hdf5.load"))) {
			fns = append(fns, f)
		}
	}
	sort.Slice(fns, func(i, j int) bool { return c.Name(fns[i]) < c.Name(fns[j]) })
	for _, f := range fns {
		total += listingCompleteIn(c, r, rule, f, appends)
	}
	if total < 2 {
		r.Shortfall(c, rule, fmt.Sprintf("%s: only %d skip decisions found in the entry loops below loadChildren", rule, total))
	}
}

func listingCompleteIn(c *Ctx, r *Result, rule string, fn *ssa.Function, appends func(*ssa.Function) bool) int {
	appendBlk := map[*ssa.BasicBlock]bool{}
	for _, fs := range c.DirectFieldStores(fn) {
		if fs.Fn == fn && strings.HasSuffix(fs.Key, ".children") {
			appendBlk[fs.In.Block()] = true
		}
	}
	// a call of a helper that appends the entry's children counts like the append itself
	for _, site := range callsIn(fn) {
		if g := site.Common().StaticCallee(); g != nil && g != fn && shortPkg(fnPkgPath(g)) == "hdf5" && g.Signature.Recv() != nil && appends(g) && !strings.HasPrefix(c.Name(g), "hdf5.load") && strings.HasPrefix(c.Name(g), "hdf5.Group.") {
			appendBlk[site.(ssa.Instruction).Block()] = true
		}
	}
	if len(appendBlk) == 0 {
		return 0
	}
	type loopT struct {
		h    *ssa.BasicBlock
		body map[*ssa.BasicBlock]bool
	}
	var loops []loopT
	for _, h := range fn.Blocks {
		for _, p := range h.Preds {
			if h.Dominates(p) {
				loops = append(loops, loopT{h, naturalLoop(h)})
				break
			}
		}
	}
	n := 0
	type skipT struct {
		pos string
		ok  bool
	}
	var found []skipT
	for _, L := range loops {
		hasAppend := false
		for b := range L.body {
			if appendBlk[b] {
				hasAppend = true
			}
		}
		if !hasAppend {
			continue
		}
		// blocks that count as "an entry was turned into children": append blocks and inner loops that contain one
		done := map[*ssa.BasicBlock]bool{}
		for b := range appendBlk {
			done[b] = true
		}
		for _, M := range loops {
			if M.h == L.h || !L.body[M.h] {
				continue
			}
			inner := false
			for b := range M.body {
				if appendBlk[b] {
					inner = true
				}
			}
			if inner {
				for b := range M.body {
					done[b] = true
				}
			}
		}
		skips := func(s *ssa.BasicBlock) bool {
			if !L.body[s] || done[s] {
				return false
			}
			seen := map[*ssa.BasicBlock]bool{s: true}
			work := []*ssa.BasicBlock{s}
			for len(work) > 0 {
				x := work[len(work)-1]
				work = work[:len(work)-1]
				if x == L.h {
					return true
				}
				for _, y := range x.Succs {
					if L.body[y] && !done[y] && !seen[y] {
						seen[y] = true
						work = append(work, y)
					}
				}
			}
			return false
		}
		// the listing ends when the entries are exhausted, or with an error - not on a property of one entry: a branch inside
		// the loop whose successor is the loop's normal exit ends the listing early
		exits := map[*ssa.BasicBlock]bool{}
		for _, s := range L.h.Succs {
			if !L.body[s] {
				exits[s] = true
			}
		}
		for b := range L.body {
			if b == L.h {
				continue
			}
			ifi, ok := b.Instrs[len(b.Instrs)-1].(*ssa.If)
			if !ok {
				continue
			}
			for _, s := range b.Succs {
				t := s
				for i := 0; i < 3 && !exits[t] && !L.body[t]; i++ {
					if len(t.Instrs) == 1 && len(t.Succs) == 1 {
						t = t.Succs[0]
					} else {
						break
					}
				}
				if !L.body[s] && exits[t] {
					n++
					pos := c.Pos(fn.Pos())
					if ci, isI := ifi.Cond.(ssa.Instruction); isI {
						pos = c.InstrPos(ci)
					}
					found = append(found, skipT{pos, false})
				}
			}
		}
		for b := range L.body {
			if b == L.h || done[b] {
				continue
			}
			ifi, ok := b.Instrs[len(b.Instrs)-1].(*ssa.If)
			if !ok {
				continue
			}
			s0, s1 := skips(b.Succs[0]), skips(b.Succs[1])
			if s0 == s1 {
				continue
			}
			n++
			cond := ifi.Cond
			for {
				u, isNot := cond.(*ssa.UnOp)
				if !isNot || u.Op != token.NOT {
					break
				}
				cond = u.X
			}
			allowed := false
			if call, isCall := cond.(*ssa.Call); isCall && strings.HasSuffix(c.calleeName(call), ".IsSoftLink") {
				allowed = true
			}
			pos := c.Pos(fn.Pos())
			if ci, isI := cond.(ssa.Instruction); isI {
				pos = c.InstrPos(ci)
			}
			found = append(found, skipT{pos, allowed})
			_ = fmt.Sprintf("%s", "an index entry goes back")
		}
	}
	sort.Slice(found, func(i, j int) bool { return found[i].pos < found[j].pos })
	for i, f := range found {
		r.Check(f.ok, rule, fmt.Sprintf("%s#entry-skipped-only-as-soft-link-%d", c.Name(fn), i+1), f.pos, "an index entry goes back to the loop head without becoming a child only under IsSoftLink(); any other skip condition drops a link that is in the file from the listing, silently")
	}
	return n
}

func init() {
	txt := "the group reader lists every entry: in Group.loadChildren an index entry returns to the loop head without being appended to the children only under the soft-link predicate; a skip on any other condition (the entry points at the group itself; its address lies beyond the size of the file) removes an existing link from the listing without an error"
	registry["C03"].Meta.Rules["C03.16"] = txt
	registry["C03"].Rules = append(registry["C03"].Rules, func(c *Ctx, r *Result) { listingCompleteRule(c, r, "C03.16") })
	registry["C17"].Meta.Rules["C17.6"] = txt + " - on a truncated file the members behind the cut would vanish instead of failing (shared with C03.16)"
	registry["C17"].Rules = append(registry["C17"].Rules, func(c *Ctx, r *Result) { listingCompleteRule(c, r, "C17.6") })
}

// ---- a snapshot does not hand out the live map (C18.11) ----
//
// A method that takes its receiver's mutex reads state that another goroutine writes. A map or slice field loaded there is a
// reference to that state: returned as it is - directly or as a field of a returned struct - it is read by the caller after
// the lock is gone while the background goroutine keeps writing to it (concurrent map iteration and map write is fatal). The
// value that leaves the method is a copy made under the lock.
func liveReferenceEscapeRule(c *Ctx, r *Result, rule string, floor int) {
	// fields whose content is written by some method (element store, map update, append through the field)
	mutable := map[string]bool{}
	for _, fn := range c.LibFuncs() {
		for _, fs := range c.DirectFieldStores(fn) {
			if fs.Fn == fn && (fs.Kind == "elem" || fs.Kind == "mapupdate") {
				mutable[fs.Key] = true
			}
		}
	}
	n := 0
	for _, fn := range c.LibFuncs() {
		pk := shortPkg(fnPkgPath(fn))
		if pk != "rebalancing" && pk != "structures" && pk != "hdf5" && pk != "writer" {
			continue
		}
		if fn.Signature.Recv() == nil || len(fn.Params) == 0 || len(c.acquiresOwnMutex(fn, 0)) == 0 {
			continue
		}
		recv := fn.Params[0]
		returned := map[ssa.Value]bool{}
		instrs(fn, func(in ssa.Instruction) {
			if ret, ok := in.(*ssa.Return); ok {
				for _, v := range ret.Results {
					returned[v] = true
					if u, isU := v.(*ssa.UnOp); isU && u.Op == token.MUL {
						returned[u.X] = true // return *local
					}
				}
			}
		})
		// results spilled for deferred calls: *result = *literal; ...; return *result
		for changed := true; changed; {
			changed = false
			instrs(fn, func(in ssa.Instruction) {
				st, ok := in.(*ssa.Store)
				if !ok || !returned[st.Addr] {
					return
				}
				if u, isU := st.Val.(*ssa.UnOp); isU && u.Op == token.MUL && !returned[u.X] {
					returned[u.X] = true
					changed = true
				}
			})
		}
		instrs(fn, func(in ssa.Instruction) {
			ld, ok := in.(*ssa.UnOp)
			if !ok || ld.Op != token.MUL {
				return
			}
			fa, ok := ld.X.(*ssa.FieldAddr)
			if !ok || fa.X != ssa.Value(recv) {
				return
			}
			switch ld.Type().Underlying().(type) {
			case *types.Map, *types.Slice:
			default:
				return
			}
			f, base := fieldOfAddr(fa)
			if f == nil {
				return
			}
			key := fieldKey(base.Type(), f)
			if !mutable[key] {
				return
			}
			n++
			// where does the loaded reference go?
			escapes := ""
			seen := map[ssa.Value]bool{}
			var walk func(v ssa.Value)
			walk = func(v ssa.Value) {
				if seen[v] || escapes != "" {
					return
				}
				seen[v] = true
				if returned[v] {
					escapes = "returned"
					return
				}
				refs := v.Referrers()
				if refs == nil {
					return
				}
				for _, ref := range *refs {
					switch x := ref.(type) {
					case *ssa.Phi:
						walk(x)
					case *ssa.ChangeType:
						walk(x)
					case *ssa.Store:
						if x.Val != v {
							continue
						}
						if fa2, isFA := x.Addr.(*ssa.FieldAddr); isFA {
							if a, isAlloc := fa2.X.(*ssa.Alloc); isAlloc && returned[a] {
								escapes = "stored into the returned " + a.Type().(*types.Pointer).Elem().String()
								if i := strings.LastIndex(escapes, "/"); i >= 0 {
									escapes = "stored into the returned " + escapes[i+1:]
								}
							}
						}
					}
				}
			}
			walk(ld)
			r.Check(escapes == "", rule, c.Name(fn)+"#"+lastSeg(key)+"#live-reference-stays-inside", c.InstrPos(ld), "the map/slice "+key+" loaded in a method that takes the mutex is not handed out"+map[bool]string{true: "", false: " (it is " + escapes + ": the caller reads it without the lock while other goroutines write to it)"}[escapes == ""])
		})
	}
	if n < floor {
		r.Shortfall(c, rule, fmt.Sprintf("%s: only %d loads of mutable map/slice fields in locking methods (expected >= %d)", rule, n, floor))
	}
}

func init() {
	registry["C18"].Meta.Rules["C18.11"] = "a query does not hand out live state: in a method that takes its receiver's mutex, a map or slice field whose content other methods write is not returned as it is, neither directly nor as a field of the returned struct - what leaves the method is a copy made under the lock (a snapshot holding the collector's own map is iterated by the caller while the monitor goroutine writes to it)"
	registry["C18"].Rules = append(registry["C18"].Rules, func(c *Ctx, r *Result) { liveReferenceEscapeRule(c, r, "C18.11", 5) })
}

// ---- read-modify-write within one hold of the lock (C18.12) ----
//
// A guarded field that is assigned, under the lock, a value computed from a snapshot taken through a locking accessor of the same
// object (stats := sr.GetStats(); ...; sr.mu.Lock(); sr.stats = stats) was read under an earlier hold: whatever another
// goroutine stored in between is overwritten. The rule reports a store to a receiver field under the lock whose value depends
// on the result of a method of the same receiver that takes the same mutex.
func rmwOneHoldRule(c *Ctx, r *Result, rule string, floor int) {
	n := 0
	for _, fn := range c.LibFuncs() {
		pk := shortPkg(fnPkgPath(fn))
		if pk != "rebalancing" && pk != "structures" && pk != "hdf5" && pk != "writer" {
			continue
		}
		if fn.Signature.Recv() == nil || len(fn.Params) == 0 {
			continue
		}
		recv := fn.Params[0]
		var li *lockInfo
		instrs(fn, func(in ssa.Instruction) {
			st, ok := in.(*ssa.Store)
			if !ok {
				return
			}
			fa, ok := st.Addr.(*ssa.FieldAddr)
			if !ok || fa.X != ssa.Value(recv) {
				return
			}
			if li == nil {
				li = LocksIn(fn, lockSet{})
			}
			if len(li.at[st]) == 0 {
				return
			}
			f, base := fieldOfAddr(fa)
			if f == nil {
				return
			}
			n++
			// dependencies of the stored value
			bad := ""
			seen := map[ssa.Value]bool{}
			var walk func(v ssa.Value, d int)
			walk = func(v ssa.Value, d int) {
				if v == nil || seen[v] || bad != "" || d > 14 {
					return
				}
				seen[v] = true
				switch x := v.(type) {
				case *ssa.Call:
					g := x.Call.StaticCallee()
					if g != nil && g.Signature.Recv() != nil && len(x.Call.Args) > 0 && x.Call.Args[0] == ssa.Value(recv) && len(c.acquiresOwnMutex(g, 0)) > 0 {
						bad = c.Name(g) + " at " + c.InstrPos(x)
					}
				case *ssa.UnOp:
					if a, isA := x.X.(*ssa.Alloc); isA && x.Op == token.MUL {
						// a local: everything stored into it or into its fields
						for _, ref := range *a.Referrers() {
							switch y := ref.(type) {
							case *ssa.Store:
								if y.Addr == ssa.Value(a) {
									walk(y.Val, d+1)
								}
							case *ssa.FieldAddr:
								for _, r2 := range *y.Referrers() {
									if s2, isS := r2.(*ssa.Store); isS && s2.Addr == ssa.Value(y) {
										walk(s2.Val, d+1)
									}
								}
							}
						}
						return
					}
					if fa2, isFA := x.X.(*ssa.FieldAddr); isFA && x.Op == token.MUL {
						if a, isA := fa2.X.(*ssa.Alloc); isA {
							for _, ref := range *a.Referrers() {
								if s2, isS := ref.(*ssa.Store); isS && s2.Addr == ssa.Value(a) {
									walk(s2.Val, d+1)
								}
							}
						}
						return
					}
					walk(x.X, d+1)
				case *ssa.BinOp:
					walk(x.X, d+1)
					walk(x.Y, d+1)
				case *ssa.Convert:
					walk(x.X, d+1)
				case *ssa.ChangeType:
					walk(x.X, d+1)
				case *ssa.Phi:
					for _, e := range x.Edges {
						walk(e, d+1)
					}
				case *ssa.Extract:
					walk(x.Tuple, d+1)
				case *ssa.Field:
					walk(x.X, d+1)
				}
			}
			walk(st.Val, 0)
			r.Check(bad == "", rule, c.Name(fn)+"#"+fieldKey(base.Type(), f)+"#updated-from-state-read-in-the-same-hold", c.InstrPos(st), "the value stored under the lock does not come from a snapshot taken through a locking accessor"+map[bool]string{true: "", false: " (it depends on " + bad + ", which took and released the mutex before: an update another goroutine made in between is overwritten)"}[bad == ""])
		})
	}
	if n < floor {
		r.Shortfall(c, rule, fmt.Sprintf("%s: only %d stores to receiver fields under a lock (expected >= %d)", rule, n, floor))
	}
}

func init() {
	registry["C18"].Meta.Rules["C18.12"] = "a guarded field is updated from what is read in the same hold of the lock: no store to a receiver field under the mutex takes a value computed from the result of a method of the same receiver that acquires that mutex itself (stats := sr.GetStats(); ...; Lock; sr.stats = stats loses the evaluation another goroutine counted in between)"
	registry["C18"].Rules = append(registry["C18"].Rules, func(c *Ctx, r *Result) { rmwOneHoldRule(c, r, "C18.12", 20) })
}

// ---- selection arithmetic is dimensionally consistent (C09.15) ----
//
// A coordinate of a hyperslab selection is Start[d] + c*Stride[d] + b with c < Count[d] and b < Block[d]; the last selected
// coordinate is Start[d] + (Count[d]-1)*Stride[d] + Block[d] - 1. In the functions that do this arithmetic: (R1) a product
// whose one factor is Count[d]-1, or a loop counter bounded by Count[d], has Stride[d] as its other factor - the same field, the
// same dimension; (R2) a loop counter bounded by Block[d] is added to an expression over Start[d'] only with d' = d; (R3) in a
// sum, Start[d] stands with Stride[d]. A dimension is a constant index or one index variable.

type selRef struct {
	field string
	idx   string // constant or SSA name of the index value
}

func selFieldRef(v ssa.Value) (selRef, bool) {
	u, ok := stripConv(v).(*ssa.UnOp)
	if !ok || u.Op != token.MUL {
		return selRef{}, false
	}
	ia, ok := u.X.(*ssa.IndexAddr)
	if !ok {
		return selRef{}, false
	}
	k, _ := fieldLoadKey(ia.X)
	if !strings.HasPrefix(k, "hdf5.HyperslabSelection.") {
		return selRef{}, false
	}
	idx := ""
	if c, isC := constInt(ia.Index); isC {
		idx = fmt.Sprint(c)
	} else {
		idx = stripConv(ia.Index).Name()
	}
	return selRef{lastSeg(k), idx}, true
}

func selectionArithmeticRule(c *Ctx, r *Result, rule string) {
	n := 0
	for _, fn := range c.LibFuncs() {
		if shortPkg(fnPkgPath(fn)) != "hdf5" || fn.Blocks == nil {
			continue
		}
		// loop counters and the selection field that bounds them
		bound := map[ssa.Value]selRef{}
		for _, h := range fn.Blocks {
			ifi, ok := h.Instrs[len(h.Instrs)-1].(*ssa.If)
			if !ok {
				continue
			}
			cmp, ok := ifi.Cond.(*ssa.BinOp)
			if !ok || cmp.Op != token.LSS {
				continue
			}
			phi, ok := cmp.X.(*ssa.Phi)
			if !ok || phi.Block() != h {
				continue
			}
			if ref, ok := selFieldRef(cmp.Y); ok {
				bound[phi] = ref
			}
		}
		k := 0
		report := func(ok bool, at ssa.Instruction, what string) {
			n++
			k++
			r.Check(ok, rule, fmt.Sprintf("%s#selection-arithmetic-%d", c.Name(fn), k), c.InstrPos(at), what)
		}
		// countLike: Count[d]-1 or a counter bounded by Count[d]
		countLike := func(v ssa.Value) (selRef, bool) {
			v = stripConv(v)
			if ref, ok := bound[v]; ok && ref.field == "Count" {
				return ref, true
			}
			if bo, ok := v.(*ssa.BinOp); ok && bo.Op == token.SUB {
				if one, isK := constInt(bo.Y); isK && one == 1 {
					if ref, ok := selFieldRef(bo.X); ok && ref.field == "Count" {
						return ref, true
					}
				}
			}
			return selRef{}, false
		}
		var flatten func(v ssa.Value, out []ssa.Value, d int) []ssa.Value
		flatten = func(v ssa.Value, out []ssa.Value, d int) []ssa.Value {
			if bo, ok := stripConv(v).(*ssa.BinOp); ok && d < 8 && (bo.Op == token.ADD || (bo.Op == token.SUB && func() bool { _, isK := constInt(bo.Y); return isK }())) {
				out = flatten(bo.X, out, d+1)
				if bo.Op == token.ADD {
					out = flatten(bo.Y, out, d+1)
				}
				return out
			}
			return append(out, stripConv(v))
		}
		instrs(fn, func(in ssa.Instruction) {
			bo, ok := in.(*ssa.BinOp)
			if !ok {
				return
			}
			switch bo.Op {
			case token.ADD, token.SUB:
				if bo.Op == token.SUB {
					if _, isK := constInt(bo.Y); !isK {
						return
					}
				}
				// only the root of a sum
				isRoot := true
				for _, ref := range *bo.Referrers() {
					if p, isB := ref.(*ssa.BinOp); isB && (p.Op == token.ADD || p.Op == token.SUB) {
						isRoot = false
					}
				}
				if !isRoot {
					return
				}
				terms := flatten(bo, nil, 0)
				var start *selRef
				for _, t := range terms {
					if ref, ok := selFieldRef(t); ok && ref.field == "Start" {
						ref := ref
						start = &ref
					}
				}
				if start == nil {
					return
				}
				for _, t := range terms {
					if ref, ok := bound[t]; ok && ref.field == "Block" {
						report(ref.idx == start.idx, bo, fmt.Sprintf("the offset inside a block added to Start[%s] runs to Block[%s] (found Block[%s])", start.idx, start.idx, ref.idx))
					}
					if m, isM := t.(*ssa.BinOp); isM && m.Op == token.MUL {
						// R1: in a dataset coordinate (a sum over Start) a count of blocks multiplies the stride
						for _, pair := range [][2]ssa.Value{{m.X, m.Y}, {m.Y, m.X}} {
							cref, isCount := countLike(pair[0])
							if !isCount {
								continue
							}
							if other, isSel := selFieldRef(pair[1]); isSel && other.field != "Stride" {
								report(false, bo, fmt.Sprintf("in a coordinate over Start[%s] a count of blocks multiplies Stride[%s] (found %s[%s]): blocks are Stride apart, whatever their length", start.idx, cref.idx, other.field, other.idx))
							} else if isSel {
								report(other.idx == cref.idx, bo, fmt.Sprintf("a count of blocks in dimension %s multiplies Stride[%s] (found Stride[%s])", cref.idx, cref.idx, other.idx))
							}
						}
						for _, f := range []ssa.Value{m.X, m.Y} {
							if ref, ok := selFieldRef(f); ok && ref.field == "Stride" {
								report(ref.idx == start.idx, bo, fmt.Sprintf("Start[%s] is advanced by multiples of Stride[%s] (found Stride[%s])", start.idx, start.idx, ref.idx))
							}
						}
					}
				}
			}
		})
	}
	if n < 8 {
		r.Shortfall(c, rule, fmt.Sprintf("%s: only %d selection-arithmetic obligations found (expected >= 8)", rule, n))
	}
}

func init() {
	registry["C09"].Meta.Rules["C09.15"] = "selection arithmetic keeps to one dimension and to the right field: in a dataset coordinate (a sum over Start[d]) a product with Count[d]-1 or with a counter bounded by Count[d] has Stride[d] as its other factor; a counter bounded by Block[d] is added to Start[d] of the same d; Start[d] is advanced by multiples of Stride[d] (Block[0] for Block[1] in the column loop of the 2-D reader copies the wrong number of columns; (Count-1)*Block for (Count-1)*Stride ends the chunk search before the last selected chunk)"
	registry["C09"].Rules = append(registry["C09"].Rules, func(c *Ctx, r *Result) { selectionArithmeticRule(c, r, "C09.15") })
	registry["C09"].Meta.Rules["C09.14"] = registry["C01"].Meta.Rules["C01.1"] + " (shared with C01.1: the hyperslab readers convert through the same functions)"
	registry["C09"].Rules = append(registry["C09"].Rules, func(c *Ctx, r *Result) { c01signReaders(c, r, "C09.14") })
}

func init() {
	registry["C02"].Meta.Rules["C02.12"] = "dense attributes get heap IDs that address them: the width test of the heap ID's offset field compares with < (or >=) against 1<<bits (shared with C15.7: with <= the write that fills the 64 KiB block exactly reports success and its ID wraps to the first attribute)"
	registry["C02"].Rules = append(registry["C02"].Rules, func(c *Ctx, r *Result) { heapWidthTestRule(c, r, "C02.12") })
	scope := func(n string) bool {
		for _, p := range []string{"core.ObjectHeaderWriter.", "core.EncodeAttribute", "core.WriteObjectHeader", "core.RewriteObjectHeader", "hdf5.encodeAttributeValue", "hdf5.encodeSliceValue", "hdf5.writeCompactAttribute", "hdf5.writeDenseAttribute", "hdf5.upsertAttributeMessage", "core.AddMessageToObjectHeader", "core.ModifyDenseAttribute", "core.ModifyCompactAttribute"} {
			if strings.HasPrefix(n, p) {
				return true
			}
		}
		return false
	}
	registry["C02"].Meta.Rules["C02.13"] = "sizes written into the narrow fields of an object header fit them: narrowing conversions in the header writer and the attribute encoders are proven to fit (and to be non-negative) or frozen per function (C05.11 restricted to this code: a header chunk of exactly 256 bytes must be refused, byte(256) is 0 and the header then parses as empty)"
	registry["C02"].Rules = append(registry["C02"].Rules, func(c *Ctx, r *Result) { narrowingRuleScoped(c, r, "C02.13", scope) })
}

// ---- a dense attribute is replaced by an encoded attribute message (C02.14 / C10.11) ----
//
// ModifyDenseAttribute stores newAttr.Data into the heap as it is ("caller must encode"). At every call the attribute handed
// over has had its Data set, on every path, to the result of core.EncodeAttributeMessage - the same bytes the insert path
// stores. Without that store the heap object holds the bare value; the next parse fails, the error is swallowed by the
// attribute reader and all attributes of the object seem to be gone.
func denseModifyEncodedRule(c *Ctx, r *Result, rule string) {
	n := 0
	for _, fn := range c.LibFuncs() {
		for _, site := range callsIn(fn) {
			if c.calleeName(site) != "core.ModifyDenseAttribute" {
				continue
			}
			args := site.Common().Args
			attr := args[len(args)-1]
			n++
			in := site.(ssa.Instruction)
			encoded := func(v ssa.Value) bool {
				seen := map[ssa.Value]bool{}
				var walk func(v ssa.Value) bool
				walk = func(v ssa.Value) bool {
					if seen[v] {
						return true
					}
					seen[v] = true
					switch x := v.(type) {
					case *ssa.Extract:
						call, ok := x.Tuple.(*ssa.Call)
						return ok && x.Index == 0 && strings.HasPrefix(c.calleeName(call), "core.EncodeAttribute")
					case *ssa.Call:
						return strings.HasPrefix(c.calleeName(x), "core.EncodeAttribute")
					case *ssa.Phi:
						for _, e := range x.Edges {
							if !walk(e) {
								return false
							}
						}
						return true
					case *ssa.Parameter:
						// the encoded message handed down by the caller: every caller passes an encoded message
						idx := paramIndex(fn, x)
						node := c.CG.Nodes[fn]
						if node == nil || len(node.In) == 0 {
							return false
						}
						for _, e := range node.In {
							if e.Site == nil || idx >= len(e.Site.Common().Args) {
								return false
							}
							a := e.Site.Common().Args[idx]
							ex, isEx := a.(*ssa.Extract)
							if !isEx {
								return false
							}
							call, isCall := ex.Tuple.(*ssa.Call)
							if !isCall || !strings.HasPrefix(c.calleeName(call), "core.EncodeAttribute") {
								return false
							}
						}
						return true
					}
					return false
				}
				return walk(v)
			}
			ok := mustPrecede(in, func(x ssa.Instruction) bool {
				st, isSt := x.(*ssa.Store)
				if !isSt {
					return false
				}
				fa, isFA := st.Addr.(*ssa.FieldAddr)
				if !isFA || fa.X != attr {
					return false
				}
				f, _ := fieldOfAddr(fa)
				return f != nil && f.Name() == "Data" && encoded(st.Val)
			})
			r.CheckMissing(c, fn, ok, rule, c.Name(fn)+"#dense-attribute-replaced-by-encoded-message", c.InstrPos(in), "on every path to ModifyDenseAttribute the attribute's Data was set to the result of EncodeAttributeMessage (ModifyDenseAttribute stores Data as it is)")
		}
	}
	if n < 2 {
		r.Shortfall(c, rule, fmt.Sprintf("%s: only %d calls of core.ModifyDenseAttribute found", rule, n))
	}
}

func init() {
	txt := "a dense attribute is replaced by an encoded attribute message: at every call of core.ModifyDenseAttribute the attribute handed over has had its Data set, on every path, to the result of EncodeAttributeMessage (the callee stores Data as it is; with the bare value in the heap the next parse fails, the reader swallows the error and all attributes of the object are gone)"
	registry["C02"].Meta.Rules["C02.14"] = txt
	registry["C02"].Rules = append(registry["C02"].Rules, func(c *Ctx, r *Result) { denseModifyEncodedRule(c, r, "C02.14") })
	registry["C10"].Meta.Rules["C10.11"] = txt + " (shared with C02.14; one of the two call sites serves the reopened handles)"
	registry["C10"].Rules = append(registry["C10"].Rules, func(c *Ctx, r *Result) { denseModifyEncodedRule(c, r, "C10.11") })
}

func init() {
	reg := registry["C01"]
	reg.Meta.Rules["C01.15"] = registry["C06"].Meta.Rules["C06.8"] + " (shared with C06.8: a full Read of what was written goes through this loop)"
	reg.Rules = append(reg.Rules, func(c *Ctx, r *Result) { everyChunkCopiedRule(c, r, "C01.15") })
	reg.Meta.Rules["C01.16"] = registry["C09"].Meta.Rules["C09.13"] + " (shared with C09.13)"
	reg.Rules = append(reg.Rules, func(c *Ctx, r *Result) { chunkKeyRule(c, r, "C01.16") })
	reg.Meta.Rules["C01.17"] = registry["C04"].Meta.Rules["C04.6"] + " (shared with C04.6: in a version 0 file the first dataset would be allocated on the tail of the root name heap)"
	reg.Rules = append(reg.Rules, func(c *Ctx, r *Result) { c.reservedSpanCovers(r, "C01.17") })
	registry["C03"].Meta.Rules["C03.17"] = registry["C04"].Meta.Rules["C04.6"] + " (shared with C04.6: the structure whose tail is lost is the root group's name heap)"
	registry["C03"].Rules = append(registry["C03"].Rules, func(c *Ctx, r *Result) { c.reservedSpanCovers(r, "C03.17") })
}

// ---- the loop that fills a buffer of n entries runs n times (C03.18 / C11.13) ----
//
// A serializer makes a buffer of S bytes and walks a cursor through it. Where a counted loop (i from i0, +1, while i < B) advances
// the cursor by the same amount D on every path of an iteration and D is not a constant (an entry size computed from the
// file's offset size), the bytes the loop covers are (B - i0) * D. What is left of S after the cursor's start value and the
// loop, S - start - (B - i0) * D, is then free of D's symbols: a leftover that still contains an entry size means the loop
// was sized for a different number of entries than the buffer (i < maxEntries-1 leaves the last entry of a full
// symbol-table node unwritten although the node's count says it is there).
func serializerLoopRule(c *Ctx, r *Result, rule string, scope func(string) bool, floor int) {
	n := 0
	for _, fn := range c.LibFuncs() {
		if fn.Blocks == nil || (scope != nil && !scope(c.Name(fn))) {
			continue
		}
		// byte buffers made in fn with their length
		var bufs []*ssa.MakeSlice
		instrs(fn, func(in ssa.Instruction) {
			if mk, ok := in.(*ssa.MakeSlice); ok {
				if sl, isSl := mk.Type().Underlying().(*types.Slice); isSl {
					if b, isB := sl.Elem().Underlying().(*types.Basic); isB && b.Kind() == types.Uint8 {
						bufs = append(bufs, mk)
					}
				}
			}
		})
		if len(bufs) == 0 {
			continue
		}
		e := &polyEnv{c: c, fn: fn, phiNm: map[*ssa.Phi]string{}}
		var eval func(v ssa.Value, d int) (Poly, bool)
		eval = func(v ssa.Value, d int) (Poly, bool) {
			if d > 20 {
				return nil, false
			}
			switch x := v.(type) {
			case *ssa.Phi:
				if nm, ok := e.phiNm[x]; ok {
					return polyAtom(nm), true
				}
				var first Poly
				for i, ed := range x.Edges {
					p, ok := eval(ed, d+1)
					if !ok {
						return nil, false
					}
					if i == 0 {
						first = p
					} else if !first.equal(p) {
						return nil, false
					}
				}
				return first, first != nil
			case *ssa.BinOp:
				a, ok1 := eval(x.X, d+1)
				b, ok2 := eval(x.Y, d+1)
				if !ok1 || !ok2 {
					return nil, false
				}
				switch x.Op {
				case token.ADD:
					return a.add(b, 1), true
				case token.SUB:
					return a.add(b, -1), true
				case token.MUL:
					return a.mul(b), true
				}
				return nil, false
			case *ssa.Convert:
				return eval(x.X, d+1)
			case *ssa.ChangeType:
				return eval(x.X, d+1)
			}
			p := e.of(v, 0)
			for m := range p {
				if strings.Contains(m, "?") {
					return nil, false
				}
			}
			return p, true
		}
		k := 0
		for _, h := range fn.Blocks {
			ifi, ok := h.Instrs[len(h.Instrs)-1].(*ssa.If)
			if !ok {
				continue
			}
			cmp, ok := ifi.Cond.(*ssa.BinOp)
			if !ok || cmp.Op != token.LSS {
				continue
			}
			ctr, ok := cmp.X.(*ssa.Phi)
			if !ok || ctr.Block() != h {
				continue
			}
			loop := naturalLoop(h)
			if len(loop) < 2 {
				continue
			}
			// counter: init from outside, +1 on every back edge
			var i0 ssa.Value
			okCtr := true
			for i, p := range h.Preds {
				if h.Dominates(p) {
					bo, isB := ctr.Edges[i].(*ssa.BinOp)
					one, isK := int64(0), false
					if isB {
						one, isK = constInt(bo.Y)
					}
					if !isB || bo.Op != token.ADD || bo.X != ssa.Value(ctr) || !isK || one != 1 {
						okCtr = false
					}
				} else {
					i0 = ctr.Edges[i]
				}
			}
			if !okCtr || i0 == nil {
				continue
			}
			// cursors: other header phis used as a slice low bound / index on one of the buffers inside the loop
			for _, in := range h.Instrs {
				cur, isPhi := in.(*ssa.Phi)
				if !isPhi || cur == ctr || !isIntType(cur.Type()) {
					continue
				}
				var buf *ssa.MakeSlice
				for b := range loop {
					for _, x := range b.Instrs {
						switch y := x.(type) {
						case *ssa.Slice:
							if mk, isMk := stripSlices(y.X).(*ssa.MakeSlice); isMk && y.Low != nil && dependsOnValue(y.Low, cur, 0) {
								buf = mk
							}
						case *ssa.IndexAddr:
							if mk, isMk := stripSlices(y.X).(*ssa.MakeSlice); isMk && dependsOnValue(y.Index, cur, 0) {
								buf = mk
							}
						}
					}
				}
				if buf == nil {
					continue
				}
				isOurs := false
				for _, b := range bufs {
					if b == buf {
						isOurs = true
					}
				}
				if !isOurs {
					continue
				}
				// delta per iteration, the same on every path
				e.phiNm[cur] = "@cur"
				e.phiNm[ctr] = "@i"
				var start ssa.Value
				var delta Poly
				okDelta := true
				for i, p := range h.Preds {
					if !h.Dominates(p) {
						start = cur.Edges[i]
						continue
					}
					v, ok := eval(cur.Edges[i], 0)
					if !ok {
						okDelta = false
						break
					}
					dlt := v.add(polyAtom("@cur"), -1)
					for m := range dlt {
						if strings.Contains(m, "@") {
							okDelta = false
						}
					}
					if delta == nil {
						delta = dlt
					} else if !delta.equal(dlt) {
						okDelta = false
					}
				}
				delete(e.phiNm, cur)
				delete(e.phiNm, ctr)
				if !okDelta || delta == nil || start == nil {
					continue
				}
				// a constant step says nothing about the entry count
				nonConst := false
				atoms := map[string]bool{}
				for m := range delta {
					if m != "" {
						nonConst = true
						for _, a := range strings.Split(m, "*") {
							atoms[a] = true
						}
					}
				}
				if !nonConst {
					continue
				}
				S, ok1 := eval(buf.Len, 0)
				st, ok2 := eval(start, 0)
				B, ok3 := eval(cmp.Y, 0)
				I0, ok4 := eval(i0, 0)
				if !ok1 || !ok2 || !ok3 || !ok4 {
					continue
				}
				n++
				k++
				rest := S.add(st, -1).add(B.add(I0, -1).mul(delta), -1)
				bad := ""
				for m := range rest {
					for _, a := range strings.Split(m, "*") {
						if atoms[a] {
							bad = m
						}
					}
				}
				r.Check(bad == "", rule, fmt.Sprintf("%s#loop-covers-the-entries-the-buffer-was-sized-for-%d", c.Name(fn), k), c.InstrPos(cmp), "buffer of "+S.String()+" bytes, cursor from "+st.String()+", "+B.add(I0, -1).String()+" iterations of "+delta.String()+" bytes: left over "+rest.String()+map[bool]string{true: "", false: " (still contains an entry size: the loop runs a different number of times than the buffer has entries)"}[bad == ""])
			}
		}
	}
	if n < floor {
		r.Shortfall(c, rule, fmt.Sprintf("%s: only %d serializer loops with a computed entry size found (expected >= %d)", rule, n, floor))
	}
}

func init() {
	txt := "the loop that fills a buffer of n entries runs n times: where a counted loop advances a cursor through a buffer made in the same function by the same non-constant amount D on every path of an iteration, what is left of the buffer's length after the cursor's start and (bound - first) * D contains no entry size (with i < maxEntries-1 the last entry of a full symbol-table node is never written while the node's count says it is there, and the file no longer opens)"
	registry["C03"].Meta.Rules["C03.18"] = txt
	registry["C03"].Rules = append(registry["C03"].Rules, func(c *Ctx, r *Result) { serializerLoopRule(c, r, "C03.18", nil, 1) })
}

// ---- a length prefix is the length of what follows it (C03.19 / C11.13) ----
//
// PutUintN(buf[o:o+N], uintN(len(X))); o += N; copy(buf[o:], Y): the decoder reads N bytes of length and then that many bytes.
// X and Y are the same value. The rule pairs each length store whose value is len(X) with the next copy into the same buffer
// that follows it in program order (same block) and compares the sources.
func lengthPrefixRule(c *Ctx, r *Result, rule string, scope func(string) bool, floor int) {
	fb := func(fn *ssa.Function) *FB { return c.FB(fn) }
	n := 0
	for _, fn := range c.LibFuncs() {
		if fn.Blocks == nil || (scope != nil && !scope(c.Name(fn))) {
			continue
		}
		k := 0
		for _, b := range fn.Blocks {
			for i, in := range b.Instrs {
				call, ok := in.(ssa.CallInstruction)
				if !ok {
					continue
				}
				com := call.Common()
				name := ""
				if com.IsInvoke() {
					name = com.Method.Name()
				} else if f := com.StaticCallee(); f != nil {
					name = f.Name()
				}
				if !strings.HasPrefix(name, "PutUint") || len(com.Args) < 2 {
					continue
				}
				val := stripConv(com.Args[len(com.Args)-1])
				lc, isCall := val.(*ssa.Call)
				if !isCall {
					continue
				}
				if bl, isB := lc.Call.Value.(*ssa.Builtin); !isB || bl.Name() != "len" {
					continue
				}
				X := lc.Call.Args[0]
				dstBuf := stripSlices(com.Args[len(com.Args)-2])
				// next copy into the same buffer in this block
				for _, in2 := range b.Instrs[i+1:] {
					c2, ok := in2.(*ssa.Call)
					if !ok {
						continue
					}
					if bl, isB := c2.Call.Value.(*ssa.Builtin); !isB || bl.Name() != "copy" {
						if c2.Common().IsInvoke() && strings.HasPrefix(c2.Common().Method.Name(), "PutUint") {
							break // another field comes first: not a length-prefixed byte string
						}
						continue
					}
					if stripSlices(c2.Call.Args[0]) != dstBuf {
						continue
					}
					// the copy starts exactly where the length field ends
					width := int64(0)
					switch {
					case strings.HasSuffix(name, "16"):
						width = 2
					case strings.HasSuffix(name, "32"):
						width = 4
					case strings.HasSuffix(name, "64"):
						width = 8
					}
					lowOf := func(v ssa.Value) (Lin, bool) {
						sl, isSl := v.(*ssa.Slice)
						if !isSl {
							return Lin{}, false
						}
						if _, deeper := sl.X.(*ssa.Slice); deeper {
							return Lin{}, false
						}
						if sl.Low == nil {
							return linConst(0), true
						}
						return fb(fn).lin(sl.Low), true
					}
					l1, ok1 := lowOf(com.Args[len(com.Args)-2])
					l2, ok2 := lowOf(c2.Call.Args[0])
					if !ok1 || !ok2 || width == 0 {
						break
					}
					if d := l2.add(l1, -1); !d.isConst() || d.C != width {
						break
					}
					Y := c2.Call.Args[1]
					n++
					k++
					xs, ys := stripSlices(stripStringConv(X)), stripSlices(stripStringConv(Y))
					same := xs == ys || fb(fn).canon(xs) == fb(fn).canon(ys)
					if kx, _ := fieldLoadKey(xs); kx != "" && !same {
						ky, _ := fieldLoadKey(ys)
						same = kx == ky && fieldLoadBase(xs) == fieldLoadBase(ys)
					}
					r.Check(same, rule, fmt.Sprintf("%s#length-prefix-%d", c.Name(fn), k), c.InstrPos(in), "the length stored is len("+X.Name()+"), the bytes that follow are "+Y.Name()+map[bool]string{true: "", false: " - a different value: the decoder reads the wrong number of bytes"}[same])
					break
				}
			}
		}
	}
	if n < floor {
		r.Shortfall(c, rule, fmt.Sprintf("%s: only %d length-prefixed byte strings found (expected >= %d)", rule, n, floor))
	}
}

// stripStringConv: []byte(s) / string(b) conversions of the same value.
func stripStringConv(v ssa.Value) ssa.Value {
	for {
		switch x := v.(type) {
		case *ssa.Convert:
			v = x.X
			continue
		case *ssa.ChangeType:
			v = x.X
			continue
		}
		return v
	}
}

func init() {
	txt := "a length prefix is the length of what follows it: where a PutUintN stores len(X) and the next copy into the same buffer stores Y, X and Y are the same value (the object-path length of an external link written from the file name's length makes the path decode short, or not at all)"
	registry["C03"].Meta.Rules["C03.19"] = txt
	registry["C03"].Rules = append(registry["C03"].Rules, func(c *Ctx, r *Result) { lengthPrefixRule(c, r, "C03.19", nil, 1) })
	registry["C11"].Meta.Rules["C11.13"] = txt + " (shared with C03.19)"
	registry["C11"].Rules = append(registry["C11"].Rules, func(c *Ctx, r *Result) { lengthPrefixRule(c, r, "C11.13", nil, 1) })
}

// fieldLoadBase: the object whose field v loads (nil when v is not a field load).
func fieldLoadBase(v ssa.Value) ssa.Value {
	u, ok := v.(*ssa.UnOp)
	if !ok {
		return nil
	}
	fa, ok := u.X.(*ssa.FieldAddr)
	if !ok {
		return nil
	}
	return fa.X
}

// aliasRule runs a rule function of another property on a scratch result and records the obligations of one of its rules under
// a rule id of this property (same constructs, statuses and details). Only for rules without known findings.
func aliasRule(c *Ctx, r *Result, srcProp string, run func(*Ctx, *Result), fromRule, toRule string) {
	r2 := NewResult(srcProp)
	run(c, r2)
	n := 0
	for _, o := range r2.Obls {
		if o.Rule == fromRule {
			r.Add(toRule, o.Construct, o.Pos, o.Status, o.Detail)
			n++
		}
	}
	for _, e := range r2.Errors {
		if strings.Contains(e, fromRule) {
			r.Errorf("%s (shared as %s)", e, toRule)
		}
	}
	if n == 0 {
		r.Shortfall(c, toRule, toRule+": the shared rule "+fromRule+" produced no obligation")
	}
}

func init() {
	reg := registry["C12"]
	reg.Meta.Rules["C12.13"] = "a variable-length datatype is written so that it is recognised: " + registry["C11"].Meta.Rules["C11.2"] + " (shared with C11.2: the string/sequence flag of class 9 lives in the class bit field)"
	reg.Rules = append(reg.Rules, func(c *Ctx, r *Result) { aliasRule(c, r, "C11", c11datatypeWord, "C11.2", "C12.13") })

	reg.Meta.Rules["C12.14"] = "a variable-length type is registered with the base type it is named for: in the datatype registry the handler of VLen<T> carries the constant <T> (VLenString: 0), so that the stored datatype announces elements of the size the heap objects hold (VLenUint64 registered with Uint32 announces 4-byte elements over 8-byte data)"
	reg.Rules = append(reg.Rules, func(c *Ctx, r *Result) {
		entries := c.registryEntries(r)
		pkg := c.PkgByID["hdf5"]
		n := 0
		for _, name := range sortedKeys(entries) {
			e := entries[name]
			if !strings.HasPrefix(name, "VLen") || e.Handler != "hdf5.vlenTypeHandler" || len(e.Fields) == 0 {
				continue
			}
			n++
			want := "0"
			if base := strings.TrimPrefix(name, "VLen"); base != "String" && pkg != nil {
				if k, ok := pkg.Types.Scope().Lookup(base).(*types.Const); ok {
					want = k.Val().ExactString()
				} else {
					r.Undec("C12.14", "hdf5.datatypeRegistry#"+name+"#base-type", c.Pos(e.Pos), "no constant named "+base)
					continue
				}
			}
			r.Check(e.Fields[0] == want, "C12.14", "hdf5.datatypeRegistry#"+name+"#base-type", c.Pos(e.Pos), name+" is registered with base type value "+e.Fields[0]+"; the constant "+strings.TrimPrefix(name, "VLen")+" is "+want)
		}
		if n < 5 {
			r.Shortfall(c, "C12.14", fmt.Sprintf("C12.14: only %d variable-length entries in the registry", n))
		}
	})

	reg.Meta.Rules["C12.15"] = "a heap collection has a size the format allows: every value stored into the heap writer's minimum collection size is a constant multiple of 8 and at least 4096 (objects are 8-byte aligned and the free-space record fills the rest: a collection of 4069 bytes ends in 5 bytes that belong to nothing)"
	reg.Rules = append(reg.Rules, func(c *Ctx, r *Result) {
		n := 0
		for _, fn := range c.LibFuncs() {
			if shortPkg(fnPkgPath(fn)) != "hdf5" {
				continue
			}
			for _, fs := range c.DirectFieldStores(fn) {
				if fs.Fn != fn || fs.Key != "hdf5.globalHeapWriter.minCollectionSize" || fs.Val == nil {
					continue
				}
				n++
				v, ok := c.constEval(fs.Val)
				if !ok {
					r.Undec("C12.15", c.Name(fn)+"#minimum-collection-size", c.InstrPos(fs.In), "not a constant")
					continue
				}
				r.Check(v%8 == 0 && v >= 4096, "C12.15", c.Name(fn)+"#minimum-collection-size", c.InstrPos(fs.In), fmt.Sprintf("minimum collection size %d", v))
			}
		}
		if n == 0 {
			r.Shortfall(c, "C12.15", "C12.15: no store to globalHeapWriter.minCollectionSize found")
		}
	})
}

// ---- an update reaches the record, not a copy of it (C14.16 / C05.16) ----
//
// for _, rec := range recs { rec.F = v } assigns to the loop variable, a copy. In SSA the copy is a local that does not escape;
// a store to one of its fields after which nothing reads the local any more has no effect. The rule reports every such store in
// the module (expected: none).
func lostFieldStoreRule(c *Ctx, r *Result, rule string) {
	n, bad := 0, 0
	for _, fn := range c.LibFuncs() {
		if fn.Blocks == nil {
			continue
		}
		instrs(fn, func(in ssa.Instruction) {
			st, ok := in.(*ssa.Store)
			if !ok {
				return
			}
			fa, ok := st.Addr.(*ssa.FieldAddr)
			if !ok {
				return
			}
			a, ok := fa.X.(*ssa.Alloc)
			if !ok || a.Heap {
				return
			}
			// the local is a copy of an element of a sequence (loaded through an IndexAddr, or a range value)
			isCopy := false
			for _, ref := range *a.Referrers() {
				if s2, isS := ref.(*ssa.Store); isS && s2.Addr == ssa.Value(a) {
					if u, isU := s2.Val.(*ssa.UnOp); isU {
						if _, isIA := u.X.(*ssa.IndexAddr); isIA {
							isCopy = true
						}
					}
					if _, isEx := s2.Val.(*ssa.Extract); isEx {
						isCopy = true
					}
				}
			}
			if !isCopy {
				return
			}
			n++
			// is the local read after the store?
			read := false
			var uses func(v ssa.Value)
			uses = func(v ssa.Value) {
				for _, ref := range *v.Referrers() {
					if read {
						return
					}
					switch x := ref.(type) {
					case *ssa.Store:
						if x.Addr == v {
							continue // another store into it
						}
						if canReach(st, x) && x != st {
							read = true // the address or value escapes
						}
					case *ssa.FieldAddr:
						uses(x)
					case *ssa.IndexAddr:
						uses(x)
					case *ssa.DebugRef:
					default:
						if ri, isI := ref.(ssa.Instruction); isI && canReach(st, ri) && ri != ssa.Instruction(st) {
							read = true
						}
					}
				}
			}
			uses(a)
			if !read {
				bad++
				fld, _ := fieldOfAddr(fa)
				name := "?"
				if fld != nil {
					name = fld.Name()
				}
				r.Viol(rule, fmt.Sprintf("%s#store-to-%s-of-a-copy-%d", c.Name(fn), name, bad), c.InstrPos(st), "the field is assigned in a local copy of a sequence element (a range value) that nothing reads afterwards: the element itself is unchanged")
			}
		})
	}
	if bad == 0 {
		r.Hold(rule, "module#no-field-store-into-a-dead-copy", "", fmt.Sprintf("%d field stores into local copies of sequence elements examined; each copy is read again after the store", n))
	}
}

func init() {
	txt := "an update reaches the record, not a copy of it: no field is assigned in a non-escaping local copy of a sequence element (the value variable of a range loop) that nothing reads afterwards (for _, record := range bt.records { record.HeapID = id } leaves the name index pointing at the heap object that was just removed)"
	registry["C14"].Meta.Rules["C14.16"] = txt
	registry["C14"].Rules = append(registry["C14"].Rules, func(c *Ctx, r *Result) { lostFieldStoreRule(c, r, "C14.16") })
	registry["C05"].Meta.Rules["C05.16"] = txt + " (shared with C14.16)"
	registry["C05"].Rules = append(registry["C05"].Rules, func(c *Ctx, r *Result) { lostFieldStoreRule(c, r, "C05.16") })
	registry["C05"].Meta.Rules["C05.15"] = registry["C01"].Meta.Rules["C01.6"] + " (shared with C01.6)"
	registry["C05"].Rules = append(registry["C05"].Rules, func(c *Ctx, r *Result) { aliasRule(c, r, "C01", c01slotCopies, "C01.6", "C05.15") })
}
