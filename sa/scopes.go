package main

import (
	"golang.org/x/tools/go/ssa"
)

// A scope is a function body seen from a caller: the function itself (no binding) or a helper the caller hands some
// of its values to, with the helper's parameters bound to the caller's arguments. Rules that look for "the instruction
// that does X with value V" search the scopes of V instead of one body, so that extracting the instruction into a
// helper does not change the verdict.
type scope struct {
	fn   *ssa.Function
	bind map[ssa.Value]ssa.Value
	call *ssa.Call // nil for the function itself
}

// res resolves a value of the scope to the caller's value where it is a bound parameter (through conversions).
func (s scope) res(v ssa.Value) ssa.Value {
	for i := 0; i < 8; i++ {
		switch x := v.(type) {
		case *ssa.Convert:
			v = x.X
			continue
		case *ssa.ChangeType:
			v = x.X
			continue
		}
		break
	}
	if b, ok := s.bind[v]; ok {
		return b
	}
	return v
}

func stripConv(v ssa.Value) ssa.Value {
	for i := 0; i < 8; i++ {
		switch x := v.(type) {
		case *ssa.Convert:
			v = x.X
			continue
		case *ssa.ChangeType:
			v = x.X
			continue
		}
		break
	}
	return v
}

// scopesOf: fn plus every in-module helper with a body that fn calls statically with one of vals among the arguments
// (one level; the helper of a helper is followed when the bound parameter is passed on unchanged, up to depth 3).
func scopesOf(fn *ssa.Function, vals ...ssa.Value) []scope {
	out := []scope{{fn: fn, bind: map[ssa.Value]ssa.Value{}}}
	want := map[ssa.Value]bool{}
	for _, v := range vals {
		if v != nil {
			want[stripConv(v)] = true
		}
	}
	var walk func(s scope, depth int)
	walk = func(s scope, depth int) {
		if depth > 3 {
			return
		}
		for _, site := range callsIn(s.fn) {
			call, ok := site.(*ssa.Call)
			if !ok {
				continue
			}
			callee := call.Call.StaticCallee()
			if callee == nil || callee.Blocks == nil || !inModule(fnPkgPath(callee)) || callee == s.fn {
				continue
			}
			args := call.Call.Args
			if len(args) != len(callee.Params) {
				continue
			}
			hit := false
			bind := map[ssa.Value]ssa.Value{}
			for i, a := range args {
				ra := s.res(a)
				bind[callee.Params[i]] = ra
				if want[stripConv(ra)] {
					hit = true
				}
			}
			if !hit {
				continue
			}
			ns := scope{fn: callee, bind: bind, call: call}
			out = append(out, ns)
			walk(ns, depth+1)
		}
	}
	walk(out[0], 0)
	return out
}

// helperResult: v is the result (or the idx-th result) of a static call to an in-module helper with a body whose
// non-error returns all return the same value at that position; gives that value and the helper seen as a scope.
func helperResult(outer scope, v ssa.Value) (ssa.Value, scope, bool) {
	idx := 0
	var call *ssa.Call
	switch x := v.(type) {
	case *ssa.Call:
		call = x
	case *ssa.Extract:
		call, _ = x.Tuple.(*ssa.Call)
		idx = x.Index
	}
	if call == nil {
		return nil, scope{}, false
	}
	callee := call.Call.StaticCallee()
	if callee == nil || callee.Blocks == nil || !inModule(fnPkgPath(callee)) || len(call.Call.Args) != len(callee.Params) {
		return nil, scope{}, false
	}
	bind := map[ssa.Value]ssa.Value{}
	for i, a := range call.Call.Args {
		bind[callee.Params[i]] = outer.res(a)
	}
	eidx := errResultIndex(callee.Signature)
	var ret ssa.Value
	for _, b := range callee.Blocks {
		rt, ok := b.Instrs[len(b.Instrs)-1].(*ssa.Return)
		if !ok || idx >= len(rt.Results) {
			continue
		}
		if eidx >= 0 && eidx != idx && !isNilConst(rt.Results[eidx]) {
			continue // failing return: the result is not used
		}
		rv := rt.Results[idx]
		if ret != nil && ret != rv {
			return nil, scope{}, false
		}
		ret = rv
	}
	if ret == nil {
		return nil, scope{}, false
	}
	return ret, scope{fn: callee, bind: bind, call: call}, true
}

// dataParams: the parameters of the enclosing function whose VALUE (not merely a branch decision) reaches v: through
// arithmetic, conversions, phis, loads of locals, and loads of elements of parameters or of slices built in the function
// (every element store into such a slice counts). Control dependence is deliberately ignored.
func dataParams(v ssa.Value) map[*ssa.Parameter]bool { return dataParamsOpt(v, false) }

// dataParamsOpt: with lengths set, len(p)/cap(p) of a parameter counts as depending on it.
func dataParamsOpt(v ssa.Value, lengths bool) map[*ssa.Parameter]bool {
	out := map[*ssa.Parameter]bool{}
	seen := map[ssa.Value]bool{}
	var walk func(v ssa.Value, d int)
	elemStores := func(base ssa.Value, d int) {
		refs := base.Referrers()
		if refs == nil {
			return
		}
		for _, ref := range *refs {
			switch x := ref.(type) {
			case *ssa.IndexAddr:
				if x.X != base {
					continue
				}
				for _, r2 := range *x.Referrers() {
					if st, ok := r2.(*ssa.Store); ok && st.Addr == ssa.Value(x) {
						walk(st.Val, d+1)
					}
				}
			case *ssa.Store:
				if x.Addr == base {
					walk(x.Val, d+1)
				}
			case *ssa.Slice:
				if x.X == base {
					// writes through a sub-slice
					for _, r2 := range *x.Referrers() {
						if ia, ok := r2.(*ssa.IndexAddr); ok {
							for _, r3 := range *ia.Referrers() {
								if st, ok := r3.(*ssa.Store); ok && st.Addr == ssa.Value(ia) {
									walk(st.Val, d+1)
								}
							}
						}
					}
				}
			}
		}
	}
	walk = func(v ssa.Value, d int) {
		if v == nil || seen[v] || d > 40 {
			return
		}
		seen[v] = true
		switch x := v.(type) {
		case *ssa.Parameter:
			out[x] = true
		case *ssa.Convert:
			walk(x.X, d+1)
		case *ssa.ChangeType:
			walk(x.X, d+1)
		case *ssa.BinOp:
			walk(x.X, d+1)
			walk(x.Y, d+1)
		case *ssa.UnOp:
			walk(x.X, d+1)
		case *ssa.Phi:
			for _, e := range x.Edges {
				walk(e, d+1)
			}
		case *ssa.Extract:
			walk(x.Tuple, d+1)
		case *ssa.Slice:
			walk(x.X, d+1)
		case *ssa.IndexAddr:
			walk(x.X, d+1)
			walk(x.Index, d+1)
		case *ssa.Index:
			walk(x.X, d+1)
			walk(x.Index, d+1)
		case *ssa.FieldAddr:
			walk(x.X, d+1)
		case *ssa.Field:
			walk(x.X, d+1)
		case *ssa.MakeSlice:
			elemStores(x, d)
		case *ssa.Alloc:
			elemStores(x, d)
		case *ssa.Call:
			if b, ok := x.Call.Value.(*ssa.Builtin); ok && (b.Name() == "len" || b.Name() == "cap") && !lengths {
				return // the length of a slice is not one of its element values
			}
			for _, a := range x.Call.Args {
				walk(a, d+1)
			}
		}
	}
	walk(v, 0)
	return out
}
