package main

import (
	"go/token"
	"sort"
	"strings"

	"golang.org/x/tools/go/ssa"
)

func init() {
	register("C13", PropMeta{
		Title: "Resize keeps retained data, zero-fills new space, respects declared maximum",
		Explanation: "Path rules on DatasetWriter.Resize and the creation paths: the per-dimension comparison against the declared maximum (with its Unlimited escape) must lie on every path to the first effect; every failure exit must be unreachable from the header rewrite and from the stores that adopt the new shape; " +
			"every success return must be preceded by the rewrite of the object header carrying the re-encoded dataspace and by the adoption of dims, dataSize and chunkCoordinator (an early success return is accepted only under an equality test of the requested and current shape, and only if the writer's dims are a private copy); the creation path compares each maximum with the initial extent and requires chunking before anything is allocated.",
		DoesNotDecide: "retained values, zero fill, chunk-index rebuild across grow/write/shrink/grow histories (value level)",
		Rules: map[string]string{
			"C13.1": "the maximum-dimension gate (newDims[i] > maxDims[i] unless Unlimited -> error) precedes the header rewrite and every store that adopts the new shape",
			"C13.2": "every success return of Resize is preceded by WriteObjectHeader of the header whose dataspace message was re-encoded from newDims, and by the stores to dims, dataSize, chunkCoordinator",
			"C13.3": "no failure exit of Resize is reachable after the header was rewritten or the new shape adopted",
			"C13.4": "CreateDataset compares each maxDims[i] with dims[i] and requires chunking before the first allocation",
			"C13.5": "the length of the encoded dataspace message depends only on the rank and on whether maximum dimensions are present, never on extent values: Resize rewrites the header in place and the chunk-index address is patched at a byte offset fixed at creation",
		},
	}, ruleC13)
	// the cached header pointer counts as handle state (a stale cache is written back by later calls); the exits below lie behind its load
	except("C13", "C13.3", "hdf5.DatasetWriter.Resize#error-return(core.ParseDataspaceMessage)#after-mutation", "reached only if the dataset's own stored dataspace message is unparsable (corrupt file), not by any rejected request; the cache then holds exactly what is on disk")
	except("C13", "C13.3", "hdf5.DatasetWriter.Resize#error-return(constructed error)#after-mutation", "the 'dataspace message not found' exit: reached only for a header without dataspace (corrupt file), not by any rejected request")
	except("C13", "C13.3", "hdf5.DatasetWriter.Resize#error-return(core.EncodeDataspaceMessage)#after-mutation", "EncodeDataspaceMessage rejects only empty dims or a maxDims length mismatch; both were excluded by the rank test at the top of Resize")
	except("C13", "C13.3", "hdf5.DatasetWriter.Resize#error-return(core.WriteObjectHeader)#after-mutation",
		"the only change before this exit is the replacement of the cached header's dataspace message by an encoding of the same rank, i.e. of the same length, so WriteObjectHeader cannot refuse it for size; it fails only when the file write itself fails, which is an I/O fault, not a rejected request")
}

func ruleC13(c *Ctx, r *Result) {
	rz := c.Fn(r, "hdf5.DatasetWriter.Resize")
	if rz == nil {
		return
	}
	name := c.Name(rz)
	isWOH := func(n string) bool { return n == "core.WriteObjectHeader" }
	wohCalls := c.callsTo(rz, isWOH)
	adopt := map[string][]FieldStore{}
	for _, fs := range c.DirectFieldStores(rz) {
		switch fs.Key {
		case "hdf5.DatasetWriter.dims", "hdf5.DatasetWriter.dataSize", "hdf5.DatasetWriter.chunkCoordinator", "core.HeaderMessage.Data":
			adopt[fs.Key] = append(adopt[fs.Key], fs)
		}
	}
	// --- the gate: comparison of an element of the parameter with an element of the maxDims field
	var gate *ssa.If
	var unlimitedEscape bool
	for _, b := range rz.Blocks {
		ifi, ok := b.Instrs[len(b.Instrs)-1].(*ssa.If)
		if !ok {
			continue
		}
		bo, ok := ifi.Cond.(*ssa.BinOp)
		if !ok {
			continue
		}
		xMax := elemOfField(bo.X, "hdf5.DatasetWriter.maxDims")
		yMax := elemOfField(bo.Y, "hdf5.DatasetWriter.maxDims")
		xNew := elemOfParam(bo.X, rz, 1)
		yNew := elemOfParam(bo.Y, rz, 1)
		if (bo.Op == token.GTR && xNew && yMax) || (bo.Op == token.LSS && xMax && yNew) {
			// the exceeding edge must lead to an error return only
			exceed := b.Succs[0]
			okExit := true
			for blk := range reachableFrom(exceed, map[*ssa.BasicBlock]bool{b: true}) {
				if ret, ok := blk.Instrs[len(blk.Instrs)-1].(*ssa.Return); ok && isNilConst(retOperand(ret, 0)) {
					okExit = false
				}
			}
			if okExit {
				gate = ifi
			}
		}
		if (bo.Op == token.NEQ || bo.Op == token.EQL) && (xMax || yMax) {
			if k, ok := bo.Y.(*ssa.Const); ok && k.Value != nil && k.Uint64() == ^uint64(0) {
				unlimitedEscape = true
			}
			if k, ok := bo.X.(*ssa.Const); ok && k.Value != nil && k.Uint64() == ^uint64(0) {
				unlimitedEscape = true
			}
		}
	}
	if gate == nil {
		r.ViolMissing(c, rz, "C13.1", name+"#max-dims-gate-missing", c.Pos(rz.Pos()), "no branch compares newDims[i] with maxDims[i] (>) and fails on excess")
	} else {
		r.Check(unlimitedEscape, "C13.1", name+"#unlimited-escape", c.InstrPos(gate), "the gate is skipped for Unlimited maximum dimensions")
		// every effect is preceded by passing through the gate's loop: the loop header block dominates... use: the gate's block can reach the effect and
		// no path from entry reaches the effect without visiting the block that holds the loop condition of the gate.
		loopHead := gateLoopHead(gate)
		check := func(what string, in ssa.Instruction) {
			ok := loopHead != nil && loopHead.Dominates(in.Block()) && !reachableFrom(in.Block(), nil)[loopHead]
			r.Check(ok, "C13.1", name+"#gate-precedes-"+what, c.InstrPos(in), "the effect lies behind the complete maximum-dimension loop")
		}
		// the loop examines every dimension: it is left only when the dimensions are exhausted (from its header) or through a
		// failing return; a `break` on the first unlimited dimension leaves the later fixed maxima unchecked
		var hdr *ssa.BasicBlock
		for b := gate.Block(); b != nil && hdr == nil; b = b.Idom() {
			for _, p := range b.Preds {
				if b.Dominates(p) && p != b {
					hdr = b
				}
			}
		}
		if hdr != nil {
			loop := naturalLoop(hdr)
			early := ""
			for _, b := range rz.Blocks {
				if !loop[b] || b == hdr {
					continue
				}
				for _, s := range b.Succs {
					if loop[s] {
						continue
					}
					onlyErrors := true
					for blk := range reachableFrom(s, map[*ssa.BasicBlock]bool{b: true}) {
						if ret, ok := blk.Instrs[len(blk.Instrs)-1].(*ssa.Return); ok && isNilConst(retOperand(ret, 0)) {
							onlyErrors = false
						}
					}
					if !onlyErrors {
						early = c.InstrPos(b.Instrs[len(b.Instrs)-1])
					}
				}
			}
			r.Check(early == "", "C13.1", name+"#gate-loop-examines-every-dimension", firstNonEmpty(early, c.InstrPos(gate)), "the maximum-dimension loop is left only when every dimension was examined or through the failing return")
		}
		for _, call := range wohCalls {
			check("WriteObjectHeader", call)
		}
		for _, k := range sortedKeys(adopt) {
			for _, fs := range adopt[k] {
				check(k, fs.In)
			}
		}
	}
	r.Floor("C13.1", 5)

	// --- C13.2 success returns
	dimsPrivate := c.fieldAlwaysPrivateCopy("hdf5.DatasetWriter.dims")
	for _, ret := range successReturns(rz) {
		pos := c.InstrPos(ret)
		// accepted early return: dominated by an equality test of newDims and dw.dims when dims are private
		pre := func(pred func(ssa.Instruction) bool) bool { return mustPrecede(ret, pred) }
		wrote := pre(func(in ssa.Instruction) bool {
			call, ok := in.(*ssa.Call)
			return ok && c.calleeName(call) == "core.WriteObjectHeader"
		})
		if !wrote && dimsPrivate && dominatedBySameShapeTest(rz, ret) {
			r.Hold("C13.2", name+"#same-shape-early-return", pos, "nothing to persist: requested shape equals the current private copy")
			continue
		}
		r.Check(wrote, "C13.2", name+"#success-return#header-rewritten", pos, "WriteObjectHeader precedes this success return on every path")
		for _, k := range []string{"hdf5.DatasetWriter.dims", "hdf5.DatasetWriter.dataSize", "hdf5.DatasetWriter.chunkCoordinator", "core.HeaderMessage.Data"} {
			ok := pre(func(in ssa.Instruction) bool {
				for _, fs := range adopt[k] {
					if fs.In == in {
						return true
					}
				}
				return false
			})
			r.Check(ok, "C13.2", name+"#success-return#"+k, pos, "store to "+k+" precedes this success return on every path")
		}
	}
	// the persisted dataspace is re-encoded from the requested shape
	for _, fs := range adopt["core.HeaderMessage.Data"] {
		okSrc := false
		v := fs.Val
		if ex, ok := v.(*ssa.Extract); ok {
			if call, ok := ex.Tuple.(*ssa.Call); ok && c.calleeName(call) == "core.EncodeDataspaceMessage" && len(call.Call.Args) > 0 && call.Call.Args[0] == ssa.Value(rz.Params[1]) {
				okSrc = true
			}
		}
		r.Check(okSrc, "C13.2", name+"#dataspace-from-newDims", c.InstrPos(fs.In), "the header's dataspace message is the encoding of newDims")
	}
	for _, fs := range adopt["hdf5.DatasetWriter.dims"] {
		r.Check(derivesFromParam(fs.Val, rz.Params[1]), "C13.2", name+"#dims-from-newDims", c.InstrPos(fs.In), "dw.dims is set from newDims")
	}
	r.Floor("C13.2", 6)

	// --- C13.3 failure atomicity
	// (loading the header into dw.objectHeader is not a change: it caches what is on disk, and since writeChunkedData keeps the
	// cached layout message in step - C13.6 - an early load can no longer make a later write-back stale)
	c.checkNoErrorAfterStore(r, "C13.3", rz, isWOH, false, "hdf5.DatasetWriter.dims", "hdf5.DatasetWriter.dataSize", "hdf5.DatasetWriter.chunkCoordinator", "core.HeaderMessage.Data")
	r.Floor("C13.3", 5)

	// --- C13.4 creation gate (in CreateDataset itself or in a validating helper it calls with dims and the configuration,
	// whose error result it returns)
	cd := c.Fn(r, "hdf5.FileWriter.CreateDataset")
	if cd != nil {
		type gateInfo struct {
			cmp      *ssa.If         // maxDims[i] vs dims[i]
			lenTest  *ssa.BasicBlock // len(maxDims) > 0 / == 0 test
			chunkReq bool
		}
		findIn := func(fn *ssa.Function, dimsIdx int) gateInfo {
			var g gateInfo
			for _, b := range fn.Blocks {
				ifi, ok := b.Instrs[len(b.Instrs)-1].(*ssa.If)
				if !ok {
					continue
				}
				bo, ok := ifi.Cond.(*ssa.BinOp)
				if !ok {
					continue
				}
				if bo.Op == token.LSS || bo.Op == token.GTR {
					xMax := elemOfField(bo.X, "hdf5.datasetConfig.maxDims")
					yMax := elemOfField(bo.Y, "hdf5.datasetConfig.maxDims")
					xDim := elemOfParam(bo.X, fn, dimsIdx)
					yDim := elemOfParam(bo.Y, fn, dimsIdx)
					if (bo.Op == token.LSS && xMax && yDim) || (bo.Op == token.GTR && xDim && yMax) {
						g.cmp = ifi
					}
				}
				if bo.Op == token.GTR || bo.Op == token.EQL || bo.Op == token.NEQ {
					if call, ok := bo.X.(*ssa.Call); ok {
						if bi, ok := call.Call.Value.(*ssa.Builtin); ok && bi.Name() == "len" {
							if z, isZ := constInt(bo.Y); isZ && z == 0 {
								if valueReadsField(call.Call.Args[0], "hdf5.datasetConfig.maxDims", 0) {
									g.lenTest = b
								}
								if valueReadsField(call.Call.Args[0], "hdf5.datasetConfig.chunkDims", 0) && bo.Op == token.EQL {
									// the == 0 edge must be an error exit
									if ret, isRet := b.Succs[0].Instrs[len(b.Succs[0].Instrs)-1].(*ssa.Return); isRet && !isSuccessReturn(ret) {
										g.chunkReq = true
									}
								}
							}
						}
					}
				}
			}
			return g
		}
		g := findIn(cd, 3)
		anchor := g.lenTest
		var cmpBlk *ssa.BasicBlock
		if g.cmp != nil {
			cmpBlk = g.cmp.Block()
		}
		where := c.Name(cd)
		if g.cmp == nil {
			// a validating helper: called with dims, its error returned on the non-nil edge
			for _, site := range callsIn(cd) {
				call, ok := site.(*ssa.Call)
				callee := site.Common().StaticCallee()
				if !ok || callee == nil || !inModule(fnPkgPath(callee)) || len(callee.Blocks) == 0 || errResultIndex(callee.Signature) < 0 {
					continue
				}
				di := -1
				for ai, a := range call.Call.Args {
					if a == ssa.Value(cd.Params[3]) {
						di = ai
					}
				}
				if di < 0 {
					continue
				}
				gv := findIn(callee, di)
				if gv.cmp == nil {
					continue
				}
				// the helper's failure exits are behind its tests: every success return must be unreachable from the failing edge (by construction of If->error return); its result must be checked by the caller
				checked := false
				for _, ev := range errValuesOfCall(call) {
					for _, ref := range *ev.Referrers() {
						if bo, isB := ref.(*ssa.BinOp); isB && (bo.Op == token.NEQ || bo.Op == token.EQL) {
							checked = true
						}
					}
				}
				if !checked {
					continue
				}
				g = gv
				anchor = call.Block()
				cmpBlk = nil
				where = c.Name(callee) + " (called from CreateDataset)"
			}
		}
		r.Check(g.cmp != nil, "C13.4", c.Name(cd)+"#maxDims>=dims", c.Pos(cd.Pos()), "creation compares each maxDims[i] with dims[i] (found in "+where+")")
		for _, site := range callsIn(cd) {
			n := c.calleeName(site)
			if n == "writer.FileWriter.Allocate" || n == "hdf5.FileWriter.createChunkedDataset" {
				ok := anchor != nil && anchor.Dominates(site.Block()) && site.Block() != anchor
				if ok && cmpBlk != nil {
					// and the comparison loop cannot be re-entered after the effect
					ok = !reachableFrom(site.Block(), nil)[cmpBlk]
				}
				r.Check(ok, "C13.4", c.Name(cd)+"#gate-precedes-"+n, c.InstrPos(site), "validation of maxDims precedes allocation / chunked creation")
			}
		}
		r.Check(g.chunkReq, "C13.4", c.Name(cd)+"#resizable-requires-chunking", c.Pos(cd.Pos()), "a dataset with maxDims and no chunk dimensions is rejected")
	}
	r.Floor("C13.4", 3)

	// --- C13.5 encoded length is value-independent
	if enc := c.Fn(r, "core.EncodeDataspaceMessage"); enc != nil && len(enc.Params) >= 2 {
		bad := ""
		isDimsParam := func(v ssa.Value) bool {
			return v == ssa.Value(enc.Params[0]) || v == ssa.Value(enc.Params[1])
		}
		// values that carry extent VALUES: element loads of the two slices, and results of calls that receive the slices
		var tainted func(v ssa.Value, d int) bool
		tainted = func(v ssa.Value, d int) bool {
			if d > 8 {
				return false
			}
			switch x := v.(type) {
			case *ssa.UnOp:
				if ia, ok := x.X.(*ssa.IndexAddr); ok && isDimsParam(ia.X) {
					return true
				}
				return tainted(x.X, d+1)
			case *ssa.BinOp:
				return tainted(x.X, d+1) || tainted(x.Y, d+1)
			case *ssa.Convert:
				return tainted(x.X, d+1)
			case *ssa.Phi:
				for _, e := range x.Edges {
					if tainted(e, d+1) {
						return true
					}
				}
			case *ssa.Extract:
				return tainted(x.Tuple, d+1)
			case *ssa.Call:
				if b, ok := x.Call.Value.(*ssa.Builtin); ok && (b.Name() == "len" || b.Name() == "cap") {
					return false
				}
				for _, a := range x.Call.Args {
					if isDimsParam(a) || tainted(a, d+1) {
						return true
					}
				}
			}
			return false
		}
		// every branch that can influence the allocation of the output buffer must be value-independent
		var mk *ssa.MakeSlice
		instrs(enc, func(in ssa.Instruction) {
			if m, ok := in.(*ssa.MakeSlice); ok && mk == nil {
				mk = m
			}
		})
		if mk == nil {
			r.Undec("C13.5", c.Name(enc)+"#no-buffer-allocation", c.Pos(enc.Pos()), "no make found")
		} else {
			for _, b := range enc.Blocks {
				ifi, ok := b.Instrs[len(b.Instrs)-1].(*ssa.If)
				if !ok || !canReach(ifi, mk) {
					continue
				}
				// branches whose both arms rejoin before the make and only lead to error returns on one side are still fine if value independent
				if tainted(ifi.Cond, 0) {
					// an error exit on invalid values is fine: only flag when both successors can reach the make
					r0 := reachableFrom(b.Succs[0], nil)[mk.Block()]
					r1 := reachableFrom(b.Succs[1], nil)[mk.Block()]
					if r0 && r1 {
						bad = c.InstrPos(ifi)
					}
				}
			}
			if tainted(mk.Len, 0) {
				bad = c.InstrPos(mk)
			}
			r.Check(bad == "", "C13.5", c.Name(enc)+"#length-independent-of-extents", c.InstrPos(mk), "no branch before the buffer allocation (and not its size) depends on the values of dims/maxDims "+bad)
		}
	}
	r.Floor("C13.5", 1)
}

// elemOfField: v is a load of an element of the slice held in the named field.
func elemOfField(v ssa.Value, key string) bool {
	ld, ok := isLoad(v)
	if !ok {
		return false
	}
	ia, ok := ld.X.(*ssa.IndexAddr)
	if !ok {
		return false
	}
	return valueReadsField(ia.X, key, 0)
}

// elemOfParam: v is an element of parameter #idx (range value or indexed load).
func elemOfParam(v ssa.Value, fn *ssa.Function, idx int) bool {
	if idx >= len(fn.Params) {
		return false
	}
	ld, ok := isLoad(v)
	if !ok {
		return false
	}
	ia, ok := ld.X.(*ssa.IndexAddr)
	if !ok {
		return false
	}
	return ia.X == ssa.Value(fn.Params[idx])
}

// gateLoopHead: the block holding the loop condition of the range loop that contains the gate.
func gateLoopHead(gate *ssa.If) *ssa.BasicBlock {
	// walk dominators upwards to the first block that is a loop header (has a back edge from a block it dominates)
	for b := gate.Block(); b != nil; b = b.Idom() {
		for _, p := range b.Preds {
			if b.Dominates(p) && p != b {
				// loop header; the exit successor is the one not dominating the gate
				for _, s := range b.Succs {
					if !s.Dominates(gate.Block()) && s != gate.Block() {
						return s
					}
				}
			}
		}
	}
	return nil
}

func derivesFromParam(v ssa.Value, p *ssa.Parameter) bool {
	for i := 0; i < 6; i++ {
		switch x := v.(type) {
		case *ssa.Parameter:
			return x == p
		case *ssa.Slice:
			v = x.X
		case *ssa.ChangeType:
			v = x.X
		case *ssa.Call:
			// append([]T(nil), p...) / slices.Clone(p)
			for _, a := range x.Call.Args {
				if derivesFromParam(a, p) {
					return true
				}
			}
			return false
		default:
			return false
		}
	}
	return false
}

// fieldAlwaysPrivateCopy: no store to the field anywhere in the library assigns a caller-owned slice (a parameter or a sub-slice of one).
func (c *Ctx) fieldAlwaysPrivateCopy(key string) bool {
	for _, fn := range c.LibFuncs() {
		for _, fs := range c.DirectFieldStores(fn) {
			if fs.Key != key || fs.Val == nil {
				continue
			}
			v := fs.Val
			for i := 0; i < 4; i++ {
				if sl, ok := v.(*ssa.Slice); ok {
					v = sl.X
					continue
				}
				break
			}
			if _, isParam := v.(*ssa.Parameter); isParam {
				return false
			}
		}
	}
	return true
}

// dominatedBySameShapeTest: the return is on the true edge of slices.Equal(newDims, dw.dims) (or an equivalent loop is not recognised).
func dominatedBySameShapeTest(fn *ssa.Function, ret *ssa.Return) bool {
	for _, b := range fn.Blocks {
		ifi, ok := b.Instrs[len(b.Instrs)-1].(*ssa.If)
		if !ok {
			continue
		}
		call, ok := ifi.Cond.(*ssa.Call)
		if !ok {
			continue
		}
		f := call.Call.StaticCallee()
		if f == nil || !strings.HasSuffix(f.String(), "slices.Equal[[]uint64 uint64]") && !strings.Contains(f.String(), "slices.Equal") {
			continue
		}
		if edgeDominates(b, b.Succs[0], ret.Block()) {
			return true
		}
	}
	return false
}

// ---- additional necessary conditions (defects found while the third round of seeded changes was prepared) ----

func init() {
	reg := registry["C13"]
	reg.Meta.Rules["C13.6"] = "the chunk-index address patched into the header on disk is also stored in the cached header that Resize rewrites (otherwise Resize restores the index of the previous Write)"
	reg.Meta.Rules["C13.7"] = "shrinking removes what lies outside the new extent: Resize rewrites the chunk index or clears the chunk data it cuts off; the reader ignores chunks beyond the extent"
	reg.Meta.Rules["C13.8"] = "the padding of a boundary chunk is zero (shared with C01.7): newly exposed space reads as zero after a growing Resize"
	reg.Rules = append(reg.Rules, c13cachedHeader, c13shrink, func(c *Ctx, r *Result) {
		fn := c.Fn(r, "hdf5.DatasetWriter.writeChunkedData")
		if fn == nil {
			return
		}
		n := 0
		for _, site := range callsIn(fn) {
			call, ok := site.(*ssa.Call)
			if !ok || call.Call.StaticCallee() == nil || !inModule(fnPkgPath(call.Call.StaticCallee())) {
				continue
			}
			takesChunk, takesNominal := false, false
			for _, a := range call.Call.Args {
				if src, isCall := a.(*ssa.Call); isCall && c.calleeName(src) == "writer.ChunkCoordinator.ExtractChunkData" {
					takesChunk = true
				}
				if valueReadsField(a, "hdf5.DatasetWriter.chunkDims", 0) {
					takesNominal = true
				}
			}
			if takesChunk && takesNominal {
				n++
				c01zeroPadding(c, r, call.Call.StaticCallee(), "C13.8")
			}
		}
		if n == 0 {
			r.Viol("C13.8", c.Name(fn)+"#boundary-chunk-padding", c.Pos(fn.Pos()), "boundary chunks are no longer expanded to the nominal shape with zero padding")
		}
		r.Floor("C13.8", 1)
	})
}

func c13cachedHeader(c *Ctx, r *Result) {
	fn := c.Fn(r, "hdf5.DatasetWriter.writeChunkedData")
	if fn == nil {
		return
	}
	// the disk patch: WriteAtAddress(buf, dw.layoutBTreeOffset)
	var patch *ssa.Call
	for _, site := range callsIn(fn) {
		if c.calleeName(site) == "writer.FileWriter.WriteAtAddress" && valueReadsField(site.Common().Args[2], "hdf5.DatasetWriter.layoutBTreeOffset", 0) {
			patch, _ = site.(*ssa.Call)
		}
	}
	if patch == nil {
		r.Errorf("C13.6: header patch not found in writeChunkedData")
		return
	}
	buf := patch.Call.Args[1]
	// the mirror: copy(msg.Data[..], buf) where msg comes from dw.objectHeader.Messages
	mirrored := false
	var at ssa.Instruction = patch
	for _, sc := range scopesOf(fn, buf) {
		// in a helper, the cached header must be what the helper was handed
		cacheBound := sc.call == nil
		for _, bv := range sc.bind {
			if valueReadsField(bv, "hdf5.DatasetWriter.objectHeader", 0) {
				cacheBound = true
			}
		}
		for _, site := range callsIn(sc.fn) {
			call, ok := site.(*ssa.Call)
			if !ok {
				continue
			}
			b, ok := call.Call.Value.(*ssa.Builtin)
			if !ok || b.Name() != "copy" || sc.res(call.Call.Args[1]) != buf {
				continue
			}
			dst := call.Call.Args[0]
			for {
				if sl, isSl := dst.(*ssa.Slice); isSl {
					dst = sl.X
					continue
				}
				break
			}
			ld, isLd := isLoad(dst)
			if !isLd {
				continue
			}
			f, _ := fieldOfAddr(ld.X)
			if f == nil || f.Name() != "Data" {
				continue
			}
			if sc.call != nil {
				if cacheBound {
					mirrored = true
					at = sc.call
				}
				continue
			}
			if valueReadsField(ld.X, "hdf5.DatasetWriter.objectHeader", 0) {
				mirrored = true
				at = call
			} else {
				// msg loaded from a range over dw.objectHeader.Messages
				seen := false
				instrs(fn, func(in ssa.Instruction) {
					if l2, ok := in.(*ssa.UnOp); ok && l2.Op == token.MUL {
						if fa, ok := l2.X.(*ssa.FieldAddr); ok {
							if f2, base := fieldOfAddr(fa); f2 != nil && fieldKey(base.Type(), f2) == "hdf5.DatasetWriter.objectHeader" {
								seen = true
							}
						}
					}
				})
				if seen {
					mirrored = true
					at = call
				}
			}
		}
	}
	r.Check(mirrored, "C13.6", c.Name(fn)+"#cached-header-follows-disk-patch", c.InstrPos(at), "the address bytes written at layoutBTreeOffset are also copied into the layout message of dw.objectHeader (the copy Resize and the attribute operations write back)")
	// the message that receives the copy is selected by what it IS: every test of a byte of the message against a constant
	// (version 3, class chunked) that decides whether the copy is reached is passed on its equality side
	if mirrored && at != nil {
		bad := ""
		for _, b := range fn.Blocks {
			ifi, isIf := b.Instrs[len(b.Instrs)-1].(*ssa.If)
			if !isIf {
				continue
			}
			cmp, isC := ifi.Cond.(*ssa.BinOp)
			if !isC || (cmp.Op != token.EQL && cmp.Op != token.NEQ) {
				continue
			}
			if _, isK := stripConv(cmp.Y).(*ssa.Const); !isK {
				continue
			}
			ld, isLd := isLoad(stripConv(cmp.X))
			if !isLd {
				continue
			}
			ia, isIA := ld.X.(*ssa.IndexAddr)
			if !isIA {
				continue
			}
			if k, _ := fieldLoadKey(ia.X); !strings.HasSuffix(k, ".Data") {
				continue
			}
			for e := 0; e < 2; e++ {
				if edgeDominates(b, b.Succs[e], at.Block()) {
					onEquality := (cmp.Op == token.EQL && e == 0) || (cmp.Op == token.NEQ && e == 1)
					if !onEquality {
						bad = c.InstrPos(cmp)
					}
				}
			}
		}
		r.Check(bad == "", "C13.6", c.Name(fn)+"#cached-copy-goes-to-the-chunked-layout-message", c.InstrPos(at), "the message that receives the new index address is selected by equality tests on its version and class bytes"+map[bool]string{true: "", false: " (the test at " + bad + " is passed on its inequality side: the chunked layout message is never the one patched)"}[bad == ""])
	}
	// and the patch comes first (the cache is updated only when the disk write succeeded)
	r.Floor("C13.6", 1)
}

func c13shrink(c *Ctx, r *Result) {
	rz := c.Fn(r, "hdf5.DatasetWriter.Resize")
	rd := c.Fn(r, "core.readChunkedData")
	if rz == nil || rd == nil {
		return
	}
	// writer side: does Resize reach anything that rewrites the chunk index or chunk bytes?
	touches := c.reachesCallee(rz, func(n string) bool {
		return n == "structures.ChunkBTreeWriter.WriteToFile" || n == "hdf5.DatasetWriter.writeChunkedData" || strings.HasSuffix(n, "ChunkBTreeWriter.AddChunkWithSize")
	})
	r.Check(touches, "C13.7", c.Name(rz)+"#shrink-drops-chunks-outside-extent", c.Pos(rz.Pos()), "Resize never rewrites the chunk index nor clears chunk data: what a shrinking Resize cuts off is still stored and indexed, and comes back when the dataset grows again")
	// reader side: chunks beyond the extent are skipped (C06.8 decides that the skip is justified; here: that it exists)
	env := &polyEnv{c: c, fn: rd}
	skip := false
	for _, b := range rd.Blocks {
		ifi, ok := b.Instrs[len(b.Instrs)-1].(*ssa.If)
		if !ok {
			continue
		}
		if p, rel, ok := env.condFact(ifi.Cond, true); ok && isBeyondExtentFact(polyFact{P: p, Rel: rel}) {
			skip = true
		}
		// the test may live in a bool helper
		cond := ifi.Cond
		if u, isU := cond.(*ssa.UnOp); isU && u.Op == token.NOT {
			cond = u.X
		}
		if call, isCall := cond.(*ssa.Call); isCall && c.helperTrueMeansBeyondExtent(env, call) {
			skip = true
		}
	}
	r.Check(skip, "C13.7", c.Name(rd)+"#ignores-chunks-beyond-extent", c.Pos(rd.Pos()), "the full-read assembler tests scaled*chunkSize >= dims and leaves such chunks out (a shrunk dataset still lists them in its index)")
	r.Floor("C13.7", 2)
}

func init() {
	reg := registry["C13"]
	reg.Meta.Rules["C13.9"] = "a resize within the declared maximum is not refused for creation-only reasons: nothing that Resize reaches fails because a chunk dimension exceeds a dataset dimension (legal after shrinking below one chunk; only creation requires chunk <= extent)"
	reg.Rules = append(reg.Rules, func(c *Ctx, r *Result) {
		rz := c.Fn(r, "hdf5.DatasetWriter.Resize")
		if rz == nil {
			return
		}
		set := c.Reach([]*ssa.Function{rz}, func(f *ssa.Function) bool {
			pk := shortPkg(fnPkgPath(f))
			return pk != "hdf5" && pk != "writer"
		})
		set[rz] = true
		var fns []*ssa.Function
		for f := range set {
			pk := shortPkg(fnPkgPath(f))
			if (pk == "hdf5" || pk == "writer") && f.Blocks != nil {
				fns = append(fns, f)
			}
		}
		sort.Slice(fns, func(i, j int) bool { return c.Name(fns[i]) < c.Name(fns[j]) })
		n := 0
		for _, fn := range fns {
			env := &polyEnv{c: c, fn: fn}
			for _, b := range fn.Blocks {
				ifi, ok := b.Instrs[len(b.Instrs)-1].(*ssa.If)
				if !ok || b.Succs[0] == b.Succs[1] {
					continue
				}
				for arm, val := range []bool{true, false} {
					// the arm must lead only to failing returns
					onlyErr, any := true, false
					for blk := range reachableFrom(b.Succs[arm], map[*ssa.BasicBlock]bool{b: true}) {
						if ret, isRet := blk.Instrs[len(blk.Instrs)-1].(*ssa.Return); isRet {
							any = true
							if idx := errResultIndex(fn.Signature); idx < 0 || isNilConst(retOperand(ret, idx)) {
								onlyErr = false
							}
						}
					}
					if !onlyErr || !any {
						continue
					}
					p, rel, ok := env.condFact(ifi.Cond, val)
					if !ok || len(p) < 2 || len(p) > 3 {
						continue
					}
					var chunkAtom, dimAtom string
					for m, cf := range p {
						lm := strings.ToLower(m)
						switch {
						case m == "":
						case strings.Contains(lm, "chunk") && cf > 0:
							chunkAtom = m
						case strings.Contains(lm, "dim") && !strings.Contains(lm, "chunk") && cf < 0:
							dimAtom = m
						}
					}
					if chunkAtom == "" || dimAtom == "" {
						continue
					}
					n++
					r.Viol("C13.9", c.Name(fn)+"#fails-when-chunk-exceeds-extent", c.InstrPos(ifi), "reached from Resize: fails when "+p.String()+" "+rel+" (a chunk dimension larger than the dataset dimension), which a shrink below one chunk extent legitimately produces")
				}
			}
		}
		if n == 0 {
			r.Hold("C13.9", c.Name(rz)+"#no-creation-only-test-on-the-resize-path", c.Pos(rz.Pos()), itoa(len(fns))+" functions reached from Resize examined")
		}
	})
}
