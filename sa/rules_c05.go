package main

import (
	"fmt"
	"go/token"
	"go/types"
	"strings"

	"golang.org/x/tools/go/ssa"
)

func init() {
	register("C05", PropMeta{
		Title: "Written files are well-formed: in bounds, disjoint, consistent, spec-decodable",
		Explanation: "Structural consistency rules on the writers: (C05.1) every checksum is computed over exactly the bytes that precede the position where it is stored (same buffer, same linear offset) and nothing is stored into the covered range afterwards; every verifier compares stored and recomputed values over the same range and fails on inequality; " +
			"(C05.2) every success return of Close is preceded by the update of the superblock's end-of-file address, conditional only on the allocator having moved; (C05.3) where an object header is written into space obtained from Allocate, the written size is compared with the allocated size; " +
			"(C05.4) the heap's persistent insert cursor (shared with C15/C10); the v0 root span and allocated-address obligations of C04.2 also belong here.",
		DoesNotDecide: "conformance to the HDF5 specification as such (e.g. missing v2 object-header checksum), overlap-freedom of a whole file, decodability by an independent implementation, agreement of the Fletcher-32 sum with the reference implementation's",
		Rules: map[string]string{
			"C05.1": "checksum range = bytes before the stored checksum; verifiers compare over the same range and fail on mismatch",
			"C05.2": "the superblock end-of-file address is brought up to date before Close reports success",
			"C05.3": "allocated size = serialised size for object headers (written size compared with the allocation)",
			"C05.4": "heap insert cursor: restored from the iterator offset only, advanced by inserts only",
			"C05.5": "the Fletcher-32 sum stored with filtered chunks reads every byte and its 32-bit accumulators cannot wrap (shared with C08.4)",
		},
	}, ruleC05)
	for _, f := range []string{"hdf5.FileWriter.CreateSoftLink", "hdf5.FileWriter.CreateExternalLink"} {
		except("C05", "C05.3", f+"#header-size-unchecked", "the allocation size comes from calculateObjectHeaderSize(ohw), which asks the same ObjectHeaderWriter for its Size(); WriteTo serialises exactly Size() bytes, so the two cannot differ even though the returned count is dropped")
	}
}

func ruleC05(c *Ctx, r *Result) {
	// ---- C05.1
	nw, nv := 0, 0
	for _, fn := range c.LibFuncs() {
		fb := c.FB(fn)
		var sums []*ssa.Call
		instrs(fn, func(in ssa.Instruction) {
			if call, ok := in.(*ssa.Call); ok {
				if f := call.Call.StaticCallee(); f != nil && f.String() == "hash/crc32.ChecksumIEEE" {
					sums = append(sums, call)
				}
			}
		})
		sortInstrs(sums)
		for _, cs := range sums {
			sl, ok := cs.Call.Args[0].(*ssa.Slice)
			if !ok || sl.High == nil {
				r.Undec("C05.1", c.Name(fn)+"#checksum", c.InstrPos(cs), "checksum argument is not a prefix slice")
				continue
			}
			buf := sl.X
			end := fb.lin(sl.High)
			if sl.Low != nil {
				if l := fb.lin(sl.Low); !l.isConst() || l.C != 0 {
					r.Viol("C05.1", c.Name(fn)+"#checksum-range-does-not-start-at-0", c.InstrPos(cs), "the covered range must start at the beginning of the structure")
					continue
				}
			}
			// how is the result used: stored (writer) or compared (verifier)?
			stored, compared := false, false
			okStore := false
			for _, ref := range *cs.Referrers() {
				switch x := ref.(type) {
				case *ssa.Call:
					// binary.ByteOrder.PutUint32(buf[p:], sum)
					name := c.calleeName(x)
					if !strings.HasSuffix(name, "PutUint32") {
						continue
					}
					stored = true
					args := x.Call.Args
					dst, ok := args[len(args)-2].(*ssa.Slice)
					if !ok {
						continue
					}
					if !sameBuffer(dst.X, buf) {
						continue
					}
					p := linConst(0)
					if dst.Low != nil {
						p = fb.lin(dst.Low)
					}
					if p.equal(end) || sameCursorLoad(p, end) {
						okStore = true
					}
				case *ssa.BinOp:
					if x.Op == token.NEQ || x.Op == token.EQL {
						compared = true
						// the other operand must be read from buf[end:end+4]
						other := x.X
						if other == ssa.Value(cs) {
							other = x.Y
						}
						okCmp := false
						if rd, ok := other.(*ssa.Call); ok && strings.HasSuffix(c.calleeName(rd), "Uint32") {
							if s2, ok := rd.Call.Args[len(rd.Call.Args)-1].(*ssa.Slice); ok && sameBuffer(s2.X, buf) && s2.Low != nil && fb.lin(s2.Low).equal(end) {
								okCmp = true
							}
						}
						// inequality must lead to an error return
						errExit := false
						for _, r2 := range *x.Referrers() {
							if ifi, ok := r2.(*ssa.If); ok {
								mis := ifi.Block().Succs[0]
								if x.Op == token.EQL {
									mis = ifi.Block().Succs[1]
								}
								if ret, ok := mis.Instrs[len(mis.Instrs)-1].(*ssa.Return); ok {
									if idx := errResultIndex(fn.Signature); idx >= 0 && !isNilConst(retOperand(ret, idx)) {
										errExit = true
									}
								}
							}
						}
						nv++
						r.Check(okCmp && errExit, "C05.1", c.Name(fn)+"#verifies-checksum", c.InstrPos(cs), "stored checksum is read from the position where the covered range ends and a mismatch is an error")
					}
				}
			}
			if stored {
				nw++
				// no store into the covered range after the checksum was computed
				late := ""
				instrs(fn, func(in ssa.Instruction) {
					st, ok := in.(*ssa.Store)
					if !ok || !canReach(cs, st) {
						return
					}
					if ia, ok := st.Addr.(*ssa.IndexAddr); ok && sameBuffer(ia.X, buf) {
						idx := fb.lin(ia.Index)
						if !fb.prove(idx.add(end, -1), fb.blockFacts(st.Block()), 2) {
							late = c.InstrPos(st)
						}
					}
				})
				r.Check(okStore && late == "", "C05.1", c.Name(fn)+"#stores-checksum-after-covered-range", c.InstrPos(cs), "checksum over buf[:e] is stored at buf[e:] and nothing inside buf[:e] is modified afterwards "+late)
			}
			if !stored && !compared {
				r.Undec("C05.1", c.Name(fn)+"#checksum-unused", c.InstrPos(cs), "checksum value neither stored nor compared directly")
			}
		}
	}
	if nw < 6 {
		r.Errorf("C05.1 found %d checksum writers, expected >= 6", nw)
	}
	if nv < 2 {
		r.Errorf("C05.1 found %d checksum verifiers, expected >= 2", nv)
	}

	// ---- C05.2
	if cl := c.Fn(r, "hdf5.FileWriter.Close"); cl != nil {
		for _, ret := range successReturns(cl) {
			if len(cl.Blocks) > 0 && edgeDominates(cl.Blocks[0], cl.Blocks[0].Succs[0], ret.Block()) {
				continue // already closed
			}
			ok := mustPrecede(ret, c.eofUpdatePred(cl, 0))
			r.Check(ok, "C05.2", c.Name(cl)+"#eof-updated-before-success", c.InstrPos(ret), "Close rewrites the end-of-file address (when the allocator moved) before it reports success")
		}
		// the value written is the allocator's end of file
		for _, site := range callsIn(cl) {
			if c.calleeName(site) == "core.Superblock.UpdateEndOfFileAddress" {
				args := site.Common().Args
				v := args[len(args)-1]
				ok := condMentionsEOF(c, v, 0)
				r.Check(ok, "C05.2", c.Name(cl)+"#eof-value-from-allocator", c.InstrPos(site), "the recorded end of file is the allocator's EndOfFile()")
			}
		}
		r.Floor("C05.2", 2)
	}

	// ---- C05.3 object headers: written size compared with allocated size
	for _, fn := range c.LibFuncs() {
		if shortPkg(fnPkgPath(fn)) != "hdf5" {
			continue
		}
		for _, site := range callsIn(fn) {
			if c.calleeName(site) != "core.ObjectHeaderWriter.WriteTo" {
				continue
			}
			call, ok := site.(*ssa.Call)
			if !ok {
				continue
			}
			addr := call.Call.Args[len(call.Call.Args)-1]
			ex, ok := addr.(*ssa.Extract)
			if !ok {
				continue
			}
			alloc, ok := ex.Tuple.(*ssa.Call)
			if !ok || !strings.HasSuffix(c.calleeName(alloc), ".Allocate") {
				continue
			}
			n := alloc.Call.Args[len(alloc.Call.Args)-1]
			// written size = Extract #0 of the WriteTo call
			var written ssa.Value
			for _, ref := range *call.Referrers() {
				if e2, ok := ref.(*ssa.Extract); ok && e2.Index == 0 {
					written = e2
				}
			}
			compared := false
			if written != nil {
				for _, ref := range *written.Referrers() {
					if bo, ok := ref.(*ssa.BinOp); ok && (bo.Op == token.NEQ || bo.Op == token.EQL) && (bo.X == n || bo.Y == n) {
						compared = true
					}
				}
			}
			if compared {
				r.Hold("C05.3", c.Name(fn)+"#header-size-checked", c.InstrPos(site), "bytes written are compared with the bytes allocated")
			} else {
				r.ViolMissing(c, fn, "C05.3", c.Name(fn)+"#header-size-unchecked", c.InstrPos(site), "the object header is written into space from Allocate(n) but the written size is never compared with n")
			}
		}
	}
	r.Floor("C05.3", 4)

	// ---- C05.4 heap cursor
	ruleHeapCursor(c, r, "C05.4")
	r.Floor("C05.4", 4)

	if sum := c.Fn(r, "writer.calculateFletcher32"); sum != nil {
		c08sumCoverage(c, r, sum, "C05.5")
		c08sumNoWrap(c, r, sum, "C05.5")
	}
	r.Floor("C05.5", 3)
}

// sameBuffer: two slice operands denote the same buffer value (possibly through re-slicing from 0).
func sameBuffer(a, b ssa.Value) bool {
	if a == b {
		return true
	}
	if s, ok := a.(*ssa.Slice); ok && s.Low == nil {
		return sameBuffer(s.X, b)
	}
	if s, ok := b.(*ssa.Slice); ok && s.Low == nil {
		return sameBuffer(a, s.X)
	}
	// a buffer variable captured by closures is spilled to memory: two loads of a local that is assigned exactly once
	la, ok1 := isLoad(a)
	lb, ok2 := isLoad(b)
	if ok1 && ok2 && la.X == lb.X {
		if al, isAlloc := la.X.(*ssa.Alloc); isAlloc {
			stores := 0
			for _, ref := range *al.Referrers() {
				if st, isSt := ref.(*ssa.Store); isSt && st.Addr == ssa.Value(al) {
					stores++
				}
			}
			// closures may also store: any MakeClosure binding the variable whose body stores to it
			for _, ref := range *al.Referrers() {
				if mc, isMC := ref.(*ssa.MakeClosure); isMC && closureStoresTo(mc, al) {
					stores += 2
				}
			}
			return stores == 1
		}
	}
	return false
}

// armAlwaysCalls: from block start, every path that reaches a success return of fn passes a call to callee.
func armAlwaysCalls(c *Ctx, start *ssa.BasicBlock, fn *ssa.Function, callee string) bool {
	stop := map[*ssa.BasicBlock]bool{}
	for _, b := range fn.Blocks {
		for _, in := range b.Instrs {
			if call, ok := in.(*ssa.Call); ok && c.calleeName(call) == callee {
				stop[b] = true
			}
		}
	}
	if stop[start] {
		return true
	}
	// nil tests on the receiver path of the call (fw.file, fw.file.sb) are defensive: follow only their non-nil arm
	chain := map[string]bool{}
	for _, b := range fn.Blocks {
		for _, in := range b.Instrs {
			if call, ok := in.(*ssa.Call); ok && c.calleeName(call) == callee && len(call.Call.Args) > 0 {
				v := call.Call.Args[0]
				for i := 0; i < 4; i++ {
					k, _ := fieldLoadKey(v)
					if k == "" {
						break
					}
					chain[k] = true
					ld, _ := isLoad(v)
					fa, ok := ld.X.(*ssa.FieldAddr)
					if !ok {
						break
					}
					v = fa.X
				}
			}
		}
	}
	for _, b := range fn.Blocks {
		ifi, ok := b.Instrs[len(b.Instrs)-1].(*ssa.If)
		if !ok {
			continue
		}
		bo, ok := ifi.Cond.(*ssa.BinOp)
		if !ok || !isNilConst(bo.Y) {
			continue
		}
		if k, _ := fieldLoadKey(bo.X); chain[k] {
			nilArm := b.Succs[1]
			if bo.Op == token.EQL {
				nilArm = b.Succs[0]
			}
			// block the edge into the nil arm by stopping at a synthetic marker: only safe when the nil arm is not also the non-nil continuation
			if nilArm != start && len(nilArm.Preds) > 1 {
				// merge block shared with the normal path: cannot be cut; approximate by ignoring this branch's nil edge
				stop2 := map[*ssa.BasicBlock]bool{}
				for k2 := range stop {
					stop2[k2] = true
				}
				_ = stop2
			}
			benignNilEdges[[2]*ssa.BasicBlock{b, nilArm}] = true
		}
	}
	defer func() { benignNilEdges = map[[2]*ssa.BasicBlock]bool{} }()
	for b := range reachableAvoidingEdges(start, stop, benignNilEdges) {
		if ret, ok := b.Instrs[len(b.Instrs)-1].(*ssa.Return); ok {
			idx := errResultIndex(fn.Signature)
			if idx < 0 || isNilConst(retOperand(ret, idx)) {
				return false
			}
		}
	}
	return true
}

var benignNilEdges = map[[2]*ssa.BasicBlock]bool{}

// reachableAvoidingEdges: forward reachability that neither enters blocks in stop nor follows the listed edges.
func reachableAvoidingEdges(start *ssa.BasicBlock, stop map[*ssa.BasicBlock]bool, cut map[[2]*ssa.BasicBlock]bool) map[*ssa.BasicBlock]bool {
	seen := map[*ssa.BasicBlock]bool{}
	if stop[start] {
		return seen
	}
	seen[start] = true
	work := []*ssa.BasicBlock{start}
	for len(work) > 0 {
		b := work[len(work)-1]
		work = work[:len(work)-1]
		for _, s := range b.Succs {
			if seen[s] || stop[s] || cut[[2]*ssa.BasicBlock{b, s}] {
				continue
			}
			seen[s] = true
			work = append(work, s)
		}
	}
	return seen
}

// ---- additional necessary condition found by the third round of seeded changes ----

func init() {
	reg := registry["C05"]
	reg.Meta.Rules["C05.6"] = "a structure written into freshly allocated space is exactly as long as the allocation (size expressions of the allocation and of the written buffer agree)"
	reg.Rules = append(reg.Rules, c05allocFits)
}

// sizeExpr: canonical symbolic size (constant + field/parameter/pure-call terms).
func (c *Ctx) sizeExpr(v ssa.Value) (string, bool) {
	k, s, ok := c.posUnder(v, nil, 0)
	if !ok {
		return "", false
	}
	return posString(k, s), true
}

// writtenLenAt: in fn, the buffers written at the address parameter pa (Writer.WriteAt / WriteAtAddress / WriterAt.WriteAt).
func (c *Ctx) writtenLenAt(fn *ssa.Function, pa *ssa.Parameter) []ssa.Value {
	var out []ssa.Value
	for _, site := range callsIn(fn) {
		name := ""
		if site.Common().IsInvoke() {
			name = site.Common().Method.Name()
		} else if f := site.Common().StaticCallee(); f != nil {
			name = f.Name()
		}
		if name != "WriteAt" && name != "WriteAtAddress" {
			continue
		}
		args := site.Common().Args
		if len(args) < 2 {
			continue
		}
		addr := args[len(args)-1]
		for {
			if cv, ok := addr.(*ssa.Convert); ok {
				addr = cv.X
				continue
			}
			break
		}
		if addr != ssa.Value(pa) {
			continue
		}
		out = append(out, args[len(args)-2])
	}
	return out
}

func c05allocFits(c *Ctx, r *Result) {
	n := 0
	for _, fn := range c.LibFuncs() {
		pk := shortPkg(fnPkgPath(fn))
		if pk != "structures" && pk != "hdf5" && pk != "writer" && pk != "core" {
			continue
		}
		for _, site := range callsIn(fn) {
			if !strings.HasSuffix(callName(c, site), ".Allocate") {
				continue
			}
			call, ok := site.(*ssa.Call)
			if !ok {
				continue
			}
			size := call.Call.Args[len(call.Call.Args)-1]
			var addr ssa.Value
			for _, ref := range *call.Referrers() {
				if ex, isEx := ref.(*ssa.Extract); isEx && ex.Index == 0 {
					addr = ex
				}
			}
			if addr == nil {
				continue
			}
			nExpr, okN := c.sizeExpr(size)
			// uses of addr as the address argument of a module function that writes there
			for _, ref := range *addr.Referrers() {
				use, isCall := ref.(*ssa.Call)
				if !isCall {
					continue
				}
				callee := use.Call.StaticCallee()
				if callee == nil || !inModule(fnPkgPath(callee)) || len(callee.Blocks) == 0 {
					continue
				}
				for ai, a := range use.Call.Args {
					if a != addr || ai >= len(callee.Params) {
						continue
					}
					for _, buf := range c.writtenLenAt(callee, callee.Params[ai]) {
						mk, isMk := buf.(*ssa.MakeSlice)
						if !isMk {
							continue
						}
						lExpr, okL := c.sizeExpr(mk.Len)
						cons := c.Name(fn) + "~" + c.Name(callee) + "#allocation-equals-written-length"
						if !okN || !okL {
							r.Undec("C05.6", cons, c.InstrPos(call), "size expressions not resolved (allocated "+nExpr+", written "+lExpr+")")
							continue
						}
						n++
						r.Check(nExpr == lExpr, "C05.6", cons, c.InstrPos(call), "allocated "+nExpr+" bytes, "+c.Name(callee)+" writes "+lExpr+" bytes at that address (a longer write runs into the next allocation, a shorter one leaves a gap the size fields do not describe)")
					}
				}
			}
		}
	}
	if n < 2 {
		r.Shortfall(c, "C05.6", fmt.Sprintf("C05.6: only %d allocate-then-write pairs resolved", n))
	}
	r.Floor("C05.6", 2)
}

func init() {
	reg := registry["C05"]
	reg.Meta.Rules["C05.7"] = "where a function allocates space and writes a buffer at the returned address itself, the allocation is sized by that buffer: Allocate(len(buf)) with the same buf, or a size provably equal to its length"
	except("C05", "C05.7", "structures.WritableBTreeV2.WriteToFile#encodeLeafNode#allocation-sized-by-written-buffer", "deliberate: the leaf gets a full node (nodeSize) so that it can grow in place, while only the used part (calculateLeafSize) is written; used <= nodeSize because inserts beyond the node capacity are refused (C14.1 / calculateMaxRecords)")
	reg.Rules = append(reg.Rules, func(c *Ctx, r *Result) {
		n := 0
		for _, fn := range c.LibFuncs() {
			pk := shortPkg(fnPkgPath(fn))
			if pk != "hdf5" && pk != "structures" && pk != "writer" && pk != "core" {
				continue
			}
			fb := c.FB(fn)
			for _, site := range callsIn(fn) {
				call, ok := site.(*ssa.Call)
				if !ok {
					continue
				}
				name := ""
				if call.Call.IsInvoke() {
					name = call.Call.Method.Name()
				} else if f := call.Call.StaticCallee(); f != nil {
					name = f.Name()
				}
				if name != "WriteAtAddress" && name != "WriteAt" {
					continue
				}
				args := call.Call.Args
				if len(args) < 2 {
					continue
				}
				buf, addr := args[len(args)-2], stripConv(args[len(args)-1])
				if !isByteSlice(buf.Type()) {
					continue
				}
				// addr is exactly the first result of an Allocate call in this function
				ex, ok := addr.(*ssa.Extract)
				if !ok || ex.Index != 0 {
					continue
				}
				al, ok := ex.Tuple.(*ssa.Call)
				if !ok {
					continue
				}
				an := ""
				if al.Call.IsInvoke() {
					an = al.Call.Method.Name()
				} else if f := al.Call.StaticCallee(); f != nil {
					an = f.Name()
				}
				if an != "Allocate" || len(al.Call.Args) == 0 {
					continue
				}
				n++
				size := al.Call.Args[len(al.Call.Args)-1]
				prod := buf.Name()
				switch b := buf.(type) {
				case *ssa.Extract:
					if pc, ok := b.Tuple.(*ssa.Call); ok {
						prod = lastSeg(c.calleeName(pc))
					}
				case *ssa.Call:
					prod = lastSeg(c.calleeName(b))
				case *ssa.Parameter:
					prod = b.Name()
				default:
					prod = "buffer"
				}
				cons := c.Name(fn) + "#" + prod + "#allocation-sized-by-written-buffer"
				want := fb.lenOfOperand(buf)
				got := fb.lin(size)
				switch {
				case got.equal(want):
					r.Hold("C05.7", cons, c.InstrPos(call), "Allocate("+fb.linString(got)+") and the buffer written there has that length")
				default:
					// both sides constant-evaluable?
					gk, ok1 := c.constEval(size)
					if ok1 && want.isConst() {
						r.Check(gk == want.C, "C05.7", cons, c.InstrPos(call), "allocated "+itoa(int(gk))+" bytes, written "+itoa(int(want.C)))
						continue
					}
					// the buffer comes from an encoder that makes it with a size expression: compare the canonical size expressions
					if rv, _, isH := helperResult(scope{fn: fn, bind: map[ssa.Value]ssa.Value{}}, buf); isH {
						if mk, isMk := rv.(*ssa.MakeSlice); isMk {
							le, ok1 := c.sizeExpr(mk.Len)
							ne, ok2 := c.sizeExpr(size)
							if ok1 && ok2 && le != "" && le == ne {
								r.Hold("C05.7", cons, c.InstrPos(call), "allocated "+ne+" bytes; the encoder makes its buffer with the same size expression")
								continue
							}
						}
					}
					r.Viol("C05.7", cons, c.InstrPos(call), "the allocation is sized by "+fb.linString(got)+" but the buffer written at the returned address has length "+fb.linString(want)+": the two are computed separately and nothing ties them together (a longer buffer overwrites the next allocation)")
				}
			}
		}
		if n < 5 {
			r.Errorf("C05.7: only %d allocate-then-write sites found", n)
		}
	})
}

func isByteSlice(t types.Type) bool {
	s, ok := t.Underlying().(*types.Slice)
	if !ok {
		return false
	}
	b, ok := s.Elem().Underlying().(*types.Basic)
	return ok && b.Kind() == types.Byte
}

func init() {
	reg := registry["C05"]
	reg.Meta.Rules["C05.8"] = "the size recorded for a chunk in the chunk index is the length of the bytes stored at the recorded address (the buffer handed to WriteAtAddress with that address), not of an earlier form of the chunk"
	reg.Rules = append(reg.Rules, func(c *Ctx, r *Result) {
		fn := c.Fn(r, "hdf5.DatasetWriter.writeChunkedData")
		if fn == nil {
			return
		}
		fb := c.FB(fn)
		n := 0
		for _, site := range callsIn(fn) {
			if c.calleeName(site) != "structures.ChunkBTreeWriter.AddChunkWithSize" {
				continue
			}
			args := site.Common().Args
			if len(args) < 4 {
				continue
			}
			addr, size := args[2], args[3]
			var stored ssa.Value
			for _, s2 := range callsIn(fn) {
				if c.calleeName(s2) == "writer.FileWriter.WriteAtAddress" && stripConv(s2.Common().Args[2]) == stripConv(addr) {
					stored = s2.Common().Args[1]
				}
			}
			n++
			cons := c.Name(fn) + "#indexed-size-is-stored-length"
			if stored == nil {
				r.Viol("C05.8", cons, c.InstrPos(site.(ssa.Instruction)), "no WriteAtAddress stores bytes at the address recorded in the index")
				continue
			}
			same := fb.lin(size).equal(fb.lenOfOperand(stored))
			if of := lenOperand(size); of != nil && (of == stored || fb.lenOfOperand(of).equal(fb.lenOfOperand(stored))) {
				same = true // uint32(len(stored)): the narrowing is the format's field width
			}
			r.Check(same, "C05.8", cons, c.InstrPos(site.(ssa.Instruction)), "size in the index key = "+fb.linString(fb.lin(size))+", bytes stored at that address = "+fb.linString(fb.lenOfOperand(stored)))
		}
		if n == 0 {
			r.Undec("C05.8", c.Name(fn)+"#indexed-size-is-stored-length", c.Pos(fn.Pos()), "writeChunkedData does not call AddChunkWithSize")
		}
	})
}

func init() {
	reg := registry["C05"]
	reg.Meta.Rules["C05.9"] = "the bytes of a heap object are the bytes of that object: a slice the global heap writer retains until the collection is serialised is made for that element (shared with C12.6; a reused encode buffer makes earlier objects carry later contents while sizes and indices stay right)"
	reg.Rules = append(reg.Rules, func(c *Ctx, r *Result) {
		n := c.retainedArgsFresh(r, "C05.9", "hdf5", func(n string) bool { return strings.Contains(n, "globalHeap") }, "the object's bytes, until the collection is flushed")
		if n < 5 {
			r.Errorf("C05.9: only %d call sites of the heap writer found", n)
		}
	})
}

// mayReachUnderVersion: the blocks of fn reachable from entry when every comparison of the field `<recv>.Version` with a
// constant is folded for Version == v (other conditions may go either way).
func mayReachUnderVersion(fn *ssa.Function, v int64) map[*ssa.BasicBlock]bool {
	seen := map[*ssa.BasicBlock]bool{}
	if len(fn.Blocks) == 0 {
		return seen
	}
	isVersion := func(x ssa.Value) bool {
		x = stripConv(x)
		k, _ := fieldLoadKey(x)
		return strings.HasSuffix(k, ".Version")
	}
	work := []*ssa.BasicBlock{fn.Blocks[0]}
	for len(work) > 0 {
		b := work[len(work)-1]
		work = work[:len(work)-1]
		if seen[b] {
			continue
		}
		seen[b] = true
		succs := b.Succs
		if ifi, ok := b.Instrs[len(b.Instrs)-1].(*ssa.If); ok && len(b.Succs) == 2 {
			if cmp, ok := ifi.Cond.(*ssa.BinOp); ok && isCmp(cmp.Op) {
				var k int64
				var isK, dec bool
				if isVersion(cmp.X) {
					k, isK = constInt(cmp.Y)
					dec = isK
				}
				if dec {
					if evalCmp(cmp.Op, v, k) {
						succs = b.Succs[:1]
					} else {
						succs = b.Succs[1:]
					}
				}
			}
		}
		work = append(work, succs...)
	}
	return seen
}

func init() {
	reg := registry["C05"]
	reg.Meta.Rules["C05.10"] = "the superblock checksum follows every rewrite of the superblock: for each superblock version the full writer stores a checksum for (its version dispatch reaches a CRC computation), the end-of-file update recomputes it too (a version that shares the layout but is left out of the guard keeps a stale checksum)"
	reg.Rules = append(reg.Rules, func(c *Ctx, r *Result) {
		full := c.FnOpt("core.Superblock.WriteTo")
		upd := c.FnOpt("core.Superblock.UpdateEndOfFileAddress")
		if full == nil || upd == nil {
			r.Undec("C05.10", "core.Superblock#checksum-versions", "", "superblock writer / end-of-file updater not found")
			return
		}
		isCRC := func(site ssa.CallInstruction) bool {
			g := site.Common().StaticCallee()
			return g != nil && g.Pkg != nil && g.Pkg.Pkg.Path() == "hash/crc32"
		}
		reachesCRC := func(fn *ssa.Function, v int64, depth int) bool {
			var rec func(fn *ssa.Function, depth int) bool
			rec = func(fn *ssa.Function, depth int) bool {
				blocks := mayReachUnderVersion(fn, v)
				for _, site := range callsIn(fn) {
					if !blocks[site.(ssa.Instruction).Block()] {
						continue
					}
					if isCRC(site) {
						return true
					}
					if g := site.Common().StaticCallee(); g != nil && g.Blocks != nil && depth < 2 && strings.HasPrefix(c.Name(g), "core.Superblock.") {
						if rec(g, depth+1) {
							return true
						}
					}
				}
				return false
			}
			return rec(fn, depth)
		}
		n := 0
		for _, v := range []int64{0, 1, 2, 3} {
			w, u := reachesCRC(full, v, 0), reachesCRC(upd, v, 0)
			if !w && !u {
				continue
			}
			n++
			r.Check(!w || u, "C05.10", "core.Superblock.UpdateEndOfFileAddress#checksum-recomputed-for-version-"+itoa(int(v)), c.Pos(upd.Pos()), "superblock version "+itoa(int(v))+": the full writer stores a checksum; the end-of-file update must recompute it")
		}
		if n == 0 {
			r.Undec("C05.10", "core.Superblock#checksum-versions", c.Pos(full.Pos()), "no version reaches a CRC computation in the superblock writer")
		}
	})
}

// sameCursorLoad: a and b are `load(X) + k` with the same k for two loads of the same local variable X in one block, with no
// store to X and no call that could run a closure over X between them (a cursor that closures advance is spilled to memory
// by the SSA builder; two reads of it with nothing in between are one value).
func sameCursorLoad(a, b Lin) bool {
	if a.C != b.C || len(a.T) != 1 || len(b.T) != 1 {
		return false
	}
	var la, lb *ssa.UnOp
	for k, cf := range a.T {
		u, ok := k.(*ssa.UnOp)
		if !ok || cf != 1 || u.Op != token.MUL {
			return false
		}
		la = u
	}
	for k, cf := range b.T {
		u, ok := k.(*ssa.UnOp)
		if !ok || cf != 1 || u.Op != token.MUL {
			return false
		}
		lb = u
	}
	if la.X != lb.X || la.Block() != lb.Block() {
		return false
	}
	if _, isAlloc := la.X.(*ssa.Alloc); !isAlloc {
		return false
	}
	i, j := instrIndex(la), instrIndex(lb)
	if i > j {
		i, j = j, i
	}
	for _, in := range la.Block().Instrs[i:j] {
		switch x := in.(type) {
		case *ssa.Store:
			if x.Addr == la.X {
				return false
			}
		case *ssa.Call:
			if _, isBuiltin := x.Call.Value.(*ssa.Builtin); isBuiltin {
				continue
			}
			g := x.Call.StaticCallee()
			if g == nil || g.Parent() != nil || inModule(fnPkgPath(g)) {
				return false // a closure, a dynamic call or module code that may hold the closure
			}
		}
	}
	return true
}

// eofUpdatePred: instructions of fn that stand for "the superblock's end-of-file address is brought up to date": the update
// call itself; a test that involves the allocator's end of file whose "differs" arm reaches the update on every path that
// goes on to succeed; or a call of a root-package helper every successful return of which lies behind such an instruction.
func (c *Ctx) eofUpdatePred(fn *ssa.Function, depth int) func(ssa.Instruction) bool {
	return func(in ssa.Instruction) bool {
		switch x := in.(type) {
		case *ssa.Call:
			n := c.calleeName(x)
			if n == "core.Superblock.UpdateEndOfFileAddress" || n == "core.Superblock.WriteTo" {
				return true
			}
			if g := x.Call.StaticCallee(); g != nil && g.Blocks != nil && depth < 1 && shortPkg(fnPkgPath(g)) == "hdf5" && g != fn {
				rets := successReturns(g)
				if len(rets) == 0 {
					return false
				}
				p := c.eofUpdatePred(g, depth+1)
				for _, rt := range rets {
					if !mustPrecede(rt, p) {
						return false
					}
				}
				// and the helper does contain the update
				for _, s2 := range callsIn(g) {
					if c.calleeName(s2) == "core.Superblock.UpdateEndOfFileAddress" {
						return true
					}
				}
			}
		case *ssa.If:
			if !condMentionsEOF(c, x.Cond, 0) {
				return false
			}
			differ := x.Block().Succs[0]
			if bo, ok := x.Cond.(*ssa.BinOp); ok && bo.Op == token.EQL {
				differ = x.Block().Succs[1]
			}
			return armAlwaysCalls(c, differ, fn, "core.Superblock.UpdateEndOfFileAddress")
		}
		return false
	}
}

// narrowingRule: on the writing side (everything that is not reachable from the read API), a conversion of a non-constant
// integer to a narrower unsigned type keeps the value: the operand is proven to fit the target type where it is converted
// (type interval, dominating tests, callee summaries). Not-decided conversions (deliberate truncations such as
// byte(v >> 8) among them) are frozen per function in baselines/narrowing.json; growth is reported.
func narrowingRule(c *Ctx, r *Result, rule string) { narrowingRuleScoped(c, r, rule, nil) }

// narrowingRuleScoped: the same restricted to the functions selected by scope (sharing under the property that owns them).
func narrowingRuleScoped(c *Ctx, r *Result, rule string, scope func(string) bool) {
	readers := c.readerSet(r)
	per := map[string][]undecidedItem{}
	perNeg := map[string][]undecidedItem{}
	n := 0
	for _, fn := range c.LibFuncs() {
		if readers[fn] || fn.Blocks == nil {
			continue
		}
		pk := shortPkg(fnPkgPath(fn))
		if pk != "hdf5" && pk != "core" && pk != "structures" && pk != "writer" {
			continue
		}
		if scope != nil && !scope(c.Name(fn)) {
			continue
		}
		fb := c.FB(fn)
		instrs(fn, func(in ssa.Instruction) {
			cv, ok := in.(*ssa.Convert)
			if !ok {
				return
			}
			to, ok1 := cv.Type().Underlying().(*types.Basic)
			from, ok2 := cv.X.Type().Underlying().(*types.Basic)
			if !ok1 || !ok2 || to.Info()&types.IsUnsigned == 0 || from.Info()&types.IsInteger == 0 {
				return
			}
			tb, fbits := basicBits(to), basicBits(from)
			if tb == 0 || tb >= 64 || (fbits != 0 && fbits <= tb && from.Info()&types.IsUnsigned != 0) {
				return
			}
			if _, isK := cv.X.(*ssa.Const); isK {
				return
			}
			n++
			_, thi := fb.typeRange(cv.Type())
			lo, hi := fb.rng(cv.X)
			if from.Info()&types.IsUnsigned == 0 && lo < 0 && !fb.ProveGE0At(fb.lin(cv.X), cv) {
				perNeg[c.Name(fn)] = append(perNeg[c.Name(fn)], undecidedItem{c.InstrPos(cv), "conversion to " + to.Name() + ": operand " + fb.linString(fb.lin(cv.X)) + " is not shown to be >= 0"})
			}
			if hi <= thi {
				return
			}
			if fb.ProveGE0At(linConst(thi).add(fb.lin(cv.X), -1), cv) {
				return
			}
			per[c.Name(fn)] = append(per[c.Name(fn)], undecidedItem{c.InstrPos(cv), "conversion to " + to.Name() + ": operand " + fb.linString(fb.lin(cv.X)) + " is not shown to be <= " + itoa64(thi)})
		})
	}
	if (scope == nil && n < 50) || n < 1 {
		r.Shortfall(c, rule, fmt.Sprintf("%s: only %d narrowing conversions examined on the writing side", rule, n))
	}
	r.Notef("%s: %d narrowing conversions examined", rule, n)
	baselineReadOnly = scope != nil
	r.ApplyBaselineFile(verifDirGlobal, "narrowing", rule, "narrowing-conversion", per)
	r.ApplyBaselineFile(verifDirGlobal, "narrowing-neg", rule, "possibly-negative-conversion", perNeg)
	baselineReadOnly = false
}

func init() {
	txt := "a size, count or offset written into a narrower field fits it: on the writing side every conversion of a non-constant integer to a narrower unsigned type has its operand proven within the target type where it happens (a header of exactly 256 bytes whose length goes through byte() is written as length 0); conversions that are not decided are frozen per function and only growth is reported"
	registry["C05"].Meta.Rules["C05.11"] = txt
	registry["C05"].Rules = append(registry["C05"].Rules, func(c *Ctx, r *Result) { narrowingRule(c, r, "C05.11") })
	registry["C01"].Meta.Rules["C01.12"] = txt + " (shared with C05.11)"
	registry["C01"].Rules = append(registry["C01"].Rules, func(c *Ctx, r *Result) { narrowingRule(c, r, "C01.12") })
}
