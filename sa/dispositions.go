package main

// Frozen exceptions: rule instances that a rule reports on the reviewed tree and that were
// confirmed BY READING to be correct code. One construct, one reason. No wildcards.
// Genuine defects are never listed here; they go to /verif/known_findings.txt.
var exceptions = map[string]string{}

func except(prop, rule, construct, reason string) {
	exceptions[prop+" "+rule+" "+construct] = reason
}

func exceptionFor(prop, rule, construct string) (string, bool) {
	r, ok := exceptions[prop+" "+rule+" "+construct]
	return r, ok
}
