package main

import (
	"sort"
	"strings"

	"golang.org/x/tools/go/ssa"
)

// effSpec: expected direct effects of one operation on the fields under the watched prefixes.
// value syntax per field: comma separated classes; a class may carry a group "@g" (all members of a group
// must change by the same symbolic amount); "any" = stored, class not checked; fields under the watched
// prefixes that are absent from the spec must not be stored at all.
type effSpec map[string]string

// checkEffects compares the direct effects of fn with the spec (the model's accounting equations).
func (c *Ctx) checkEffects(r *Result, rule string, fn *ssa.Function, spec effSpec, prefixes ...string) {
	if fn == nil {
		return
	}
	name := c.Name(fn)
	per, _ := c.effectSignature(fn, prefixes...)
	groups := map[string]interface{}{}
	groupName := map[string]string{}
	for _, key := range sortedKeys(per) {
		stores := per[key]
		want, ok := spec[key]
		if !ok {
			r.Viol(rule, name+"#"+key+"#unexpected-store", c.InstrPos(stores[0].In), "the operation's model does not change this field, but the function stores to it")
			continue
		}
		if want == "any" {
			r.Hold(rule, name+"#"+key, c.InstrPos(stores[0].In), "stored (value class not constrained)")
			continue
		}
		var wantCls []string
		wantGroup := map[string]string{}
		for _, w := range strings.Split(want, ",") {
			cls, g, _ := strings.Cut(w, "@")
			wantCls = append(wantCls, cls)
			if g != "" {
				wantGroup[cls] = g
			}
		}
		var got []string
		for _, s := range stores {
			cl := s.Class
			if s.Kind != "set" {
				cl = s.Kind
			}
			got = append(got, cl)
		}
		sort.Strings(got)
		sort.Strings(wantCls)
		if strings.Join(got, ",") != strings.Join(wantCls, ",") {
			r.Viol(rule, name+"#"+key+"#wrong-update", c.InstrPos(stores[0].In), "model expects this field to change by ["+strings.Join(wantCls, ",")+"], the function changes it by ["+strings.Join(got, ",")+"]")
			continue
		}
		okGroup := true
		for _, s := range stores {
			g := wantGroup[s.Class]
			if g == "" || s.SymK == nil {
				continue
			}
			if prev, seen := groups[g]; seen {
				if prev != s.SymK {
					okGroup = false
					r.Viol(rule, name+"#"+key+"#different-amount", c.InstrPos(s.In), "fields of one accounting group must change by the same amount: "+groupName[g]+" vs "+s.Sym)
				}
			} else {
				groups[g] = s.SymK
				groupName[g] = s.Sym
			}
		}
		if okGroup {
			r.Hold(rule, name+"#"+key, c.InstrPos(stores[0].In), "changes by ["+strings.Join(got, ",")+"] as the model requires")
		}
	}
	for _, key := range sortedKeys(spec) {
		if _, ok := per[key]; !ok && spec[key] != "any" && spec[key] != "opt" {
			r.ViolMissing(c, fn, rule, name+"#"+key+"#missing-update", c.Pos(fn.Pos()), "model expects this field to change by ["+spec[key]+"], the function never stores to it")
		}
	}
}

// checkNoErrorAfterStore: an operation that reports failure must not have changed content first:
// no content store (fields under prefixes, or calls to the named mutators) can reach a return of a non-nil error.
func (c *Ctx) checkNoErrorAfterStore(r *Result, rule string, fn *ssa.Function, mutatorCall func(name string) bool, ioExempt bool, prefixes ...string) {
	if fn == nil {
		return
	}
	name := c.Name(fn)
	var muts []ssa.Instruction
	for _, fs := range c.DirectFieldStores(fn) {
		if fs.Fn == fn && hasPrefixAny(fs.Key, prefixes...) {
			muts = append(muts, fs.In)
		}
	}
	if mutatorCall != nil {
		for _, site := range callsIn(fn) {
			if _, isDefer := site.(*ssa.Defer); isDefer {
				continue
			}
			if c.siteReaches(site, mutatorCall) {
				muts = append(muts, site)
			}
		}
	}
	errs := errorReturns(fn)
	idx := errResultIndex(fn.Signature)
	n := 0
	for _, ret := range errs {
		// classify the error: wrapping an I/O primitive's failure is exempt when ioExempt
		srcs := errorSources(retOperand(ret, idx))
		logical := false
		var srcNames []string
		for _, s := range srcs {
			if s.Fresh {
				logical = true
				srcNames = append(srcNames, "constructed error")
				continue
			}
			if ioExempt && c.ioPrimitiveCall(s.Call) {
				continue
			}
			if f := s.Call.Call.StaticCallee(); f != nil && f.Blocks != nil && len(errorReturns(f)) == 0 {
				continue // the callee has no failure exit at all
			}
			logical = true
			srcNames = append(srcNames, c.calleeName(s.Call))
		}
		if len(srcs) == 0 {
			logical = true
		}
		if !logical {
			continue
		}
		var first ssa.Instruction
		for _, m := range muts {
			if call, ok := m.(*ssa.Call); ok {
				// the failing call itself is not "before" its own error
				self := false
				for _, s := range srcs {
					if s.Call == call {
						self = true
					}
				}
				if self {
					continue
				}
			}
			if canReach(m, ret) {
				if first == nil || posLess(m, first) {
					first = m
				}
			}
		}
		n++
		construct := name + "#error-return(" + strings.Join(srcNames, "|") + ")"
		if first != nil {
			r.Viol(rule, construct+"#after-mutation", c.InstrPos(ret), "this failure exit is reachable after content was already changed at "+c.InstrPos(first))
		} else {
			r.Hold(rule, construct, c.InstrPos(ret), "no content change can precede this failure exit")
		}
	}
	if n == 0 {
		r.Hold(rule, name+"#no-logical-error-return", c.Pos(fn.Pos()), "function has no logical failure exits")
	}
}
