package main

import (
	"fmt"
	"go/token"
	"go/types"
	"os"
	"sort"
	"strings"

	"golang.org/x/tools/go/callgraph"
	"golang.org/x/tools/go/callgraph/cha"
	"golang.org/x/tools/go/callgraph/vta"
	"golang.org/x/tools/go/packages"
	"golang.org/x/tools/go/ssa"
	"golang.org/x/tools/go/ssa/ssautil"
)

const modPath = "github.com/scigolib/hdf5"

// Ctx is the resolved program every rule works on.
type Ctx struct {
	Repo       string
	Tier       string
	Tags       string
	GOARCH     string
	Fset       *token.FileSet
	Pkgs       []*packages.Package
	PkgByID    map[string]*packages.Package // short id ("hdf5", "core", ...) -> package
	Prog       *ssa.Program
	SSAPkg     map[string]*ssa.Package // short id -> ssa package
	CG         *callgraph.Graph
	ioFreeMemo map[*ssa.Function]bool
	// strictNarrow: 8/16-bit arithmetic is linear only where it provably does not wrap (set by the C07 rules, which reason
	// about values taken straight from file bytes; the effect models of other properties keep the idealised view)
	strictNarrow bool
	Funcs        map[string]*ssa.Function // short name -> function (module functions incl. anonymous)
	AllFuncs     []*ssa.Function          // module functions, deterministic order
	nameOf       map[*ssa.Function]string
	cache        map[string]interface{}
}

// shortPkg maps an import path of the module to the short id used in constructs.
func shortPkg(path string) string {
	if path == modPath {
		return "hdf5"
	}
	if strings.HasPrefix(path, modPath+"/internal/") {
		return strings.TrimPrefix(path, modPath+"/internal/")
	}
	if strings.HasPrefix(path, modPath+"/") {
		return strings.TrimPrefix(path, modPath+"/")
	}
	return path
}

func inModule(path string) bool {
	return path == modPath || strings.HasPrefix(path, modPath+"/")
}

// libPackage reports whether the package is library code (not cmd/, examples/, scripts/).
func libPackage(path string) bool {
	if path == modPath {
		return true
	}
	return strings.HasPrefix(path, modPath+"/internal/") && path != modPath+"/internal/testing"
}

// Load type-checks ./... of repo with the real build's configuration and builds SSA + VTA call graph.
func Load(repo, tier, tags, goarch string) (*Ctx, error) {
	env := os.Environ()
	if _, err := os.Stat("/opt/veriftools/go1.26.8/bin/go"); err == nil {
		if !strings.HasPrefix(os.Getenv("PATH"), "/opt/veriftools/go1.26.8/bin:") {
			os.Setenv("PATH", "/opt/veriftools/go1.26.8/bin:"+os.Getenv("PATH"))
		}
		env = os.Environ()
	}
	env = append(env, "GOWORK=off", "GOFLAGS=-mod=mod", "GOPROXY=off", "GOTOOLCHAIN=local", "CGO_ENABLED=0")
	if goarch != "" {
		env = append(env, "GOARCH="+goarch)
	}
	cfg := &packages.Config{
		Mode:  packages.LoadAllSyntax,
		Dir:   repo,
		Env:   env,
		Tests: false,
	}
	if tags != "" {
		cfg.BuildFlags = []string{"-tags=" + tags}
	}
	pkgs, err := packages.Load(cfg, "./...")
	if err != nil {
		return nil, fmt.Errorf("packages.Load: %w", err)
	}
	var nerr int
	var firstErr string
	packages.Visit(pkgs, nil, func(p *packages.Package) {
		for _, e := range p.Errors {
			nerr++
			if firstErr == "" {
				firstErr = e.Error()
			}
		}
	})
	if nerr > 0 {
		return nil, fmt.Errorf("%d load/type errors, first: %s", nerr, firstErr)
	}
	c := &Ctx{Repo: repo, Tier: tier, Tags: tags, GOARCH: goarch,
		PkgByID: map[string]*packages.Package{}, SSAPkg: map[string]*ssa.Package{},
		Funcs: map[string]*ssa.Function{}, nameOf: map[*ssa.Function]string{}, cache: map[string]interface{}{}}
	sort.Slice(pkgs, func(i, j int) bool { return pkgs[i].PkgPath < pkgs[j].PkgPath })
	c.Pkgs = pkgs
	nlib := 0
	for _, p := range pkgs {
		if !inModule(p.PkgPath) {
			continue
		}
		c.PkgByID[shortPkg(p.PkgPath)] = p
		if libPackage(p.PkgPath) {
			nlib++
		}
		if c.Fset == nil {
			c.Fset = p.Fset
		}
	}
	if len(pkgs) < 18 {
		return nil, fmt.Errorf("only %d packages loaded (expected >= 18)", len(pkgs))
	}
	if nlib < 6 {
		return nil, fmt.Errorf("only %d library packages loaded (expected >= 6)", nlib)
	}
	prog, ssapkgs := ssautil.AllPackages(pkgs, ssa.InstantiateGenerics)
	prog.Build()
	c.Prog = prog
	for i, p := range pkgs {
		if ssapkgs[i] != nil && inModule(p.PkgPath) {
			c.SSAPkg[shortPkg(p.PkgPath)] = ssapkgs[i]
		}
	}
	all := ssautil.AllFunctions(prog)
	c.CG = vta.CallGraph(all, cha.CallGraph(prog))
	for fn := range all {
		if fn.Pkg == nil && fn.Parent() == nil && fn.Origin() == nil {
			// wrappers/thunks without package (instantiations of generic functions have an origin and are kept)
			continue
		}
		pk := fnPkgPath(fn)
		if !inModule(pk) {
			continue
		}
		if fn.Synthetic != "" && fn.Parent() == nil {
			// skip wrappers, bound methods, init synthesized — except package init
			// ... and instantiations of generic functions, which carry the code that runs
			if fn.Name() != "init" && !strings.HasPrefix(fn.Synthetic, "instance of") {
				continue
			}
		}
		n := shortFuncName(fn)
		if _, dup := c.Funcs[n]; dup {
			continue
		}
		c.Funcs[n] = fn
		c.nameOf[fn] = n
		c.AllFuncs = append(c.AllFuncs, fn)
	}
	sort.Slice(c.AllFuncs, func(i, j int) bool { return c.nameOf[c.AllFuncs[i]] < c.nameOf[c.AllFuncs[j]] })
	return c, nil
}

func fnPkgPath(fn *ssa.Function) string {
	for f := fn; f != nil; f = f.Parent() {
		if f.Pkg != nil {
			return f.Pkg.Pkg.Path()
		}
		if f.Object() != nil && f.Object().Pkg() != nil {
			return f.Object().Pkg().Path()
		}
	}
	return ""
}

// shortFuncName: core.ParseX, hdf5.FileWriter.Close, hdf5.FileWriter.Close$1
func shortFuncName(fn *ssa.Function) string {
	if fn.Parent() != nil {
		// anonymous: parent name + suffix of own name after last '$'
		nm := fn.Name()
		if i := strings.LastIndex(nm, "$"); i >= 0 {
			nm = nm[i:]
		} else {
			nm = "$" + nm
		}
		return shortFuncName(fn.Parent()) + nm
	}
	pk := shortPkg(fnPkgPath(fn))
	if recv := fn.Signature.Recv(); recv != nil {
		t := recv.Type()
		if p, ok := t.(*types.Pointer); ok {
			t = p.Elem()
		}
		if n, ok := t.(*types.Named); ok {
			return pk + "." + n.Obj().Name() + "." + fn.Name()
		}
	}
	return pk + "." + fn.Name()
}

func (c *Ctx) Name(fn *ssa.Function) string {
	if fn == nil {
		return "<nil>"
	}
	if n, ok := c.nameOf[fn]; ok {
		return n
	}
	if fn.Pkg != nil || fn.Parent() != nil || fn.Object() != nil {
		return shortFuncName(fn)
	}
	return fn.String()
}

// Fn resolves a named anchor; unresolved anchors are checker errors.
func (c *Ctx) Fn(r *Result, name string) *ssa.Function {
	fn := c.Funcs[name]
	if fn == nil {
		r.Errorf("anchor function %q does not resolve", name)
	}
	return fn
}

// FnOpt resolves without error.
func (c *Ctx) FnOpt(name string) *ssa.Function { return c.Funcs[name] }

func (c *Ctx) Pos(p token.Pos) string {
	if !p.IsValid() {
		return "-"
	}
	pp := c.Fset.Position(p)
	f := pp.Filename
	if strings.HasPrefix(f, c.Repo+"/") {
		f = strings.TrimPrefix(f, c.Repo+"/")
	}
	return fmt.Sprintf("%s:%d", f, pp.Line)
}

// InstrPos gives the best available position for an instruction.
func (c *Ctx) InstrPos(in ssa.Instruction) string {
	if in == nil {
		return "-"
	}
	if p := in.Pos(); p.IsValid() {
		return c.Pos(p)
	}
	// fall back to any operand position / function position
	if v, ok := in.(ssa.Value); ok {
		for _, ref := range *v.Referrers() {
			if p := ref.Pos(); p.IsValid() {
				return c.Pos(p)
			}
		}
	}
	if in.Parent() != nil {
		return c.Pos(in.Parent().Pos())
	}
	return "-"
}

// NamedType finds a named type of a module package by short id.
func (c *Ctx) NamedType(r *Result, pkg, name string) *types.Named {
	p := c.PkgByID[pkg]
	if p == nil {
		r.Errorf("anchor package %q does not resolve", pkg)
		return nil
	}
	o := p.Types.Scope().Lookup(name)
	if o == nil {
		r.Errorf("anchor type %s.%s does not resolve", pkg, name)
		return nil
	}
	n, ok := o.Type().(*types.Named)
	if !ok {
		r.Errorf("anchor %s.%s is not a named type", pkg, name)
		return nil
	}
	return n
}

// Field resolves a struct field var.
func (c *Ctx) Field(r *Result, pkg, typ, field string) *types.Var {
	n := c.NamedType(r, pkg, typ)
	if n == nil {
		return nil
	}
	st, ok := n.Underlying().(*types.Struct)
	if !ok {
		r.Errorf("anchor %s.%s is not a struct", pkg, typ)
		return nil
	}
	for i := 0; i < st.NumFields(); i++ {
		if st.Field(i).Name() == field {
			return st.Field(i)
		}
	}
	r.Errorf("anchor field %s.%s.%s does not resolve", pkg, typ, field)
	return nil
}

// LibFuncs returns the library functions (root package + internal/*), named ones and closures.
func (c *Ctx) LibFuncs() []*ssa.Function {
	var out []*ssa.Function
	for _, fn := range c.AllFuncs {
		if libPackage(fnPkgPath(fn)) && fn.Blocks != nil {
			out = append(out, fn)
		}
	}
	return out
}

// Callees returns the resolved callees of a call site: the static callee if any, else VTA edges.
func (c *Ctx) Callees(site ssa.CallInstruction) []*ssa.Function {
	if f := site.Common().StaticCallee(); f != nil {
		return []*ssa.Function{f}
	}
	n := c.CG.Nodes[site.Parent()]
	if n == nil {
		return nil
	}
	var out []*ssa.Function
	for _, e := range n.Out {
		if e.Site == site && e.Callee != nil {
			out = append(out, e.Callee.Func)
		}
	}
	return out
}

// Reach computes the set of functions reachable from roots over the call graph
// (closures created inside a reachable function are included: they are reachable via MakeClosure).
func (c *Ctx) Reach(roots []*ssa.Function, stop func(*ssa.Function) bool) map[*ssa.Function]bool {
	seen := map[*ssa.Function]bool{}
	var work []*ssa.Function
	push := func(f *ssa.Function) {
		if f == nil || seen[f] {
			return
		}
		if stop != nil && stop(f) {
			return
		}
		seen[f] = true
		work = append(work, f)
	}
	for _, r := range roots {
		push(r)
	}
	for len(work) > 0 {
		f := work[len(work)-1]
		work = work[:len(work)-1]
		if n := c.CG.Nodes[f]; n != nil {
			for _, e := range n.Out {
				push(e.Callee.Func)
			}
		}
		for _, af := range f.AnonFuncs {
			push(af)
		}
	}
	return seen
}

// ExportedMethods returns exported methods (pointer and value receivers) of a named type.
func (c *Ctx) ExportedMethods(n *types.Named) []*ssa.Function {
	var out []*ssa.Function
	for _, t := range []types.Type{n, types.NewPointer(n)} {
		ms := c.Prog.MethodSets.MethodSet(t)
		for i := 0; i < ms.Len(); i++ {
			sel := ms.At(i)
			if !sel.Obj().Exported() {
				continue
			}
			fn := c.Prog.MethodValue(sel)
			if fn == nil {
				continue
			}
			// unwrap synthetic wrappers to the declared method
			if fn.Synthetic != "" {
				if o, ok := sel.Obj().(*types.Func); ok {
					if d := c.Prog.FuncValue(o); d != nil {
						fn = d
					}
				}
			}
			dup := false
			for _, x := range out {
				if x == fn {
					dup = true
				}
			}
			if !dup {
				out = append(out, fn)
			}
		}
	}
	sort.Slice(out, func(i, j int) bool { return c.Name(out[i]) < c.Name(out[j]) })
	return out
}
