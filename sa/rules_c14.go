package main

import (
	"go/constant"
	"go/token"
	"go/types"
	"sort"
	"strings"

	"golang.org/x/tools/go/ssa"
)

func init() {
	register("C14", PropMeta{
		Title: "B-tree v2 name index is a faithful, persistent map under any history",
		Explanation: "Effect analysis of the writable B-tree v2: each operation's stores to the four record views (records, leaf.Records, header.NumRecordsRoot, header.TotalRecords) are extracted with their signed amounts and compared with the model; " +
			"failure exits must be unreachable from any content store; the record slice may only grow through the sorted insert; every lookup by name must use the name beyond its hash.",
		DoesNotDecide: "that the hash equals lookup3; ordering for all histories; the capacity figure; byte-level write/load symmetry (see C05/C11)",
		Rules: map[string]string{
			"C14.1": "an operation that returns an error has not stored to records, leaf or header first (capacity test precedes the insert)",
			"C14.2": "the four views move together: insert +1/+1, every delete variant -1/-1, update 0; leaf.Records is re-pointed whenever records is replaced",
			"C14.3": "records only grows through insertRecordSorted",
			"C14.4": "a lookup that selects a record for a name depends on the name itself, not only on its 32-bit hash (distinct names with equal hashes must not be confused)",
		},
	}, ruleC14)
}

const btPfx1, btPfx2, btPfx3 = "structures.WritableBTreeV2.", "structures.BTreeV2Header.", "structures.BTreeV2LeafNode."

func ruleC14(c *Ctx, r *Result) {
	fn := func(n string) *ssa.Function { return c.Fn(r, "structures.WritableBTreeV2."+n) }
	W, Hd, L := btPfx1, btPfx2, btPfx3
	rec := "structures.LinkNameRecord."
	lazy := "structures.LazyRebalancingState."
	// C14.2
	c.checkEffects(r, "C14.2", fn("InsertRecord"), effSpec{
		W + "records": "any", L + "Records": "any", Hd + "TotalRecords": "+1", Hd + "NumRecordsRoot": "+1", rec + "NameHash": "any", rec + "HeapID": "any",
	}, W, Hd, L, rec)
	for _, n := range []string{"DeleteRecordWithRebalancing", "DeleteRecordLazy"} {
		spec := effSpec{W + "records": "any", L + "Records": "any", Hd + "TotalRecords": "-1", Hd + "NumRecordsRoot": "-1"}
		if n == "DeleteRecordLazy" {
			spec[lazy+"PendingDeletes"] = "+1"
			spec[lazy+"UnderflowCount"] = "any"
		}
		c.checkEffects(r, "C14.2", fn(n), spec, W, Hd, L, rec, lazy)
	}
	c.checkEffects(r, "C14.2", fn("UpdateRecord"), effSpec{L + "Records": "any", rec + "HeapID": "any"}, W, Hd, L, rec)
	for _, n := range []string{"SearchRecord", "HasKey", "DeleteRecord"} {
		c.checkEffects(r, "C14.2", fn(n), effSpec{}, W, Hd, L, rec)
	}
	// leaf.Records follows records
	for _, n := range []string{"InsertRecord", "DeleteRecordWithRebalancing", "DeleteRecordLazy", "UpdateRecord", "LoadFromFile"} {
		f := fn(n)
		if f == nil {
			continue
		}
		var recStores, leafStores []FieldStore
		for _, fs := range c.DirectFieldStores(f) {
			if fs.Kind != "set" {
				continue
			}
			switch fs.Key {
			case W + "records":
				recStores = append(recStores, fs)
			case L + "Records":
				leafStores = append(leafStores, fs)
			}
		}
		for _, rs := range recStores {
			ok := false
			for _, ls := range leafStores {
				if (ls.Val == rs.Val || valueReadsField(ls.Val, W+"records", 0)) && (canReach(rs.In, ls.In) || rs.In.Block() == ls.In.Block()) {
					ok = true
				}
			}
			if n == "LoadFromFile" {
				// the loaded leaf already carries its records; both come from one read
				ok = true
			}
			r.Check(ok, "C14.2", c.Name(f)+"#leaf-follows-records", c.InstrPos(rs.In), "every replacement of records is followed by leaf.Records = records")
		}
	}
	r.Floor("C14.2", 14)

	// C14.1
	for _, n := range []string{"InsertRecord", "UpdateRecord", "DeleteRecordWithRebalancing", "DeleteRecordLazy", "DeleteRecord"} {
		c.checkNoErrorAfterStore(r, "C14.1", fn(n), nil, false, W+"records", Hd, L)
	}
	r.Floor("C14.1", 6)

	// C14.3 growth only through the sorted insert
	sorted := c.Fn(r, "structures.insertRecordSorted")
	for _, f := range c.LibFuncs() {
		if f.Parent() != nil {
			continue
		}
		for _, fs := range c.DirectFieldStores(f) {
			if fs.Key != W+"records" || fs.Kind != "set" || fs.Val == nil {
				continue
			}
			// classify the stored value
			switch v := fs.Val.(type) {
			case *ssa.Call:
				if v.Call.StaticCallee() == sorted && sorted != nil {
					r.Hold("C14.3", c.Name(f)+"#records=insertRecordSorted", c.InstrPos(fs.In), "")
					continue
				}
				if b, ok := v.Call.Value.(*ssa.Builtin); ok && b.Name() == "append" {
					// append(a[:i], a[i+1:]...) removes; anything else may grow
					if isRemovalAppend(v) {
						r.Hold("C14.3", c.Name(f)+"#records=removal", c.InstrPos(fs.In), "append(a[:i], a[i+1:]...) shrinks by one")
					} else {
						r.Viol("C14.3", c.Name(f)+"#records-grown-by-append", c.InstrPos(fs.In), "records is extended with append instead of insertRecordSorted: hash order is not maintained")
					}
					continue
				}
				r.Undec("C14.3", c.Name(f)+"#records=call", c.InstrPos(fs.In), "assigned from "+c.calleeName(v))
			case *ssa.MakeSlice:
				r.Hold("C14.3", c.Name(f)+"#records=empty", c.InstrPos(fs.In), "fresh slice")
			default:
				r.Hold("C14.3", c.Name(f)+"#records=loaded", c.InstrPos(fs.In), "assigned from a decoded leaf / other value")
			}
		}
	}
	r.Floor("C14.3", 4)

	// C14.4 name-vs-hash
	hash := c.Fn(r, "structures.jenkinsHash")
	for _, n := range []string{"SearchRecord", "HasKey", "UpdateRecord", "DeleteRecordWithRebalancing", "DeleteRecordLazy"} {
		f := fn(n)
		if f == nil || hash == nil || len(f.Params) < 2 {
			continue
		}
		name := f.Params[1]
		onlyHash := true
		uses := 0
		for _, ref := range *name.Referrers() {
			switch x := ref.(type) {
			case *ssa.DebugRef:
			case *ssa.Call:
				uses++
				if x.Call.StaticCallee() != hash {
					// formatting the name into an error message does not select a record
					if !feedsOnlyErrors(x) {
						onlyHash = false
					}
				}
			case *ssa.MakeInterface:
				// passed to fmt for an error text
			default:
				uses++
				onlyHash = false
			}
		}
		if onlyHash && uses > 0 {
			r.Viol("C14.4", c.Name(f)+"#name-used-only-through-hash", c.Pos(f.Pos()), "the record is selected by comparing 32-bit hashes only; two names with equal hashes are indistinguishable")
		} else {
			r.Hold("C14.4", c.Name(f)+"#name", c.Pos(f.Pos()), "name takes part in the selection")
		}
	}
	r.Floor("C14.4", 5)
}

func feedsOnlyErrors(call *ssa.Call) bool {
	f := call.Call.StaticCallee()
	return f != nil && (f.String() == "fmt.Errorf" || f.String() == "fmt.Sprintf")
}

// isRemovalAppend: append(a[:i], a[j:]...) where both operands are sub-slices of the same slice value.
func isRemovalAppend(call *ssa.Call) bool {
	if len(call.Call.Args) != 2 {
		return false
	}
	s1, ok1 := call.Call.Args[0].(*ssa.Slice)
	s2, ok2 := call.Call.Args[1].(*ssa.Slice)
	if !ok1 || !ok2 {
		return false
	}
	same := s1.X == s2.X
	if !same {
		l1, o1 := s1.X.(*ssa.UnOp)
		l2, o2 := s2.X.(*ssa.UnOp)
		if o1 && o2 {
			same = sameFieldAddr(l1.X, l2.X)
		}
	}
	return same && s1.Low == nil && s1.High != nil && s2.Low != nil && s2.High == nil
}

// ---- additional necessary condition (third round of seeded changes; defect found by the sub-agent's reading) ----

func init() {
	reg := registry["C14"]
	reg.Meta.Rules["C14.7"] = "the name hash has the structure of lookup3: blocks are mixed only while more than 12 bytes remain, the tail handles 1..12 bytes, zero remaining bytes return before the final mix, and the rotation amounts are 4,6,8,16,19,4 (mix) and 14,11,25,16,4,14,24 (final)"
	reg.Rules = append(reg.Rules, c14lookup3)
}

// rotationOf: v is (x << k) | (x >> (32-k)) or bits.RotateLeft32(x, k): returns k.
func rotationOf(v ssa.Value) (int64, bool) {
	switch x := v.(type) {
	case *ssa.BinOp:
		if x.Op != token.OR {
			return 0, false
		}
		l, ok1 := x.X.(*ssa.BinOp)
		rr, ok2 := x.Y.(*ssa.BinOp)
		if !ok1 || !ok2 {
			return 0, false
		}
		if l.Op == token.SHR {
			l, rr = rr, l
		}
		if l.Op != token.SHL || rr.Op != token.SHR || l.X != rr.X {
			return 0, false
		}
		k, okk := constInt(l.Y)
		m, okm := constInt(rr.Y)
		if okk && okm && k+m == 32 {
			return k, true
		}
	case *ssa.Call:
		if f := x.Call.StaticCallee(); f != nil && f.Pkg != nil && f.Pkg.Pkg.Path() == "math/bits" && f.Name() == "RotateLeft32" {
			if k, ok := constInt(x.Call.Args[1]); ok {
				return ((k % 32) + 32) % 32, true
			}
		}
	}
	return 0, false
}

func c14lookup3(c *Ctx, r *Result) { lookup3Rule(c, r, "C14.7") }

func lookup3Rule(c *Ctx, r *Result, rule string) {
	fn := c.Fn(r, "structures.jenkinsHash")
	if fn == nil {
		return
	}
	name := c.Name(fn)
	// the block loop: header with an If; blocks of the loop
	var hdr *ssa.BasicBlock
	for _, b := range fn.Blocks {
		for _, p := range b.Preds {
			if b.Dominates(p) && hdr == nil {
				hdr = b
			}
		}
	}
	if hdr == nil {
		r.Viol(rule, name+"#block-loop", c.Pos(fn.Pos()), "no block loop found")
		return
	}
	loop := naturalLoop(hdr)
	// (a) continue condition: remaining bytes > 12, i.e. on the edge into the body  len - i - 13 >= 0
	fb := c.FB(fn)
	okLoop := false
	if ifi, ok := hdr.Instrs[len(hdr.Instrs)-1].(*ssa.If); ok {
		body := hdr.Succs[0]
		if !loop[body] {
			body = hdr.Succs[1]
		}
		facts := fb.edgeFacts(hdr, body)
		var idx *ssa.Phi
		for _, in := range hdr.Instrs {
			if p, isPhi := in.(*ssa.Phi); isPhi && isIntType(p.Type()) {
				idx = p
			}
		}
		if idx != nil {
			lenName := fb.lenOfOperand(fn.Params[0])
			goal13 := lenName.add(fb.lin(idx), -1).add(linConst(13), -1) // len - i - 13 >= 0
			goal14 := lenName.add(fb.lin(idx), -1).add(linConst(14), -1)
			okLoop = fb.prove(goal13, facts, 3) && !fb.prove(goal14, facts, 3)
		}
		_ = ifi
	}
	r.Check(okLoop, rule, name+"#blocks-mixed-only-while-more-than-12-bytes-remain", c.InstrPos(hdr.Instrs[len(hdr.Instrs)-1]), "the block loop continues exactly when len(name) - i > 12 (a trailing block of exactly 12 bytes belongs to the tail, as in lookup3)")
	// (b) tail arms 1..12 and a zero arm that returns before the final mix
	arms := map[int64]*ssa.BasicBlock{}
	for _, b := range fn.Blocks {
		if loop[b] {
			continue
		}
		ifi, ok := b.Instrs[len(b.Instrs)-1].(*ssa.If)
		if !ok {
			continue
		}
		cmp, ok := ifi.Cond.(*ssa.BinOp)
		if !ok || cmp.Op != token.EQL {
			continue
		}
		if k, ok := constInt(cmp.Y); ok {
			arms[k] = b.Succs[0]
		}
	}
	missing := ""
	for k := int64(1); k <= 12; k++ {
		if arms[k] == nil {
			missing += " " + itoa64(k)
		}
	}
	r.Check(missing == "", rule, name+"#tail-handles-1-to-12-bytes", c.Pos(fn.Pos()), "the tail switch has an arm for every remaining length 1..12 (missing:"+missing+")")
	// rotations
	var mixRot, finRot []int64
	var zeroArmReturns bool
	if z := arms[0]; z != nil {
		if _, isRet := z.Instrs[len(z.Instrs)-1].(*ssa.Return); isRet {
			hasRot := false
			for _, in := range z.Instrs {
				if v, isV := in.(ssa.Value); isV {
					if _, ok := rotationOf(v); ok {
						hasRot = true
					}
				}
			}
			zeroArmReturns = !hasRot
		}
	}
	r.Check(zeroArmReturns, rule, name+"#zero-remaining-returns-before-final-mix", c.Pos(fn.Pos()), "zero remaining bytes (the empty name) return c without the final mix")
	order := map[*ssa.BasicBlock]int{}
	for i, b := range fn.DomPreorder() {
		order[b] = i
	}
	blocks := append([]*ssa.BasicBlock{}, fn.Blocks...)
	sort.Slice(blocks, func(i, j int) bool { return order[blocks[i]] < order[blocks[j]] })
	for _, b := range blocks {
		for _, in := range b.Instrs {
			v, isV := in.(ssa.Value)
			if !isV {
				continue
			}
			if k, ok := rotationOf(v); ok {
				if loop[b] {
					mixRot = append(mixRot, k)
				} else {
					finRot = append(finRot, k)
				}
			}
		}
	}
	eq := func(a []int64, b []int64) bool {
		if len(a) != len(b) {
			return false
		}
		for i := range a {
			if a[i] != b[i] {
				return false
			}
		}
		return true
	}
	str := func(a []int64) string {
		var s []string
		for _, x := range a {
			s = append(s, itoa64(x))
		}
		return strings.Join(s, ",")
	}
	r.Check(eq(mixRot, []int64{4, 6, 8, 16, 19, 4}), rule, name+"#mix-rotations", c.Pos(fn.Pos()), "block mix rotates by "+str(mixRot)+" (lookup3: 4,6,8,16,19,4)")
	r.Check(eq(finRot, []int64{14, 11, 25, 16, 4, 14, 24}), rule, name+"#final-rotations", c.Pos(fn.Pos()), "final mix rotates by "+str(finRot)+" (lookup3: 14,11,25,16,4,14,24)")
	r.Floor(rule, 5)
}

// reaches: does the operand graph of v (arithmetic, conversions, call arguments, phis, extracts) contain root?
func reaches(v, root ssa.Value, d int, seen map[ssa.Value]bool) bool {
	if v == root {
		return true
	}
	if v == nil || d > 12 || seen[v] {
		return false
	}
	seen[v] = true
	switch x := v.(type) {
	case *ssa.BinOp:
		return reaches(x.X, root, d+1, seen) || reaches(x.Y, root, d+1, seen)
	case *ssa.Convert:
		return reaches(x.X, root, d+1, seen)
	case *ssa.ChangeType:
		return reaches(x.X, root, d+1, seen)
	case *ssa.UnOp:
		return reaches(x.X, root, d+1, seen)
	case *ssa.Extract:
		return reaches(x.Tuple, root, d+1, seen)
	case *ssa.Phi:
		for _, e := range x.Edges {
			if reaches(e, root, d+1, seen) {
				return true
			}
		}
	case *ssa.Call:
		for _, a := range x.Call.Args {
			if reaches(a, root, d+1, seen) {
				return true
			}
		}
	}
	return false
}

// derivedFieldsFollow: within the struct type `typeKey` (e.g. "structures.WritableBTreeV2"): a field F2 that some function
// sets to a value computed from the very value it stores into field F1 is a cache of F1; every other function that stores
// F1 must then store F2 too.
func (c *Ctx) derivedFieldsFollow(r *Result, rule, typeKey string) {
	type pair struct{ f1, f2 string }
	pairs := map[pair]string{}
	storesByFn := map[*ssa.Function][]FieldStore{}
	for _, fn := range c.LibFuncs() {
		for _, fs := range c.DirectFieldStores(fn) {
			if fs.Fn == fn && strings.HasPrefix(fs.Key, typeKey+".") {
				storesByFn[fn] = append(storesByFn[fn], fs)
			}
		}
	}
	for fn, sts := range storesByFn {
		for _, a := range sts {
			if _, isC := a.Val.(*ssa.Const); isC || a.Val == nil {
				continue
			}
			for _, b := range sts {
				if a.Key == b.Key || b.Val == nil || b.Val == a.Val {
					continue
				}
				if _, isC := b.Val.(*ssa.Const); isC {
					continue
				}
				// b derived from a: a.Val occurs strictly inside b.Val's computation (through at least one call or operation)
				if reaches(b.Val, a.Val, 0, map[ssa.Value]bool{}) && isScalar(a.Val.Type()) && isScalar(b.Val.Type()) {
					pairs[pair{a.Key, b.Key}] = c.Name(fn)
				}
			}
		}
	}
	// a field that remembers a POSITION in a slice field (bt.lookupIndex = i, with bt.records[i] read in the same function)
	// depends on the arrangement of that slice: it is a cache of it as well
	for fn, sts := range storesByFn {
		for _, b := range sts {
			if b.Val == nil || !isIntType(b.Val.Type()) {
				continue
			}
			if _, isC := b.Val.(*ssa.Const); isC {
				continue
			}
			instrs(fn, func(in ssa.Instruction) {
				ia, ok := in.(*ssa.IndexAddr)
				if !ok || stripConv(ia.Index) != stripConv(b.Val) {
					return
				}
				if k, _ := fieldLoadKey(ia.X); strings.HasPrefix(k, typeKey+".") && k != b.Key {
					pairs[pair{k, b.Key}] = c.Name(fn)
				}
			})
		}
	}
	n := 0
	var keys []pair
	for p := range pairs {
		keys = append(keys, p)
	}
	sort.Slice(keys, func(i, j int) bool { return keys[i].f1+keys[i].f2 < keys[j].f1+keys[j].f2 })
	for _, p := range keys {
		var fns []*ssa.Function
		for fn := range storesByFn {
			fns = append(fns, fn)
		}
		sort.Slice(fns, func(i, j int) bool { return c.Name(fns[i]) < c.Name(fns[j]) })
		for _, fn := range fns {
			has1, has2 := false, false
			var at ssa.Instruction
			for _, fs := range storesByFn[fn] {
				if fs.Key == p.f1 {
					has1, at = true, fs.In
				}
				if fs.Key == p.f2 {
					has2 = true
				}
			}
			if !has1 || c.underConstruction(fn) {
				continue
			}
			if !has2 {
				// refreshed through a helper of the type
				if _, ok := c.TransitiveFieldStores(fn)[p.f2]; ok {
					has2 = true
				}
			}
			n++
			r.Check(has2, rule, c.Name(fn)+"#"+lastSeg(p.f2)+"-follows-"+lastSeg(p.f1), c.InstrPos(at), lastSeg(p.f2)+" is computed from "+lastSeg(p.f1)+" in "+pairs[p]+"; a function that changes "+lastSeg(p.f1)+" must refresh it (otherwise the cached value describes the old "+lastSeg(p.f1)+")")
		}
	}
	if n == 0 {
		r.Hold(rule, typeKey+"#no-derived-fields", "", "no field of "+typeKey+" caches a value computed from another field")
	}
}

func isScalar(t types.Type) bool {
	_, ok := t.Underlying().(*types.Basic)
	return ok
}

func init() {
	reg := registry["C14"]
	reg.Meta.Rules["C14.8"] = "a cached capacity follows the node size: if a field of WritableBTreeV2 is computed from the value stored into another field (e.g. a leaf capacity from nodeSize), every function that stores the source field also refreshes the derived one (LoadFromFile adopts the node size of the file)"
	reg.Rules = append(reg.Rules, func(c *Ctx, r *Result) {
		c.derivedFieldsFollow(r, "C14.8", "structures.WritableBTreeV2")
	})
}

// dirtyFlagRule: if a write-back method of the type returns success early when a bool field of the receiver is unset ("nothing
// changed"), every method of the type that stores to the type's content sets that field.
func (c *Ctx) dirtyFlagRule(r *Result, rule, typeKey string, isContent func(key string) bool) int {
	n := 0
	for _, wn := range []string{typeKey + ".WriteAt", typeKey + ".WriteToFile"} {
		w := c.FnOpt(wn)
		if w == nil || w.Blocks == nil {
			continue
		}
		for _, b := range w.Blocks {
			ifi, ok := b.Instrs[len(b.Instrs)-1].(*ssa.If)
			if !ok {
				continue
			}
			cond := ifi.Cond
			neg := false
			if u, isU := cond.(*ssa.UnOp); isU && u.Op == token.NOT {
				cond, neg = u.X, true
			}
			key, _ := fieldLoadKey(cond)
			if !strings.HasPrefix(key, typeKey+".") {
				continue
			}
			if bt, isB := cond.Type().Underlying().(*types.Basic); !isB || bt.Kind() != types.Bool {
				continue
			}
			// the branch taken when the flag is false returns success without writing
			skip := b.Succs[1]
			if neg {
				skip = b.Succs[0]
			}
			ret, isRet := skip.Instrs[len(skip.Instrs)-1].(*ssa.Return)
			if !isRet || !isSuccessReturn(ret) {
				continue
			}
			// every content-changing method of the type sets the flag
			for _, m := range c.LibFuncs() {
				if !strings.HasPrefix(c.Name(m), typeKey+".") || m == w || m.Parent() != nil {
					continue
				}
				changes, sets := false, false
				for _, fs := range c.DirectFieldStores(m) {
					if fs.Fn != m {
						continue
					}
					if fs.Key == key {
						if k, isK := fs.Val.(*ssa.Const); !isK || constant.BoolVal(k.Value) {
							sets = true
						}
						continue
					}
					if isContent(fs.Key) {
						changes = true
					}
				}
				if !changes || strings.HasSuffix(c.Name(m), ".LoadFromFile") || strings.HasSuffix(c.Name(m), ".WriteToFile") || strings.HasSuffix(c.Name(m), ".WriteAt") {
					continue
				}
				if !sets {
					// an internal step whose every caller within the type sets the flag is covered by them
					callers := staticCallersOf(c, c.Name(m))
					covered := len(callers) > 0
					for _, cn := range callers {
						cf := c.FnOpt(cn)
						callerSets := false
						if cf != nil && strings.HasPrefix(cn, typeKey+".") {
							for _, fs := range c.DirectFieldStores(cf) {
								if fs.Fn == cf && fs.Key == key {
									callerSets = true
								}
							}
						}
						if !callerSets {
							covered = false
						}
					}
					if covered {
						continue
					}
				}
				n++
				r.Check(sets, rule, c.Name(m)+"#sets-"+lastSeg(key), c.Pos(m.Pos()), wn+" skips the write-back while "+lastSeg(key)+" is unset; this method changes the content and must set it")
			}
		}
	}
	return n
}

func init() {
	reg := registry["C14"]
	reg.Meta.Rules["C14.9"] = "a skipped write-back is justified: if WriteAt/WriteToFile of the B-tree returns early on an unset 'modified'-style flag, every method that changes records, leaf or header sets that flag"
	reg.Rules = append(reg.Rules, func(c *Ctx, r *Result) {
		if c.dirtyFlagRule(r, "C14.9", "structures.WritableBTreeV2", contentField) == 0 {
			r.Hold("C14.9", "structures.WritableBTreeV2#no-conditional-write-back", "", "the write-back of the B-tree is not conditional on a flag")
		}
	})
	reg2 := registry["C02"]
	reg2.Meta.Rules["C02.9"] = "the name index and the heap reach the file whenever they changed: a write-back that is skipped on an unset flag requires every content-changing method of that structure to set the flag (shared with C14.9)"
	reg2.Rules = append(reg2.Rules, func(c *Ctx, r *Result) {
		n := c.dirtyFlagRule(r, "C02.9", "structures.WritableBTreeV2", contentField) + c.dirtyFlagRule(r, "C02.9", "structures.WritableFractalHeap", contentField)
		if n == 0 {
			r.Hold("C02.9", "structures#no-conditional-write-back", "", "the write-back of the dense structures is not conditional on a flag")
		}
	})
}

func init() {
	registry["C05"].Meta.Rules["C05.12"] = "names are hashed as the reference library hashes them (the hash is stored in the name index records and recomputed by other readers): " + registry["C14"].Meta.Rules["C14.7"] + " (shared with C14.7)"
	registry["C05"].Rules = append(registry["C05"].Rules, func(c *Ctx, r *Result) { lookup3Rule(c, r, "C05.12") })
}
