package main

import (
	"encoding/json"
	"fmt"
	"os"
	"path/filepath"
	"sort"
	"strings"
)

// Baselines: for rules whose prover cannot decide every instance, the number of NOT-DECIDED instances
// per function on the reviewed tree is frozen in /verif/baselines/<rule>.json. A function that has more
// not-decided instances than its frozen number has gained an operation that no dominating guard covers
// (or lost the guard that covered one) and is reported. Fewer is always fine.
type baseline map[string]int

var writeBaselines = false

func loadBaseline(verifDir, rule string) (baseline, error) {
	b := baseline{}
	data, err := os.ReadFile(filepath.Join(verifDir, "baselines", rule+".json"))
	if err != nil {
		if os.IsNotExist(err) {
			return b, nil
		}
		return nil, err
	}
	if err := json.Unmarshal(data, &b); err != nil {
		return nil, err
	}
	return b, nil
}

type undecidedItem struct{ Pos, Why string }

// baselineCtx gives ApplyBaseline access to the loaded program (function inventory, callers).
var baselineCtx *Ctx

// reviewedFunctions: names of all module functions of the reviewed tree (baselines/functions.json). A function that is not
// in it was introduced after the review. When code is moved from a reviewed function into a new helper, the not-decided
// sites move with it: they are charged to the unused part of the reviewed budget of the helper's callers instead of being
// reported as new.
func reviewedFunctions(verifDir string) map[string]bool {
	out := map[string]bool{}
	data, err := os.ReadFile(filepath.Join(verifDir, "baselines", "functions.json"))
	if err != nil {
		return nil
	}
	var names []string
	if json.Unmarshal(data, &names) != nil {
		return nil
	}
	for _, n := range names {
		out[n] = true
	}
	return out
}

func writeReviewedFunctions(verifDir string, c *Ctx) {
	var names []string
	for _, fn := range c.AllFuncs {
		names = append(names, c.Name(fn))
	}
	sort.Strings(names)
	data, _ := json.MarshalIndent(names, "", " ")
	os.MkdirAll(filepath.Join(verifDir, "baselines"), 0o755)
	os.WriteFile(filepath.Join(verifDir, "baselines", "functions.json"), append(data, '\n'), 0o644)
}

// staticCallersOf: names of the functions that call fn (by name) statically; nil if some caller is dynamic/unknown.
func staticCallersOf(c *Ctx, name string) []string {
	fn := c.Funcs[name]
	if fn == nil || c.CG == nil {
		return nil
	}
	node := c.CG.Nodes[fn]
	if node == nil || len(node.In) == 0 {
		return nil
	}
	seen := map[string]bool{}
	var out []string
	for _, e := range node.In {
		if e.Site == nil || e.Site.Common().StaticCallee() != fn {
			return nil
		}
		n := c.Name(e.Site.Parent())
		if !seen[n] {
			seen[n] = true
			out = append(out, n)
		}
	}
	sort.Strings(out)
	return out
}

// ApplyBaseline records per-function not-decided instances against the frozen baseline.
func (r *Result) ApplyBaseline(verifDir, rule, what string, perFn map[string][]undecidedItem) {
	b, err := loadBaseline(verifDir, rule)
	if err != nil {
		r.Errorf("baseline %s: %v", rule, err)
		return
	}
	if writeBaselines {
		nb := baseline{}
		// constructs recorded as known findings stay out of the baseline: they must keep being reported
		known, _, _ := loadKnown(filepath.Join(verifDir, "known_findings.txt"))
		for fn, items := range perFn {
			isKnown := false
			for _, k := range known {
				if k.Prop == r.Prop && k.Rule == rule && strings.HasPrefix(k.Construct, fn+"#") {
					isKnown = true
				}
			}
			if len(items) > 0 && !isKnown {
				nb[fn] = len(items)
			}
		}
		os.MkdirAll(filepath.Join(verifDir, "baselines"), 0o755)
		data, _ := json.MarshalIndent(nb, "", " ")
		os.WriteFile(filepath.Join(verifDir, "baselines", rule+".json"), append(data, '\n'), 0o644)
		if baselineCtx != nil {
			writeReviewedFunctions(verifDir, baselineCtx)
		}
		b = nb
	}
	reviewed := reviewedFunctions(verifDir)
	spare := map[string]int{}
	for fn, budget := range b {
		spare[fn] = budget - len(perFn[fn])
	}
	var fns []string
	for fn := range perFn {
		fns = append(fns, fn)
	}
	sort.Strings(fns)
	for _, fn := range fns {
		items := perFn[fn]
		if len(items) > b[fn] && reviewed != nil && !reviewed[fn] && baselineCtx != nil {
			// a function introduced after the review: charge its sites to the unused reviewed budget of its callers
			need := len(items) - b[fn]
			callers := staticCallersOf(baselineCtx, fn)
			avail := 0
			for _, cn := range callers {
				if spare[cn] > 0 {
					avail += spare[cn]
				}
			}
			if len(callers) > 0 && avail >= need {
				for _, cn := range callers {
					if need == 0 {
						break
					}
					take := spare[cn]
					if take > need {
						take = need
					}
					if take > 0 {
						spare[cn] -= take
						need -= take
					}
				}
				for _, it := range items {
					r.Undec(rule, fn+"#"+what, it.Pos, it.Why+" (site of a new helper, charged to the reviewed budget of "+strings.Join(callers, ", ")+")")
				}
				continue
			}
		}
		if len(items) > b[fn] {
			var sb strings.Builder
			for _, it := range items {
				fmt.Fprintf(&sb, " [%s: %s]", it.Pos, it.Why)
			}
			r.Viol(rule, fmt.Sprintf("%s#%s#n=%d", fn, what, len(items)), items[0].Pos, fmt.Sprintf("%d %s not covered by a dominating guard, reviewed baseline is %d; candidates:%s", len(items), what, b[fn], sb.String()))
		} else {
			for _, it := range items {
				r.Undec(rule, fn+"#"+what, it.Pos, it.Why)
			}
		}
	}
}
