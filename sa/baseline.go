package main

import (
	"encoding/json"
	"fmt"
	"os"
	"path/filepath"
	"sort"
	"strings"
)

// Baselines: for rules whose prover cannot decide every instance, the number of NOT-DECIDED instances
// per function on the reviewed tree is frozen in /verif/baselines/<rule>.json. A function that has more
// not-decided instances than its frozen number has gained an operation that no dominating guard covers
// (or lost the guard that covered one) and is reported. Fewer is always fine.
type baseline map[string]int

var writeBaselines = false

func loadBaseline(verifDir, rule string) (baseline, error) {
	b := baseline{}
	data, err := os.ReadFile(filepath.Join(verifDir, "baselines", rule+".json"))
	if err != nil {
		if os.IsNotExist(err) {
			return b, nil
		}
		return nil, err
	}
	if err := json.Unmarshal(data, &b); err != nil {
		return nil, err
	}
	return b, nil
}

type undecidedItem struct{ Pos, Why string }

// ApplyBaseline records per-function not-decided instances against the frozen baseline.
func (r *Result) ApplyBaseline(verifDir, rule, what string, perFn map[string][]undecidedItem) {
	b, err := loadBaseline(verifDir, rule)
	if err != nil {
		r.Errorf("baseline %s: %v", rule, err)
		return
	}
	if writeBaselines {
		nb := baseline{}
		// constructs recorded as known findings stay out of the baseline: they must keep being reported
		known, _, _ := loadKnown(filepath.Join(verifDir, "known_findings.txt"))
		for fn, items := range perFn {
			isKnown := false
			for _, k := range known {
				if k.Prop == r.Prop && k.Rule == rule && strings.HasPrefix(k.Construct, fn+"#") {
					isKnown = true
				}
			}
			if len(items) > 0 && !isKnown {
				nb[fn] = len(items)
			}
		}
		os.MkdirAll(filepath.Join(verifDir, "baselines"), 0o755)
		data, _ := json.MarshalIndent(nb, "", " ")
		os.WriteFile(filepath.Join(verifDir, "baselines", rule+".json"), append(data, '\n'), 0o644)
		b = nb
	}
	var fns []string
	for fn := range perFn {
		fns = append(fns, fn)
	}
	sort.Strings(fns)
	for _, fn := range fns {
		items := perFn[fn]
		if len(items) > b[fn] {
			var sb strings.Builder
			for _, it := range items {
				fmt.Fprintf(&sb, " [%s: %s]", it.Pos, it.Why)
			}
			r.Viol(rule, fmt.Sprintf("%s#%s#n=%d", fn, what, len(items)), items[0].Pos, fmt.Sprintf("%d %s not covered by a dominating guard, reviewed baseline is %d; candidates:%s", len(items), what, b[fn], sb.String()))
		} else {
			for _, it := range items {
				r.Undec(rule, fn+"#"+what, it.Pos, it.Why)
			}
		}
	}
}
