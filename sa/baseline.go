package main

import (
	"encoding/json"
	"fmt"
	"golang.org/x/tools/go/ssa"
	"os"
	"path/filepath"
	"sort"
	"strings"
)

// Baselines: for rules whose prover cannot decide every instance, the number of NOT-DECIDED instances
// per function on the reviewed tree is frozen in /verif/baselines/<rule>.json. A function that has more
// not-decided instances than its frozen number has gained an operation that no dominating guard covers
// (or lost the guard that covered one) and is reported. Fewer is always fine.
type baseline map[string]int

var writeBaselines = false

func loadBaseline(verifDir, rule string) (baseline, error) {
	b := baseline{}
	data, err := os.ReadFile(filepath.Join(verifDir, "baselines", rule+".json"))
	if err != nil {
		if os.IsNotExist(err) {
			return b, nil
		}
		return nil, err
	}
	if err := json.Unmarshal(data, &b); err != nil {
		return nil, err
	}
	return b, nil
}

type undecidedItem struct{ Pos, Why string }

// baselineReadOnly: set while a rule applies a baseline to a subset of the functions it was recorded for (scoped sharing of a
// rule under another property); such a run never rewrites the file.
var baselineReadOnly bool

// baselineCtx gives ApplyBaseline access to the loaded program (function inventory, callers).
var baselineCtx *Ctx

// reviewedFunctions: names of all module functions of the reviewed tree (baselines/functions.json). A function that is not
// in it was introduced after the review. When code is moved from a reviewed function into a new helper, the not-decided
// sites move with it: they are charged to the unused part of the reviewed budget of the helper's callers instead of being
// reported as new.
func reviewedFunctions(verifDir string) map[string]bool {
	out := map[string]bool{}
	data, err := os.ReadFile(filepath.Join(verifDir, "baselines", "functions.json"))
	if err != nil {
		return nil
	}
	var names []string
	if json.Unmarshal(data, &names) != nil {
		return nil
	}
	for _, n := range names {
		out[n] = true
	}
	return out
}

func writeReviewedFunctions(verifDir string, c *Ctx) {
	var names []string
	for _, fn := range c.AllFuncs {
		names = append(names, c.Name(fn))
	}
	sort.Strings(names)
	data, _ := json.MarshalIndent(names, "", " ")
	os.MkdirAll(filepath.Join(verifDir, "baselines"), 0o755)
	os.WriteFile(filepath.Join(verifDir, "baselines", "functions.json"), append(data, '\n'), 0o644)
}

// staticCallersOf: names of the functions that call fn (by name) statically; nil if some caller is dynamic/unknown.
func staticCallersOf(c *Ctx, name string) []string {
	fn := c.Funcs[name]
	if fn == nil || c.CG == nil {
		return nil
	}
	node := c.CG.Nodes[fn]
	if node == nil || len(node.In) == 0 {
		return nil
	}
	seen := map[string]bool{}
	var out []string
	for _, e := range node.In {
		if e.Site == nil || e.Site.Common().StaticCallee() != fn {
			return nil
		}
		n := c.Name(e.Site.Parent())
		if !seen[n] {
			seen[n] = true
			out = append(out, n)
		}
	}
	sort.Strings(out)
	return out
}

// ApplyBaseline records per-function not-decided instances against the frozen baseline.
func (r *Result) ApplyBaseline(verifDir, rule, what string, perFn map[string][]undecidedItem) {
	r.ApplyBaselineFile(verifDir, rule, rule, what, perFn)
}

// ApplyBaselineFile: the same with the baseline stored under another name (one analysis shared by rules of two properties).
func (r *Result) ApplyBaselineFile(verifDir, file, rule, what string, perFn map[string][]undecidedItem) {
	b, err := loadBaseline(verifDir, file)
	if err != nil {
		r.Errorf("baseline %s: %v", rule, err)
		return
	}
	if writeBaselines && !baselineReadOnly {
		nb := baseline{}
		// constructs recorded as known findings stay out of the baseline: they must keep being reported
		known, _, _ := loadKnown(filepath.Join(verifDir, "known_findings.txt"))
		for fn, items := range perFn {
			isKnown := false
			for _, k := range known {
				if k.Prop == r.Prop && k.Rule == rule && strings.HasPrefix(k.Construct, fn+"#") {
					isKnown = true
				}
			}
			if len(items) > 0 && !isKnown {
				nb[fn] = len(items)
			}
		}
		os.MkdirAll(filepath.Join(verifDir, "baselines"), 0o755)
		data, _ := json.MarshalIndent(nb, "", " ")
		os.WriteFile(filepath.Join(verifDir, "baselines", file+".json"), append(data, '\n'), 0o644)
		if baselineCtx != nil {
			writeReviewedFunctions(verifDir, baselineCtx)
		}
		b = nb
	}
	reviewed := reviewedFunctions(verifDir)
	spare := map[string]int{}
	for fn, budget := range b {
		spare[fn] = budget - len(perFn[fn])
	}
	var fns []string
	for fn := range perFn {
		fns = append(fns, fn)
	}
	sort.Strings(fns)
	for _, fn := range fns {
		items := perFn[fn]
		if len(items) > b[fn] && reviewed != nil && !reviewed[fn] && baselineCtx != nil {
			// a function introduced after the review: charge its sites to the unused reviewed budget of its callers
			need := len(items) - b[fn]
			callers := staticCallersOf(baselineCtx, fn)
			avail := 0
			for _, cn := range callers {
				if spare[cn] > 0 {
					avail += spare[cn]
				}
			}
			if len(callers) > 0 && avail >= need {
				for _, cn := range callers {
					if need == 0 {
						break
					}
					take := spare[cn]
					if take > need {
						take = need
					}
					if take > 0 {
						spare[cn] -= take
						need -= take
					}
				}
				for _, it := range items {
					r.Undec(rule, fn+"#"+what, it.Pos, it.Why+" (site of a new helper, charged to the reviewed budget of "+strings.Join(callers, ", ")+")")
				}
				continue
			}
		}
		if len(items) > b[fn] {
			var sb strings.Builder
			for _, it := range items {
				fmt.Fprintf(&sb, " [%s: %s]", it.Pos, it.Why)
			}
			r.Viol(rule, fmt.Sprintf("%s#%s#n=%d", fn, what, len(items)), items[0].Pos, fmt.Sprintf("%d %s not covered by a dominating guard, reviewed baseline is %d; candidates:%s", len(items), what, b[fn], sb.String()))
		} else {
			for _, it := range items {
				r.Undec(rule, fn+"#"+what, it.Pos, it.Why)
			}
		}
	}
}

// postReviewContext: fn itself, or a module function it calls statically, is not in the inventory of the reviewed tree
// (baselines/functions.json): code may have been moved between fn and a helper introduced after the review. Returns the
// name of that function ("" when everything fn touches was there at review time).
func (c *Ctx) postReviewContext(fn *ssa.Function) string {
	if fn == nil {
		return ""
	}
	inv, _ := c.cache["inventory"].(map[string]bool)
	if inv == nil {
		inv = reviewedFunctions(verifDirGlobal)
		if inv == nil {
			inv = map[string]bool{"<none>": true}
		}
		c.cache["inventory"] = inv
	}
	if inv["<none>"] {
		return ""
	}
	root := fn
	for root.Parent() != nil {
		root = root.Parent()
	}
	if !inv[c.Name(root)] && root.Origin() == nil {
		return c.Name(root)
	}
	for _, site := range callsIn(fn) {
		g := site.Common().StaticCallee()
		if g == nil || !inModule(fnPkgPath(g)) || g.Parent() != nil {
			continue
		}
		if o := g.Origin(); o != nil {
			g = o
		}
		if !inv[c.Name(g)] {
			return c.Name(g)
		}
	}
	return ""
}

// ViolMissing reports that a rule did not find the construct it requires in fn. When fn calls (or is) a function introduced
// after the review, the construct may simply have moved there: the obligation is then recorded as not decided, with the
// helper named, instead of as a violation. Deleting the construct without introducing a function is still a violation.
func (r *Result) ViolMissing(c *Ctx, fn *ssa.Function, rule, construct, pos, detail string) {
	if h := c.postReviewContext(fn); h != "" {
		r.Undec(rule, construct, pos, detail+" [not found in "+c.Name(fn)+", which involves "+h+", a function introduced after the review; not decided]")
		return
	}
	r.Viol(rule, construct, pos, detail)
}

func (r *Result) CheckMissing(c *Ctx, fn *ssa.Function, ok bool, rule, construct, pos, detail string) {
	if ok {
		r.Hold(rule, construct, pos, detail)
		return
	}
	r.ViolMissing(c, fn, rule, construct, pos, detail)
}

// postReviewFunctions: module functions (top level) that are not in the inventory of the reviewed tree.
func (c *Ctx) postReviewFunctions() []string {
	if v, ok := c.cache["postreview"].([]string); ok {
		return v
	}
	inv := reviewedFunctions(verifDirGlobal)
	var out []string
	if inv != nil {
		for _, fn := range c.AllFuncs {
			if fn.Parent() != nil || fn.Origin() != nil || !libPackage(fnPkgPath(fn)) {
				continue
			}
			if !inv[c.Name(fn)] {
				out = append(out, c.Name(fn))
			}
		}
	}
	sort.Strings(out)
	c.cache["postreview"] = out
	return out
}
