package main

import (
	"go/token"
	"sort"
	"strings"

	"golang.org/x/tools/go/ssa"
)

func init() {
	register("C02", PropMeta{
		Title: "Attribute write/delete histories behave like a name-to-value map",
		Explanation: "Structural rules on every attribute path: an insertion into the name index is dominated by a look-up of the same name on the not-found edge; every success return of an operation that changed the in-memory header, heap or index is preceded by the write-back of each of them, and the header written back is the very object that was modified (not a copy, so cached handles stay current); " +
			"dense delete and dense modify touch index and heap together on every success path; the cached-header twins of writeAttribute/deleteAttribute dispatch to the same strategies; the heap insert cursor survives load/store (shared with C15).",
		DoesNotDecide: "value bytes, what is read back, index/heap contents over whole histories; hash-colliding names (C14.4)",
		Rules: map[string]string{
			"C02.1": "look-up before insert: InsertRecord for a name is dominated by SearchRecord/HasKey/duplicate-map look-up of that name, on the not-found edge",
			"C02.2": "persist after mutate: every success return is preceded by heap.WriteAt and btree.WriteAt (dense paths) or by WriteObjectHeader of the modified header object itself (compact paths)",
			"C02.3": "paired index/heap update in DeleteDenseAttribute and ModifyDenseAttribute",
			"C02.4": "dispatch twins (fresh header / cached header) route to the same strategy functions",
			"C02.5": "heap insert cursor: restored from the iterator offset only, advanced by inserts only",
		},
	}, ruleC02)
}

func callName(c *Ctx, site ssa.CallInstruction) string {
	if site.Common().IsInvoke() {
		return "." + site.Common().Method.Name()
	}
	n := c.calleeName(site)
	return n
}

func hasSuffixAny(s string, suf ...string) bool {
	for _, x := range suf {
		if strings.HasSuffix(s, x) {
			return true
		}
	}
	return false
}

func ruleC02(c *Ctx, r *Result) {
	// ---- C02.1
	for _, fn := range c.LibFuncs() {
		pk := shortPkg(fnPkgPath(fn))
		if pk != "hdf5" && pk != "writer" && pk != "core" {
			continue
		}
		for _, site := range callsIn(fn) {
			if !hasSuffixAny(callName(c, site), ".InsertRecord") {
				continue
			}
			in := site.(ssa.Instruction)
			args := site.Common().Args
			nameArg := args[len(args)-2]
			ok := false
			why := "no dominating look-up of the inserted name"
			for _, b := range fn.Blocks {
				ifi, isIf := b.Instrs[len(b.Instrs)-1].(*ssa.If)
				if !isIf {
					continue
				}
				cond := ifi.Cond
				neg := false
				if u, isU := cond.(*ssa.UnOp); isU && u.Op == token.NOT {
					cond, neg = u.X, true
				}
				ex, isEx := cond.(*ssa.Extract)
				if !isEx || ex.Index != 1 {
					continue
				}
				found := false
				switch src := ex.Tuple.(type) {
				case *ssa.Call:
					n := callName(c, src)
					if hasSuffixAny(n, ".SearchRecord", ".HasKey") {
						a := src.Call.Args
						found = sameName(a[len(a)-1], nameArg)
					}
				case *ssa.Lookup:
					found = src.CommaOk && sameName(src.Index, nameArg)
				}
				if !found {
					continue
				}
				notFound := b.Succs[1]
				if neg {
					notFound = b.Succs[0]
				}
				if edgeDominates(b, notFound, in.Block()) {
					ok = true
				} else if b.Dominates(in.Block()) {
					// `if exists { return err }` form: the found edge leaves, the rest is the not-found continuation
					foundArm := b.Succs[0]
					if neg {
						foundArm = b.Succs[1]
					}
					if !reachableFrom(foundArm, nil)[in.Block()] {
						ok = true
					}
				}
			}
			// bulk builders of fresh structures (dense groups) insert caller-supplied distinct keys of a map: not an attribute path
			if pk == "writer" && strings.Contains(c.Name(fn), "DenseGroupWriter") {
				r.Hold("C02.1", c.Name(fn)+"#InsertRecord(group links)", c.InstrPos(in), "group link builder, not an attribute path (names are map keys, distinct by construction)")
				continue
			}
			r.Check(ok, "C02.1", c.Name(fn)+"#InsertRecord#after-lookup", c.InstrPos(in), why)
		}
	}
	r.Floor("C02.1", 3)

	denseWriteBackRule(c, r, "C02.2")
	// compact paths: the header object that was modified is the one written back
	for _, n := range []string{"hdf5.writeCompactAttribute", "hdf5.deleteCompactAttributeFromHeader", "hdf5.transitionToDenseAttributes"} {
		fn := c.Fn(r, n)
		if fn == nil {
			continue
		}
		var oh *ssa.Parameter
		for _, p := range fn.Params {
			if typeShort(p.Type()) == "*core.ObjectHeader" {
				oh = p
			}
		}
		if oh == nil {
			r.Errorf("%s has no *core.ObjectHeader parameter", n)
			continue
		}
		for _, ret := range successReturns(fn) {
			ok := mustPrecede(ret, func(in ssa.Instruction) bool {
				call, isCall := in.(*ssa.Call)
				if !isCall || c.calleeName(call) != "core.WriteObjectHeader" {
					return false
				}
				for _, a := range call.Call.Args {
					if a == ssa.Value(oh) {
						return true
					}
				}
				return false
			})
			r.Check(ok, "C02.2", c.Name(fn)+"#header-object-written-back", c.InstrPos(ret), "WriteObjectHeader receives the caller's header object itself (a copy would leave a cached handle stale)")
		}
		// and the modifications are applied to that object, not to a copy
		for _, fs := range c.DirectFieldStores(fn) {
			if fs.Fn != fn || fs.Key != "core.ObjectHeader.Messages" {
				continue
			}
			var base ssa.Value
			if st, ok := fs.In.(*ssa.Store); ok {
				if fa, ok := st.Addr.(*ssa.FieldAddr); ok {
					base = fa.X
				}
			}
			r.Check(base == ssa.Value(oh), "C02.2", c.Name(fn)+"#modifies-callers-header", c.InstrPos(fs.In), "the message list that is replaced belongs to the caller's header object")
		}
	}
	r.Floor("C02.2", 8)

	// ---- C02.3
	if del := c.Fn(r, "core.DeleteDenseAttribute"); del != nil {
		for _, ret := range successReturns(del) {
			okT := mustPrecede(ret, func(in ssa.Instruction) bool {
				call, ok := in.(*ssa.Call)
				return ok && hasSuffixAny(callName(c, call), ".DeleteRecord", ".DeleteRecordLazy", ".DeleteRecordWithRebalancing")
			})
			okH := mustPrecede(ret, func(in ssa.Instruction) bool {
				call, ok := in.(*ssa.Call)
				return ok && hasSuffixAny(callName(c, call), ".DeleteObject")
			})
			r.Check(okT && okH, "C02.3", c.Name(del)+"#index-and-heap", c.InstrPos(ret), "a successful dense delete removed the index record and the heap object")
		}
	}
	if mod := c.Fn(r, "core.ModifyDenseAttribute"); mod != nil {
		pre := func(ret *ssa.Return, suf string) bool {
			return mustPrecede(ret, func(in ssa.Instruction) bool {
				call, ok := in.(*ssa.Call)
				return ok && hasSuffixAny(callName(c, call), suf)
			})
		}
		for _, ret := range successReturns(mod) {
			// on every path: overwrite, or (delete + insert + update)
			ok := mustPrecede(ret, func(in ssa.Instruction) bool {
				call, isCall := in.(*ssa.Call)
				if !isCall {
					return false
				}
				n := callName(c, call)
				return hasSuffixAny(n, ".OverwriteObject") || hasSuffixAny(n, ".UpdateRecord")
			})
			// the update path also deleted and inserted
			var upd ssa.Instruction
			for _, site := range callsIn(mod) {
				if hasSuffixAny(callName(c, site), ".UpdateRecord") {
					upd = site.(ssa.Instruction)
				}
			}
			okPair := upd != nil && mustPrecede(upd, func(in ssa.Instruction) bool {
				call, isCall := in.(*ssa.Call)
				return isCall && hasSuffixAny(callName(c, call), ".InsertObject")
			}) && mustPrecede(upd, func(in ssa.Instruction) bool {
				call, isCall := in.(*ssa.Call)
				return isCall && hasSuffixAny(callName(c, call), ".DeleteObject")
			})
			_ = pre
			r.Check(ok && okPair, "C02.3", c.Name(mod)+"#overwrite-or-reinsert-and-update", c.InstrPos(ret), "a successful dense modify overwrote in place, or deleted, re-inserted and re-pointed the index record")
		}
	}
	r.Floor("C02.3", 2)

	// ---- C02.4 twins
	strategySet := func(fn *ssa.Function) []string {
		var out []string
		seen := map[string]bool{}
		for _, site := range callsIn(fn) {
			n := c.calleeName(site)
			// a strategy can fail: pure helpers (counting, searching) that return no error are not routing decisions
			if strings.HasPrefix(n, "hdf5.") && (strings.Contains(n, "Attribute")) && !seen[n] && errResultIndex(site.Common().Signature()) >= 0 {
				seen[n] = true
				out = append(out, n)
			}
		}
		sort.Strings(out)
		return out
	}
	norm := func(xs []string) string {
		var o []string
		for _, x := range xs {
			x = strings.ReplaceAll(x, "WithInfo", "")
			x = strings.ReplaceAll(x, "FromHeader", "")
			x = strings.ReplaceAll(x, "Impl", "")
			o = append(o, x)
		}
		sort.Strings(o)
		return strings.Join(o, ",")
	}
	for _, pair := range [][2]string{{"hdf5.writeAttribute", "hdf5.writeAttributeWithCachedHeader"}, {"hdf5.deleteAttribute", "hdf5.deleteAttributeWithCachedHeader"}} {
		a, b := c.Fn(r, pair[0]), c.Fn(r, pair[1])
		if a == nil || b == nil {
			continue
		}
		sa, sb := norm(strategySet(a)), norm(strategySet(b))
		r.Check(sa == sb, "C02.4", pair[0]+"~"+pair[1]+"#same-strategies", c.Pos(b.Pos()), "fresh-header path routes to {"+sa+"}, cached-header path to {"+sb+"}")
	}
	r.Floor("C02.4", 2)

	ruleHeapCursor(c, r, "C02.5")
	r.Floor("C02.5", 4)
}

// sameName: two values denote the same name (same SSA value, or loads of the same field of the same object).
func sameName(a, b ssa.Value) bool {
	if a == b {
		return true
	}
	la, ok1 := isLoad(a)
	lb, ok2 := isLoad(b)
	if ok1 && ok2 {
		return sameFieldAddr(la.X, lb.X)
	}
	return false
}

// ---- additional necessary condition found by the third round of seeded changes ----

func init() {
	reg := registry["C02"]
	reg.Meta.Rules["C02.6"] = "attribute write paths take the current attributes from the header's message list; the parse-time snapshot ObjectHeader.Attributes is read by reader functions only"
	reg.Rules = append(reg.Rules, func(c *Ctx, r *Result) {
		// write API roots
		var roots []*ssa.Function
		for _, tn := range []string{"FileWriter", "DatasetWriter", "GroupWriter"} {
			if nt := c.NamedType(nil, "hdf5", tn); nt != nil {
				roots = append(roots, c.ExportedMethods(nt)...)
			}
		}
		if len(roots) < 10 {
			r.Errorf("C02.6: only %d write API entry points found", len(roots))
			return
		}
		reach := c.Reach(roots, func(f *ssa.Function) bool { return !inModule(fnPkgPath(f)) })
		nReaders, nWrite := 0, 0
		for _, fn := range c.LibFuncs() {
			var loads []ssa.Instruction
			instrs(fn, func(in ssa.Instruction) {
				if ld, ok := in.(*ssa.UnOp); ok && ld.Op == token.MUL {
					if fa, ok := ld.X.(*ssa.FieldAddr); ok {
						if f, base := fieldOfAddr(fa); f != nil && fieldKey(base.Type(), f) == "core.ObjectHeader.Attributes" {
							loads = append(loads, in)
						}
					}
				}
			})
			if len(loads) == 0 {
				continue
			}
			// functions that are part of the read API (or only reachable from it) may use the snapshot
			if !reach[fn] {
				nReaders++
				r.Hold("C02.6", c.Name(fn)+"#snapshot-read-by-reader", c.InstrPos(loads[0]), "reader-side use of the parsed attribute list")
				continue
			}
			// reachable from the write API: allowed only if the function is also a read API method (shared helper)
			name := c.Name(fn)
			if strings.HasPrefix(name, "hdf5.Group.") || strings.HasPrefix(name, "hdf5.Dataset.") || strings.HasPrefix(name, "hdf5.File.") || name == "core.ReadObjectHeader" {
				nReaders++
				r.Hold("C02.6", name+"#snapshot-read-by-reader", c.InstrPos(loads[0]), "read API method")
				continue
			}
			nWrite++
			r.Viol("C02.6", name+"#write-path-reads-parse-time-snapshot", c.InstrPos(loads[0]), "a function on the attribute write path uses ObjectHeader.Attributes, the list filled when the header was parsed; writes, overwrites and deletes of the session edit ObjectHeader.Messages only, so the snapshot is stale on a cached header")
		}
		if nReaders == 0 {
			r.Errorf("C02.6: no reader of ObjectHeader.Attributes found (the field or its readers were renamed)")
		}
		r.Floor("C02.6", 1)
	})
}

func init() {
	reg := registry["C02"]
	reg.Meta.Rules["C02.7"] = "a handle with a cached header follows the storage transition: after a successful cached-header write, DatasetWriter.WriteAttribute takes the Attribute Info message (if one appeared) into its dense-storage state"
	reg.Rules = append(reg.Rules, func(c *Ctx, r *Result) {
		fn := c.Fn(r, "hdf5.DatasetWriter.WriteAttribute")
		if fn == nil {
			return
		}
		var cached *ssa.Call
		for _, site := range callsIn(fn) {
			if c.calleeName(site) == "hdf5.writeAttributeWithCachedHeader" {
				cached, _ = site.(*ssa.Call)
			}
		}
		if cached == nil {
			r.Undec("C02.7", c.Name(fn)+"#dense-state-refreshed-after-transition", c.Pos(fn.Pos()), "no cached-header write path")
			r.Floor("C02.7", 0)
			return
		}
		ok := false
		var at ssa.Instruction = cached
		for _, fs := range c.DirectFieldStores(fn) {
			if fs.Fn != fn || fs.Key != "hdf5.DatasetWriter.denseAttrInfo" {
				continue
			}
			st, isSt := fs.In.(*ssa.Store)
			if !isSt || !instrDominates(cached, st) {
				continue
			}
			// value comes from ParseAttributeInfoMessage
			v := st.Val
			if ex, isEx := v.(*ssa.Extract); isEx {
				if call, isCall := ex.Tuple.(*ssa.Call); isCall && c.calleeName(call) == "core.ParseAttributeInfoMessage" {
					ok = true
					at = st
				}
			}
		}
		r.Check(ok, "C02.7", c.Name(fn)+"#dense-state-refreshed-after-transition", c.InstrPos(at), "after writeAttributeWithCachedHeader succeeded, the handle's denseAttrInfo is set from the Attribute Info message of the cached header (otherwise the handle keeps writing compact messages next to the dense storage)")
		r.Floor("C02.7", 1)
	})
}

func init() {
	reg := registry["C02"]
	reg.Meta.Rules["C02.8"] = "a failed attribute write or delete is reported: on the write/delete paths of the root package no error of a callee is swallowed, converted or discarded (an unreported failure makes an unsuccessful write count as the last successful one)"
	reg.Rules = append(reg.Rules, func(c *Ctx, r *Result) {
		var roots []*ssa.Function
		for _, n := range []string{"hdf5.DatasetWriter.WriteAttribute", "hdf5.DatasetWriter.DeleteAttribute", "hdf5.GroupWriter.WriteAttribute", "hdf5.GroupWriter.DeleteAttribute"} {
			if f := c.FnOpt(n); f != nil {
				roots = append(roots, f)
			}
		}
		if len(roots) < 2 {
			r.Errorf("C02.8: attribute API roots not found")
			return
		}
		set := c.Reach(roots, func(f *ssa.Function) bool { return shortPkg(fnPkgPath(f)) != "hdf5" })
		var fns []*ssa.Function
		for f := range set {
			if shortPkg(fnPkgPath(f)) == "hdf5" && f.Blocks != nil {
				fns = append(fns, f)
			}
		}
		sort.Slice(fns, func(i, j int) bool { return c.Name(fns[i]) < c.Name(fns[j]) })
		n := 0
		for _, s := range c.ErrSites(fns) {
			if infallibleCallee(s.Callee) {
				continue
			}
			cons := c.Name(s.Caller) + "#" + s.Callee + "#" + s.Kind
			pos := c.InstrPos(s.Call)
			switch s.Kind {
			case ErrPropagated, ErrEOFTol:
				n++
				r.Hold("C02.8", cons, pos, "")
			case ErrEscapes:
				r.Undec("C02.8", cons, pos, "error stored in a field / captured variable; not followed")
			case ErrDiscarded, ErrDeferred:
				if closeLike(s.Callee) {
					continue
				}
				n++
				r.Viol("C02.8", cons, pos, s.Detail)
			default:
				n++
				if reason, ok := exceptionFor("C17", "C17.2", cons); ok {
					r.Except("C02.8", cons, pos, "same site as C17.2: "+reason)
					continue
				}
				if reason, ok := c.nameSearchSkip(s); ok {
					r.Except("C02.8", cons, pos, reason)
					continue
				}
				r.Viol("C02.8", cons, pos, s.Detail)
			}
		}
		if n < 40 {
			r.Errorf("C02.8: only %d error-returning call sites on the attribute write/delete paths", n)
		}
	})
}

// denseWriteBackRule: in every root-package function that loads the dense structures (heap and name index) and changes them,
// each success return is preceded by the write-back of both.
func denseWriteBackRule(c *Ctx, r *Result, rule string) {
	// ---- C02.2 dense paths: loaded heap and btree are written back
	for _, fn := range c.LibFuncs() {
		if shortPkg(fnPkgPath(fn)) != "hdf5" {
			continue
		}
		var loadsHeap, loadsTree bool
		var mutates bool
		for _, site := range callsIn(fn) {
			n := callName(c, site)
			if n == "structures.WritableFractalHeap.LoadFromFile" {
				loadsHeap = true
			}
			if n == "structures.WritableBTreeV2.LoadFromFile" {
				loadsTree = true
			}
			if hasSuffixAny(n, ".InsertObject", ".DeleteObject", ".OverwriteObject", ".InsertRecord", ".UpdateRecord", ".DeleteRecord", ".DeleteRecordLazy", ".DeleteRecordWithRebalancing",
				"core.ModifyDenseAttribute", "core.DeleteDenseAttribute") {
				mutates = true
			}
		}
		if !(loadsHeap && loadsTree && mutates) {
			continue
		}
		for _, ret := range successReturns(fn) {
			okH := mustPrecede(ret, func(in ssa.Instruction) bool {
				call, ok := in.(*ssa.Call)
				return ok && callName(c, call) == "structures.WritableFractalHeap.WriteAt"
			})
			okT := mustPrecede(ret, func(in ssa.Instruction) bool {
				call, ok := in.(*ssa.Call)
				return ok && callName(c, call) == "structures.WritableBTreeV2.WriteAt"
			})
			r.Check(okH, rule, c.Name(fn)+"#heap-written-back", c.InstrPos(ret), "the modified heap is written back before success")
			r.Check(okT, rule, c.Name(fn)+"#index-written-back", c.InstrPos(ret), "the modified name index is written back before success")
		}
	}
}
