package main

import (
	"go/constant"
	"go/token"
	"go/types"
	"sort"
	"strings"

	"golang.org/x/tools/go/ssa"
)

func init() {
	register("C09", PropMeta{
		Title: "Partial reads agree with the full read",
		Explanation: "Necessary structural conditions of ReadSlice / ReadHyperslab / ChunkIterator, each decided on the code's own arithmetic after normalising it to polynomials over start, count, stride, block and dims: (C09.1) every read is preceded by a validation whose pass edges establish exactly start + (count-1)*stride + block <= dims (resp. start + count <= dims), " +
			"and no addition or multiplication of caller-controlled values in a validator can wrap (only subtractions proven non-negative and the checked multiply); (C09.2) the two numeric conversion routines dispatch on the same type predicates in the same order; (C09.3) the layout dispatch ends in an error and each arm calls a reader; " +
			"(C09.4) the single-read fast path is entered only on the true edge of the contiguity predicate, and that predicate treats a dimension as complete only under start = 0 and count*block = dims; (C09.5) the destination of an element copied out of a chunk is a function of its position in the selection, not of a running counter; " +
			"(C09.6) the chunk iterator advances by exactly one per Next and reads chunk i as the slice [coord*chunk, min(chunk, dims - start)); (C09.7) the span reader indexes its buffer relative to the element at which the file read started.",
		DoesNotDecide: "equality of the returned elements with the full read over all selections (the extraction loops' index arithmetic is not verified beyond the clauses above); filtered chunks (C08)",
		Rules: map[string]string{
			"C09.1": "validation precedes reading; pass edges establish the exact bound; validator arithmetic cannot wrap",
			"C09.2": "sibling conversions dispatch identically",
			"C09.3": "layout dispatch is total with an error default",
			"C09.4": "fast path only under the contiguity predicate; complete dimension means start = 0 and extent = dims",
			"C09.5": "chunk extraction writes to the selection position",
			"C09.6": "chunk iterator: one step per Next, slice of chunk i clamped to the dataset",
			"C09.7": "span reader: buffer base = first element read",
		},
	}, ruleC09)
}

// ---------------------------------------------------------------------------------------------
// polynomials over named atoms

type Poly map[string]int64 // monomial ("a*b", "" = constant) -> coefficient

func polyConst(k int64) Poly {
	if k == 0 {
		return Poly{}
	}
	return Poly{"": k}
}
func polyAtom(n string) Poly { return Poly{n: 1} }
func (p Poly) add(q Poly, k int64) Poly {
	out := Poly{}
	for m, c := range p {
		out[m] += c
	}
	for m, c := range q {
		out[m] += k * c
	}
	for m, c := range out {
		if c == 0 {
			delete(out, m)
		}
	}
	return out
}
func monoMul(a, b string) string {
	var parts []string
	if a != "" {
		parts = append(parts, strings.Split(a, "*")...)
	}
	if b != "" {
		parts = append(parts, strings.Split(b, "*")...)
	}
	sort.Strings(parts)
	return strings.Join(parts, "*")
}
func (p Poly) mul(q Poly) Poly {
	out := Poly{}
	for m1, c1 := range p {
		for m2, c2 := range q {
			out[monoMul(m1, m2)] += c1 * c2
		}
	}
	for m, c := range out {
		if c == 0 {
			delete(out, m)
		}
	}
	return out
}
func (p Poly) equal(q Poly) bool {
	if len(p) != len(q) {
		return false
	}
	for m, c := range p {
		if q[m] != c {
			return false
		}
	}
	return true
}
func (p Poly) String() string {
	var ms []string
	for m := range p {
		ms = append(ms, m)
	}
	sort.Strings(ms)
	var parts []string
	for _, m := range ms {
		c := p[m]
		switch {
		case m == "":
			parts = append(parts, itoa64(c))
		case c == 1:
			parts = append(parts, m)
		case c == -1:
			parts = append(parts, "-"+m)
		default:
			parts = append(parts, itoa64(c)+"*"+m)
		}
	}
	if len(parts) == 0 {
		return "0"
	}
	return strings.Join(parts, " + ")
}

func normName(n string) string {
	n = strings.ToLower(n)
	switch n {
	case "dimensions", "datasetdims", "dataspace.dimensions":
		return "dims"
	}
	return n
}

type polyEnv struct {
	c      *Ctx
	fn     *ssa.Function
	phiNm  map[*ssa.Phi]string
	opaque int
	rename map[string]string // helper parameter name -> name of the caller's argument (facts of a helper read in the caller's terms)
}

func (e *polyEnv) paramName(p *ssa.Parameter) string {
	n := normName(p.Name())
	if r, ok := e.rename[n]; ok && r != "" {
		return r
	}
	return n
}

func (e *polyEnv) baseName(v ssa.Value) string {
	switch x := v.(type) {
	case *ssa.Parameter:
		return e.paramName(x)
	case *ssa.UnOp:
		if f, _ := fieldOfAddr(x.X); f != nil {
			return normName(f.Name())
		}
	case *ssa.Slice:
		return e.baseName(x.X)
	case *ssa.FieldAddr:
		// array-valued field indexed in place
		if f, _ := fieldOfAddr(x); f != nil {
			return normName(f.Name())
		}
	case *ssa.Field:
		if f, _ := fieldOfAddr(x); f != nil {
			return normName(f.Name())
		}
	}
	return ""
}

func (e *polyEnv) of(v ssa.Value, depth int) Poly {
	if depth > 14 {
		return polyAtom("?deep")
	}
	switch x := v.(type) {
	case *ssa.Const:
		if k, ok := constInt(x); ok {
			return polyConst(k)
		}
	case *ssa.Convert:
		return e.of(x.X, depth+1)
	case *ssa.ChangeType:
		return e.of(x.X, depth+1)
	case *ssa.BinOp:
		switch x.Op {
		case token.ADD:
			return e.of(x.X, depth+1).add(e.of(x.Y, depth+1), 1)
		case token.SUB:
			return e.of(x.X, depth+1).add(e.of(x.Y, depth+1), -1)
		case token.MUL:
			return e.of(x.X, depth+1).mul(e.of(x.Y, depth+1))
		}
	case *ssa.UnOp:
		if x.Op == token.MUL {
			if ia, ok := x.X.(*ssa.IndexAddr); ok {
				// store-to-load forwarding inside one block: coords[dim] = v; ... coords[dim]
				blk := x.Block()
				for i := instrIndex(x) - 1; i >= 0; i-- {
					st, isSt := blk.Instrs[i].(*ssa.Store)
					if !isSt {
						if _, isCall := blk.Instrs[i].(*ssa.Call); isCall {
							break
						}
						continue
					}
					if ia2, isIA := st.Addr.(*ssa.IndexAddr); isIA && ia2.X == ia.X && ia2.Index == ia.Index {
						return e.of(st.Val, depth+1)
					}
				}
				if n := e.baseName(ia.X); n != "" {
					return polyAtom(n)
				}
			}
			if f, _ := fieldOfAddr(x.X); f != nil {
				return polyAtom(normName(f.Name()))
			}
		}
	case *ssa.Extract:
		if call, ok := x.Tuple.(*ssa.Call); ok && x.Index == 0 && e.c.calleeName(call) == "utils.SafeMultiply" {
			return e.of(call.Call.Args[0], depth+1).mul(e.of(call.Call.Args[1], depth+1))
		}
	case *ssa.Parameter:
		return polyAtom(e.paramName(x))
	case *ssa.Phi:
		if n, ok := e.phiNm[x]; ok {
			return polyAtom(n)
		}
		// loop counter named after its bound: If(phi < bound) in the phi's block
		if ifi, ok := x.Block().Instrs[len(x.Block().Instrs)-1].(*ssa.If); ok {
			if cmp, ok := ifi.Cond.(*ssa.BinOp); ok && cmp.X == ssa.Value(x) && cmp.Op == token.LSS {
				b := e.of(cmp.Y, depth+1)
				if len(b) == 1 {
					for m := range b {
						return polyAtom("i<" + m + ">")
					}
				}
			}
		}
	}
	e.opaque++
	return polyAtom("?" + v.Name())
}

// passFacts: for every If of fn one of whose successors leaves (error return, `return false`, or loop exit `leave`), the
// condition that holds on the other successor, normalised as (poly, relation) with relation ">=0" or "==0" or "!=0".
type polyFact struct {
	P   Poly
	Rel string
	Blk *ssa.BasicBlock // the If block
	On  *ssa.BasicBlock // successor on which the fact holds
}

func (e *polyEnv) condFact(cond ssa.Value, val bool) (Poly, string, bool) {
	if u, ok := cond.(*ssa.UnOp); ok && u.Op == token.NOT {
		return e.condFact(u.X, !val)
	}
	bo, ok := cond.(*ssa.BinOp)
	if !ok || !isCmp(bo.Op) {
		return nil, "", false
	}
	op := bo.Op
	if !val {
		op = negate(op)
	}
	x, y := e.of(bo.X, 0), e.of(bo.Y, 0)
	switch op {
	case token.EQL:
		return x.add(y, -1), "==0", true
	case token.NEQ:
		return x.add(y, -1), "!=0", true
	case token.LEQ:
		return y.add(x, -1), ">=0", true
	case token.LSS:
		return y.add(x, -1).add(polyConst(1), -1), ">=0", true
	case token.GEQ:
		return x.add(y, -1), ">=0", true
	case token.GTR:
		return x.add(y, -1).add(polyConst(1), -1), ">=0", true
	}
	return nil, "", false
}

// factsAt: facts from all branch edges that dominate block b.
func (e *polyEnv) factsAt(b *ssa.BasicBlock) []polyFact {
	var out []polyFact
	for _, blk := range e.fn.Blocks {
		ifi, ok := blk.Instrs[len(blk.Instrs)-1].(*ssa.If)
		if !ok || blk.Succs[0] == blk.Succs[1] {
			continue
		}
		for i, s := range blk.Succs {
			if edgeDominates(blk, s, b) {
				if p, rel, ok := e.condFact(ifi.Cond, i == 0); ok {
					out = append(out, polyFact{p, rel, blk, s})
				}
			}
		}
	}
	return out
}

// factsOnEdge: facts that hold when control flows along from -> to.
func (e *polyEnv) factsOnEdge(from, to *ssa.BasicBlock) []polyFact {
	out := e.factsAt(from)
	if ifi, ok := from.Instrs[len(from.Instrs)-1].(*ssa.If); ok && from.Succs[0] != from.Succs[1] {
		if p, rel, ok := e.condFact(ifi.Cond, from.Succs[0] == to); ok {
			out = append(out, polyFact{p, rel, from, to})
		}
	}
	return out
}

func hasFact(fs []polyFact, p Poly, rel string) bool {
	for _, f := range fs {
		if f.Rel != rel {
			continue
		}
		if f.P.equal(p) {
			return true
		}
		if rel == "==0" && f.P.equal(Poly{}.add(p, -1)) {
			return true
		}
	}
	return false
}

func factStrings(fs []polyFact) string {
	var out []string
	for _, f := range fs {
		out = append(out, f.P.String()+" "+f.Rel)
	}
	sort.Strings(out)
	return strings.Join(out, "; ")
}

func ruleC09(c *Ctx, r *Result) {
	c09validation(c, r)
	c09siblings(c, r)
	c09dispatch(c, r)
	c09fastPath(c, r)
	c09chunkDest(c, r)
	c09iterator(c, r)
	c09span(c, r)
}

func P(terms ...interface{}) Poly {
	// P("dims", 1, "start", -1, "", -1): pairs monomial, coefficient
	out := Poly{}
	for i := 0; i+1 < len(terms); i += 2 {
		out[terms[i].(string)] += int64(terms[i+1].(int))
	}
	for m, c := range out {
		if c == 0 {
			delete(out, m)
		}
	}
	return out
}

func c09validation(c *Ctx, r *Result) {
	// (a) validation precedes reading
	if fn := c.Fn(r, "hdf5.Dataset.ReadHyperslab"); fn != nil {
		for _, site := range callsIn(fn) {
			if c.calleeName(site) != "hdf5.Dataset.readHyperslab" {
				continue
			}
			in := site.(ssa.Instruction)
			ok := false
			for _, v := range callsIn(fn) {
				if c.calleeName(v) != "hdf5.validateHyperslabSelection" {
					continue
				}
				// err == nil edge of the validation dominates the read
				call := v.(*ssa.Call)
				for _, ref := range *call.Referrers() {
					if bo, isB := ref.(*ssa.BinOp); isB && (bo.Op == token.NEQ || bo.Op == token.EQL) {
						for _, r2 := range *bo.Referrers() {
							if ifi, isIf := r2.(*ssa.If); isIf {
								pass := ifi.Block().Succs[1]
								if bo.Op == token.EQL {
									pass = ifi.Block().Succs[0]
								}
								if edgeDominates(ifi.Block(), pass, in.Block()) {
									ok = true
								}
							}
						}
					}
				}
			}
			r.Check(ok, "C09.1", c.Name(fn)+"#read-after-successful-validation", c.InstrPos(in), "readHyperslab is reached only on the nil-error edge of validateHyperslabSelection")
		}
	}
	// validateHyperslabSelection -> validateHyperslabBounds -> both validators, all error-checked
	for _, chain := range [][2]string{
		{"hdf5.validateHyperslabSelection", "hdf5.validateHyperslabBounds"},
		{"hdf5.validateHyperslabBounds", "utils.ValidateHyperslabBounds"},
		{"hdf5.validateHyperslabBounds", "hdf5.validateDimensionBounds"},
	} {
		fn := c.Fn(r, chain[0])
		if fn == nil {
			continue
		}
		found := false
		for _, site := range callsIn(fn) {
			if c.calleeName(site) != chain[1] {
				continue
			}
			found = true
			// result is returned or tested
			call := site.(*ssa.Call)
			used := false
			for _, ref := range *call.Referrers() {
				switch ref.(type) {
				case *ssa.Return, *ssa.BinOp, *ssa.Phi:
					used = true
				}
			}
			// every success return of fn is preceded by the call (a call inside a per-dimension loop runs once per dimension)
			pre := true
			inLoop := false
			for _, sc := range call.Block().Succs {
				if reachableFrom(sc, nil)[call.Block()] {
					inLoop = true
				}
			}
			for _, ret := range returnsOf(fn) {
				if inLoop {
					break
				}
				if isNilConst(retOperand(ret, 0)) && !mustPrecede(ret, func(x ssa.Instruction) bool { return x == ssa.Instruction(call) }) {
					pre = false
				}
			}
			r.Check(used && pre, "C09.1", chain[0]+"#calls-"+lastSeg(chain[1]), c.InstrPos(call), "every successful return ran "+chain[1]+" and examined its result")
		}
		if !found {
			r.Viol("C09.1", chain[0]+"#calls-"+lastSeg(chain[1]), c.Pos(fn.Pos()), chain[1]+" is no longer called")
		}
	}

	// (b) exact bound on the pass edges
	type vspec struct {
		fn     string
		target Poly
		text   string
	}
	specs := []vspec{
		{"hdf5.validateDimensionBounds", P("dims", 1, "start", -1, "count*stride", -1, "stride", 1, "block", -1), "dims - start - (count-1)*stride - block >= 0"},
		{"utils.ValidateHyperslabBounds", P("dims", 1, "", -1, "start", -1, "count*stride", -1, "stride", 1), "dims - 1 - start - (count-1)*stride >= 0"},
		{"hdf5.Dataset.ReadSlice", P("dims", 1, "start", -1, "count", -1), "dims - start - count >= 0"},
	}
	for _, sp := range specs {
		fn := c.Fn(r, sp.fn)
		if fn == nil {
			continue
		}
		env := &polyEnv{c: c, fn: fn}
		// pass edges: the edge that leaves the last bound test towards "accepted" (loop continuation or the nil return).
		// The last bound test is the If whose condition mentions the selection extent (count / block).
		key := "count"
		if sp.fn == "hdf5.validateDimensionBounds" {
			key = "block"
		}
		if sp.fn == "utils.ValidateHyperslabBounds" {
			key = "count*stride"
		}
		var edges [][2]*ssa.BasicBlock
		for _, b := range fn.Blocks {
			ifi, ok := b.Instrs[len(b.Instrs)-1].(*ssa.If)
			if !ok {
				continue
			}
			p, rel, ok := env.condFact(ifi.Cond, true)
			if !ok || rel != ">=0" {
				continue
			}
			if _, has := p[key]; !has {
				continue
			}
			if _, hasD := p["dims"]; !hasD {
				continue
			}
			// which successor is the error exit?
			for i, s := range b.Succs {
				if ret, isRet := s.Instrs[len(s.Instrs)-1].(*ssa.Return); isRet {
					idx := errResultIndex(fn.Signature)
					if idx >= 0 && !isNilConst(retOperand(ret, idx)) {
						edges = append(edges, [2]*ssa.BasicBlock{b, b.Succs[1-i]})
					}
				}
			}
		}
		if len(edges) == 0 {
			r.Viol("C09.1", sp.fn+"#pass-edge-establishes-bound", c.Pos(fn.Pos()), "no bound test recognised (expected a comparison establishing "+sp.text+")")
			continue
		}
		for _, ed := range edges {
			fs := env.factsOnEdge(ed[0], ed[1])
			ok := hasFact(fs, sp.target, ">=0")
			r.Check(ok, "C09.1", sp.fn+"#pass-edge-establishes-bound", c.InstrPos(ed[0].Instrs[len(ed[0].Instrs)-1]), "expected "+sp.text+"; facts on the pass edge: "+factStrings(fs))
		}
		// (c) no wrapping arithmetic on caller-controlled values
		fb := c.FB(fn)
		instrs(fn, func(in ssa.Instruction) {
			bo, ok := in.(*ssa.BinOp)
			if !ok || !isIntType(bo.Type()) {
				return
			}
			if bo.Op != token.ADD && bo.Op != token.SUB && bo.Op != token.MUL {
				return
			}
			p := env.of(bo, 0)
			sel := false
			for m := range p {
				for _, a := range strings.Split(m, "*") {
					switch a {
					case "start", "count", "stride", "block":
						sel = true
					}
				}
			}
			if !sel {
				return
			}
			// loop counters and lengths are not caller-controlled magnitudes
			if typeShort(bo.Type()) != "uint64" {
				return
			}
			cons := sp.fn + "#no-wrap-in-validator"
			switch bo.Op {
			case token.SUB:
				ok := fb.ProveGE0At(fb.lin(bo.X).add(fb.lin(bo.Y), -1), bo)
				r.Check(ok, "C09.1", cons, c.InstrPos(bo), "subtraction "+p.String()+" is shown not to go below zero at this point")
			default:
				_, hi := fb.rng(bo)
				okR := hi < inf && hi <= (int64(1)<<62)
				if !okR {
					// bounded by another uint64 value of the function (e.g. the dimension) on every path to this point?
					instrs(fn, func(in2 ssa.Instruction) {
						ld, isLd := in2.(*ssa.UnOp)
						if okR || !isLd || ld.Op != token.MUL || typeShort(ld.Type()) != "uint64" {
							return
						}
						if fb.ProveGE0At(fb.lin(ld).add(fb.lin(bo), -1), bo) {
							okR = true
						}
					})
				}
				r.Check(okR, "C09.1", cons, c.InstrPos(bo), "unchecked "+bo.Op.String()+" on caller-controlled values ("+p.String()+"): a wrapped result passes the bound test; use a comparison against the room left or the checked multiply")
			}
		})
	}
	r.Floor("C09.1", 10)
}

func c09siblings(c *Ctx, r *Result) {
	seq := func(fn *ssa.Function) []string {
		var out []string
		order := map[*ssa.BasicBlock]int{}
		for i, b := range fn.DomPreorder() {
			order[b] = i
		}
		var calls []*ssa.Call
		instrs(fn, func(in ssa.Instruction) {
			if call, ok := in.(*ssa.Call); ok && strings.HasPrefix(c.calleeName(call), "core.DatatypeMessage.Is") && c.calleeName(call) != "core.DatatypeMessage.IsSigned" {
				for _, ref := range *call.Referrers() {
					if _, isIf := ref.(*ssa.If); isIf {
						calls = append(calls, call)
					}
				}
			}
		})
		sort.Slice(calls, func(i, j int) bool { return order[calls[i].Block()] < order[calls[j].Block()] })
		for _, x := range calls {
			out = append(out, lastSeg(c.calleeName(x)))
		}
		return out
	}
	a, b := c.Fn(r, "core.convertToFloat64"), c.Fn(r, "hdf5.convertToFloat64")
	if a != nil && b != nil {
		sa, sb := strings.Join(seq(a), ","), strings.Join(seq(b), ",")
		r.Check(sa == sb && sa != "", "C09.2", "core.convertToFloat64~hdf5.convertToFloat64#same-dispatch", c.Pos(b.Pos()), "full read dispatches on ["+sa+"], partial read on ["+sb+"]")
		// byte order taken from the datatype on both sides
		for _, fn := range []*ssa.Function{a, b} {
			ok := false
			for _, site := range callsIn(fn) {
				if c.calleeName(site) == "core.DatatypeMessage.GetByteOrder" {
					ok = true
				}
			}
			r.Check(ok, "C09.2", c.Name(fn)+"#byte-order-from-datatype", c.Pos(fn.Pos()), "the byte order used for decoding comes from the datatype")
		}
	}
	r.Floor("C09.2", 3)
}

func c09dispatch(c *Ctx, r *Result) {
	fn := c.Fn(r, "hdf5.Dataset.dispatchHyperslabReader")
	if fn == nil {
		return
	}
	arms := 0
	var last *ssa.BasicBlock
	for _, b := range fn.DomPreorder() {
		ifi, ok := b.Instrs[len(b.Instrs)-1].(*ssa.If)
		if !ok {
			continue
		}
		call, ok := ifi.Cond.(*ssa.Call)
		if !ok || !strings.HasPrefix(c.calleeName(call), "core.DataLayoutMessage.Is") {
			continue
		}
		arms++
		// the arm calls a reader and returns its result
		okArm := false
		for _, in := range b.Succs[0].Instrs {
			if x, ok := in.(*ssa.Call); ok && strings.HasPrefix(c.calleeName(x), "hdf5.Dataset.readHyperslab") {
				okArm = true
			}
		}
		r.Check(okArm, "C09.3", c.Name(fn)+"#"+lastSeg(c.calleeName(call))+"-arm-reads", c.InstrPos(ifi), "layout arm calls its reader")
		last = b.Succs[1]
	}
	okDef := false
	if last != nil {
		if ret, ok := last.Instrs[len(last.Instrs)-1].(*ssa.Return); ok && !isNilConst(retOperand(ret, 1)) && !mayBeNilShallow(retOperand(ret, 1)) {
			okDef = true
		}
	}
	r.Check(okDef && arms >= 3, "C09.3", c.Name(fn)+"#default-is-error", c.Pos(fn.Pos()), itoa(arms)+" layout arms; an unrecognised layout is an error")
	r.Floor("C09.3", 4)
}

func c09fastPath(c *Ctx, r *Result) {
	fn := c.Fn(r, "hdf5.Dataset.readHyperslabContiguous")
	pred := c.Fn(r, "hdf5.isContiguousSelection")
	if fn == nil || pred == nil {
		return
	}
	n := 0
	for _, site := range callsIn(fn) {
		if c.calleeName(site) != "hdf5.Dataset.readContiguousOptimized" {
			continue
		}
		n++
		in := site.(ssa.Instruction)
		ok := false
		for _, b := range fn.Blocks {
			ifi, isIf := b.Instrs[len(b.Instrs)-1].(*ssa.If)
			if !isIf {
				continue
			}
			call, isCall := ifi.Cond.(*ssa.Call)
			if isCall && c.calleeName(call) == "hdf5.isContiguousSelection" && edgeDominates(b, b.Succs[0], in.Block()) {
				ok = true
			}
		}
		r.Check(ok, "C09.4", c.Name(fn)+"#fast-path-only-if-contiguous", c.InstrPos(in), "the single-read path is entered only on the true edge of isContiguousSelection (no other condition can route a selection there)")
	}
	if n == 0 {
		r.Errorf("C09.4: readHyperslabContiguous no longer calls readContiguousOptimized")
	}
	// the fast path itself is used by nothing else
	for _, f := range c.LibFuncs() {
		if f == fn {
			continue
		}
		for _, site := range callsIn(f) {
			if c.calleeName(site) == "hdf5.Dataset.readContiguousOptimized" {
				r.Viol("C09.4", c.Name(f)+"#fast-path-only-if-contiguous", c.InstrPos(site.(ssa.Instruction)), "readContiguousOptimized is called without the contiguity test")
			}
		}
	}
	// predicate: loop over dimensions from the last; the back edge (dimension treated as complete) carries start == 0 and count*block == dims;
	// every `return true` is reached with each visited dimension unbroken (count == 1 or stride == block)
	env := &polyEnv{c: c, fn: pred}
	var backEdges []*ssa.BasicBlock
	for _, b := range pred.Blocks {
		for _, s := range b.Succs {
			if s.Dominates(b) && s != b {
				// b -> s is a back edge; only loops whose body reads Start are the "complete dimension" loop
				backEdges = append(backEdges, b)
			}
		}
	}
	found := false
	for _, b := range backEdges {
		fs := env.factsAt(b)
		mentionsStart := false
		for _, f := range fs {
			if _, ok := f.P["start"]; ok {
				mentionsStart = true
			}
			if _, ok := f.P["block*count"]; ok && f.Rel == "==0" {
				if _, ok2 := f.P["dims"]; ok2 {
					mentionsStart = true
				}
			}
		}
		if !mentionsStart {
			continue
		}
		found = true
		ok1 := hasFact(fs, P("start", 1), "==0")
		ok2 := hasFact(fs, P("block*count", 1, "dims", -1), "==0")
		r.Check(ok1 && ok2, "C09.4", c.Name(pred)+"#complete-dimension-means-start-0-and-full-extent", c.InstrPos(b.Instrs[len(b.Instrs)-1]),
			"a dimension is passed over as completely selected only if start == 0 and count*block == dims; facts on that edge: "+factStrings(fs))
	}
	if !found {
		r.Viol("C09.4", c.Name(pred)+"#complete-dimension-means-start-0-and-full-extent", c.Pos(pred.Pos()), "no loop edge found on which a dimension is established as completely selected (start == 0 and count*block == dims)")
	}
	// unbroken test: the predicate compares stride with block somewhere (the result may flow through a short-circuit phi)
	unb := false
	instrs(pred, func(in ssa.Instruction) {
		if bo, ok := in.(*ssa.BinOp); ok && (bo.Op == token.EQL || bo.Op == token.NEQ) {
			p := env.of(bo.X, 0).add(env.of(bo.Y, 0), -1)
			if p.equal(P("stride", 1, "block", -1)) || p.equal(P("block", 1, "stride", -1)) {
				unb = true
			}
		}
	})
	r.Check(unb, "C09.4", c.Name(pred)+"#tests-unbroken-interval", c.Pos(pred.Pos()), "the predicate compares stride with block (blocks must touch for a run to be contiguous)")
	r.Floor("C09.4", 3)
}

func c09chunkDest(c *Ctx, r *Result) {
	fn := c.Fn(r, "hdf5.extractChunkPortionRecursive")
	if fn == nil {
		return
	}
	var selIdx, outIdx *ssa.Parameter
	for _, p := range fn.Params {
		switch p.Name() {
		case "selIdx":
			selIdx = p
		case "outputIdx":
			outIdx = p
		}
	}
	n := 0
	for _, site := range callsIn(fn) {
		call, ok := site.(*ssa.Call)
		if !ok {
			continue
		}
		b, ok := call.Call.Value.(*ssa.Builtin)
		if !ok || b.Name() != "copy" {
			continue
		}
		dst, ok := call.Call.Args[0].(*ssa.Slice)
		if !ok || dst.Low == nil {
			continue
		}
		n++
		usesRunning := outIdx != nil && dependsOnLoadOf(dst.Low, outIdx, 0)
		usesSel := selIdx != nil && dependsOnValue(dst.Low, selIdx, 0)
		r.Check(!usesRunning && usesSel, "C09.5", c.Name(fn)+"#destination-is-selection-position", c.InstrPos(call),
			"the destination offset of a copied element is computed from its position in the selection, not from the running output counter (chunks are visited one after the other, not in selection order)")
	}
	if n == 0 {
		r.Errorf("C09.5: no element copy found in extractChunkPortionRecursive")
	}
	// the recursion hands down selIdx*count*block + c*block + b
	if selIdx != nil {
		env := &polyEnv{c: c, fn: fn}
		okRec := false
		pos := c.Pos(fn.Pos())
		for _, site := range callsIn(fn) {
			if c.calleeName(site) != "hdf5.extractChunkPortionRecursive" {
				continue
			}
			idx := paramIndex(fn, selIdx)
			arg := site.Common().Args[idx]
			p := env.of(arg, 0)
			want := P("block*count*selidx", 1, "block*i<count>", 1, "i<block>", 1)
			pos = c.InstrPos(site.(ssa.Instruction))
			if p.equal(want) {
				okRec = true
			} else {
				r.Viol("C09.5", c.Name(fn)+"#position-recurrence", pos, "selection position handed to the next dimension is "+p.String()+", expected "+want.String())
			}
		}
		if okRec {
			r.Hold("C09.5", c.Name(fn)+"#position-recurrence", pos, "selection position handed to the next dimension is selIdx*count*block + c*block + b")
		}
	} else {
		r.Viol("C09.5", c.Name(fn)+"#position-recurrence", c.Pos(fn.Pos()), "extractChunkPortionRecursive has no selection-position parameter")
	}
	r.Floor("C09.5", 2)
}

func dependsOnValue(v, target ssa.Value, d int) bool {
	if d > 10 {
		return false
	}
	if v == target {
		return true
	}
	switch x := v.(type) {
	case *ssa.BinOp:
		return dependsOnValue(x.X, target, d+1) || dependsOnValue(x.Y, target, d+1)
	case *ssa.Convert:
		return dependsOnValue(x.X, target, d+1)
	case *ssa.UnOp:
		return dependsOnValue(x.X, target, d+1)
	case *ssa.Phi:
		for _, e := range x.Edges {
			if dependsOnValue(e, target, d+1) {
				return true
			}
		}
	}
	return false
}

func dependsOnLoadOf(v ssa.Value, ptr ssa.Value, d int) bool {
	if d > 10 {
		return false
	}
	switch x := v.(type) {
	case *ssa.UnOp:
		if x.Op == token.MUL && x.X == ptr {
			return true
		}
		return dependsOnLoadOf(x.X, ptr, d+1)
	case *ssa.BinOp:
		return dependsOnLoadOf(x.X, ptr, d+1) || dependsOnLoadOf(x.Y, ptr, d+1)
	case *ssa.Convert:
		return dependsOnLoadOf(x.X, ptr, d+1)
	case *ssa.Phi:
		for _, e := range x.Edges {
			if dependsOnLoadOf(e, ptr, d+1) {
				return true
			}
		}
	}
	return false
}

func c09iterator(c *Ctx, r *Result) {
	next := c.Fn(r, "hdf5.ChunkIterator.Next")
	chunk := c.Fn(r, "hdf5.ChunkIterator.Chunk")
	if next == nil || chunk == nil {
		return
	}
	// Next: exactly one store to current, value = current + 1
	stores := 0
	okStep := false
	instrs(next, func(in ssa.Instruction) {
		st, ok := in.(*ssa.Store)
		if !ok {
			return
		}
		f, _ := fieldOfAddr(st.Addr)
		if f == nil || f.Name() != "current" {
			return
		}
		stores++
		if bo, ok := st.Val.(*ssa.BinOp); ok && bo.Op == token.ADD {
			if k, ok := constInt(bo.Y); ok && k == 1 {
				if ld, ok := isLoad(bo.X); ok && sameFieldAddr(ld.X, st.Addr) {
					okStep = true
				}
			}
		}
	})
	r.Check(stores == 1 && okStep, "C09.6", c.Name(next)+"#advances-by-one", c.Pos(next.Pos()), "Next stores current+1 exactly once")
	// Next returns true only while current <= len(chunkCoords)
	okBound := false
	instrs(next, func(in ssa.Instruction) {
		if bo, ok := in.(*ssa.BinOp); ok && bo.Op == token.GTR {
			if valueReadsField(bo.X, "hdf5.ChunkIterator.current", 0) && strings.Contains(bo.Y.String(), "len") {
				okBound = true
			}
		}
	})
	r.Check(okBound, "C09.6", c.Name(next)+"#stops-after-last-chunk", c.Pos(next.Pos()), "Next compares current with len(chunkCoords)")
	// Chunk: start = coords*chunkDims, count = chunkDims clamped by datasetDims - start; passed to ReadSlice
	// (the arithmetic may live in a helper of the iterator that Chunk calls)
	bodies := []*ssa.Function{chunk}
	for _, site := range callsIn(chunk) {
		if g := site.Common().StaticCallee(); g != nil && g.Blocks != nil && shortPkg(fnPkgPath(g)) == "hdf5" && strings.Contains(c.Name(g), "ChunkIterator.") {
			bodies = append(bodies, g)
		}
	}
	var startOK, countOK, clampOK bool
	for _, body := range bodies {
		env := &polyEnv{c: c, fn: body}
		instrs(body, func(in ssa.Instruction) {
			st, ok := in.(*ssa.Store)
			if !ok {
				return
			}
			ia, ok := st.Addr.(*ssa.IndexAddr)
			if !ok {
				return
			}
			p := env.of(st.Val, 0)
			if p.equal(P("chunkcoords*chunkdims", 1)) || p.equal(P("chunkdims*coords", 1)) || p.equal(P("?t*chunkdims", 1)) {
				startOK = true
			}
			_ = ia
			if p.equal(P("chunkdims", 1)) {
				countOK = true
			}
			if _, has := p["dims"]; has && len(p) == 2 {
				clampOK = true
			}
		})
		// names: coords is a local loaded from chunkCoords[current-1]; accept any product with chunkdims for start
		if !startOK {
			instrs(body, func(in ssa.Instruction) {
				if st, ok := in.(*ssa.Store); ok {
					p := env.of(st.Val, 0)
					for m, cf := range p {
						if cf == 1 && len(p) == 1 && strings.Contains(m, "chunkdims") && strings.Contains(m, "*") {
							startOK = true
						}
					}
				}
			})
		}
	}
	r.Check(startOK && countOK && clampOK, "C09.6", c.Name(chunk)+"#slice-of-chunk-clamped", c.Pos(chunk.Pos()), "start = coord*chunkDims, count = chunkDims, clamped to datasetDims - start at the boundary")
	okCall := false
	for _, site := range callsIn(chunk) {
		if c.calleeName(site) == "hdf5.Dataset.ReadSlice" {
			okCall = true
		}
	}
	r.Check(okCall, "C09.6", c.Name(chunk)+"#reads-through-ReadSlice", c.Pos(chunk.Pos()), "the chunk's elements are read with ReadSlice(start, count)")
	// collectChunkCoordinates: one coordinate per index entry
	if cc := c.Fn(r, "hdf5.Dataset.collectChunkCoordinates"); cc != nil {
		appends := 0
		instrs(cc, func(in ssa.Instruction) {
			if call, ok := in.(*ssa.Call); ok {
				if b, ok := call.Call.Value.(*ssa.Builtin); ok && b.Name() == "append" {
					appends++
				}
			}
		})
		r.Check(appends == 1, "C09.6", c.Name(cc)+"#one-coordinate-per-index-entry", c.Pos(cc.Pos()), "exactly one append per B-tree entry")
	}
	r.Floor("C09.6", 5)
}

func c09span(c *Ctx, r *Result) {
	fn := c.Fn(r, "hdf5.Dataset.readContiguousRowByRow")
	if fn == nil {
		return
	}
	n := 0
	for _, site := range callsIn(fn) {
		if c.calleeName(site) != "hdf5.extractHyperslabRecursive" {
			continue
		}
		n++
		callee := site.Common().StaticCallee()
		var baseIdx = -1
		for i, p := range callee.Params {
			if p.Name() == "base" {
				baseIdx = i
			}
		}
		if baseIdx < 0 {
			r.Viol("C09.7", c.Name(fn)+"#buffer-base-is-first-element-read", c.InstrPos(site.(ssa.Instruction)), "extractHyperslabRecursive has no base parameter: a partial buffer is indexed with whole-dataset offsets")
			continue
		}
		base := site.Common().Args[baseIdx]
		// the file read before it: ReadAt(rawData, int64(DataAddress + base*elementSize))
		ok := false
		for _, s2 := range callsIn(fn) {
			if s2.Common().IsInvoke() && s2.Common().Method.Name() == "ReadAt" || strings.HasSuffix(c.calleeName(s2), ".ReadAt") {
				args := s2.Common().Args
				off := args[len(args)-1]
				if dependsOnValue(off, base, 0) {
					ok = true
				}
			}
		}
		r.Check(ok, "C09.7", c.Name(fn)+"#buffer-base-is-first-element-read", c.InstrPos(site.(ssa.Instruction)), "the element offset at which the file read starts is the base handed to the extraction")
		// the span [first, last] is inclusive: the buffer holds (last - first + 1) elements
		c09spanLength(c, r, fn, site, base, callee)
	}
	// the callee subtracts base before indexing
	if ex := c.Fn(r, "hdf5.extractHyperslabRecursive"); ex != nil {
		var base *ssa.Parameter
		for _, p := range ex.Params {
			if p.Name() == "base" {
				base = p
			}
		}
		ok := false
		if base != nil {
			instrs(ex, func(in ssa.Instruction) {
				if bo, isB := in.(*ssa.BinOp); isB && bo.Op == token.SUB && bo.Y == ssa.Value(base) {
					ok = true
				}
			})
		}
		r.Check(ok, "C09.7", c.Name(ex)+"#offsets-relative-to-base", c.Pos(ex.Pos()), "source offset = linear offset - base")
	}
	if n == 0 {
		r.Errorf("C09.7: readContiguousRowByRow no longer calls extractHyperslabRecursive")
	}
	r.Floor("C09.7", 2)
}

// ---- additional necessary conditions found by the third round of seeded changes ----

func init() {
	reg := registry["C09"]
	reg.Meta.Rules["C09.8"] = "row-major stride tables: strides[i] = strides[i+1] * dims[i+1] (the extent multiplied in is that of the faster dimension)"
	reg.Meta.Rules["C09.9"] = "pruning in the per-chunk extraction is justified: an iteration is skipped only where its coordinates are provably outside the chunk"
	reg.Rules = append(reg.Rules, c09strides, c09pruning)
}

// c09strides: every self-recurrence X[i] = X[j] * D[k] over a stride table has k == j (the stride of dimension i is the
// stride of the next faster dimension times THAT dimension's extent).
func c09strides(c *Ctx, r *Result) {
	n := 0
	for _, fn := range c.LibFuncs() {
		pk := shortPkg(fnPkgPath(fn))
		if pk != "hdf5" && pk != "core" && pk != "writer" {
			continue
		}
		fb := c.FB(fn)
		instrs(fn, func(in ssa.Instruction) {
			st, ok := in.(*ssa.Store)
			if !ok {
				return
			}
			dst, ok := st.Addr.(*ssa.IndexAddr)
			if !ok {
				return
			}
			mul, ok := st.Val.(*ssa.BinOp)
			if !ok || mul.Op != token.MUL {
				return
			}
			elemOf := func(v ssa.Value) (*ssa.IndexAddr, bool) {
				ld, ok := isLoad(v)
				if !ok {
					return nil, false
				}
				ia, ok := ld.X.(*ssa.IndexAddr)
				return ia, ok
			}
			a, okA := elemOf(mul.X)
			b, okB := elemOf(mul.Y)
			// the running-product form: run *= D[k]; X[i] = run, with run starting at 1
			if okA != okB {
				acc, ext := mul.X, b
				if okA {
					acc, ext = mul.Y, a
				}
				if phi, isPhi := acc.(*ssa.Phi); isPhi && len(phi.Edges) == 2 && !sameSliceValue(ext.X, dst.X) {
					carried, one := false, false
					for _, e := range phi.Edges {
						if e == ssa.Value(mul) {
							carried = true
						} else if k, isK := constInt(e); isK && k == 1 {
							one = true
						}
					}
					if carried && one {
						n++
						i, k := fb.lin(dst.Index), fb.lin(ext.Index)
						okRec := k.equal(i.add(linConst(1), 1)) || k.equal(i.add(linConst(1), -1))
						r.Check(okRec, "C09.8", c.Name(fn)+"#stride-recurrence", c.InstrPos(st), "stride["+fb.linString(i)+"] = running product, multiplied by extent["+fb.linString(k)+"] before the store: the extent must be that of the neighbouring dimension")
					}
				}
				return
			}
			if !okA || !okB {
				return
			}
			// which factor is the table itself?
			self, other := a, b
			if !sameSliceValue(a.X, dst.X) {
				self, other = b, a
			}
			if !sameSliceValue(self.X, dst.X) || sameSliceValue(other.X, dst.X) {
				return
			}
			n++
			i, j, k := fb.lin(dst.Index), fb.lin(self.Index), fb.lin(other.Index)
			// descending recurrence (row-major): j = i+1 and k = j.  ascending (column-major): j = i-1 and k = j.
			okRec := k.equal(j) && (j.equal(i.add(linConst(1), 1)) || j.equal(i.add(linConst(1), -1)))
			r.Check(okRec, "C09.8", c.Name(fn)+"#stride-recurrence", c.InstrPos(st), "stride["+fb.linString(i)+"] = stride["+fb.linString(j)+"] * extent["+fb.linString(k)+"]: the extent must be that of the dimension whose stride is multiplied")
		})
	}
	if n < 2 {
		r.Errorf("C09.8: only %d stride recurrences found (expected the two tables of copyNDChunk at least)", n)
	}
	r.Floor("C09.8", 2)
}

func sameSliceValue(a, b ssa.Value) bool {
	if a == b {
		return true
	}
	la, ok1 := isLoad(a)
	lb, ok2 := isLoad(b)
	if ok1 && ok2 {
		return sameFieldAddr(la.X, lb.X) || la.X == lb.X
	}
	return false
}

// c09pruning: in extractChunkPortionRecursive every branch that skips the recursive call for some (c,b) iteration must carry,
// on the skipping edge, either coord >= chunkEnd (everything that follows is larger) or blockStart + block <= chunkStart
// (the whole block lies before the chunk).
func c09pruning(c *Ctx, r *Result) {
	fn := c.Fn(r, "hdf5.extractChunkPortionRecursive")
	if fn == nil {
		return
	}
	var rec *ssa.Call
	for _, site := range callsIn(fn) {
		if c.calleeName(site) == "hdf5.extractChunkPortionRecursive" {
			rec, _ = site.(*ssa.Call)
		}
	}
	if rec == nil {
		r.Errorf("C09.9: recursive call of extractChunkPortionRecursive not found")
		return
	}
	env := &polyEnv{c: c, fn: fn}
	// loop region: blocks from which the recursive call is reachable and that are reachable from the outer loop header
	canReachRec := map[*ssa.BasicBlock]bool{}
	for _, b := range fn.Blocks {
		if b == rec.Block() || reachableFrom(b, nil)[rec.Block()] {
			canReachRec[b] = true
		}
	}
	// the base case (dim == ndims) does not reach the recursion: restrict to blocks dominated by the first loop header
	var loopHdr *ssa.BasicBlock
	for _, b := range fn.DomPreorder() {
		if canReachRec[b] {
			for _, in := range b.Instrs {
				if _, isPhi := in.(*ssa.Phi); isPhi && loopHdr == nil {
					loopHdr = b
				}
			}
		}
	}
	if loopHdr == nil {
		r.Errorf("C09.9: extraction loops not found")
		return
	}
	n := 0
	for _, b := range fn.Blocks {
		if !loopHdr.Dominates(b) || !canReachRec[b] {
			continue
		}
		ifi, ok := b.Instrs[len(b.Instrs)-1].(*ssa.If)
		if !ok {
			continue
		}
		for i, s := range b.Succs {
			// a skipping edge: from s the recursive call of THIS iteration is no longer reached without going through a loop header again
			if reachesWithoutHeader(b, s, rec.Block(), fn) {
				continue
			}
			// loop exits by the loop's own counter test (c < count, b < block) are not prunes
			if cmp, isCmp := ifi.Cond.(*ssa.BinOp); isCmp {
				if _, isPhi := cmp.X.(*ssa.Phi); isPhi && cmp.Op == token.LSS {
					continue
				}
			}
			n++
			p, rel, okF := env.condFact(ifi.Cond, i == 0)
			coord := P("start", 1, "i<count>*stride", 1, "i<block>", 1)
			upper := coord.add(P("chunkend", 1), -1)                                             // coord - chunkEnd >= 0
			lower := P("chunkstart", 1).add(P("start", 1, "i<count>*stride", 1, "block", 1), -1) // chunkStart - (blockStart + block) >= 0
			lower2 := lower.add(polyConst(1), 1)                                                 // chunkStart - (blockStart + block - 1) - 1 >= 0  (same thing written with <)
			ok := okF && rel == ">=0" && (p.equal(upper) || p.equal(lower) || p.equal(lower2.add(polyConst(1), -1)))
			what := "?"
			if okF {
				what = p.String() + " " + rel
			}
			r.Check(ok, "C09.9", c.Name(fn)+"#prune-justified", c.InstrPos(ifi), "an iteration is skipped on the condition "+what+"; accepted are coord >= chunkEnd or blockStart + block <= chunkStart (a block that starts before the chunk may still reach into it)")
		}
	}
	if n == 0 {
		r.Errorf("C09.9: no pruning branch found (the upper-bound exit was expected)")
	}
	r.Floor("C09.9", 1)
}

// reachesWithoutHeader: target is reachable from start without passing through the header of a loop that encloses `from`
// (i.e. within the current iteration; entering an inner loop is fine).
func reachesWithoutHeader(from, start, target *ssa.BasicBlock, fn *ssa.Function) bool {
	stop := map[*ssa.BasicBlock]bool{}
	for _, b := range fn.Blocks {
		if len(b.Instrs) > 0 && len(b.Preds) > 1 {
			if _, isPhi := b.Instrs[0].(*ssa.Phi); isPhi && b.Dominates(from) {
				stop[b] = true
			}
		}
	}
	if start == target {
		return true
	}
	if stop[start] {
		return false
	}
	return reachableFrom(start, stop)[target]
}

func init() {
	reg := registry["C09"]
	reg.Meta.Rules["C09.10"] = "the chunk iterator visits every chunk the index lists: collectChunkCoordinates appends each listed chunk; a chunk may only be left out on an edge that establishes scaled*chunkSize >= dims (it starts at or beyond the extent) - a boundary chunk that merely ends beyond the extent holds data"
	reg.Rules = append(reg.Rules, func(c *Ctx, r *Result) {
		fn := c.Fn(r, "hdf5.Dataset.collectChunkCoordinates")
		if fn == nil {
			return
		}
		var sink *ssa.Call
		for _, site := range callsIn(fn) {
			call, ok := site.(*ssa.Call)
			if !ok {
				continue
			}
			if b, isB := call.Call.Value.(*ssa.Builtin); isB && b.Name() == "append" && strings.HasPrefix(typeShort(call.Type()), "[][]") {
				sink = call
			}
		}
		cons := c.Name(fn) + "#every-listed-chunk-visited"
		if sink == nil {
			r.Undec("C09.10", cons, c.Pos(fn.Pos()), "the append of a chunk coordinate was not recognised")
			return
		}
		bad, n, found := c.loopSkipsJustified(fn, sink.Block())
		if !found || n == 0 {
			r.Undec("C09.10", cons, c.InstrPos(sink), "chunk loop not recognised")
			return
		}
		r.Check(bad == "", "C09.10", cons, firstNonEmpty(bad, c.InstrPos(sink)), "every iteration over the listed chunks appends the chunk's coordinate; a skip needs scaled*chunkSize >= dims on its edge")
	})
}

// fieldNamesIn: names of struct fields whose values flow into v (arithmetic, conversions, phis, element loads).
func fieldNamesIn(v ssa.Value) map[string]bool {
	out := map[string]bool{}
	seen := map[ssa.Value]bool{}
	var walk func(v ssa.Value, d int)
	walk = func(v ssa.Value, d int) {
		if v == nil || seen[v] || d > 30 {
			return
		}
		seen[v] = true
		switch x := v.(type) {
		case *ssa.BinOp:
			walk(x.X, d+1)
			walk(x.Y, d+1)
		case *ssa.Convert:
			walk(x.X, d+1)
		case *ssa.ChangeType:
			walk(x.X, d+1)
		case *ssa.Phi:
			for _, e := range x.Edges {
				walk(e, d+1)
			}
		case *ssa.UnOp:
			walk(x.X, d+1)
		case *ssa.IndexAddr:
			walk(x.X, d+1)
		case *ssa.Index:
			walk(x.X, d+1)
		case *ssa.FieldAddr:
			if f, _ := fieldOfAddr(x); f != nil {
				out[f.Name()] = true
			}
		case *ssa.Field:
			if f, _ := fieldOfAddr(x); f != nil {
				out[f.Name()] = true
			}
		case *ssa.Call:
			for _, a := range x.Call.Args {
				walk(a, d+1)
			}
		case *ssa.Extract:
			walk(x.Tuple, d+1)
		}
	}
	walk(v, 0)
	return out
}

func init() {
	reg := registry["C09"]
	reg.Meta.Rules["C09.11"] = "a walk over the blocks of a selection (c < Count[dim]) starts at block 0, or at a skip-ahead position that takes the block length into account: a block that starts before a chunk can still reach into it when Block > 1, so a first block computed from start, stride and the chunk origin alone drops elements"
	reg.Rules = append(reg.Rules, func(c *Ctx, r *Result) {
		n := 0
		for _, fn := range c.LibFuncs() {
			if shortPkg(fnPkgPath(fn)) != "hdf5" {
				continue
			}
			for _, b := range fn.Blocks {
				ifi, ok := b.Instrs[len(b.Instrs)-1].(*ssa.If)
				if !ok {
					continue
				}
				cmp, ok := ifi.Cond.(*ssa.BinOp)
				if !ok || cmp.Op != token.LSS {
					continue
				}
				phi, ok := cmp.X.(*ssa.Phi)
				if !ok || phi.Block() != b {
					continue
				}
				if fs := fieldNamesIn(cmp.Y); !fs["Count"] || len(fs) != 1 {
					continue
				}
				// the initial value: the edge that does not come from inside the loop
				loop := naturalLoop(b)
				for i, e := range phi.Edges {
					if loop[b.Preds[i]] && b.Preds[i] != b && b.Dominates(b.Preds[i]) {
						continue
					}
					n++
					cons := c.Name(fn) + "#selection-block-walk-starts-at-first-relevant-block"
					if k, isK := constInt(e); isK && k == 0 {
						r.Hold("C09.11", cons, c.InstrPos(ifi), "the walk visits every block 0..Count-1")
						continue
					}
					fs := fieldNamesIn(e)
					if fs["Block"] {
						r.Undec("C09.11", cons, c.InstrPos(ifi), "skip-ahead start that involves the block length: the formula itself is not decided")
					} else {
						r.Viol("C09.11", cons, c.InstrPos(ifi), "the walk over the selection's blocks starts at a computed position that does not involve the block length: blocks that begin before the chunk but reach into it are skipped")
					}
				}
			}
		}
		if n < 2 {
			r.Errorf("C09.11: only %d selection block walks found", n)
		}
	})
}

func init() {
	reg := registry["C09"]
	reg.Meta.Rules["C09.12"] = "what a partial read stores into the caller's selection is the caller's: no slice backed by a package variable is stored into a field of a HyperslabSelection (defaults shared between calls are changed by one caller for all)"
	reg.Meta.Rules["C09.13"] = "chunks are identified, not hashed: a map key computed from a coordinate vector is an injective encoding (the joined text of all coordinates, or a mixed-radix index whose multipliers are the per-dimension extents) - a fold key = key*K + c with a constant K maps different chunks to one key"
	reg.Rules = append(reg.Rules, func(c *Ctx, r *Result) {
		// ---- C09.12
		n := 0
		for _, fn := range c.LibFuncs() {
			if shortPkg(fnPkgPath(fn)) != "hdf5" {
				continue
			}
			for _, fs := range c.DirectFieldStores(fn) {
				if fs.Fn != fn || !strings.HasPrefix(fs.Key, "hdf5.HyperslabSelection.") || fs.Val == nil {
					continue
				}
				if _, isSlice := fs.Val.Type().Underlying().(*types.Slice); !isSlice {
					continue
				}
				n++
				bad, what := c.sharedBacking(fs.Val, 0)
				r.Check(!bad, "C09.12", c.Name(fn)+"#"+fs.Key+"#not-shared", c.InstrPos(fs.In), "the slice stored into the selection is made for it (shared backing found: "+what+")")
			}
		}
		if n == 0 {
			r.Undec("C09.12", "hdf5#selection-defaults", "", "no slice store into a HyperslabSelection found")
		}
		chunkKeyRule(c, r, "C09.13")
	})
}

// c09spanLength: the buffer handed to the extraction is made with (L - base + 1) * elementSize bytes, L being another result of the
// function that computed base (the linear offset of the last selected element).
func c09spanLength(c *Ctx, r *Result, fn *ssa.Function, site ssa.CallInstruction, base ssa.Value, callee *ssa.Function) {
	cons := c.Name(fn) + "#span-buffer-holds-first-to-last-inclusive"
	pos := c.InstrPos(site.(ssa.Instruction))
	var mk *ssa.MakeSlice
	for _, a := range site.Common().Args {
		v := a
		for {
			if s, ok := v.(*ssa.Slice); ok {
				v = s.X
				continue
			}
			break
		}
		if m, ok := v.(*ssa.MakeSlice); ok {
			// the buffer that is filled by the file read
			for _, s2 := range callsIn(fn) {
				if s2.Common().IsInvoke() && s2.Common().Method.Name() == "ReadAt" || strings.HasSuffix(c.calleeName(s2), ".ReadAt") {
					for _, a2 := range s2.Common().Args {
						if stripSlices(a2) == ssa.Value(m) {
							mk = m
						}
					}
				}
			}
		}
	}
	baseCall, _ := stripConv(base).(*ssa.Call)
	var esz ssa.Value
	for i, p := range callee.Params {
		if strings.EqualFold(p.Name(), "elementSize") || strings.EqualFold(p.Name(), "elemSize") {
			esz = site.Common().Args[i]
		}
	}
	if mk == nil || baseCall == nil || baseCall.Call.StaticCallee() == nil || esz == nil {
		r.Undec("C09.7", cons, pos, "span buffer, base computation or element size not recognised")
		return
	}
	e := &polyEnv{c: c, fn: fn}
	ln := e.of(mk.Len, 0)
	pb, pe := e.of(base, 0), e.of(esz, 0)
	matched := false
	var last string
	for _, s2 := range callsIn(fn) {
		call, isCall := s2.(*ssa.Call)
		if !isCall || call == baseCall || call.Call.StaticCallee() != baseCall.Call.StaticCallee() {
			continue
		}
		want := e.of(call, 0).add(pb, -1).add(polyConst(1), 1).mul(pe)
		if ln.equal(want) {
			matched = true
		}
		last = e.of(call, 0).String()
	}
	if matched {
		r.Hold("C09.7", cons, pos, "len = (last - first + 1) * elementSize")
		return
	}
	// decidable only when the length is written in terms of the two offsets and the element size
	known := map[string]bool{"": true}
	for m := range pb {
		known[m] = true
	}
	for m := range pe {
		known[m] = true
	}
	for m := range ln {
		for _, a := range strings.Split(m, "*") {
			if strings.HasPrefix(a, "?") && !known[a] && a != last {
				r.Undec("C09.7", cons, c.InstrPos(mk), "buffer length "+ln.String()+" is not written in terms of the two offsets")
				return
			}
		}
	}
	r.Viol("C09.7", cons, c.InstrPos(mk), "the span from the first to the last selected element is inclusive and needs (last - first + 1) * elementSize bytes; the buffer is made with "+ln.String()+" (the extraction skips what does not fit, so the last selected element stays zero)")
}

func stripSlices(v ssa.Value) ssa.Value {
	for {
		if s, ok := v.(*ssa.Slice); ok {
			v = s.X
			continue
		}
		return v
	}
}

// chunkKeyRule: a map key computed from a coordinate vector is an injective encoding.
func chunkKeyRule(c *Ctx, r *Result, rule string) {
	// ---- C09.13
	m := 0
	for _, fn := range c.LibFuncs() {
		if shortPkg(fnPkgPath(fn)) != "hdf5" {
			continue
		}
		instrs(fn, func(in ssa.Instruction) {
			var key ssa.Value
			switch x := in.(type) {
			case *ssa.MapUpdate:
				key = x.Key
			case *ssa.Lookup:
				if _, isMap := x.X.Type().Underlying().(*types.Map); isMap {
					key = x.Index
				}
			}
			if key == nil {
				return
			}
			call, ok := key.(*ssa.Call)
			if !ok {
				return
			}
			g := call.Call.StaticCallee()
			if g == nil || g.Blocks == nil || !inModule(fnPkgPath(g)) || len(g.Params) == 0 {
				return
			}
			// a key function over a coordinate vector
			var vec *ssa.Parameter
			for _, p := range g.Params {
				if sl, ok := p.Type().Underlying().(*types.Slice); ok && isIntType(sl.Elem()) {
					vec = p
				}
			}
			if vec == nil {
				return
			}
			m++
			cons := c.Name(fn) + "#" + c.Name(g) + "#key-identifies-chunk"
			if !isIntType(g.Signature.Results().At(0).Type()) {
				// a text key: decimal numbers joined without a separator are not an encoding ((1,10) and (11,0) both
				// read "110")
				noSep := ""
				instrs(g, func(y ssa.Instruction) {
					call2, ok := y.(*ssa.Call)
					if !ok {
						return
					}
					f := call2.Call.StaticCallee()
					if f == nil || f.Pkg == nil || f.Pkg.Pkg.Path() != "strings" || f.Name() != "Join" || len(call2.Call.Args) != 2 {
						return
					}
					if k, isK := call2.Call.Args[1].(*ssa.Const); isK && k.Value != nil && k.Value.Kind() == constant.String && constant.StringVal(k.Value) == "" {
						noSep = c.InstrPos(call2)
					}
				})
				r.Check(noSep == "", rule, cons, firstNonEmpty(noSep, c.InstrPos(in)), "the key is a text / array encoding of all coordinates with a separator between them (joined without one, the coordinates (1,10) and (11,0) give the same key)")
				return
			}
			// integer key: look for the fold phi*K + elem with constant K
			hashed := ""
			instrs(g, func(y ssa.Instruction) {
				bo, ok := y.(*ssa.BinOp)
				if !ok || bo.Op != token.ADD {
					return
				}
				mul, ok := bo.X.(*ssa.BinOp)
				if !ok || mul.Op != token.MUL {
					mul, ok = bo.Y.(*ssa.BinOp)
					if !ok || mul.Op != token.MUL {
						return
					}
				}
				_, kx := constInt(mul.X)
				_, ky := constInt(mul.Y)
				_, px := mul.X.(*ssa.Phi)
				_, py := mul.Y.(*ssa.Phi)
				if (kx && py) || (ky && px) {
					hashed = c.InstrPos(y)
				}
			})
			r.Check(hashed == "", rule, cons, c.InstrPos(in), "integer key folded with a constant multiplier ("+hashed+"): different coordinate vectors share a key")
		})
	}
	if m == 0 {
		r.Undec(rule, "hdf5#chunk-index-key", "", "no map keyed by a function of a coordinate vector found")
	}
}
