package main

import (
	"fmt"
	"go/constant"
	"go/token"
	"go/types"
	"math"
	"os"
	"sort"
	"strings"

	"golang.org/x/tools/go/ssa"
)

// Symbolic bounds engine (E-IDX / E-BND): linear forms over opaque SSA values and slice lengths,
// facts from dominating branch edges (and from callee summaries), intervals from types and arithmetic,
// and a small prover for obligations of the form  T >= 0.

const inf = math.MaxInt64 / 4
const ninf = -inf

type lenKey struct{ v ssa.Value } // length of an opaque slice/string value
type capKey struct{ v ssa.Value }

// Lin is c + sum k_i * sym_i.
type Lin struct {
	C int64
	T map[interface{}]int64
}

func linConst(c int64) Lin { return Lin{C: c} }
func linSym(s interface{}) Lin {
	return Lin{T: map[interface{}]int64{s: 1}}
}
func (a Lin) clone() Lin {
	b := Lin{C: a.C}
	if len(a.T) > 0 {
		b.T = make(map[interface{}]int64, len(a.T))
		for k, v := range a.T {
			b.T[k] = v
		}
	}
	return b
}
func satAdd(a, b int64) int64 {
	s := a + b
	if (a > 0 && b > 0 && s < 0) || s > inf {
		return inf
	}
	if (a < 0 && b < 0 && s > 0) || s < ninf {
		return ninf
	}
	return s
}
func satMul(a, b int64) int64 {
	if a == 0 || b == 0 {
		return 0
	}
	p := a * b
	if p/b != a || p > inf || p < ninf {
		if (a > 0) == (b > 0) {
			return inf
		}
		return ninf
	}
	return p
}
func (a Lin) add(b Lin, k int64) Lin { // a + k*b
	r := a.clone()
	r.C = satAdd(r.C, satMul(k, b.C))
	for s, v := range b.T {
		if r.T == nil {
			r.T = map[interface{}]int64{}
		}
		nv := satAdd(r.T[s], satMul(k, v))
		if nv == 0 {
			delete(r.T, s)
		} else {
			r.T[s] = nv
		}
	}
	return r
}
func (a Lin) scale(k int64) Lin { return Lin{}.add(a, k) }
func (a Lin) isConst() bool     { return len(a.T) == 0 }
func (a Lin) equal(b Lin) bool {
	if a.C != b.C || len(a.T) != len(b.T) {
		return false
	}
	for k, v := range a.T {
		if b.T[k] != v {
			return false
		}
	}
	return true
}

// FB holds per-function analysis state.
type FB struct {
	c            *Ctx
	fn           *ssa.Function
	linMemo      map[ssa.Value]Lin
	rngMemo      map[ssa.Value][2]int64
	rngBusy      map[ssa.Value]bool
	factMemo     map[*ssa.BasicBlock][]Lin
	lenMemo      map[ssa.Value]Lin
	getterMap    map[*ssa.Function][]*ssa.Call
	canonMap     map[canonKey]ssa.Value
	nnPhis       map[*ssa.Phi]bool
	nnDone       bool
	joinBusy     bool
	canonAll     bool
	storedFields map[*types.Var]bool
	ptrBits      int
}

func (c *Ctx) FB(fn *ssa.Function) *FB {
	key := "fb"
	if c.strictNarrow {
		key = "fb-strict" // separate memo tables: the linear forms differ
	}
	m, _ := c.cache[key].(map[*ssa.Function]*FB)
	if m == nil {
		m = map[*ssa.Function]*FB{}
		c.cache[key] = m
	}
	if fb := m[fn]; fb != nil {
		return fb
	}
	bits := 64
	if c.GOARCH == "386" || c.GOARCH == "arm" {
		bits = 32
	}
	fb := &FB{c: c, fn: fn, linMemo: map[ssa.Value]Lin{}, rngMemo: map[ssa.Value][2]int64{}, rngBusy: map[ssa.Value]bool{},
		factMemo: map[*ssa.BasicBlock][]Lin{}, lenMemo: map[ssa.Value]Lin{}, canonMap: map[canonKey]ssa.Value{}, ptrBits: bits}
	fb.storedFields = map[*types.Var]bool{}
	instrs(fn, func(in ssa.Instruction) {
		if st, ok := in.(*ssa.Store); ok {
			if f, _ := fieldOfAddr(st.Addr); f != nil {
				fb.storedFields[f] = true
			}
		}
	})
	m[fn] = fb
	return fb
}

func isIntType(t types.Type) bool {
	b, ok := t.Underlying().(*types.Basic)
	return ok && b.Info()&types.IsInteger != 0
}

// typeRange returns the value range of an integer type.
func (fb *FB) typeRange(t types.Type) (int64, int64) {
	b, ok := t.Underlying().(*types.Basic)
	if !ok {
		return ninf, inf
	}
	switch b.Kind() {
	case types.Uint8:
		return 0, 255
	case types.Uint16:
		return 0, 65535
	case types.Uint32:
		return 0, 1<<32 - 1
	case types.Uint64:
		return 0, inf
	case types.Uint, types.Uintptr:
		if fb.ptrBits == 32 {
			return 0, 1<<32 - 1
		}
		return 0, inf
	case types.Int8:
		return -128, 127
	case types.Int16:
		return -32768, 32767
	case types.Int32:
		return -(1 << 31), 1<<31 - 1
	case types.Int:
		if fb.ptrBits == 32 {
			return -(1 << 31), 1<<31 - 1
		}
		return ninf, inf
	case types.Int64:
		return ninf, inf
	case types.UntypedInt:
		return ninf, inf
	}
	return ninf, inf
}

// singleStoreLoad: v is a load of field f of base b; if exactly one store to that field of the same
// base value exists in the function and it dominates the load, return the stored value.
func (fb *FB) singleStoreLoad(v ssa.Value) ssa.Value {
	ld, ok := isLoad(v)
	if !ok {
		return nil
	}
	if fv, isFV := ld.X.(*ssa.FreeVar); isFV {
		return fb.capturedValue(fv)
	}
	fa, ok := ld.X.(*ssa.FieldAddr)
	if !ok {
		// local variable spilled to an Alloc
		if al, ok := ld.X.(*ssa.Alloc); ok {
			var stores []*ssa.Store
			for _, ref := range *al.Referrers() {
				switch x := ref.(type) {
				case *ssa.Store:
					if x.Addr == al {
						stores = append(stores, x)
					}
				case *ssa.UnOp, *ssa.DebugRef:
				case *ssa.MakeClosure:
					if closureStoresTo(x, al) {
						return nil
					}
				default:
					return nil // address escapes
				}
			}
			return latestStore(stores, ld)
		}
		return nil
	}
	base := fa.X
	// base must be a fresh local object (Alloc) so that no alias writes the field behind our back
	if _, isAlloc := base.(*ssa.Alloc); !isAlloc {
		return nil
	}
	var stores []*ssa.Store
	for _, ref := range *base.Referrers() {
		fa2, ok := ref.(*ssa.FieldAddr)
		if !ok || fa2.Field != fa.Field {
			continue
		}
		for _, r2 := range *fa2.Referrers() {
			if s, ok := r2.(*ssa.Store); ok && s.Addr == fa2 {
				stores = append(stores, s)
			}
		}
	}
	return latestStore(stores, ld)
}

// latestStore: among stores to one location, the one that dominates the load and is dominated by every
// other dominating store, provided no non-dominating store can reach the load.
func latestStore(stores []*ssa.Store, ld ssa.Instruction) ssa.Value {
	var dom []*ssa.Store
	for _, s := range stores {
		if instrDominates(s, ld) {
			dom = append(dom, s)
		} else if canReach(s, ld) {
			return nil
		}
	}
	for _, cand := range dom {
		ok := true
		for _, o := range dom {
			if o != cand && !instrDominates(o, cand) {
				ok = false
			}
		}
		if ok {
			// a store that dominates the load but can be re-executed after cand (loop) invalidates it
			for _, o := range dom {
				if o != cand && canReach(cand, o) {
					ok = false
				}
			}
			if ok {
				return cand.Val
			}
		}
	}
	return nil
}

type canonKey struct {
	base  ssa.Value
	field *types.Var
	idx   int64
	idxv  ssa.Value // non-constant index (same SSA value = same element within one iteration)
}

// canon unifies repeated loads of the same field (base.f) / same constant element (x[k]) of an
// unmodified object: within one function, when the function itself never stores to that field,
// two loads of base.f denote the same value (assumption: callees do not mutate parsed messages).
func (fb *FB) canon(v ssa.Value) ssa.Value {
	if call, isCall := v.(*ssa.Call); isCall {
		return fb.canonGetter(call)
	}
	ld, ok := isLoad(v)
	if !ok {
		return v
	}
	switch a := ld.X.(type) {
	case *ssa.FieldAddr:
		f, _ := fieldOfAddr(a)
		if f == nil || fb.storedFields[f] {
			return v
		}
		k := canonKey{base: fb.canon(a.X), field: f, idx: -1}
		if c, ok := fb.canonMap[k]; ok {
			return c
		}
		fb.canonMap[k] = v
	case *ssa.IndexAddr:
		if ci, ok := constInt(a.Index); ok {
			base := fb.canon(a.X)
			if fb.elementsStored(base) {
				return v
			}
			k := canonKey{base: base, idx: ci}
			if c, ok := fb.canonMap[k]; ok {
				return c
			}
			fb.canonMap[k] = v
		} else {
			// x[i] for the same index value i of a slice this function never stores into
			base := fb.canon(a.X)
			if fb.elementsStored(base) {
				return v
			}
			k := canonKey{base: base, idx: -2, idxv: fb.canon(a.Index)}
			// (facts about one load are used only where their branch edge dominates, i.e. for the same value of i)
			if c, ok := fb.canonMap[k]; ok {
				return c
			}
			fb.canonMap[k] = v
		}
	}
	return v
}

// elementsStored: does the function store through an IndexAddr of this slice value?
func (fb *FB) elementsStored(base ssa.Value) bool {
	if base.Referrers() == nil {
		return true
	}
	for _, ref := range *base.Referrers() {
		if ia, ok := ref.(*ssa.IndexAddr); ok {
			for _, r2 := range *ia.Referrers() {
				if st, ok := r2.(*ssa.Store); ok && st.Addr == ia {
					return true
				}
			}
		}
	}
	return false
}

// lin computes the linear form of an integer value.
func (fb *FB) lin(v ssa.Value) Lin {
	v = fb.canon(v)
	if l, ok := fb.linMemo[v]; ok {
		return l
	}
	fb.linMemo[v] = linSym(v) // cycle guard
	l := fb.lin1(v)
	fb.linMemo[v] = l
	return l
}

func (fb *FB) lin1(v ssa.Value) Lin {
	switch x := v.(type) {
	case *ssa.Const:
		if x.Value != nil && x.Value.Kind() == constant.Int {
			if i, ok := constant.Int64Val(x.Value); ok {
				return linConst(i)
			}
			return linConst(inf)
		}
	case *ssa.BinOp:
		// arithmetic in 8- and 16-bit types wraps at values real files contain (a level byte of 255, a 16-bit count of
		// 65535): it is linear only where the operand ranges keep the result inside the type
		if fb.c.strictNarrow && narrowInt(x.Type()) && (x.Op == token.ADD || x.Op == token.SUB || x.Op == token.MUL || x.Op == token.SHL) {
			if !fb.narrowOpFits(x) {
				return linSym(v)
			}
		}
		switch x.Op {
		case token.ADD:
			if isIntType(x.Type()) {
				return fb.lin(x.X).add(fb.lin(x.Y), 1)
			}
		case token.SUB:
			return fb.lin(x.X).add(fb.lin(x.Y), -1)
		case token.MUL:
			a, b := fb.lin(x.X), fb.lin(x.Y)
			if a.isConst() && abs64(a.C) < 1<<31 {
				return b.scale(a.C)
			}
			if b.isConst() && abs64(b.C) < 1<<31 {
				return a.scale(b.C)
			}
		case token.SHL:
			b := fb.lin(x.Y)
			if b.isConst() && b.C >= 0 && b.C < 31 {
				return fb.lin(x.X).scale(1 << uint(b.C))
			}
		}
	case *ssa.Convert:
		if isIntType(x.Type()) && isIntType(x.X.Type()) {
			// value-preserving when the operand's range fits the target type
			lo, hi := fb.rng(x.X)
			tlo, thi := fb.typeRange(x.Type())
			if lo >= tlo && hi <= thi {
				return fb.lin(x.X)
			}
			// int <-> uint of the same width used as sizes/offsets: idealised as value-preserving;
			// the sign problem is handled where it matters (allocation sinks check the lower bound)
			_, shi := fb.typeRange(x.X.Type())
			if shi <= thi || (thi == inf) {
				return fb.lin(x.X)
			}
			if sameWidthIntUint(x.X.Type(), x.Type()) {
				return fb.lin(x.X)
			}
		}
	case *ssa.ChangeType:
		return fb.lin(x.X)
	case *ssa.Extract:
		// first result of a checked-arithmetic helper (utils.SafeMultiply(a, k), SafeAdd ...): on the success path it is the
		// plain product / sum of the arguments; the failure path returns before the value is used (error discipline: C17)
		if x.Index == 0 && isIntType(x.Type()) {
			if l, ok := fb.linThroughHelper(x); ok {
				return l
			}
		}
	case *ssa.Call:
		if b, ok := x.Call.Value.(*ssa.Builtin); ok && len(x.Call.Args) == 1 {
			switch b.Name() {
			case "len":
				return fb.lenLin(x.Call.Args[0])
			case "cap":
				return fb.capLin(x.Call.Args[0])
			}
		}
		if b, ok := x.Call.Value.(*ssa.Builtin); ok && (b.Name() == "min" || b.Name() == "max") {
			return linSym(v)
		}
		// a one-expression helper over its parameters (entry sizes, header sizes): its value over the arguments
		if isIntType(x.Type()) {
			if l, ok := fb.linThroughPlainCall(x); ok {
				return l
			}
		}
	case *ssa.UnOp:
		if x.Op == token.MUL {
			if sv := fb.singleStoreLoad(x); sv != nil {
				return fb.lin(sv)
			}
		}
	case *ssa.Phi:
		// phi of identical linear forms
		var first Lin
		same := true
		for i, e := range x.Edges {
			if e == v {
				continue
			}
			l := fb.lin(e)
			if _, self := l.T[v]; self {
				same = false
				break
			}
			if i == 0 || first.T == nil && first.C == 0 && i == 0 {
				first = l
			} else if !first.equal(l) {
				same = false
				break
			}
		}
		if same && len(x.Edges) > 0 {
			return first
		}
	}
	return linSym(v)
}

func sameWidthIntUint(a, b types.Type) bool {
	ba, ok1 := a.Underlying().(*types.Basic)
	bb, ok2 := b.Underlying().(*types.Basic)
	if !ok1 || !ok2 {
		return false
	}
	w := func(k types.BasicKind) int {
		switch k {
		case types.Int8, types.Uint8:
			return 8
		case types.Int16, types.Uint16:
			return 16
		case types.Int32, types.Uint32:
			return 32
		case types.Int64, types.Uint64:
			return 64
		case types.Int, types.Uint, types.Uintptr:
			return 0
		}
		return -1
	}
	return w(ba.Kind()) == w(bb.Kind()) && w(ba.Kind()) >= 0
}

func abs64(a int64) int64 {
	if a < 0 {
		return -a
	}
	return a
}

// lenLin: linear form of len(x).
func (fb *FB) lenLin(x ssa.Value) Lin {
	x = fb.canon(x)
	if l, ok := fb.lenMemo[x]; ok {
		return l
	}
	fb.lenMemo[x] = linSym(lenKey{x}) // cycle guard
	l := fb.lenLin1(x)
	fb.lenMemo[x] = l
	return l
}

func (fb *FB) lenLin1(x ssa.Value) Lin {
	switch s := x.(type) {
	case *ssa.Slice:
		lo := linConst(0)
		if s.Low != nil {
			lo = fb.lin(s.Low)
		}
		if s.High != nil {
			return fb.lin(s.High).add(lo, -1)
		}
		return fb.lenOfOperand(s.X).add(lo, -1)
	case *ssa.MakeSlice:
		return fb.lin(s.Len)
	case *ssa.Const:
		if s.Value != nil && s.Value.Kind() == constant.String {
			return linConst(int64(len(constant.StringVal(s.Value))))
		}
		if s.Value == nil {
			return linConst(0)
		}
	case *ssa.Convert:
		// string <-> []byte keep the length
		if isBytesOrString(s.Type()) && isBytesOrString(s.X.Type()) {
			return fb.lenLin(s.X)
		}
	case *ssa.ChangeType:
		return fb.lenLin(s.X)
	case *ssa.UnOp:
		if s.Op == token.MUL {
			if sv := fb.singleStoreLoad(s); sv != nil {
				return fb.lenLin(sv)
			}
			// load of an array value
			if at, ok := s.Type().Underlying().(*types.Array); ok {
				return linConst(at.Len())
			}
		}
	case *ssa.Phi:
		var first Lin
		same := len(s.Edges) > 0
		for i, e := range s.Edges {
			l := fb.lenLin(e)
			if i == 0 {
				first = l
			} else if !first.equal(l) {
				same = false
			}
		}
		if same {
			return first
		}
	case *ssa.Extract:
		// first result of a module function returning (slice, error): its length on the success path
		if call, ok := s.Tuple.(*ssa.Call); ok && s.Index == 0 {
			if callee := call.Call.StaticCallee(); callee != nil && callee.Blocks != nil && inModule(fnPkgPath(callee)) && call.Call.Signature().Results().Len() == 2 {
				if sum, ok := fb.c.lenSummary(callee); ok {
					out := linConst(sum.C)
					good := true
					for k, coef := range sum.T {
						switch kk := k.(type) {
						case *ssa.Parameter:
							if idx := paramIndex(callee, kk); idx >= 0 && idx < len(call.Call.Args) {
								out = out.add(fb.lin(call.Call.Args[idx]), coef)
							} else {
								good = false
							}
						case lenKey:
							p, isP := kk.v.(*ssa.Parameter)
							if idx := paramIndex(callee, p); isP && idx >= 0 && idx < len(call.Call.Args) {
								out = out.add(fb.lenLin(call.Call.Args[idx]), coef)
							} else {
								good = false
							}
						default:
							good = false
						}
					}
					if good {
						return out
					}
				}
			}
		}
	case *ssa.Call:
		if b, ok := s.Call.Value.(*ssa.Builtin); ok && b.Name() == "append" {
			if len(s.Call.Args) == 2 {
				// len(append(a, b...)) = len(a) + len(b); a non-spread append passes a slice of a fresh array
				return fb.lenLin(s.Call.Args[0]).add(fb.lenOfOperand(s.Call.Args[1]), 1)
			}
			if len(s.Call.Args) == 1 {
				return fb.lenLin(s.Call.Args[0])
			}
			return linSym(lenKey{x})
		}
		if callee := s.Call.StaticCallee(); callee != nil && callee.Pkg != nil && callee.Pkg.Pkg.Path() == "encoding/binary" && len(s.Call.Args) >= 2 {
			// binary.<order>.AppendUintN(b, v) returns b extended by N bytes
			w := int64(0)
			switch callee.Name() {
			case "AppendUint16":
				w = 2
			case "AppendUint32":
				w = 4
			case "AppendUint64":
				w = 8
			}
			if w > 0 {
				return fb.lenLin(s.Call.Args[len(s.Call.Args)-2]).add(linConst(w), 1)
			}
		}
		if callee := s.Call.StaticCallee(); callee != nil && callee.Blocks != nil && inModule(fnPkgPath(callee)) && s.Call.Signature().Results().Len() == 1 {
			if sum, ok := fb.c.lenSummary(callee); ok {
				out := linConst(sum.C)
				good := true
				for k, coef := range sum.T {
					switch kk := k.(type) {
					case *ssa.Parameter:
						idx := paramIndex(callee, kk)
						if idx < 0 || idx >= len(s.Call.Args) {
							good = false
						} else {
							out = out.add(fb.lin(s.Call.Args[idx]), coef)
						}
					case lenKey:
						p, isP := kk.v.(*ssa.Parameter)
						idx := -1
						if isP {
							idx = paramIndex(callee, p)
						}
						if idx < 0 || idx >= len(s.Call.Args) {
							good = false
						} else {
							out = out.add(fb.lenLin(s.Call.Args[idx]), coef)
						}
					default:
						good = false
					}
				}
				if good {
					return out
				}
			}
		}
	}
	if at, ok := x.Type().Underlying().(*types.Array); ok {
		return linConst(at.Len())
	}
	return linSym(lenKey{x})
}

func isBytesOrString(t types.Type) bool {
	switch u := t.Underlying().(type) {
	case *types.Basic:
		return u.Info()&types.IsString != 0
	case *types.Slice:
		b, ok := u.Elem().Underlying().(*types.Basic)
		return ok && (b.Kind() == types.Uint8 || b.Kind() == types.Int32)
	}
	return false
}

// lenOfOperand: length of the thing being sliced (slice, string, or pointer to array).
func (fb *FB) lenOfOperand(x ssa.Value) Lin {
	if p, ok := x.Type().Underlying().(*types.Pointer); ok {
		if at, ok := p.Elem().Underlying().(*types.Array); ok {
			return linConst(at.Len())
		}
	}
	return fb.lenLin(x)
}

func (fb *FB) capLin(x ssa.Value) Lin {
	switch s := x.(type) {
	case *ssa.MakeSlice:
		return fb.lin(s.Cap)
	case *ssa.Slice:
		if s.Max == nil {
			lo := linConst(0)
			if s.Low != nil {
				lo = fb.lin(s.Low)
			}
			return fb.capOfOperand(s.X).add(lo, -1)
		}
		lo := linConst(0)
		if s.Low != nil {
			lo = fb.lin(s.Low)
		}
		return fb.lin(s.Max).add(lo, -1)
	}
	return fb.lenLin(x) // cap >= len: using len is the conservative choice for an upper bound proof
}

func (fb *FB) capOfOperand(x ssa.Value) Lin {
	if p, ok := x.Type().Underlying().(*types.Pointer); ok {
		if at, ok := p.Elem().Underlying().(*types.Array); ok {
			return linConst(at.Len())
		}
	}
	return fb.capLin(x)
}

// rng: interval of an integer value (type ranges, constants, arithmetic; phis widened).
func (fb *FB) rng(v ssa.Value) (int64, int64) {
	v = fb.canon(v)
	if r, ok := fb.rngMemo[v]; ok {
		return r[0], r[1]
	}
	if fb.rngBusy[v] {
		return fb.typeRange(v.Type())
	}
	fb.rngBusy[v] = true
	lo, hi := fb.rng1(v)
	delete(fb.rngBusy, v)
	if lo < 0 && isIntType(v.Type()) && fb.nonneg(v, 0) {
		lo = 0
	}
	tlo, thi := fb.typeRange(v.Type())
	if isIntType(v.Type()) {
		if lo < tlo || hi > thi {
			// wrapped: fall back to the type range
			lo, hi = tlo, thi
		}
	}
	fb.rngMemo[v] = [2]int64{lo, hi}
	return lo, hi
}

func (fb *FB) rng1(v ssa.Value) (int64, int64) {
	tlo, thi := fb.typeRange(v.Type())
	switch x := v.(type) {
	case *ssa.Const:
		if x.Value != nil && x.Value.Kind() == constant.Int {
			if i, ok := constant.Int64Val(x.Value); ok {
				return i, i
			}
			return inf, inf
		}
	case *ssa.Convert:
		if isIntType(x.X.Type()) {
			lo, hi := fb.rng(x.X)
			if lo >= tlo && hi <= thi {
				return lo, hi
			}
		}
		return tlo, thi
	case *ssa.ChangeType:
		return fb.rng(x.X)
	case *ssa.BinOp:
		alo, ahi := fb.rng(x.X)
		blo, bhi := fb.rng(x.Y)
		switch x.Op {
		case token.ADD:
			return satAdd(alo, blo), satAdd(ahi, bhi)
		case token.SUB:
			return satAdd(alo, -bhi), satAdd(ahi, -blo)
		case token.MUL:
			c := []int64{satMul(alo, blo), satMul(alo, bhi), satMul(ahi, blo), satMul(ahi, bhi)}
			sort.Slice(c, func(i, j int) bool { return c[i] < c[j] })
			return c[0], c[3]
		case token.QUO:
			if blo >= 1 && alo >= 0 {
				return alo / bhi, ahi / blo
			}
		case token.REM:
			if blo >= 1 && alo >= 0 {
				h := bhi - 1
				if ahi < h {
					h = ahi
				}
				return 0, h
			}
		case token.AND:
			if bhi >= 0 && blo >= 0 {
				if alo >= 0 && ahi < bhi {
					return 0, ahi
				}
				return 0, bhi
			}
			if alo >= 0 {
				return 0, ahi
			}
		case token.OR, token.XOR:
			if alo >= 0 && blo >= 0 && ahi < inf && bhi < inf {
				// bounded by next power of two above max
				m := ahi
				if bhi > m {
					m = bhi
				}
				p := int64(1)
				for p <= m {
					p <<= 1
				}
				return 0, p - 1
			}
		case token.SHL:
			if blo >= 0 && bhi < 62 && alo >= 0 {
				return satMul(alo, 1<<uint(blo)), satMul(ahi, 1<<uint(bhi))
			}
		case token.SHR:
			if blo >= 0 && alo >= 0 {
				if blo > 62 {
					return 0, 0
				}
				return 0, ahi >> uint(blo)
			}
		}
	case *ssa.Phi:
		lo2, hi2 := int64(inf), int64(ninf)
		up, down := false, false
		for _, e := range x.Edges {
			le := fb.lin(e)
			if le.T[ssa.Value(x)] == 1 {
				// induction edge phi + d: the sign of d decides which bound survives
				d := le.clone()
				delete(d.T, ssa.Value(x))
				dlo, dhi := fb.linRange(d)
				if dhi > 0 {
					up = true
				}
				if dlo < 0 {
					down = true
				}
				continue
			}
			l, h := fb.rng(e)
			if l < lo2 {
				lo2 = l
			}
			if h > hi2 {
				hi2 = h
			}
		}
		if lo2 == inf {
			return tlo, thi
		}
		if up || down {
			// inductive check: assume the bound given by the entry edges and see whether every
			// induction step preserves it (evaluated in a scratch memo so nothing tentative leaks)
			tryAssume := func(alo, ahi int64) (bool, bool) {
				saved, savedBusy := fb.rngMemo, fb.rngBusy
				fb.rngMemo = map[ssa.Value][2]int64{ssa.Value(x): {alo, ahi}}
				fb.rngBusy = map[ssa.Value]bool{}
				keepLo, keepHi := true, true
				for _, e := range x.Edges {
					le := fb.lin(e)
					if le.T[ssa.Value(x)] != 1 {
						continue
					}
					d := le.clone()
					delete(d.T, ssa.Value(x))
					dlo, dhi := fb.linRange(d)
					if dlo < 0 {
						keepLo = false
					}
					if dhi > 0 {
						keepHi = false
					}
				}
				fb.rngMemo, fb.rngBusy = saved, savedBusy
				return keepLo, keepHi
			}
			keepLo, keepHi := tryAssume(lo2, thi)
			if !keepLo {
				lo2 = tlo
			}
			if keepLo && !keepHi {
				hi2 = thi
			} else if !keepHi {
				_, kh := tryAssume(tlo, hi2)
				if !kh {
					hi2 = thi
				}
			}
		}
		return lo2, hi2
	case *ssa.Call:
		if b, ok := x.Call.Value.(*ssa.Builtin); ok {
			switch b.Name() {
			case "len", "cap":
				l := fb.lin(v)
				if l.isConst() {
					return l.C, l.C
				}
				return 0, inf
			case "min":
				lo, hi := int64(inf), int64(inf)
				for _, a := range x.Call.Args {
					l, h := fb.rng(a)
					if l < lo {
						lo = l
					}
					if h < hi {
						hi = h
					}
				}
				return lo, hi
			case "max":
				lo, hi := int64(ninf), int64(ninf)
				for _, a := range x.Call.Args {
					l, h := fb.rng(a)
					if l > lo {
						lo = l
					}
					if h > hi {
						hi = h
					}
				}
				return lo, hi
			}
		}
		// a one-expression helper over its arguments
		if isIntType(x.Type()) {
			if l, ok := fb.linThroughPlainCall(x); ok {
				lo, hi := fb.linRange(l)
				if lo < tlo {
					lo = tlo
				}
				if hi > thi {
					hi = thi
				}
				return lo, hi
			}
		}
	case *ssa.UnOp:
		if x.Op == token.MUL {
			if sv := fb.singleStoreLoad(x); sv != nil {
				return fb.rng(sv)
			}
			// a narrow field all of whose stores in the module are bounded (type invariant, e.g. Superblock.OffsetSize)
			if fa, ok := x.X.(*ssa.FieldAddr); ok && narrowInt(x.Type()) {
				if f, _ := fieldOfAddr(fa); f != nil {
					if lo, hi, ok := fb.c.fieldRange(f); ok {
						return lo, hi
					}
				}
			}
		}
	case *ssa.Index:
	case *ssa.Lookup:
	}
	return tlo, thi
}

// fieldRange: for a field of 8/16-bit integer type of a module struct: an interval that every store to it in the module
// respects (constants, or values bounded by the dominating tests at the store), provided the field's address never escapes
// and the struct is never overwritten as a whole except by copies of itself. Unsigned fields only (zero value included).
func (c *Ctx) fieldRange(f *types.Var) (int64, int64, bool) {
	type fr struct {
		lo, hi int64
		ok     bool
	}
	m, _ := c.cache["fieldrange"].(map[*types.Var]*fr)
	if m == nil {
		m = map[*types.Var]*fr{}
		c.cache["fieldrange"] = m
	}
	if e, ok := m[f]; ok {
		return e.lo, e.hi, e.ok // in progress or done
	}
	e := &fr{}
	m[f] = e
	b, isB := f.Type().Underlying().(*types.Basic)
	if !isB || (b.Kind() != types.Uint8 && b.Kind() != types.Uint16) || f.Pkg() == nil || !inModule(f.Pkg().Path()) {
		return 0, 0, false
	}
	idx := c.fieldUseIndex()
	u := idx[f]
	if u == nil || u.escapes || len(u.stores) == 0 {
		return 0, 0, false
	}
	hi := int64(0)
	for _, st := range u.stores {
		fb := c.FB(st.Parent())
		if k, ok := constInt(st.Val); ok {
			if k > hi {
				hi = k
			}
			continue
		}
		v := fb.lin(st.Val)
		facts := fb.blockFacts(st.Block())
		found := false
		for _, cand := range []int64{8, 16, 32, 64, 127} {
			if fb.prove(linConst(cand).add(v, -1), facts, 3) {
				if cand > hi {
					hi = cand
				}
				found = true
				break
			}
		}
		if !found {
			return 0, 0, false
		}
	}
	e.lo, e.hi, e.ok = 0, hi, true
	return 0, hi, true
}

type fieldUses struct {
	stores  []*ssa.Store
	escapes bool
}

// fieldUseIndex: every store to and every escape of a field address, over all module functions.
func (c *Ctx) fieldUseIndex() map[*types.Var]*fieldUses {
	if m, ok := c.cache["fielduses"].(map[*types.Var]*fieldUses); ok {
		return m
	}
	m := map[*types.Var]*fieldUses{}
	get := func(f *types.Var) *fieldUses {
		if m[f] == nil {
			m[f] = &fieldUses{}
		}
		return m[f]
	}
	// (a struct overwritten as a whole gets its field values from field stores of another instance, from a copy, or is zeroed:
	// all covered by the per-field stores and the lower bound 0)
	for _, fn := range c.AllFuncs {
		instrs(fn, func(in ssa.Instruction) {
			switch x := in.(type) {
			case *ssa.FieldAddr:
				f, _ := fieldOfAddr(x)
				if f == nil || x.Referrers() == nil {
					return
				}
				for _, ref := range *x.Referrers() {
					switch r := ref.(type) {
					case *ssa.Store:
						if r.Addr == ssa.Value(x) {
							get(f).stores = append(get(f).stores, r)
						} else {
							get(f).escapes = true
						}
					case *ssa.UnOp, *ssa.DebugRef:
					case *ssa.FieldAddr, *ssa.IndexAddr:
						// nested aggregate: not a scalar field
					default:
						get(f).escapes = true
					}
				}
			case *ssa.MakeInterface:
				// a pointer to a module struct handed, as an interface, to code outside the module (binary.Read, json, ...)
				// may be filled by reflection: no range is claimed for its fields (formatting and error wrapping only read)
				pt, ok := x.X.Type().Underlying().(*types.Pointer)
				if !ok || x.Referrers() == nil {
					return
				}
				st, ok := pt.Elem().Underlying().(*types.Struct)
				if !ok {
					return
				}
				for _, ref := range *x.Referrers() {
					call, isCall := ref.(ssa.CallInstruction)
					if !isCall {
						continue
					}
					callee := call.Common().StaticCallee()
					if callee != nil && callee.Pkg != nil {
						pp := callee.Pkg.Pkg.Path()
						if inModule(pp) || pp == "fmt" || pp == "errors" || pp == "log" {
							continue
						}
					}
					for i := 0; i < st.NumFields(); i++ {
						get(st.Field(i)).escapes = true
					}
				}
			}
		})
	}
	c.cache["fielduses"] = m
	return m
}

// linRange: interval of a linear form from the ranges of its symbols.
func (fb *FB) linRange(l Lin) (int64, int64) {
	lo, hi := l.C, l.C
	for k, coef := range l.T {
		slo, shi := fb.symRange(k)
		if coef > 0 {
			lo = satAdd(lo, satMul(coef, slo))
			hi = satAdd(hi, satMul(coef, shi))
		} else {
			lo = satAdd(lo, satMul(coef, shi))
			hi = satAdd(hi, satMul(coef, slo))
		}
	}
	if lo < ninf {
		lo = ninf
	}
	if hi > inf {
		hi = inf
	}
	return lo, hi
}

// ---- facts ----

// cmpFacts converts "X op Y holds" into linear facts (each >= 0).
func (fb *FB) cmpFacts(op token.Token, X, Y ssa.Value, out []Lin) []Lin {
	if !isIntType(X.Type()) || !isIntType(Y.Type()) {
		return out
	}
	x, y := fb.lin(X), fb.lin(Y)
	switch op {
	case token.LSS: // x < y  => y - x - 1 >= 0
		out = append(out, y.add(x, -1).add(linConst(1), -1))
	case token.LEQ:
		out = append(out, y.add(x, -1))
	case token.GTR:
		out = append(out, x.add(y, -1).add(linConst(1), -1))
	case token.GEQ:
		out = append(out, x.add(y, -1))
	case token.EQL:
		out = append(out, x.add(y, -1), y.add(x, -1))
	case token.NEQ:
		// x != 0 for a non-negative x  => x - 1 >= 0
		if y.isConst() && y.C == 0 {
			if lo, _ := fb.rng(X); lo >= 0 {
				out = append(out, x.add(linConst(1), -1))
			}
		}
	}
	return out
}

func negate(op token.Token) token.Token {
	switch op {
	case token.LSS:
		return token.GEQ
	case token.LEQ:
		return token.GTR
	case token.GTR:
		return token.LEQ
	case token.GEQ:
		return token.LSS
	case token.EQL:
		return token.NEQ
	case token.NEQ:
		return token.EQL
	}
	return token.ILLEGAL
}

// condFacts: facts known when cond evaluates to `val`.
func (fb *FB) condFacts(cond ssa.Value, val bool, out []Lin) []Lin {
	switch x := cond.(type) {
	case *ssa.BinOp:
		if isCmp(x.Op) {
			op := x.Op
			if !val {
				op = negate(op)
			}
			out = fb.cmpFacts(op, x.X, x.Y, out)
			// error-nil test on a call result: callee summary on the success edge
			if (x.Op == token.EQL && val) || (x.Op == token.NEQ && !val) {
				var ev ssa.Value
				if isNilConst(x.Y) {
					ev = x.X
				} else if isNilConst(x.X) {
					ev = x.Y
				}
				if ev != nil && isErrorType(ev.Type()) {
					out = fb.successFacts(ev, out)
				}
			}
		}
	case *ssa.UnOp:
		if x.Op == token.NOT {
			return fb.condFacts(x.X, !val, out)
		}
	case *ssa.Call:
		out = fb.boolHelperFacts(x, val, out)
	case *ssa.Lookup:
		// set[x] for a set built in this function from constant keys (all values true): on the true edge x is one of the keys
		if val && !x.CommaOk {
			if lo, hi, ok := constKeySet(x.X); ok {
				k := fb.lin(x.Index)
				out = append(out, k.add(linConst(lo), -1), linConst(hi).add(k, -1))
			}
		}
	}
	return out
}

// constKeySet: m is a map made in the function whose only uses are updates with constant integer keys and the constant
// value true, and look-ups; returns the smallest and largest key.
func constKeySet(m ssa.Value) (int64, int64, bool) {
	mk, ok := m.(*ssa.MakeMap)
	if !ok || mk.Referrers() == nil {
		return 0, 0, false
	}
	lo, hi := int64(inf), int64(ninf)
	n := 0
	for _, ref := range *mk.Referrers() {
		switch u := ref.(type) {
		case *ssa.MapUpdate:
			k, isK := constInt(u.Key)
			v, isV := u.Value.(*ssa.Const)
			if u.Map != m || !isK || !isV || v.Value == nil || v.Value.Kind() != constant.Bool || !constant.BoolVal(v.Value) {
				return 0, 0, false
			}
			n++
			if k < lo {
				lo = k
			}
			if k > hi {
				hi = k
			}
		case *ssa.Lookup:
			if u.X != m {
				return 0, 0, false
			}
		case *ssa.DebugRef:
		default:
			return 0, 0, false
		}
	}
	return lo, hi, n > 0
}

// blockFacts: facts that hold on entry to block b (from dominating branch edges).
func (fb *FB) blockFacts(b *ssa.BasicBlock) []Lin {
	if f, ok := fb.factMemo[b]; ok {
		return f
	}
	var out []Lin
	for _, blk := range fb.fn.Blocks {
		if len(blk.Instrs) == 0 {
			continue
		}
		ifi, ok := blk.Instrs[len(blk.Instrs)-1].(*ssa.If)
		if !ok {
			continue
		}
		if blk.Succs[0] != blk.Succs[1] {
			if edgeDominates(blk, blk.Succs[0], b) {
				out = fb.condFacts(ifi.Cond, true, out)
			}
			if edgeDominates(blk, blk.Succs[1], b) {
				out = fb.condFacts(ifi.Cond, false, out)
			}
		}
	}
	// value sets at joins: `if x != 4 && x != 8 { return err }` continues with x in {4, 8}; each way into the join pins x to
	// a constant, the join knows the hull
	if !fb.joinBusy {
		fb.joinBusy = true
		for _, j := range fb.fn.Blocks {
			if len(j.Preds) >= 2 && len(j.Preds) <= 6 && j.Dominates(b) {
				out = append(out, fb.joinRangeFacts(j)...)
			}
		}
		fb.joinBusy = false
	}
	fb.factMemo[b] = out
	return out
}

// joinRangeFacts: for a join block whose every incoming edge fixes the same symbol to a constant, lo <= symbol <= hi.
func (fb *FB) joinRangeFacts(j *ssa.BasicBlock) []Lin {
	type rngc struct{ lo, hi int64 }
	var common map[interface{}]rngc
	for _, p := range j.Preds {
		if j.Dominates(p) {
			return nil // back edge: a loop header, not a value-set join
		}
		consts := map[interface{}]rngc{}
		ef := fb.edgeFacts(p, j)
		// x - c >= 0 and c - x >= 0 both present
		for _, f := range ef {
			if len(f.T) != 1 {
				continue
			}
			for k, coef := range f.T {
				if coef != 1 {
					continue
				}
				c := -f.C // x - c >= 0
				for _, g := range ef {
					if len(g.T) == 1 && g.T[k] == -1 && g.C == c {
						consts[k] = rngc{c, c}
					}
				}
			}
		}
		if common == nil {
			common = consts
		} else {
			next := map[interface{}]rngc{}
			for k, a := range common {
				if b, ok := consts[k]; ok {
					lo, hi := a.lo, a.hi
					if b.lo < lo {
						lo = b.lo
					}
					if b.hi > hi {
						hi = b.hi
					}
					next[k] = rngc{lo, hi}
				}
			}
			common = next
		}
		if len(common) == 0 {
			return nil
		}
	}
	var out []Lin
	for k, r := range common {
		out = append(out, linSym(k).add(linConst(r.lo), -1), linConst(r.hi).add(linSym(k), -1))
	}
	return out
}

// successFacts: ev is the error result of a call; returns the callee's success summary instantiated with the arguments.
func (fb *FB) successFacts(ev ssa.Value, out []Lin) []Lin {
	var call *ssa.Call
	switch x := ev.(type) {
	case *ssa.Call:
		call = x
	case *ssa.Extract:
		call, _ = x.Tuple.(*ssa.Call)
	}
	if call == nil {
		return out
	}
	callee := call.Call.StaticCallee()
	if callee == nil || callee.Blocks == nil || !inModule(fnPkgPath(callee)) {
		return out
	}
	sum := fb.c.successSummary(callee, 0)
	// arguments that are constants at this call site make more of the callee linear (n > len(buf)/width with width = 8)
	consts := map[int]int64{}
	for i, a := range call.Call.Args {
		if l := fb.lin(a); l.isConst() && i < len(callee.Params) && isIntType(callee.Params[i].Type()) {
			consts[i] = l.C
		}
	}
	if len(consts) > 0 {
		for _, s := range fb.c.successSummaryConst(callee, consts) {
			if l, ok := fb.instantiateSummaryFact(call, callee, s); ok {
				out = append(out, l)
			}
		}
	}
	for _, s := range sum {
		// substitute parameters and the function's non-error results
		l := linConst(s.C)
		ok := true
		for k, coef := range s.T {
			var arg Lin
			switch kk := k.(type) {
			case *ssa.Parameter:
				idx := paramIndex(callee, kk)
				if idx < 0 || idx >= len(call.Call.Args) {
					ok = false
					break
				}
				arg = fb.lin(call.Call.Args[idx])
			case lenKey:
				p, isP := kk.v.(*ssa.Parameter)
				if !isP {
					ok = false
					break
				}
				idx := paramIndex(callee, p)
				if idx < 0 || idx >= len(call.Call.Args) {
					ok = false
					break
				}
				arg = fb.lenLin(call.Call.Args[idx])
			case resultKey:
				// value result i of the call
				var rv ssa.Value
				if call.Call.Signature().Results().Len() > 1 {
					for _, ref := range *call.Referrers() {
						if ex, isEx := ref.(*ssa.Extract); isEx && ex.Index == kk.i {
							rv = ex
						}
					}
				}
				if rv == nil {
					ok = false
					break
				}
				arg = fb.lin(rv)
			default:
				ok = false
			}
			if !ok {
				break
			}
			l = l.add(arg, coef)
		}
		if ok {
			out = append(out, l)
		}
	}
	return out
}

type resultKey struct{ i int }

func paramIndex(fn *ssa.Function, p *ssa.Parameter) int {
	for i, q := range fn.Params {
		if q == p {
			return i
		}
	}
	return -1
}

// successSummary: linear facts over the parameters (and value results) of fn that hold at every success return.
func (c *Ctx) successSummary(fn *ssa.Function, depth int) []Lin {
	key := "succsum"
	m, _ := c.cache[key].(map[*ssa.Function][]Lin)
	if m == nil {
		m = map[*ssa.Function][]Lin{}
		c.cache[key] = m
	}
	if s, ok := m[fn]; ok {
		return s
	}
	m[fn] = nil // recursion guard
	if depth > 3 {
		return nil
	}
	fb := c.FB(fn)
	errIdx := errResultIndex(fn.Signature)
	var common []Lin
	first := true
	for _, ret := range returnsOf(fn) {
		if errIdx >= 0 && !mayBeNil(retOperand(ret, errIdx), map[ssa.Value]bool{}) {
			continue // error return
		}
		if errIdx >= 0 {
			// a return whose error is a non-constant value that is only nil on some paths (e.g. `return x, err`) – keep it: conservative
		}
		facts := append([]Lin{}, fb.blockFacts(ret.Block())...)
		// relate value results to parameters: result_i == lin(value)
		for i, rv := range ret.Results {
			if i == errIdx || !isIntType(rv.Type()) {
				continue
			}
			l := fb.lin(rv)
			rk := linSym(resultKey{i})
			facts = append(facts, rk.add(l, -1), l.add(rk, -1))
		}
		var keep []Lin
		for _, f := range facts {
			if onlyParamSyms(fn, f) {
				keep = append(keep, f)
			}
		}
		if first {
			common = keep
			first = false
		} else {
			var inter []Lin
			for _, a := range common {
				for _, b := range keep {
					if a.equal(b) {
						inter = append(inter, a)
						break
					}
				}
			}
			common = inter
		}
	}
	m[fn] = common
	return common
}

// summarySyms: like onlyParamSyms, but values read through a parameter (p.f, len(p.f.g)) count too, provided neither fn
// nor anything it reaches stores to those fields.
func (c *Ctx) summarySyms(fn *ssa.Function, l Lin) bool {
	for k := range l.T {
		if onlyParamSyms(fn, Lin{T: map[interface{}]int64{k: 1}}) {
			continue
		}
		var v ssa.Value
		switch kk := k.(type) {
		case lenKey:
			v = kk.v
		case ssa.Value:
			v = kk
		default:
			return false
		}
		_, fields, ok := fieldPath(fn, v)
		if !ok {
			return false
		}
		stored := c.TransitiveFieldStores(fn)
		for _, f := range fields {
			for key := range stored {
				if strings.HasSuffix(key, "."+f.Name()) {
					return false
				}
			}
		}
	}
	return true
}

// instantiateSummaryFact: a callee fact over parameters, their lengths, value results and parameter field paths, re-expressed
// over the caller's values at this call.
func (fb *FB) instantiateSummaryFact(call *ssa.Call, callee *ssa.Function, s Lin) (Lin, bool) {
	l := linConst(s.C)
	for k, coef := range s.T {
		var arg Lin
		good := false
		switch kk := k.(type) {
		case *ssa.Parameter:
			if i := paramIndex(callee, kk); i >= 0 && i < len(call.Call.Args) {
				arg, good = fb.lin(call.Call.Args[i]), true
			}
		case lenKey:
			if p, isP := kk.v.(*ssa.Parameter); isP {
				if i := paramIndex(callee, p); i >= 0 && i < len(call.Call.Args) {
					arg, good = fb.lenLin(call.Call.Args[i]), true
				}
			} else if i, fields, isPath := fieldPath(callee, kk.v); isPath && i < len(call.Call.Args) {
				if pv := fb.pathValue(call.Call.Args[i], fields); pv != nil {
					arg, good = fb.lenLin(pv), true
				}
			}
		case resultKey:
			if call.Call.Signature().Results().Len() > 1 {
				for _, ref := range *call.Referrers() {
					if ex, isEx := ref.(*ssa.Extract); isEx && ex.Index == kk.i {
						arg, good = fb.lin(ex), true
					}
				}
			}
		case ssa.Value:
			if i, fields, isPath := fieldPath(callee, kk); isPath && i < len(call.Call.Args) {
				if pv := fb.pathValue(call.Call.Args[i], fields); pv != nil {
					arg, good = fb.lin(pv), true
				}
			}
		}
		if !good {
			return Lin{}, false
		}
		l = l.add(arg, coef)
	}
	return l, true
}

func onlyParamSyms(fn *ssa.Function, l Lin) bool {
	for k := range l.T {
		switch kk := k.(type) {
		case *ssa.Parameter:
			if paramIndex(fn, kk) < 0 {
				return false
			}
		case lenKey:
			p, ok := kk.v.(*ssa.Parameter)
			if !ok || paramIndex(fn, p) < 0 {
				return false
			}
		case resultKey:
		default:
			return false
		}
	}
	return true
}

// ---- prover ----

func (fb *FB) symRange(k interface{}) (int64, int64) {
	switch kk := k.(type) {
	case lenKey, capKey:
		return 0, inf
	case ssa.Value:
		if isIntType(kk.Type()) {
			return fb.rng(kk)
		}
	}
	return ninf, inf
}

// prove tries to establish t >= 0 from the facts (each fact >= 0) and symbol ranges.
func (fb *FB) prove(t Lin, facts []Lin, depth int) bool {
	if fb.prove2(t, fb.withIntrinsic(t, facts), depth, 2) {
		return true
	}
	return fb.proveMinMaxCases(t, facts, depth, 0)
}

// proveMinMaxCases: m = min(a, b, ..) equals one of its arguments, so c*m + rest >= 0 with c > 0 holds if it holds for every
// argument put in m's place (symmetrically max with c < 0; the other signs are covered by the intrinsic facts m <= a_i / m >= a_i).
func (fb *FB) proveMinMaxCases(t Lin, facts []Lin, depth, level int) bool {
	if level > 1 {
		return false
	}
	for k, coef := range t.T {
		call, isCall := k.(*ssa.Call)
		if !isCall {
			continue
		}
		b, isB := call.Call.Value.(*ssa.Builtin)
		if !isB || !isIntType(call.Type()) || len(call.Call.Args) == 0 {
			continue
		}
		if !((b.Name() == "min" && coef > 0) || (b.Name() == "max" && coef < 0)) {
			continue
		}
		all := true
		for _, a := range call.Call.Args {
			t2 := t.add(linSym(k), -coef).add(fb.lin(a), coef)
			if !fb.prove2(t2, fb.withIntrinsic(t2, facts), depth, 2) && !fb.proveMinMaxCases(t2, facts, depth, level+1) {
				all = false
				break
			}
		}
		if all {
			return true
		}
	}
	return false
}

// withIntrinsic adds facts that hold by the meaning of a symbol: for q = n / k (k a positive constant, n >= 0):
// n - k*q >= 0 and k*q + (k-1) - n >= 0 (rounding idioms such as ((x+4095)/4096)*4096 >= x follow).
func (fb *FB) withIntrinsic(t Lin, facts []Lin) []Lin {
	out := facts
	seen := map[ssa.Value]bool{}
	var visit func(l Lin, d int)
	visit = func(l Lin, d int) {
		for k := range l.T {
			// m = max(a, b, ...): m >= each argument; m = min(...): m <= each argument
			if call, isCall := k.(*ssa.Call); isCall && !seen[call] {
				if b, isB := call.Call.Value.(*ssa.Builtin); isB && (b.Name() == "max" || b.Name() == "min") && isIntType(call.Type()) {
					seen[call] = true
					msym := linSym(ssa.Value(call))
					for _, a := range call.Call.Args {
						if b.Name() == "max" {
							out = append(append([]Lin{}, out...), msym.add(fb.lin(a), -1))
						} else {
							out = append(append([]Lin{}, out...), fb.lin(a).add(msym, -1))
						}
					}
					continue
				}
			}
			// r = bytes/strings.Index*(s, ...): -1 <= r <= len(s) - 1
			if call, isCall := k.(*ssa.Call); isCall && !seen[call] {
				if f := call.Call.StaticCallee(); f != nil && f.Pkg != nil && (f.Pkg.Pkg.Path() == "bytes" || f.Pkg.Pkg.Path() == "strings") &&
					(strings.HasPrefix(f.Name(), "Index") || strings.HasPrefix(f.Name(), "LastIndex")) && len(call.Call.Args) >= 1 {
					seen[call] = true
					rsym := linSym(ssa.Value(call))
					out = append(append([]Lin{}, out...), rsym.add(linConst(1), 1), fb.lenLin(call.Call.Args[0]).add(rsym, -1).add(linConst(1), -1))
				}
				continue
			}
			bo, ok := k.(*ssa.BinOp)
			if !ok || bo.Op != token.QUO || seen[bo] || d > 3 {
				continue
			}
			seen[bo] = true
			kv := fb.lin(bo.Y)
			if !kv.isConst() || kv.C <= 0 || kv.C > 1<<20 {
				continue
			}
			if lo, _ := fb.rng(bo.X); lo < 0 {
				continue
			}
			n := fb.lin(bo.X)
			q := linSym(ssa.Value(bo))
			out = append(append([]Lin{}, out...), n.add(q, -kv.C), q.scale(kv.C).add(linConst(kv.C-1), 1).add(n, -1))
			visit(n, d+1)
		}
	}
	visit(t, 0)
	for _, f := range facts {
		visit(f, 1)
	}
	return out
}

func (fb *FB) prove2(t Lin, facts []Lin, depth, split int) bool {
	if hasQuo(t) {
		facts = fb.withIntrinsic(t, facts)
	}
	// eliminate symbols by their ranges
	rest := Lin{C: t.C}
	for k, coef := range t.T {
		lo, hi := fb.symRange(k)
		switch {
		case coef > 0 && lo > ninf:
			rest.C = satAdd(rest.C, satMul(coef, lo))
		case coef < 0 && hi < inf:
			rest.C = satAdd(rest.C, satMul(coef, hi))
		default:
			if rest.T == nil {
				rest.T = map[interface{}]int64{}
			}
			rest.T[k] = coef
		}
	}
	if rest.isConst() && rest.C >= 0 {
		return true
	}
	if depth <= 0 {
		return false
	}
	for _, f := range facts {
		if f.isConst() {
			continue
		}
		// choose multipliers m > 0 such that a symbol cancels
		tried := map[int64]bool{}
		for k, ft := range f.T {
			tt, ok := t.T[k]
			if !ok || (tt > 0) != (ft > 0) || tt%ft != 0 {
				continue
			}
			m := tt / ft
			if m <= 0 || tried[m] {
				continue
			}
			tried[m] = true
			if fb.prove2(t.add(f, -m), facts, depth-1, split) {
				return true
			}
		}
	}
	// clamp / min idioms: split on a phi symbol and prove each incoming edge separately
	if split > 0 {
		for k := range t.T {
			phi, ok := k.(*ssa.Phi)
			if !ok || len(phi.Edges) > 4 || !isIntType(phi.Type()) {
				continue
			}
			all := true
			if fb.loopPhi(phi) {
				if fb.proveByInduction(t, phi, depth, split) {
					return true
				}
				continue
			}
			for i, e := range phi.Edges {
				le := fb.lin(e)
				if _, self := le.T[k]; self {
					all = false
					break
				}
				ti := t.clone()
				coef := ti.T[k]
				delete(ti.T, k)
				ti = ti.add(le, coef)
				pred := phi.Block().Preds[i]
				ef := append(append([]Lin{}, facts...), fb.edgeFacts(pred, phi.Block())...)
				if !fb.prove2(ti, ef, depth, split-1) {
					all = false
					break
				}
			}
			if all {
				return true
			}
		}
	}
	// facts that share no symbol (e.g. s >= 1 together with len >= s): add once
	if depth >= 2 {
		for _, f := range facts {
			if f.isConst() {
				continue
			}
			shared := false
			for k := range f.T {
				if _, ok := t.T[k]; ok {
					shared = true
				}
			}
			if shared {
				continue
			}
			// only useful if it introduces a symbol that other facts or phis can cancel
			if fb.prove2(t.add(f, -1), facts, depth-2, split) {
				return true
			}
		}
	}
	return false
}

// loopPhi: one of the phi's edges is phi + d.
func (fb *FB) loopPhi(phi *ssa.Phi) bool {
	for _, e := range phi.Edges {
		if _, self := fb.lin(e).T[ssa.Value(phi)]; self {
			return true
		}
	}
	return false
}

// loopInvariantSym: the symbol is defined before the loop headed by hdr (its defining block strictly dominates hdr).
func loopInvariantSym(k interface{}, hdr *ssa.BasicBlock) bool {
	var v ssa.Value
	switch x := k.(type) {
	case lenKey:
		v = x.v
	case capKey:
		v = x.v
	case ssa.Value:
		v = x
	default:
		return false
	}
	switch x := v.(type) {
	case *ssa.Parameter, *ssa.Const, *ssa.FreeVar, *ssa.Global, *ssa.Function:
		return true
	case ssa.Instruction:
		b := x.Block()
		return b != nil && b != hdr && b.Dominates(hdr)
	}
	return false
}

// proveByInduction shows t >= 0 for a goal that mentions the loop variable phi (every other symbol being invariant in phi's
// loop): t holds for each entry value under the facts of the entry edge, and each step phi -> phi+d preserves it under the facts
// of the back edge plus the hypothesis t >= 0. Facts of the use site are deliberately not used (they may describe the last iteration only).
func (fb *FB) proveByInduction(t Lin, phi *ssa.Phi, depth, split int) bool {
	k := ssa.Value(phi)
	hdr := phi.Block()
	for sym := range t.T {
		if sym == interface{}(k) {
			continue
		}
		if !loopInvariantSym(sym, hdr) {
			return false
		}
	}
	coef := t.T[k]
	for i, e := range phi.Edges {
		le := fb.lin(e)
		ef := fb.edgeFacts(hdr.Preds[i], hdr)
		ti := t.clone()
		delete(ti.T, k)
		ti = ti.add(le, coef)
		if c, self := le.T[k]; self {
			if c != 1 {
				return false
			}
			ef = append(ef, t)
		}
		if !fb.prove2(ti, ef, depth, split-1) {
			return false
		}
	}
	return true
}

// edgeFacts: facts known when control flows along pred -> succ.
func (fb *FB) edgeFacts(pred, succ *ssa.BasicBlock) []Lin {
	out := append([]Lin{}, fb.blockFacts(pred)...)
	if len(pred.Instrs) > 0 {
		if ifi, ok := pred.Instrs[len(pred.Instrs)-1].(*ssa.If); ok && pred.Succs[0] != pred.Succs[1] {
			if pred.Succs[0] == succ {
				out = fb.condFacts(ifi.Cond, true, out)
			} else if pred.Succs[1] == succ {
				out = fb.condFacts(ifi.Cond, false, out)
			}
		}
	}
	return out
}

// ProveGE0At: can t >= 0 be shown at instruction `at`? Falls back to the calling contexts when the
// obligation only mentions parameters.
func (fb *FB) ProveGE0At(t Lin, at ssa.Instruction) bool {
	facts := fb.blockFacts(at.Block())
	if fb.prove(t, facts, 3) {
		return true
	}
	return fb.proveViaCallers(t, facts, 2)
}

// proveViaCallers instantiates the obligation (and the facts known in the callee) at every static call site.
func (fb *FB) proveViaCallers(t Lin, facts []Lin, depth int) bool {
	if depth <= 0 {
		return false
	}
	fn := fb.fn
	if fn.Parent() != nil {
		return false
	}
	mentionsParam := false
	for k := range t.T {
		switch kk := k.(type) {
		case *ssa.Parameter:
			if paramIndex(fn, kk) >= 0 {
				mentionsParam = true
			}
		case lenKey:
			if p, ok := kk.v.(*ssa.Parameter); ok && paramIndex(fn, p) >= 0 {
				mentionsParam = true
			}
		}
	}
	if !mentionsParam {
		return false
	}
	node := fb.c.CG.Nodes[fn]
	if node == nil || len(node.In) == 0 {
		return false
	}
	n := 0
	for _, e := range node.In {
		site := e.Site
		if site == nil {
			return false
		}
		if site.Common().StaticCallee() != fn {
			return false // reached through an interface or function value: context unknown
		}
		caller := site.Parent()
		if !libPackage(fnPkgPath(caller)) {
			continue // examples / cmd are not part of the library contract
		}
		cfb := fb.c.FB(caller)
		inst := func(l Lin) (Lin, bool) {
			out := linConst(l.C)
			for k, coef := range l.T {
				switch kk := k.(type) {
				case *ssa.Parameter:
					idx := paramIndex(fn, kk)
					if idx < 0 || idx >= len(site.Common().Args) {
						return out, false
					}
					out = out.add(cfb.lin(site.Common().Args[idx]), coef)
				case lenKey:
					if p, ok := kk.v.(*ssa.Parameter); ok {
						idx := paramIndex(fn, p)
						if idx < 0 || idx >= len(site.Common().Args) {
							return out, false
						}
						out = out.add(cfb.lenLin(site.Common().Args[idx]), coef)
					} else {
						out = out.add(linSym(k), coef)
					}
				default:
					out = out.add(linSym(k), coef)
				}
			}
			return out, true
		}
		ti, ok := inst(t)
		if !ok {
			return false
		}
		cfacts := append([]Lin{}, cfb.blockFacts(site.Block())...)
		for _, f := range facts {
			if fi, ok := inst(f); ok {
				cfacts = append(cfacts, fi)
			}
		}
		if !cfb.prove(ti, cfacts, 3) && !cfb.proveViaCallers(ti, cfacts, depth-1) {
			if os.Getenv("H5SA_DEBUG_CALLERS") != "" {
				fmt.Fprintf(os.Stderr, "proveViaCallers(%s): goal %s fails at %s in %s; facts:", fn.Name(), cfb.linString(ti), fb.c.InstrPos(site.(ssa.Instruction)), caller.Name())
				for _, f := range cfacts {
					fmt.Fprintf(os.Stderr, " [%s>=0]", cfb.linString(f))
				}
				fmt.Fprintln(os.Stderr)
			}
			return false
		}
		n++
	}
	return n > 0
}

// lenSummary: length of the single slice/string result of fn as a linear form over its parameters,
// when every return agrees.
func (c *Ctx) lenSummary(fn *ssa.Function) (Lin, bool) {
	type entry struct {
		l  Lin
		ok bool
	}
	m, _ := c.cache["lensum"].(map[*ssa.Function]entry)
	if m == nil {
		m = map[*ssa.Function]entry{}
		c.cache["lensum"] = m
	}
	if e, ok := m[fn]; ok {
		return e.l, e.ok
	}
	m[fn] = entry{}
	res := fn.Signature.Results()
	errIdx := errResultIndex(fn.Signature)
	if !(res.Len() == 1 || (res.Len() == 2 && errIdx == 1)) {
		return Lin{}, false
	}
	switch res.At(0).Type().Underlying().(type) {
	case *types.Slice, *types.Basic:
	default:
		return Lin{}, false
	}
	fb := c.FB(fn)
	var first Lin
	n := 0
	for _, ret := range returnsOf(fn) {
		if res.Len() == 2 && !isNilConst(retOperand(ret, errIdx)) {
			continue // failing return: the slice is not used
		}
		l := fb.lenLin(retOperand(ret, 0))
		if !onlyParamSyms(fn, l) {
			return Lin{}, false
		}
		if n == 0 {
			first = l
		} else if !first.equal(l) {
			return Lin{}, false
		}
		n++
	}
	if n == 0 {
		return Lin{}, false
	}
	m[fn] = entry{first, true}
	return first, true
}

// closureStoresTo: does the closure (or a nested one) store to the variable captured from `al`?
func closureStoresTo(mc *ssa.MakeClosure, al *ssa.Alloc) bool {
	fn, ok := mc.Fn.(*ssa.Function)
	if !ok {
		return true
	}
	for i, b := range mc.Bindings {
		if b != ssa.Value(al) || i >= len(fn.FreeVars) {
			continue
		}
		fv := fn.FreeVars[i]
		for _, ref := range *fv.Referrers() {
			switch x := ref.(type) {
			case *ssa.Store:
				if x.Addr == ssa.Value(fv) {
					return true
				}
			case *ssa.UnOp, *ssa.DebugRef:
			default:
				return true
			}
		}
	}
	return false
}

// capturedValue: value of a captured variable that the enclosing function assigns exactly once
// (before creating the closure) and no closure modifies.
func (fb *FB) capturedValue(fv *ssa.FreeVar) ssa.Value {
	fn := fv.Parent()
	parent := fn.Parent()
	if parent == nil {
		return nil
	}
	idx := -1
	for i, f := range fn.FreeVars {
		if f == fv {
			idx = i
		}
	}
	var found ssa.Value
	instrs(parent, func(in ssa.Instruction) {
		mc, ok := in.(*ssa.MakeClosure)
		if !ok || mc.Fn != ssa.Value(fn) || idx < 0 || idx >= len(mc.Bindings) {
			return
		}
		al, ok := mc.Bindings[idx].(*ssa.Alloc)
		if !ok {
			return
		}
		var stores []*ssa.Store
		for _, ref := range *al.Referrers() {
			switch x := ref.(type) {
			case *ssa.Store:
				if x.Addr == ssa.Value(al) {
					stores = append(stores, x)
				}
			case *ssa.MakeClosure:
				if closureStoresTo(x, al) {
					stores = append(stores, nil)
				}
			case *ssa.UnOp, *ssa.DebugRef:
			default:
				stores = append(stores, nil)
			}
		}
		if len(stores) == 1 && stores[0] != nil && instrDominates(stores[0], mc) {
			found = stores[0].Val
		}
	})
	return found
}

// nonnegPhis: greatest fixpoint — the set of integer phis all of whose incoming values are non-negative
// assuming the phis of the set are.
func (fb *FB) nonnegPhis() map[*ssa.Phi]bool {
	if fb.nnDone {
		return fb.nnPhis
	}
	fb.nnDone = true
	fb.nnPhis = map[*ssa.Phi]bool{}
	instrs(fb.fn, func(in ssa.Instruction) {
		if p, ok := in.(*ssa.Phi); ok && isIntType(p.Type()) {
			fb.nnPhis[p] = true
		}
	})
	for changed := true; changed; {
		changed = false
		for p := range fb.nnPhis {
			for _, e := range p.Edges {
				if !fb.nonneg(e, 0) {
					delete(fb.nnPhis, p)
					changed = true
					break
				}
			}
		}
	}
	return fb.nnPhis
}

// nonneg: structural non-negativity (no use of rng on phis, so it can be used inside rng).
func (fb *FB) nonneg(v ssa.Value, depth int) bool {
	if depth > 12 {
		return false
	}
	if !isIntType(v.Type()) {
		return false
	}
	tlo, _ := fb.typeRange(v.Type())
	if tlo >= 0 {
		return true
	}
	switch x := v.(type) {
	case *ssa.Const:
		i, ok := constInt(x)
		return ok && i >= 0
	case *ssa.Phi:
		if !fb.nnDone {
			fb.nonnegPhis()
		}
		return fb.nnPhis[x]
	case *ssa.Convert:
		if !isIntType(x.X.Type()) {
			return false
		}
		_, thi := fb.typeRange(x.Type())
		slo, shi := fb.typeRange(x.X.Type())
		if slo >= 0 {
			// unsigned -> signed: non-negative when it fits
			if shi <= thi {
				return true
			}
			// same or larger width: idealised as size/offset (see lin); allocation sinks re-check the sign
			return true
		}
		return fb.nonneg(x.X, depth+1)
	case *ssa.ChangeType:
		return fb.nonneg(x.X, depth+1)
	case *ssa.BinOp:
		switch x.Op {
		case token.ADD, token.MUL:
			return fb.nonneg(x.X, depth+1) && fb.nonneg(x.Y, depth+1)
		case token.QUO, token.REM, token.SHR:
			return fb.nonneg(x.X, depth+1)
		case token.AND:
			return fb.nonneg(x.X, depth+1) || fb.nonneg(x.Y, depth+1)
		case token.OR, token.XOR, token.SHL:
			return fb.nonneg(x.X, depth+1) && fb.nonneg(x.Y, depth+1)
		case token.SUB:
			// a - b with a dominating a >= b is handled by the prover; here only operand ranges
			alo, _ := fb.rng(x.X)
			_, bhi := fb.rng(x.Y)
			return alo > ninf && bhi < inf && alo-bhi >= 0
		}
	case *ssa.Call:
		if b, ok := x.Call.Value.(*ssa.Builtin); ok {
			switch b.Name() {
			case "len", "cap":
				return true
			case "min":
				for _, a := range x.Call.Args {
					if !fb.nonneg(a, depth+1) {
						return false
					}
				}
				return true
			case "max":
				for _, a := range x.Call.Args {
					if fb.nonneg(a, depth+1) {
						return true
					}
				}
			}
		}
	case *ssa.UnOp:
		if x.Op == token.MUL {
			if sv := fb.singleStoreLoad(x); sv != nil {
				return fb.nonneg(sv, depth+1)
			}
		}
	case *ssa.Parameter:
		return fb.c.paramNonneg(x)
	}
	return false
}

// paramNonneg: every static call site passes a non-negative argument (recursive calls are assumed
// to preserve the property: coinductive reading). Parameters of functions that can be reached through
// interfaces or function values, or of exported API, are not assumed non-negative.
func (c *Ctx) paramNonneg(p *ssa.Parameter) bool {
	m, _ := c.cache["paramnn"].(map[*ssa.Parameter]int)
	if m == nil {
		m = map[*ssa.Parameter]int{}
		c.cache["paramnn"] = m
	}
	switch m[p] {
	case 1, 2:
		return true
	case 3:
		return false
	}
	fn := p.Parent()
	idx := paramIndex(fn, p)
	node := c.CG.Nodes[fn]
	if idx < 0 || node == nil || len(node.In) == 0 || fn.Parent() != nil {
		m[p] = 3
		return false
	}
	if fn.Object() != nil && fn.Object().Exported() && fnPkgPath(fn) == modPath {
		m[p] = 3
		return false
	}
	m[p] = 1
	for _, e := range node.In {
		if e.Site == nil || e.Site.Common().StaticCallee() != fn || idx >= len(e.Site.Common().Args) {
			m[p] = 3
			return false
		}
		caller := e.Site.Parent()
		if !c.FB(caller).nonneg(e.Site.Common().Args[idx], 0) {
			m[p] = 3
			return false
		}
	}
	m[p] = 2
	return true
}

func hasQuo(t Lin) bool {
	for k := range t.T {
		if bo, ok := k.(*ssa.BinOp); ok && bo.Op == token.QUO {
			return true
		}
		// symbols with intrinsic facts: search results, min/max
		if call, ok := k.(*ssa.Call); ok {
			if b, isB := call.Call.Value.(*ssa.Builtin); isB && (b.Name() == "min" || b.Name() == "max") {
				return true
			}
			if f := call.Call.StaticCallee(); f != nil && f.Pkg != nil && (f.Pkg.Pkg.Path() == "bytes" || f.Pkg.Pkg.Path() == "strings") {
				return true
			}
		}
	}
	return false
}

func narrowInt(t types.Type) bool {
	b, ok := t.Underlying().(*types.Basic)
	if !ok {
		return false
	}
	switch b.Kind() {
	case types.Uint8, types.Int8, types.Uint16, types.Int16:
		return true
	}
	return false
}

// narrowOpFits: the operand ranges (type ranges refined by what is known of the values) keep x.X op x.Y inside the type.
func (fb *FB) narrowOpFits(x *ssa.BinOp) bool {
	alo, ahi := fb.rng(x.X)
	blo, bhi := fb.rng(x.Y)
	tlo, thi := fb.typeRange(x.Type())
	var lo, hi int64
	switch x.Op {
	case token.ADD:
		lo, hi = satAdd(alo, blo), satAdd(ahi, bhi)
	case token.SUB:
		lo, hi = satAdd(alo, -bhi), satAdd(ahi, -blo)
	case token.MUL:
		c := []int64{satMul(alo, blo), satMul(alo, bhi), satMul(ahi, blo), satMul(ahi, bhi)}
		lo, hi = c[0], c[0]
		for _, y := range c {
			if y < lo {
				lo = y
			}
			if y > hi {
				hi = y
			}
		}
	case token.SHL:
		if blo < 0 || bhi > 16 {
			return false
		}
		lo, hi = alo<<uint(blo), ahi<<uint(bhi)
	}
	return lo >= tlo && hi <= thi
}

// linThroughHelper: ex is result 0 of a static call to a module helper whose single success return computes its value from
// the parameters by +, -, * (one factor constant after binding); gives that expression over the caller's arguments.
func (fb *FB) linThroughHelper(ex *ssa.Extract) (Lin, bool) { return fb.linThroughHelperSubst(ex, nil) }

// linThroughHelperSubst: the same with a substitution applied to the argument forms (constant parameters of the enclosing
// function at a particular call site).
func (fb *FB) linThroughHelperSubst(ex *ssa.Extract, subst func(Lin) Lin) (Lin, bool) {
	call, ok := ex.Tuple.(*ssa.Call)
	if !ok {
		return Lin{}, false
	}
	callee := call.Call.StaticCallee()
	if callee == nil || callee.Blocks == nil || !inModule(fnPkgPath(callee)) || len(callee.Params) != len(call.Call.Args) || len(callee.Blocks) > 6 {
		return Lin{}, false
	}
	eidx := errResultIndex(callee.Signature)
	if eidx < 0 {
		return Lin{}, false
	}
	var rv ssa.Value
	for _, b := range callee.Blocks {
		rt, ok := b.Instrs[len(b.Instrs)-1].(*ssa.Return)
		if !ok || len(rt.Results) <= eidx {
			continue
		}
		if !isNilConst(rt.Results[eidx]) {
			continue
		}
		if rv != nil {
			return Lin{}, false
		}
		rv = rt.Results[0]
	}
	if rv == nil {
		return Lin{}, false
	}
	var tr func(v ssa.Value, d int) (Lin, bool)
	tr = func(v ssa.Value, d int) (Lin, bool) {
		if d > 6 {
			return Lin{}, false
		}
		switch y := v.(type) {
		case *ssa.Const:
			if k, ok := constInt(y); ok {
				return linConst(k), true
			}
		case *ssa.Parameter:
			if i := paramIndex(callee, y); i >= 0 {
				l := fb.lin(call.Call.Args[i])
				if subst != nil {
					l = subst(l)
				}
				return l, true
			}
		case *ssa.Convert:
			if isIntType(y.Type()) && isIntType(y.X.Type()) {
				return tr(y.X, d+1)
			}
		case *ssa.BinOp:
			a, ok1 := tr(y.X, d+1)
			b, ok2 := tr(y.Y, d+1)
			if !ok1 || !ok2 {
				return Lin{}, false
			}
			switch y.Op {
			case token.ADD:
				return a.add(b, 1), true
			case token.SUB:
				return a.add(b, -1), true
			case token.MUL:
				if a.isConst() && abs64(a.C) < 1<<31 {
					return b.scale(a.C), true
				}
				if b.isConst() && abs64(b.C) < 1<<31 {
					return a.scale(b.C), true
				}
			}
		}
		return Lin{}, false
	}
	return tr(rv, 0)
}

// ---- facts of pure bool helpers (`if !it.hasCurrent() { return }`) ----

// fieldPath: v is a load through a chain of field selections that starts at a parameter of fn: (parameter index, fields).
func fieldPath(fn *ssa.Function, v ssa.Value) (int, []*types.Var, bool) {
	var fields []*types.Var
	cur := v
	for i := 0; i < 6; i++ {
		ld, ok := isLoad(cur)
		if !ok {
			return 0, nil, false
		}
		fa, ok := ld.X.(*ssa.FieldAddr)
		if !ok {
			return 0, nil, false
		}
		f, _ := fieldOfAddr(fa)
		if f == nil {
			return 0, nil, false
		}
		fields = append([]*types.Var{f}, fields...)
		if p, isP := fa.X.(*ssa.Parameter); isP {
			idx := paramIndex(fn, p)
			return idx, fields, idx >= 0
		}
		cur = fa.X
	}
	return 0, nil, false
}

// pathValue: the caller's canonical load of root.f1.f2... (nil if the caller never reads it or stores to one of the fields).
func (fb *FB) pathValue(root ssa.Value, fields []*types.Var) ssa.Value {
	if !fb.canonAll {
		fb.canonAll = true
		instrs(fb.fn, func(in ssa.Instruction) {
			if u, ok := in.(*ssa.UnOp); ok && u.Op == token.MUL {
				fb.canon(u)
			}
		})
	}
	cur := fb.canon(root)
	for _, f := range fields {
		if fb.storedFields[f] {
			return nil
		}
		c, ok := fb.canonMap[canonKey{base: cur, field: f, idx: -1}]
		if !ok {
			return nil
		}
		cur = c
	}
	return cur
}

func pureFunction(fn *ssa.Function) bool {
	pure := true
	instrs(fn, func(in ssa.Instruction) {
		switch x := in.(type) {
		case *ssa.Store, *ssa.MapUpdate, *ssa.Send, *ssa.Go, *ssa.Defer:
			pure = false
		case *ssa.Call:
			if _, isB := x.Call.Value.(*ssa.Builtin); !isB {
				pure = false
			}
		}
	})
	return pure
}

// boolHelperFacts: call is a static call of a pure module function with one bool result; appends what is known in the caller
// when it returned val: the facts common to every return that can yield val, with parameters, their lengths and the fields
// read through them re-expressed over the caller's values.
func (fb *FB) boolHelperFacts(call *ssa.Call, val bool, out []Lin) []Lin {
	callee := call.Call.StaticCallee()
	if callee == nil || callee.Blocks == nil || !inModule(fnPkgPath(callee)) || len(callee.Params) != len(call.Call.Args) || callee == fb.fn {
		return out
	}
	res := callee.Signature.Results()
	if res.Len() != 1 {
		return out
	}
	if b, ok := res.At(0).Type().Underlying().(*types.Basic); !ok || b.Kind() != types.Bool {
		return out
	}
	if len(callee.Blocks) > 12 || !pureFunction(callee) {
		return out
	}
	cfb := fb.c.FB(callee)
	var alts [][]Lin
	for _, ret := range returnsOf(callee) {
		v := ret.Results[0]
		switch x := v.(type) {
		case *ssa.Const:
			if constant.BoolVal(x.Value) == val {
				alts = append(alts, cfb.blockFacts(ret.Block()))
			}
		case *ssa.Phi:
			for i, e := range x.Edges {
				pred := x.Block().Preds[i]
				if k, isK := e.(*ssa.Const); isK {
					if constant.BoolVal(k.Value) == val {
						alts = append(alts, cfb.edgeFacts(pred, x.Block()))
					}
					continue
				}
				alts = append(alts, cfb.condFacts(e, val, cfb.edgeFacts(pred, x.Block())))
			}
		default:
			alts = append(alts, cfb.condFacts(v, val, append([]Lin{}, cfb.blockFacts(ret.Block())...)))
		}
	}
	if len(alts) == 0 {
		return out
	}
	common := alts[0]
	for _, a := range alts[1:] {
		var inter []Lin
		for _, f := range common {
			for _, g := range a {
				if f.equal(g) {
					inter = append(inter, f)
					break
				}
			}
		}
		common = inter
	}
	for _, f := range common {
		l := linConst(f.C)
		ok := true
		for k, coef := range f.T {
			var arg Lin
			good := false
			switch kk := k.(type) {
			case *ssa.Parameter:
				if i := paramIndex(callee, kk); i >= 0 {
					arg, good = fb.lin(call.Call.Args[i]), true
				}
			case lenKey:
				if p, isP := kk.v.(*ssa.Parameter); isP {
					if i := paramIndex(callee, p); i >= 0 {
						arg, good = fb.lenLin(call.Call.Args[i]), true
					}
				} else if i, fields, isPath := fieldPath(callee, kk.v); isPath {
					if pv := fb.pathValue(call.Call.Args[i], fields); pv != nil {
						arg, good = fb.lenLin(pv), true
					}
				}
			case ssa.Value:
				if i, fields, isPath := fieldPath(callee, kk); isPath {
					if pv := fb.pathValue(call.Call.Args[i], fields); pv != nil {
						arg, good = fb.lin(pv), true
					}
				}
			}
			if !good {
				ok = false
				break
			}
			l = l.add(arg, coef)
		}
		if ok {
			out = append(out, l)
		}
	}
	return out
}

// successSummaryConst: like successSummary, for a call whose integer arguments `consts` (parameter index -> value) are
// constants: the parameters are replaced by their values, quotients by such a parameter get their defining inequalities
// (A - k*q >= 0, k*q + k-1 - A >= 0), and symbols local to the callee are eliminated by combining facts (Fourier-Motzkin),
// so that e.g. `if n > len(buf)/width { return err }` with width = 8 yields len(buf) - 8*n >= 0 on success.
func (c *Ctx) successSummaryConst(fn *ssa.Function, consts map[int]int64) []Lin {
	if len(fn.Blocks) > 40 {
		return nil
	}
	fb := c.FB(fn)
	errIdx := errResultIndex(fn.Signature)
	subst := func(l Lin) Lin {
		out := linConst(l.C)
		for k, coef := range l.T {
			if p, ok := k.(*ssa.Parameter); ok {
				if v, has := consts[paramIndex(fn, p)]; has {
					out = out.add(linConst(v), coef)
					continue
				}
			}
			out = out.add(linSym(k), coef)
		}
		return out
	}
	var common []Lin
	first := true
	for _, ret := range returnsOf(fn) {
		if errIdx >= 0 && !mayBeNil(retOperand(ret, errIdx), map[ssa.Value]bool{}) {
			continue
		}
		var facts []Lin
		for _, f := range fb.blockFacts(ret.Block()) {
			facts = append(facts, subst(f))
		}
		// quotients by a now-constant parameter
		seen := map[ssa.Value]bool{}
		for _, f := range append([]Lin{}, facts...) {
			for k := range f.T {
				bo, ok := k.(*ssa.BinOp)
				if !ok || bo.Op != token.QUO || seen[bo] {
					continue
				}
				seen[bo] = true
				den := subst(fb.lin(bo.Y))
				if !den.isConst() || den.C <= 0 || den.C > 1<<20 {
					continue
				}
				if lo, _ := fb.rng(bo.X); lo < 0 {
					continue
				}
				num := subst(fb.lin(bo.X))
				q := linSym(ssa.Value(bo))
				facts = append(facts, num.add(q, -den.C), q.scale(den.C).add(linConst(den.C-1), 1).add(num, -1))
			}
		}
		// results of checked-arithmetic helpers that become linear once the constants are known
		seenEx := map[*ssa.Extract]bool{}
		for _, f := range append([]Lin{}, facts...) {
			for k := range f.T {
				ex, ok := k.(*ssa.Extract)
				if !ok || seenEx[ex] || ex.Index != 0 {
					continue
				}
				seenEx[ex] = true
				if l, ok := fb.linThroughHelperSubst(ex, subst); ok {
					e := linSym(ssa.Value(ex))
					facts = append(facts, e.add(l, -1), l.add(e, -1))
				}
			}
		}
		// eliminate callee-local symbols
		for round := 0; round < 4; round++ {
			var local interface{}
			for _, f := range facts {
				for k := range f.T {
					if !c.summarySyms(fn, Lin{T: map[interface{}]int64{k: 1}}) {
						local = k
					}
				}
			}
			if local == nil {
				break
			}
			var pos, neg, rest []Lin
			for _, f := range facts {
				switch cf := f.T[local]; {
				case cf > 0:
					pos = append(pos, f)
				case cf < 0:
					neg = append(neg, f)
				default:
					rest = append(rest, f)
				}
			}
			if len(pos)*len(neg) > 64 {
				pos, neg = nil, nil
			}
			for _, p := range pos {
				for _, n := range neg {
					cp, cn := p.T[local], -n.T[local]
					if cp > 1<<20 || cn > 1<<20 {
						continue
					}
					rest = append(rest, p.scale(cn).add(n, cp))
				}
			}
			facts = rest
		}
		var keep []Lin
		for _, f := range facts {
			if !f.isConst() && c.summarySyms(fn, f) {
				keep = append(keep, f)
			}
		}
		if first {
			common, first = keep, false
		} else {
			var inter []Lin
			for _, a := range common {
				for _, b := range keep {
					if a.equal(b) {
						inter = append(inter, a)
						break
					}
				}
			}
			common = inter
		}
	}
	return common
}

// linThroughPlainCall: call is a static call of a module function with one integer result, a single block and a return
// expression built from parameters and constants by + - * (one factor constant) and integer conversions.
func (fb *FB) linThroughPlainCall(call *ssa.Call) (Lin, bool) {
	callee := call.Call.StaticCallee()
	if callee == nil || callee.Blocks == nil || !inModule(fnPkgPath(callee)) || len(callee.Params) != len(call.Call.Args) || len(callee.Blocks) != 1 || callee == fb.fn {
		return Lin{}, false
	}
	rt, ok := callee.Blocks[0].Instrs[len(callee.Blocks[0].Instrs)-1].(*ssa.Return)
	if !ok || len(rt.Results) != 1 {
		return Lin{}, false
	}
	var tr func(v ssa.Value, d int) (Lin, bool)
	tr = func(v ssa.Value, d int) (Lin, bool) {
		if d > 8 {
			return Lin{}, false
		}
		switch y := v.(type) {
		case *ssa.Const:
			if k, ok := constInt(y); ok {
				return linConst(k), true
			}
		case *ssa.Parameter:
			if i := paramIndex(callee, y); i >= 0 {
				return fb.lin(call.Call.Args[i]), true
			}
		case *ssa.Convert:
			if isIntType(y.Type()) && isIntType(y.X.Type()) {
				// widening or same-width conversions of small values, as in the callee's own arithmetic
				_, shi := fb.typeRange(y.X.Type())
				_, thi := fb.typeRange(y.Type())
				if shi <= thi || sameWidthIntUint(y.X.Type(), y.Type()) {
					return tr(y.X, d+1)
				}
			}
		case *ssa.BinOp:
			a, ok1 := tr(y.X, d+1)
			b, ok2 := tr(y.Y, d+1)
			if !ok1 || !ok2 {
				return Lin{}, false
			}
			switch y.Op {
			case token.ADD:
				return a.add(b, 1), true
			case token.SUB:
				return a.add(b, -1), true
			case token.MUL:
				if a.isConst() && abs64(a.C) < 1<<31 {
					return b.scale(a.C), true
				}
				if b.isConst() && abs64(b.C) < 1<<31 {
					return a.scale(b.C), true
				}
			}
		}
		return Lin{}, false
	}
	return tr(rt.Results[0], 0)
}

// canonGetter unifies two calls of the same small pure method (a getter such as allocator.EndOfFile()) with the same
// arguments when nothing between them can change what it reads: the first call dominates the second and no store, map update or
// impure call lies on any path from the first to the second.
func (fb *FB) canonGetter(call *ssa.Call) ssa.Value {
	g := call.Call.StaticCallee()
	if g == nil || g.Blocks == nil || len(g.Blocks) > 3 || !inModule(fnPkgPath(g)) || !pureFunction(g) || call.Parent() != fb.fn {
		return call
	}
	if fb.getterMap == nil {
		fb.getterMap = map[*ssa.Function][]*ssa.Call{}
		instrs(fb.fn, func(in ssa.Instruction) {
			if c2, ok := in.(*ssa.Call); ok {
				if h := c2.Call.StaticCallee(); h != nil && h.Blocks != nil && len(h.Blocks) <= 3 && inModule(fnPkgPath(h)) && pureFunction(h) {
					fb.getterMap[h] = append(fb.getterMap[h], c2)
				}
			}
		})
	}
	quiet := func(in ssa.Instruction) bool {
		switch x := in.(type) {
		case *ssa.Store, *ssa.MapUpdate, *ssa.Send, *ssa.Go, *ssa.Defer, *ssa.RunDefers:
			return false
		case *ssa.Call:
			if _, isB := x.Call.Value.(*ssa.Builtin); isB {
				return true
			}
			h := x.Call.StaticCallee()
			return h != nil && h.Blocks != nil && inModule(fnPkgPath(h)) && pureFunction(h)
		}
		return true
	}
	for _, first := range fb.getterMap[g] {
		if first == call {
			break
		}
		if len(first.Call.Args) != len(call.Call.Args) || !instrDominates(first, call) {
			continue
		}
		same := true
		for i := range first.Call.Args {
			a, b := first.Call.Args[i], call.Call.Args[i]
			if a != b {
				if _, isCall := a.(*ssa.Call); isCall {
					same = false
				} else if fb.canon(a) != fb.canon(b) {
					same = false
				}
			}
		}
		if !same {
			continue
		}
		ok := true
		for _, b := range fb.fn.Blocks {
			for _, in := range b.Instrs {
				if in == ssa.Instruction(first) || in == ssa.Instruction(call) {
					continue
				}
				if canReach(first, in) && canReach(in, call) && !quiet(in) {
					ok = false
				}
			}
		}
		if ok {
			return first
		}
	}
	return call
}
