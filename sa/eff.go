package main

import (
	"fmt"
	"go/token"
	"go/types"
	"sort"
	"strings"

	"golang.org/x/tools/go/ssa"
)

// E-EFF: which struct fields a function stores to, and (for numeric fields) by how much.

type FieldStore struct {
	Fn    *ssa.Function
	Key   string // pkg.Type.field
	Field *types.Var
	In    ssa.Instruction // Store or MapUpdate
	Val   ssa.Value       // stored value (nil for map update / element store)
	Kind  string          // "set" | "elem" | "mapupdate"
	// Delta: for integer fields when the new value is old value + d: sign and amount
	Class string // "+1" "-1" "+x" "-x" "+c" "-c" "=" (assignment of an unrelated value) "" (non numeric)
	Sym   string // printable name of x
	SymK  interface{}
}

// fieldOfPath resolves the field that an address expression ultimately designates:
// FieldAddr → that field ("set"); IndexAddr(load(FieldAddr)) → element of that field ("elem").
func fieldOfPath(addr ssa.Value) (*types.Var, types.Type, string) {
	switch a := addr.(type) {
	case *ssa.FieldAddr:
		f, base := fieldOfAddr(a)
		if f != nil {
			return f, base.Type(), "set"
		}
	case *ssa.IndexAddr:
		// element of a slice/array held in a field
		switch x := a.X.(type) {
		case *ssa.UnOp:
			if x.Op == token.MUL {
				if fa, ok := x.X.(*ssa.FieldAddr); ok {
					f, base := fieldOfAddr(fa)
					if f != nil {
						return f, base.Type(), "elem"
					}
				}
			}
		case *ssa.FieldAddr:
			f, base := fieldOfAddr(x)
			if f != nil {
				return f, base.Type(), "elem"
			}
		}
	}
	return nil, nil, ""
}

// DirectFieldStores lists the field stores made by fn itself (and its anonymous functions).
func (c *Ctx) DirectFieldStores(fn *ssa.Function) []FieldStore {
	var out []FieldStore
	var visit func(f *ssa.Function)
	visit = func(f *ssa.Function) {
		fb := c.FB(f)
		instrs(f, func(in ssa.Instruction) {
			switch x := in.(type) {
			case *ssa.Store:
				f2, owner, kind := fieldOfPath(x.Addr)
				if f2 == nil {
					return
				}
				fs := FieldStore{Fn: f, Key: fieldKey(owner, f2), Field: f2, In: x, Val: x.Val, Kind: kind}
				if kind == "set" && isIntType(f2.Type()) {
					fs.classify(fb, x)
				}
				out = append(out, fs)
			case *ssa.MapUpdate:
				if ld, ok := x.Map.(*ssa.UnOp); ok && ld.Op == token.MUL {
					if fa, ok := ld.X.(*ssa.FieldAddr); ok {
						if f2, base := fieldOfAddr(fa); f2 != nil {
							out = append(out, FieldStore{Fn: f, Key: fieldKey(base.Type(), f2), Field: f2, In: x, Kind: "mapupdate"})
						}
					}
				}
			}
		})
		for _, af := range f.AnonFuncs {
			visit(af)
		}
	}
	visit(fn)
	sort.SliceStable(out, func(i, j int) bool { return posLess(out[i].In, out[j].In) })
	return out
}

// classify: new value relative to the old value of the same field address.
func (fs *FieldStore) classify(fb *FB, st *ssa.Store) {
	l := fb.lin(st.Val)
	// find a load of the same address among the symbols
	var oldKey interface{}
	for k := range l.T {
		if ld, ok := k.(*ssa.UnOp); ok && ld.Op == token.MUL && sameFieldAddr(ld.X, st.Addr) {
			oldKey = k
		}
	}
	if oldKey == nil || l.T[oldKey] != 1 {
		fs.Class = "="
		return
	}
	d := l.clone()
	delete(d.T, oldKey)
	switch {
	case d.isConst() && d.C == 1:
		fs.Class = "+1"
	case d.isConst() && d.C == -1:
		fs.Class = "-1"
	case d.isConst() && d.C > 0:
		fs.Class = "+c"
		fs.Sym = fmt.Sprint(d.C)
	case d.isConst() && d.C < 0:
		fs.Class = "-c"
		fs.Sym = fmt.Sprint(-d.C)
	case len(d.T) == 1:
		// old value plus/minus one symbolic amount (possibly with a constant part, e.g. 16 + alignTo8(n))
		for k, coef := range d.T {
			fs.Class = "="
			if coef == 1 {
				fs.Class = "+x"
				fs.Sym = fb.linString(d)
			} else if coef == -1 {
				fs.Class = "-x"
				fs.Sym = fb.linString(d.scale(-1))
			}
			if d.C == 0 {
				fs.SymK = k
			} else {
				fs.SymK = fs.Sym // amounts with a constant part are compared by their rendering
			}
		}
	default:
		fs.Class = "="
	}
}

func sameFieldAddr(a, b ssa.Value) bool {
	fa, ok1 := a.(*ssa.FieldAddr)
	fb, ok2 := b.(*ssa.FieldAddr)
	if !ok1 || !ok2 || fa.Field != fb.Field {
		return false
	}
	return sameObject(fa.X, fb.X)
}

// sameObject: two pointer values denote the same object (same SSA value, or loads of the same field path).
func sameObject(a, b ssa.Value) bool {
	if a == b {
		return true
	}
	la, ok1 := a.(*ssa.UnOp)
	lb, ok2 := b.(*ssa.UnOp)
	if ok1 && ok2 && la.Op == token.MUL && lb.Op == token.MUL {
		return sameFieldAddr(la.X, lb.X)
	}
	return false
}

// TransitiveFieldStores: field keys stored by fn or anything it can reach (call graph), with a witness.
func (c *Ctx) TransitiveFieldStores(fn *ssa.Function) map[string]string {
	memo, _ := c.cache["tfs"].(map[*ssa.Function]map[string]string)
	if memo == nil {
		memo = map[*ssa.Function]map[string]string{}
		c.cache["tfs"] = memo
	}
	if m, ok := memo[fn]; ok {
		return m
	}
	out := map[string]string{}
	reach := c.Reach([]*ssa.Function{fn}, func(f *ssa.Function) bool { return !libPackage(fnPkgPath(f)) })
	var fns []*ssa.Function
	for f := range reach {
		fns = append(fns, f)
	}
	sort.Slice(fns, func(i, j int) bool { return c.Name(fns[i]) < c.Name(fns[j]) })
	for _, f := range fns {
		if f.Parent() != nil {
			continue // covered through the parent
		}
		for _, fs := range c.DirectFieldStores(f) {
			if _, ok := out[fs.Key]; !ok {
				out[fs.Key] = c.Name(fs.Fn) + " at " + c.InstrPos(fs.In)
			}
		}
	}
	memo[fn] = out
	return out
}

// effectSignature renders the numeric effects of fn on fields whose key has one of the prefixes.
func (c *Ctx) effectSignature(fn *ssa.Function, prefixes ...string) (map[string][]FieldStore, []string) {
	per := map[string][]FieldStore{}
	for _, fs := range c.DirectFieldStores(fn) {
		if !hasPrefixAny(fs.Key, prefixes...) {
			continue
		}
		per[fs.Key] = append(per[fs.Key], fs)
	}
	// stores made by small helpers of the same package that the function calls statically (one level): the helper's deltas
	// are taken over; an amount that is a parameter of the helper becomes the caller's argument
	for _, site := range callsIn(fn) {
		call, ok := site.(*ssa.Call)
		if !ok {
			continue
		}
		g := call.Call.StaticCallee()
		if g == nil || g.Blocks == nil || g == fn || fnPkgPath(g) != fnPkgPath(fn) || len(g.Blocks) > 12 || len(g.Params) != len(call.Call.Args) {
			continue
		}
		if g.Object() != nil && g.Object().Exported() {
			continue // exported operations are judged against their own model
		}
		if h := c.postReviewContext(g); h != c.Name(g) {
			continue // helpers that existed at review time have their own place in the models
		}
		for _, fs := range c.DirectFieldStores(g) {
			if fs.Fn != g || !hasPrefixAny(fs.Key, prefixes...) {
				continue
			}
			cp := fs
			cp.In = call
			if p, isP := fs.SymK.(*ssa.Parameter); isP && paramIndex(g, p) >= 0 {
				arg := call.Call.Args[paramIndex(g, p)]
				cp.SymK = interface{}(arg)
				cp.Sym = arg.Name()
			} else {
				cp.SymK = nil // an amount local to the helper: not compared across the accounting group
			}
			per[fs.Key] = append(per[fs.Key], cp)
		}
	}
	var lines []string
	for _, k := range sortedKeys(per) {
		var cl []string
		for _, fs := range per[k] {
			s := fs.Class
			if fs.Kind != "set" {
				s = fs.Kind
			}
			if fs.Sym != "" && (fs.Class == "+x" || fs.Class == "-x") {
				s += "(" + fs.Sym + ")"
			}
			cl = append(cl, s)
		}
		lines = append(lines, k+": "+strings.Join(cl, ","))
	}
	return per, lines
}
