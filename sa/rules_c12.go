package main

import (
	"go/token"
	"go/types"
	"sort"
	"strings"

	"golang.org/x/tools/go/ssa"
)

func init() {
	register("C12", PropMeta{
		Title: "Variable-length data round-trips through the global heap",
		Explanation: "Path and effect rules on the global-heap writer: the open collection is flushed before it is replaced and before Close succeeds; addObject moves objects/usedSpace/freeSpace/nextIndex together by the same size expression that the fit test used; " +
			"a collection created for an object is proven (linear prover over the sizing code, including the round-up idiom) to have room for it; the object is only added behind a fit test or a creation for the same size; Close's failure exits keep the flush error.",
		DoesNotDecide: "element equality after reopen; roll-over arithmetic at particular byte counts; the reader's acceptance of an object that ends exactly at the collection end; the vlen datatype message (see C11)",
		Rules: map[string]string{
			"C12.1": "the open collection is flushed before currentHeap is replaced (when non-nil) and before every success return of FileWriter.Close (when a heap writer exists)",
			"C12.2": "addObject updates objects, usedSpace(+n), freeSpace(-n), nextIndex(+1) together, and n is the same expression (16 + alignTo8(len(data))) as the size tested by the caller",
			"C12.3": "createNewHeap(n) yields freeSpace >= n: proven from its sizing code",
			"C12.4": "addObject is reached only behind hasSpace(n) or createNewHeap(n) for the same n",
		},
	}, ruleC12)
}

// normExpr renders a size expression in a normal form that does not depend on local names.
func normExpr(v ssa.Value, fn *ssa.Function, d int) string {
	if d > 10 {
		return "?"
	}
	switch x := v.(type) {
	case *ssa.Const:
		if i, ok := constInt(x); ok {
			return itoa(int(i))
		}
		return "const"
	case *ssa.BinOp:
		a, b := normExpr(x.X, fn, d+1), normExpr(x.Y, fn, d+1)
		if x.Op == token.ADD || x.Op == token.MUL {
			ab := []string{a, b}
			sort.Strings(ab)
			a, b = ab[0], ab[1]
		}
		return "(" + a + x.Op.String() + b + ")"
	case *ssa.Convert:
		return normExpr(x.X, fn, d+1)
	case *ssa.Call:
		if b, ok := x.Call.Value.(*ssa.Builtin); ok {
			return b.Name() + "(" + normExpr(x.Call.Args[0], fn, d+1) + ")"
		}
		if f := x.Call.StaticCallee(); f != nil {
			var as []string
			for _, a := range x.Call.Args {
				as = append(as, normExpr(a, fn, d+1))
			}
			return f.Name() + "(" + strings.Join(as, ",") + ")"
		}
	case *ssa.Parameter:
		for i, p := range x.Parent().Params {
			if p == x {
				return "param" + itoa(i) + ":" + typeShort(x.Type())
			}
		}
	}
	return "?" + v.Name()
}

func ruleC12(c *Ctx, r *Result) {
	w2g := c.Fn(r, "hdf5.globalHeapWriter.WriteToGlobalHeap")
	cnh := c.Fn(r, "hdf5.globalHeapWriter.createNewHeap")
	add := c.Fn(r, "hdf5.globalHeapCollectionBuilder.addObject")
	closeFn := c.Fn(r, "hdf5.FileWriter.Close")
	if w2g == nil || cnh == nil || add == nil || closeFn == nil {
		return
	}
	const B = "hdf5.globalHeapCollectionBuilder."
	// guardedCall: pred for mustPrecede that accepts either the call itself or `if X != nil { ...call... }` guard blocks
	guarded := func(callee, field string) func(ssa.Instruction) bool {
		return func(in ssa.Instruction) bool {
			switch x := in.(type) {
			case *ssa.Call:
				return c.calleeName(x) == callee
			case *ssa.If:
				bo, ok := x.Cond.(*ssa.BinOp)
				if !ok || bo.Op != token.NEQ || !isNilConst(bo.Y) {
					return false
				}
				if k, _ := fieldLoadKey(bo.X); k != field {
					return false
				}
				for blk := range reachableFrom(x.Block().Succs[0], map[*ssa.BasicBlock]bool{x.Block().Succs[1]: true}) {
					for _, i2 := range blk.Instrs {
						if call, ok := i2.(*ssa.Call); ok && c.calleeName(call) == callee {
							return true
						}
					}
				}
			}
			return false
		}
	}
	// C12.1
	// every caller of createNewHeap in the root package, and every function that assigns currentHeap
	for _, caller := range c.LibFuncs() {
		if shortPkg(fnPkgPath(caller)) != "hdf5" || caller == cnh {
			continue
		}
		for _, site := range c.callsTo(caller, func(n string) bool { return n == "hdf5.globalHeapWriter.createNewHeap" }) {
			if site.Parent() != caller {
				continue
			}
			ok := mustPrecede(site.(ssa.Instruction), guarded("hdf5.globalHeapWriter.flushCurrentHeap", "hdf5.globalHeapWriter.currentHeap"))
			r.Check(ok, "C12.1", c.Name(caller)+"#flush-before-replace", c.InstrPos(site), "the current collection is flushed (when there is one) before a new one replaces it")
		}
		for _, fs := range c.DirectFieldStores(caller) {
			if fs.Fn != caller || fs.Key != "hdf5.globalHeapWriter.currentHeap" {
				continue
			}
			if isNilConst(fs.Val) || c.underConstruction(caller) {
				continue // reset after a flush / constructor
			}
			r.Viol("C12.1", c.Name(caller)+"#replaces-collection-directly", c.InstrPos(fs.In), c.Name(caller)+" assigns currentHeap itself; a collection becomes current only through createNewHeap behind the flush (a collection that is swapped out by assignment is never written)")
		}
	}
	for _, ret := range successReturns(closeFn) {
		// the very first `writer == nil` exit is the already-closed case
		if ret.Block().Index <= 2 && len(closeFn.Blocks) > 0 && edgeDominates(closeFn.Blocks[0], closeFn.Blocks[0].Succs[0], ret.Block()) {
			r.Hold("C12.1", c.Name(closeFn)+"#already-closed-exit", c.InstrPos(ret), "nothing left to flush")
			continue
		}
		ok := mustPrecede(ret, guarded("hdf5.globalHeapWriter.Flush", "hdf5.FileWriter.globalHeapWriter"))
		r.Check(ok, "C12.1", c.Name(closeFn)+"#flush-before-success", c.InstrPos(ret), "Close flushes the open global-heap collection before it reports success")
	}
	// Flush itself must reach flushCurrentHeap
	if fl := c.Fn(r, "hdf5.globalHeapWriter.Flush"); fl != nil {
		r.Check(c.reachesCallee(fl, func(n string) bool { return n == "hdf5.globalHeapWriter.flushCurrentHeap" }), "C12.1", c.Name(fl)+"#reaches-flushCurrentHeap", c.Pos(fl.Pos()), "Flush writes the current collection")
	}
	r.Floor("C12.1", 3)

	// C12.2 accounting
	c.checkEffects(r, "C12.2", add, effSpec{
		B + "objects": "any", B + "usedSpace": "+x@n", B + "freeSpace": "-x@n", B + "nextIndex": "+1",
		"hdf5.globalHeapObjectBuilder.index": "any", "hdf5.globalHeapObjectBuilder.refCount": "any", "hdf5.globalHeapObjectBuilder.data": "any",
	}, B, "hdf5.globalHeapObjectBuilder.")
	// same size expression on both sides
	var addSize, callerSize string
	for _, fs := range c.DirectFieldStores(add) {
		if fs.Key == B+"freeSpace" {
			if bo, ok := fs.Val.(*ssa.BinOp); ok && bo.Op == token.SUB {
				addSize = normExpr(bo.Y, add, 0)
			}
		}
	}
	for _, site := range c.callsTo(w2g, func(n string) bool { return n == "hdf5.globalHeapCollectionBuilder.hasSpace" }) {
		args := site.Common().Args
		callerSize = normExpr(args[len(args)-1], w2g, 0)
	}
	// parameters differ in position (method receiver): compare with the parameter index removed
	strip := func(s string) string {
		for _, p := range []string{"param0:", "param1:", "param2:"} {
			s = strings.ReplaceAll(s, p, "param:")
		}
		return s
	}
	r.Check(addSize != "" && strip(addSize) == strip(callerSize), "C12.2", c.Name(add)+"#same-size-expression", c.Pos(add.Pos()),
		"size charged by addObject = "+addSize+"; size tested by WriteToGlobalHeap = "+callerSize)
	r.Floor("C12.2", 5)

	// C12.3 a new collection has room for its first object
	fb := c.FB(cnh)
	found := false
	instrs(cnh, func(in ssa.Instruction) {
		st, ok := in.(*ssa.Store)
		if !ok {
			return
		}
		fa, ok := st.Addr.(*ssa.FieldAddr)
		if !ok {
			return
		}
		f, base := fieldOfAddr(fa)
		if f == nil || fieldKey(base.Type(), f) != B+"freeSpace" {
			return
		}
		found = true
		need := fb.lin(cnh.Params[1])
		ok2 := fb.ProveGE0At(fb.lin(st.Val).add(need, -1), st)
		r.Check(ok2, "C12.3", c.Name(cnh)+"#new-collection-fits-object", c.InstrPos(st), "freeSpace of the new collection ("+fb.linString(fb.lin(st.Val))+") is proven >= the requested object size")
	})
	if !found {
		r.Viol("C12.3", c.Name(cnh)+"#freeSpace-not-initialised", c.Pos(cnh.Pos()), "createNewHeap does not set freeSpace")
	}
	r.Floor("C12.3", 1)

	// C12.4 addObject only behind the fit test or a creation for the same size
	for _, site := range c.callsTo(w2g, func(n string) bool { return n == "hdf5.globalHeapCollectionBuilder.addObject" }) {
		in := site.(ssa.Instruction)
		var total ssa.Value
		for _, s2 := range c.callsTo(w2g, func(n string) bool { return n == "hdf5.globalHeapCollectionBuilder.hasSpace" }) {
			args := s2.Common().Args
			total = args[len(args)-1]
		}
		okCreate := true
		for _, s2 := range c.callsTo(w2g, func(n string) bool { return n == "hdf5.globalHeapWriter.createNewHeap" }) {
			args := s2.Common().Args
			if args[len(args)-1] != total {
				okCreate = false
			}
		}
		// every path to addObject passes hasSpace; the no-space / no-heap edge passes createNewHeap
		viaTest := total != nil && mustPrecede(in, func(i2 ssa.Instruction) bool {
			call, ok := i2.(*ssa.Call)
			if !ok {
				return false
			}
			n := c.calleeName(call)
			return n == "hdf5.globalHeapCollectionBuilder.hasSpace" || n == "hdf5.globalHeapWriter.createNewHeap"
		})
		r.Check(viaTest && okCreate, "C12.4", c.Name(w2g)+"#addObject-behind-fit-test", c.InstrPos(in), "addObject is preceded by hasSpace(n) or createNewHeap(n) with the same n on every path")
	}
	r.Floor("C12.4", 1)
}

// ---- C12.5: exact-fit acceptance in the reader ----
//
// A test `E < len(X)` whose true edge guards reads X[..:h] with h == E (and nothing that needs more than E bytes) rejects
// the case in which the record ends exactly at the end of X; the weakest sufficient guard is E <= len(X). The writer fills
// collections to the last byte, so the reader must accept the exact fit.
type strictFit struct {
	Fn    *ssa.Function
	Guard *ssa.If
	E     string
	Pos   string
}

func (c *Ctx) strictFitGuards(fn *ssa.Function) (found []strictFit, examined int) {
	fb := c.FB(fn)
	for _, b := range fn.Blocks {
		ifi, ok := b.Instrs[len(b.Instrs)-1].(*ssa.If)
		if !ok {
			continue
		}
		cmp, ok := ifi.Cond.(*ssa.BinOp)
		if !ok {
			continue
		}
		// E < len(X)  (true edge)   or   len(X) > E
		var E ssa.Value
		var lenCall ssa.Value
		switch cmp.Op {
		case token.LSS:
			E, lenCall = cmp.X, cmp.Y
		case token.GTR:
			E, lenCall = cmp.Y, cmp.X
		default:
			continue
		}
		X := lenOperand(lenCall)
		if X == nil {
			continue
		}
		if _, isBytes := X.Type().Underlying().(*types.Slice); !isBytes {
			continue
		}
		eLin := fb.lin(E)
		if eLin.isConst() {
			continue
		}
		arm := b.Succs[0]
		// accesses of X in the guarded region
		var exact, needsMore bool
		n := 0
		for _, blk := range fn.Blocks {
			if !edgeDominates(b, arm, blk) {
				continue
			}
			for _, in := range blk.Instrs {
				switch a := in.(type) {
				case *ssa.Slice:
					if a.X != X || a.High == nil {
						continue
					}
					n++
					h := fb.lin(a.High)
					facts := fb.blockFacts(blk)
					if fb.prove(h.add(eLin, -1), facts, 3) && fb.prove(eLin.add(h, -1), facts, 3) {
						exact = true
					} else if !fb.prove(eLin.add(h, -1), facts, 3) {
						// cannot show h <= E: the region may need more than E bytes (then another test must exist); not this pattern
						needsMore = true
					}
				case *ssa.IndexAddr:
					if a.X != X {
						continue
					}
					n++
					// X[i] needs i < len: with i == E the strict test is exactly right
					facts := fb.blockFacts(blk)
					i := fb.lin(a.Index)
					if !fb.prove(eLin.add(i, -1).add(linConst(1), -1), facts, 3) {
						needsMore = true
					}
				}
			}
		}
		if n == 0 {
			continue
		}
		examined++
		if exact && !needsMore {
			found = append(found, strictFit{fn, ifi, fb.linString(eLin), c.InstrPos(ifi)})
		}
	}
	return
}

// strictFitGuardsGeneral: the same defect in any spelling of the test (either operand order, rejecting or accepting arm,
// the length held in a variable the buffer was made with): an edge whose comparison fact is exactly
// len(X) - h - 1 >= 0 for a read X[..:h] it guards, with nothing in the guarded region needing more than h bytes.
func (c *Ctx) strictFitGuardsGeneral(fn *ssa.Function) (found []strictFit) {
	fb := c.FB(fn)
	for _, b := range fn.Blocks {
		ifi, ok := b.Instrs[len(b.Instrs)-1].(*ssa.If)
		if !ok || b.Succs[0] == b.Succs[1] {
			continue
		}
		cmp, ok := ifi.Cond.(*ssa.BinOp)
		if !ok || !isCmp(cmp.Op) {
			continue
		}
		for armIdx, arm := range b.Succs {
			op := cmp.Op
			if armIdx == 1 {
				op = negate(op)
			}
			if op != token.LSS && op != token.GTR {
				continue // only strict comparisons can be one byte too strict
			}
			facts := fb.cmpFacts(op, cmp.X, cmp.Y, nil)
			if len(facts) != 1 {
				continue
			}
			f := facts[0]
			var exact, needsMore bool
			var eStr string
			for _, blk := range fn.Blocks {
				if !edgeDominates(b, arm, blk) {
					continue
				}
				for _, in := range blk.Instrs {
					sl, ok := in.(*ssa.Slice)
					if !ok || sl.High == nil {
						continue
					}
					if _, isBytes := sl.X.Type().Underlying().(*types.Slice); !isBytes {
						continue
					}
					need := fb.lenOfOperand(sl.X).add(fb.lin(sl.High), -1) // >= 0 suffices
					if need.isConst() {
						continue
					}
					if f.equal(need.add(linConst(1), -1)) {
						exact = true
						eStr = fb.linString(fb.lin(sl.High))
					} else if mentionsSameLen(f, fb.lenOfOperand(sl.X)) && !fb.prove(need, append(fb.blockFacts(blk), f), 3) {
						needsMore = true
					}
				}
			}
			if exact && !needsMore {
				found = append(found, strictFit{fn, ifi, eStr, c.InstrPos(ifi)})
			}
		}
	}
	return
}

// mentionsSameLen: the fact talks about the same length symbol(s)
func mentionsSameLen(f, l Lin) bool {
	for k := range l.T {
		if _, ok := f.T[k]; ok {
			return true
		}
	}
	return false
}

func init() {
	reg := registry["C12"]
	reg.Meta.Rules["C12.5"] = "the heap reader accepts an object whose header ends exactly at the end of the collection (no strict `<` where `<=` suffices)"
	reg.Rules = append(reg.Rules, func(c *Ctx, r *Result) {
		n := 0
		for _, name := range []string{"core.ReadGlobalHeapCollection", "core.ParseGlobalHeapReference", "core.GlobalHeapCollection.GetObject"} {
			fn := c.FnOpt(name)
			if fn == nil {
				continue
			}
			n++
			found, ex := c.strictFitGuards(fn)
			have := map[string]bool{}
			for _, f := range found {
				have[f.Pos] = true
			}
			for _, f := range c.strictFitGuardsGeneral(fn) {
				if !have[f.Pos] {
					found = append(found, f)
				}
			}
			for _, f := range found {
				r.Viol("C12.5", name+"#strict-fit-test", f.Pos, "the test "+f.E+" < len(data) guards reads that end exactly at "+f.E+": a record that fills the buffer to the last byte is rejected (the writer produces such collections)")
			}
			if len(found) == 0 {
				r.Hold("C12.5", name+"#fit-tests-accept-exact-fit", c.Pos(fn.Pos()), itoa(ex)+" length tests examined; none is stricter than the reads it guards")
			}
			// the record loop of ReadGlobalHeapCollection leaves without error only when the next header cannot fit or the data is used up
			if name == "core.ReadGlobalHeapCollection" {
				c12loopExit(c, r, fn)
			}
		}
		if n == 0 {
			r.Errorf("C12.5: global heap reader functions not found")
		}
		r.Floor("C12.5", 2)
	})
}

// c12loopExit: on every edge that leaves the object loop towards the successful return, offset + 8 > len(data) - i.e. not even
// the fixed part of an object header (id, refcount, reserved: 8 bytes) fits - or offset + header > len(data) was tested.
func c12loopExit(c *Ctx, r *Result, fn *ssa.Function) {
	fb := c.FB(fn)
	// loop phi `offset`: int phi used as Low of slices of the collection buffer
	var off *ssa.Phi
	var data ssa.Value
	instrs(fn, func(in ssa.Instruction) {
		sl, ok := in.(*ssa.Slice)
		if !ok || sl.Low == nil {
			return
		}
		if p, ok := sl.Low.(*ssa.Phi); ok && off == nil {
			off, data = p, sl.X
		}
	})
	if off == nil {
		r.Undec("C12.5", c.Name(fn)+"#loop-exit-means-no-room", c.Pos(fn.Pos()), "object loop not recognised")
		return
	}
	hdr := off.Block()
	inLoop := map[*ssa.BasicBlock]bool{}
	for _, b := range fn.Blocks {
		if hdr.Dominates(b) && reachableFrom(b, nil)[hdr] {
			inLoop[b] = true
		}
	}
	inLoop[hdr] = true
	lenData := fb.lenOfOperand(data)
	offLin := fb.lin(off)
	// header size used by the body: the variable-length payload is read at data[offset+H : offset+H+size]
	var hBody Lin
	haveH := false
	instrs(fn, func(in ssa.Instruction) {
		sl, ok := in.(*ssa.Slice)
		if !ok || sl.X != data || sl.Low == nil || sl.High == nil || haveH {
			return
		}
		lo, hi := fb.lin(sl.Low), fb.lin(sl.High)
		if lo.T[ssa.Value(off)] != 1 {
			return
		}
		if w := hi.add(lo, -1); w.isConst() {
			return
		}
		hBody = lo.add(offLin, -1)
		haveH = true
	})
	// further candidates for the header size: a slice data[offset+c : offset+H] whose extent H does not depend on anything
	// read from the data (the object header taken as one slice)
	var hCands []Lin
	if haveH {
		hCands = append(hCands, hBody)
	}
	instrs(fn, func(in ssa.Instruction) {
		sl, ok := in.(*ssa.Slice)
		if !ok || sl.X != data || sl.Low == nil || sl.High == nil || !inLoop[sl.Block()] {
			return
		}
		lo, hi := fb.lin(sl.Low), fb.lin(sl.High)
		if lo.T[ssa.Value(off)] != 1 || hi.T[ssa.Value(off)] != 1 {
			return
		}
		h := hi.add(offLin, -1)
		if h.isConst() {
			return // a single fixed-width field, not the whole header
		}
		for k := range h.T {
			switch kk := k.(type) {
			case *ssa.Parameter:
			case lenKey:
				_ = kk
				return
			default:
				return // depends on a value computed in the loop (e.g. the object size read from the data)
			}
		}
		hCands = append(hCands, h)
	})
	okAll, n := true, 0
	detail := ""
	for _, b := range sortedBlocks(inLoop) {
		for _, s := range b.Succs {
			if inLoop[s] {
				continue
			}
			// error exits are fine
			if ret, isRet := s.Instrs[len(s.Instrs)-1].(*ssa.Return); isRet && !isSuccessReturn(ret) {
				continue
			}
			n++
			facts := fb.edgeFacts(b, s)
			// offset + H > len for the H the code itself compares (any fact of that shape), or offset >= len
			fits := fb.prove(offLin.add(lenData, -1), facts, 3) // offset >= len
			for _, h := range hCands {
				// offset + H > len for a header size H the body itself uses (to locate the payload / to slice the header)
				if !fits {
					fits = fb.prove(offLin.add(h, 1).add(lenData, -1).add(linConst(1), -1), facts, 3)
				}
			}
			if !fits {
				okAll = false
				detail = "leaving the loop at " + c.InstrPos(b.Instrs[len(b.Instrs)-1]) + " does not establish that the next object header cannot fit (offset + header > len): an object ending exactly at the end of the collection is dropped"
			}
		}
	}
	if n == 0 {
		r.Undec("C12.5", c.Name(fn)+"#loop-exit-means-no-room", c.Pos(fn.Pos()), "no successful loop exit found")
		return
	}
	if okAll {
		detail = itoa(n) + " successful loop exit(s), each with offset >= len or offset + header > len"
	}
	r.Check(okAll, "C12.5", c.Name(fn)+"#loop-exit-means-no-room", c.Pos(off.Pos()), detail)
}

// ---- additional necessary conditions found by the third round of seeded changes ----

func init() {
	reg := registry["C12"]
	reg.Meta.Rules["C12.6"] = "a byte slice handed to the heap writer is retained until the collection is flushed: at every call in a loop the argument is a buffer made in that iteration (never a buffer carried over from the previous element)"
	reg.Meta.Rules["C12.7"] = "an upper bound the reader puts on the collection size is one the writer provably respects"
	reg.Rules = append(reg.Rules, c12retainedBuffers, c12sizeBounds)
}

// retainsParam: fn stores its []byte parameter (without copying) into a struct field / composite literal, or passes it on to a
// module function that does. Returns the indices of such parameters.
func (c *Ctx) retainsParam(fn *ssa.Function, depth int) map[int]bool {
	out := map[int]bool{}
	if depth > 3 || len(fn.Blocks) == 0 {
		return out
	}
	for i, p := range fn.Params {
		sl, ok := p.Type().Underlying().(*types.Slice)
		if !ok {
			continue
		}
		if b, ok := sl.Elem().Underlying().(*types.Basic); !ok || b.Kind() != types.Uint8 {
			continue
		}
		for _, ref := range *p.Referrers() {
			switch x := ref.(type) {
			case *ssa.Store:
				if x.Val == ssa.Value(p) {
					if _, isFA := x.Addr.(*ssa.FieldAddr); isFA {
						out[i] = true
					}
				}
			case *ssa.Call:
				callee := x.Call.StaticCallee()
				if callee == nil || !inModule(fnPkgPath(callee)) {
					continue
				}
				sub := c.retainsParam(callee, depth+1)
				for ai, a := range x.Call.Args {
					if a == ssa.Value(p) && sub[ai] {
						out[i] = true
					}
				}
			}
		}
	}
	return out
}

// freshInIteration: v is a buffer created where it is used: make, []byte(string), or the result of a module function all of whose
// returns are such; never a phi, a parameter, a field load or a re-slice of one of those.
func (c *Ctx) freshBuffer(v ssa.Value, depth int) bool {
	if depth > 4 {
		return false
	}
	switch x := v.(type) {
	case *ssa.MakeSlice:
		return true
	case *ssa.Convert:
		if b, ok := x.X.Type().Underlying().(*types.Basic); ok && b.Info()&types.IsString != 0 {
			return true
		}
	case *ssa.Slice:
		return c.freshBuffer(x.X, depth+1)
	case *ssa.Call:
		if b, ok := x.Call.Value.(*ssa.Builtin); ok && b.Name() == "append" {
			// append to a fresh or nil slice yields an unshared buffer only if the base is fresh/nil
			if k, isK := x.Call.Args[0].(*ssa.Const); isK && k.IsNil() {
				return true
			}
			return c.freshBuffer(x.Call.Args[0], depth+1)
		}
		f := x.Call.StaticCallee()
		if f == nil || len(f.Blocks) == 0 {
			return false
		}
		n := 0
		for _, ret := range returnsOf(f) {
			if len(ret.Results) == 0 {
				return false
			}
			n++
			if !c.freshBuffer(ret.Results[0], depth+1) {
				return false
			}
		}
		return n > 0
	case *ssa.Extract:
		if call, ok := x.Tuple.(*ssa.Call); ok {
			f := call.Call.StaticCallee()
			if f == nil || len(f.Blocks) == 0 {
				return false
			}
			n := 0
			for _, ret := range returnsOf(f) {
				if !isSuccessReturn(ret) {
					continue
				}
				n++
				if !c.freshBuffer(retOperand(ret, x.Index), depth+1) {
					return false
				}
			}
			return n > 0
		}
	}
	return false
}

func c12retainedBuffers(c *Ctx, r *Result) {
	n := 0
	for _, fn := range c.LibFuncs() {
		if shortPkg(fnPkgPath(fn)) != "hdf5" {
			continue
		}
		for _, site := range callsIn(fn) {
			callee := site.Common().StaticCallee()
			if callee == nil || !strings.Contains(c.Name(callee), "globalHeap") {
				continue
			}
			ret := c.retainsParam(callee, 0)
			if len(ret) == 0 {
				continue
			}
			in := site.(ssa.Instruction)
			// only calls that can execute more than once per invocation (inside a loop) share a buffer between elements
			inLoop := false
			for _, s := range in.Block().Succs {
				if reachableFrom(s, nil)[in.Block()] {
					inLoop = true
				}
			}
			for ai := range ret {
				if ai >= len(site.Common().Args) {
					continue
				}
				arg := site.Common().Args[ai]
				if _, isParam := arg.(*ssa.Parameter); isParam && !inLoop {
					continue // forwarded: judged at the caller's call site
				}
				n++
				ok := c.freshBuffer(arg, 0)
				r.Check(ok || !inLoop, "C12.6", c.Name(fn)+"#heap-argument-is-fresh", c.InstrPos(in), "the heap writer keeps the slice until the collection is flushed; the argument must be a buffer made for this element, not one reused from the previous element (later elements would overwrite pending ones)")
			}
		}
	}
	if n < 5 {
		r.Errorf("C12.6: only %d call sites of the retaining heap functions found", n)
	}
	r.Floor("C12.6", 5)
}

func c12sizeBounds(c *Ctx, r *Result) {
	rd := c.Fn(r, "core.ReadGlobalHeapCollection")
	wr := c.Fn(r, "hdf5.globalHeapWriter.createNewHeap")
	if rd == nil || wr == nil {
		return
	}
	// the size value: length of the collection buffer the reader allocates
	var size ssa.Value
	fromFile := func(v ssa.Value) bool {
		seen := map[ssa.Value]bool{}
		var walk func(v ssa.Value) bool
		walk = func(v ssa.Value) bool {
			if v == nil || seen[v] {
				return false
			}
			seen[v] = true
			switch x := v.(type) {
			case *ssa.Call:
				n := c.calleeName(x)
				if strings.HasSuffix(n, ".Uint64") || strings.HasSuffix(n, ".Uint32") {
					return true
				}
				// a decoding helper of the module: what it returns
				if g := x.Call.StaticCallee(); g != nil && g.Blocks != nil && inModule(fnPkgPath(g)) {
					for _, ret := range returnsOf(g) {
						if len(ret.Results) > 0 && walk(ret.Results[0]) {
							return true
						}
					}
				}
				return false
			case *ssa.Convert:
				return walk(x.X)
			case *ssa.Phi:
				for _, e := range x.Edges {
					if walk(e) {
						return true
					}
				}
			}
			return false
		}
		return walk(v)
	}
	instrs(rd, func(in ssa.Instruction) {
		if mk, ok := in.(*ssa.MakeSlice); ok && size == nil && fromFile(mk.Len) {
			size = mk.Len
		}
	})
	if size == nil {
		r.Errorf("C12.7: collection buffer allocation not found in ReadGlobalHeapCollection")
		return
	}
	fbR := c.FB(rd)
	sizeLin := fbR.lin(size)
	var bounds []int64
	for _, b := range rd.Blocks {
		ifi, ok := b.Instrs[len(b.Instrs)-1].(*ssa.If)
		if !ok {
			continue
		}
		cmp, ok := ifi.Cond.(*ssa.BinOp)
		if !ok || (cmp.Op != token.GTR && cmp.Op != token.GEQ) {
			continue
		}
		k, isK := constInt(cmp.Y)
		if !isK || !fbR.lin(cmp.X).equal(sizeLin) {
			continue
		}
		if ret, isRet := b.Succs[0].Instrs[len(b.Succs[0].Instrs)-1].(*ssa.Return); isRet && !isSuccessReturn(ret) {
			if cmp.Op == token.GEQ {
				k--
			}
			bounds = append(bounds, k)
		}
	}
	// writer: the size passed to Allocate
	fbW := c.FB(wr)
	var alloc *ssa.Call
	for _, site := range callsIn(wr) {
		if strings.HasSuffix(c.calleeName(site), ".Allocate") {
			alloc, _ = site.(*ssa.Call)
		}
	}
	if alloc == nil {
		r.Errorf("C12.7: createNewHeap no longer allocates the collection")
		return
	}
	if len(bounds) == 0 {
		r.Hold("C12.7", "core.ReadGlobalHeapCollection~hdf5.globalHeapWriter.createNewHeap#size-bounds-agree", c.Pos(rd.Pos()), "the reader imposes no upper bound on the collection size; every size the writer produces is accepted")
	}
	for _, K := range bounds {
		arg := alloc.Call.Args[len(alloc.Call.Args)-1]
		ok := fbW.ProveGE0At(linConst(K).add(fbW.lin(arg), -1), alloc)
		r.Check(ok, "C12.7", "core.ReadGlobalHeapCollection~hdf5.globalHeapWriter.createNewHeap#size-bounds-agree", c.InstrPos(alloc), "the reader rejects collections larger than "+itoa64(K)+" bytes, but the writer sizes a collection after its largest object ("+fbW.linString(fbW.lin(arg))+") without that bound: elements above the bound cannot be read back")
	}
	r.Floor("C12.7", 1)
}

func init() {
	reg := registry["C12"]
	reg.Meta.Rules["C12.8"] = "every function that rounds a size to a multiple of 8 rounds UP TO THE NEXT multiple and leaves multiples unchanged (interpreted per residue class modulo 8): the heap accounting, the free-space record and the reader's stride all assume it"
	reg.Rules = append(reg.Rules, func(c *Ctx, r *Result) {
		n := 0
		for _, fn := range c.LibFuncs() {
			if fn.Blocks == nil || len(fn.Params) != 1 || fn.Signature.Results().Len() != 1 || !isIntType(fn.Params[0].Type()) || !isIntType(fn.Signature.Results().At(0).Type()) {
				continue
			}
			var d [8]int64
			all := true
			for res := int64(0); res < 8; res++ {
				v, ok := residueShift(fn, res)
				if !ok {
					all = false
					break
				}
				d[res] = v
			}
			if !all {
				continue
			}
			// an alignment function: the result is a multiple of 8 for every residue, and it is not the identity
			aligns, identity := true, true
			for res := int64(0); res < 8; res++ {
				if mod8(res+d[res]) != 0 {
					aligns = false
				}
				if d[res] != 0 {
					identity = false
				}
			}
			if !aligns || identity {
				continue
			}
			n++
			ok := true
			why := ""
			for res := int64(0); res < 8; res++ {
				if d[res] != mod8(8-res) {
					ok = false
					why += "x%8==" + itoa(int(res)) + ": x" + signed(d[res]) + " (want x" + signed(mod8(8-res)) + "); "
				}
			}
			if why == "" {
				why = "x -> x + (8 - x%8)%8 for every residue"
			}
			r.Check(ok, "C12.8", c.Name(fn)+"#rounds-up-to-next-multiple-of-8", c.Pos(fn.Pos()), why)
		}
		if n == 0 {
			r.Undec("C12.8", "module#rounds-up-to-next-multiple-of-8", "", "no function that aligns its argument to 8 was recognised by the residue interpretation")
		}
	})
}

func signed(v int64) string {
	if v >= 0 {
		return "+" + itoa(int(v))
	}
	return itoa(int(v))
}

// retainsSliceParam: indices of slice parameters (any element type) that fn keeps beyond the call without copying: the
// parameter value itself is stored into a field or an element (directly or through a struct literal), or handed to a module
// callee that does so.
func (c *Ctx) retainsSliceParam(fn *ssa.Function, depth int) map[int]bool {
	out := map[int]bool{}
	if depth > 3 || len(fn.Blocks) == 0 {
		return out
	}
	for i, p := range fn.Params {
		if _, ok := p.Type().Underlying().(*types.Slice); !ok || p.Referrers() == nil {
			continue
		}
		for _, ref := range *p.Referrers() {
			switch x := ref.(type) {
			case *ssa.Store:
				if x.Val != ssa.Value(p) {
					continue
				}
				switch x.Addr.(type) {
				case *ssa.FieldAddr, *ssa.IndexAddr:
					out[i] = true
				}
			case *ssa.MapUpdate:
				if x.Value == ssa.Value(p) {
					out[i] = true
				}
			case *ssa.Call:
				callee := x.Call.StaticCallee()
				if callee == nil || !inModule(fnPkgPath(callee)) {
					continue
				}
				sub := c.retainsSliceParam(callee, depth+1)
				for ai, a := range x.Call.Args {
					if a == ssa.Value(p) && sub[ai] {
						out[i] = true
					}
				}
			}
		}
	}
	return out
}

// madeInIteration: v is a buffer created inside the innermost loop that contains `at` (or `at` is in no loop): a make, an
// append to nil/fresh, a string conversion, or the result of a module function all of whose returns are fresh.
func (c *Ctx) madeInIteration(v ssa.Value, at ssa.Instruction) bool {
	// innermost loop containing at
	var hdr *ssa.BasicBlock
	for _, b := range at.Parent().Blocks {
		isHeader := false
		for _, p := range b.Preds {
			if b.Dominates(p) {
				isHeader = true
			}
		}
		if isHeader && naturalLoop(b)[at.Block()] {
			if hdr == nil || hdr.Dominates(b) {
				hdr = b
			}
		}
	}
	if !c.freshBuffer(v, 0) {
		return false
	}
	if hdr == nil {
		return true
	}
	loop := naturalLoop(hdr)
	// the defining instruction of the fresh root must be inside the loop
	root := v
	for i := 0; i < 8; i++ {
		switch x := root.(type) {
		case *ssa.Slice:
			root = x.X
			continue
		case *ssa.Call:
			if b, ok := x.Call.Value.(*ssa.Builtin); ok && b.Name() == "append" {
				if k, isK := x.Call.Args[0].(*ssa.Const); isK && k.IsNil() {
					return loop[x.Block()]
				}
				root = x.Call.Args[0]
				continue
			}
		}
		break
	}
	if in, ok := root.(ssa.Instruction); ok {
		return loop[in.Block()]
	}
	return false
}

// retainedArgsFresh: at every call (inside a loop) of a module function selected by `sel` that retains a slice parameter, the
// argument is made in that iteration.
func (c *Ctx) retainedArgsFresh(r *Result, rule string, callerPkg string, sel func(calleeName string) bool, what string) int {
	n := 0
	for _, fn := range c.LibFuncs() {
		if shortPkg(fnPkgPath(fn)) != callerPkg {
			continue
		}
		for _, site := range callsIn(fn) {
			callee := site.Common().StaticCallee()
			if callee == nil || !sel(c.Name(callee)) {
				continue
			}
			ret := c.retainsSliceParam(callee, 0)
			in := site.(ssa.Instruction)
			inLoop := false
			for _, s := range in.Block().Succs {
				if reachableFrom(s, nil)[in.Block()] {
					inLoop = true
				}
			}
			if len(ret) == 0 {
				n++
				r.Hold(rule, c.Name(fn)+"#"+c.Name(callee)+"#retained-argument-is-fresh", c.InstrPos(in), c.Name(callee)+" copies what it keeps")
				continue
			}
			for ai := range ret {
				if ai >= len(site.Common().Args) {
					continue
				}
				arg := site.Common().Args[ai]
				if _, isParam := arg.(*ssa.Parameter); isParam && !inLoop {
					continue
				}
				n++
				ok := !inLoop || c.madeInIteration(arg, in)
				r.Check(ok, rule, c.Name(fn)+"#"+c.Name(callee)+"#retained-argument-is-fresh", c.InstrPos(in), c.Name(callee)+" keeps the slice it is given ("+what+"); inside a loop the argument must be made in that iteration, otherwise every retained entry ends up with the last element's contents")
			}
		}
	}
	return n
}

func init() {
	reg := registry["C12"]
	reg.Meta.Rules["C12.9"] = "a datatype description is copied whole: where the root package builds a core.DatatypeMessage from a datatypeInfo (class and size taken from it), the class bit field is taken from the same info too - it carries the sign flag, byte order and padding of the base type (a vlen of int32 whose base message loses the sign bit reads back as uint32)"
	reg.Rules = append(reg.Rules, func(c *Ctx, r *Result) {
		n := 0
		for _, fn := range c.LibFuncs() {
			if shortPkg(fnPkgPath(fn)) != "hdf5" {
				continue
			}
			instrs(fn, func(in ssa.Instruction) {
				al, ok := in.(*ssa.Alloc)
				if !ok || typeShort(al.Type()) != "*core.DatatypeMessage" {
					return
				}
				// field -> (info field name, info object)
				type src struct {
					field string
					obj   ssa.Value
				}
				from := map[string]src{}
				for _, ref := range *al.Referrers() {
					fa, ok := ref.(*ssa.FieldAddr)
					if !ok {
						continue
					}
					f, _ := fieldOfAddr(fa)
					if f == nil {
						continue
					}
					for _, r2 := range *fa.Referrers() {
						st, ok := r2.(*ssa.Store)
						if !ok || st.Addr != ssa.Value(fa) {
							continue
						}
						v := stripConv(st.Val)
						if ld, isLd := isLoad(v); isLd {
							if sfa, isFA := ld.X.(*ssa.FieldAddr); isFA {
								if sf, base := fieldOfAddr(sfa); sf != nil && strings.HasSuffix(typeShort(base.Type()), "datatypeInfo") {
									from[f.Name()] = src{sf.Name(), base}
								}
							}
						}
					}
				}
				cl, hasClass := from["Class"]
				if !hasClass || cl.field != "class" {
					return
				}
				// only messages that are serialised (handed to core.EncodeDatatypeMessage, possibly through a phi)
				encoded := false
				var reach func(v ssa.Value, d int)
				reach = func(v ssa.Value, d int) {
					if d > 3 || v.Referrers() == nil {
						return
					}
					for _, ref := range *v.Referrers() {
						switch x := ref.(type) {
						case *ssa.Call:
							if c.calleeName(x) == "core.EncodeDatatypeMessage" {
								encoded = true
							}
						case *ssa.Phi:
							reach(x, d+1)
						}
					}
				}
				reach(al, 0)
				if !encoded {
					return
				}
				n++
				fb := c.FB(fn)
				bits, hasBits := from["ClassBitField"]
				ok2 := hasBits && bits.field == "classBitField" && fb.canon(bits.obj) == fb.canon(cl.obj)
				r.Check(ok2, "C12.9", c.Name(fn)+"#datatype-message-takes-class-bits-from-info", c.InstrPos(al), "the message takes its Class from a datatypeInfo; its ClassBitField must come from the same datatypeInfo")
			})
		}
		if n == 0 {
			r.Hold("C12.9", "hdf5#datatype-messages-built-by-handlers", "", "no core.DatatypeMessage is assembled field by field from a datatypeInfo outside the registered handlers' own encoders")
		}
	})
}
