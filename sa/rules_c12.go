package main

import (
	"go/token"
	"sort"
	"strings"

	"golang.org/x/tools/go/ssa"
)

func init() {
	register("C12", PropMeta{
		Title: "Variable-length data round-trips through the global heap",
		Explanation: "Path and effect rules on the global-heap writer: the open collection is flushed before it is replaced and before Close succeeds; addObject moves objects/usedSpace/freeSpace/nextIndex together by the same size expression that the fit test used; " +
			"a collection created for an object is proven (linear prover over the sizing code, including the round-up idiom) to have room for it; the object is only added behind a fit test or a creation for the same size; Close's failure exits keep the flush error.",
		DoesNotDecide: "element equality after reopen; roll-over arithmetic at particular byte counts; the reader's acceptance of an object that ends exactly at the collection end; the vlen datatype message (see C11)",
		Rules: map[string]string{
			"C12.1": "the open collection is flushed before currentHeap is replaced (when non-nil) and before every success return of FileWriter.Close (when a heap writer exists)",
			"C12.2": "addObject updates objects, usedSpace(+n), freeSpace(-n), nextIndex(+1) together, and n is the same expression (16 + alignTo8(len(data))) as the size tested by the caller",
			"C12.3": "createNewHeap(n) yields freeSpace >= n: proven from its sizing code",
			"C12.4": "addObject is reached only behind hasSpace(n) or createNewHeap(n) for the same n",
		},
	}, ruleC12)
}

// normExpr renders a size expression in a normal form that does not depend on local names.
func normExpr(v ssa.Value, fn *ssa.Function, d int) string {
	if d > 10 {
		return "?"
	}
	switch x := v.(type) {
	case *ssa.Const:
		if i, ok := constInt(x); ok {
			return itoa(int(i))
		}
		return "const"
	case *ssa.BinOp:
		a, b := normExpr(x.X, fn, d+1), normExpr(x.Y, fn, d+1)
		if x.Op == token.ADD || x.Op == token.MUL {
			ab := []string{a, b}
			sort.Strings(ab)
			a, b = ab[0], ab[1]
		}
		return "(" + a + x.Op.String() + b + ")"
	case *ssa.Convert:
		return normExpr(x.X, fn, d+1)
	case *ssa.Call:
		if b, ok := x.Call.Value.(*ssa.Builtin); ok {
			return b.Name() + "(" + normExpr(x.Call.Args[0], fn, d+1) + ")"
		}
		if f := x.Call.StaticCallee(); f != nil {
			var as []string
			for _, a := range x.Call.Args {
				as = append(as, normExpr(a, fn, d+1))
			}
			return f.Name() + "(" + strings.Join(as, ",") + ")"
		}
	case *ssa.Parameter:
		for i, p := range x.Parent().Params {
			if p == x {
				return "param" + itoa(i) + ":" + typeShort(x.Type())
			}
		}
	}
	return "?" + v.Name()
}

func ruleC12(c *Ctx, r *Result) {
	w2g := c.Fn(r, "hdf5.globalHeapWriter.WriteToGlobalHeap")
	cnh := c.Fn(r, "hdf5.globalHeapWriter.createNewHeap")
	add := c.Fn(r, "hdf5.globalHeapCollectionBuilder.addObject")
	closeFn := c.Fn(r, "hdf5.FileWriter.Close")
	if w2g == nil || cnh == nil || add == nil || closeFn == nil {
		return
	}
	const B = "hdf5.globalHeapCollectionBuilder."
	// guardedCall: pred for mustPrecede that accepts either the call itself or `if X != nil { ...call... }` guard blocks
	guarded := func(callee, field string) func(ssa.Instruction) bool {
		return func(in ssa.Instruction) bool {
			switch x := in.(type) {
			case *ssa.Call:
				return c.calleeName(x) == callee
			case *ssa.If:
				bo, ok := x.Cond.(*ssa.BinOp)
				if !ok || bo.Op != token.NEQ || !isNilConst(bo.Y) {
					return false
				}
				if k, _ := fieldLoadKey(bo.X); k != field {
					return false
				}
				for blk := range reachableFrom(x.Block().Succs[0], map[*ssa.BasicBlock]bool{x.Block().Succs[1]: true}) {
					for _, i2 := range blk.Instrs {
						if call, ok := i2.(*ssa.Call); ok && c.calleeName(call) == callee {
							return true
						}
					}
				}
			}
			return false
		}
	}
	// C12.1
	for _, site := range c.callsTo(w2g, func(n string) bool { return n == "hdf5.globalHeapWriter.createNewHeap" }) {
		ok := mustPrecede(site.(ssa.Instruction), guarded("hdf5.globalHeapWriter.flushCurrentHeap", "hdf5.globalHeapWriter.currentHeap"))
		r.Check(ok, "C12.1", c.Name(w2g)+"#flush-before-replace", c.InstrPos(site), "the current collection is flushed (when there is one) before a new one replaces it")
	}
	for _, fs := range c.DirectFieldStores(w2g) {
		if fs.Key == "hdf5.globalHeapWriter.currentHeap" {
			r.Viol("C12.1", c.Name(w2g)+"#replaces-collection-directly", c.InstrPos(fs.In), "WriteToGlobalHeap assigns currentHeap itself; replacement must go through createNewHeap behind the flush")
		}
	}
	for _, ret := range successReturns(closeFn) {
		// the very first `writer == nil` exit is the already-closed case
		if ret.Block().Index <= 2 && len(closeFn.Blocks) > 0 && edgeDominates(closeFn.Blocks[0], closeFn.Blocks[0].Succs[0], ret.Block()) {
			r.Hold("C12.1", c.Name(closeFn)+"#already-closed-exit", c.InstrPos(ret), "nothing left to flush")
			continue
		}
		ok := mustPrecede(ret, guarded("hdf5.globalHeapWriter.Flush", "hdf5.FileWriter.globalHeapWriter"))
		r.Check(ok, "C12.1", c.Name(closeFn)+"#flush-before-success", c.InstrPos(ret), "Close flushes the open global-heap collection before it reports success")
	}
	// Flush itself must reach flushCurrentHeap
	if fl := c.Fn(r, "hdf5.globalHeapWriter.Flush"); fl != nil {
		r.Check(c.reachesCallee(fl, func(n string) bool { return n == "hdf5.globalHeapWriter.flushCurrentHeap" }), "C12.1", c.Name(fl)+"#reaches-flushCurrentHeap", c.Pos(fl.Pos()), "Flush writes the current collection")
	}
	r.Floor("C12.1", 3)

	// C12.2 accounting
	c.checkEffects(r, "C12.2", add, effSpec{
		B + "objects": "any", B + "usedSpace": "+x@n", B + "freeSpace": "-x@n", B + "nextIndex": "+1",
		"hdf5.globalHeapObjectBuilder.index": "any", "hdf5.globalHeapObjectBuilder.refCount": "any", "hdf5.globalHeapObjectBuilder.data": "any",
	}, B, "hdf5.globalHeapObjectBuilder.")
	// same size expression on both sides
	var addSize, callerSize string
	for _, fs := range c.DirectFieldStores(add) {
		if fs.Key == B+"freeSpace" {
			if bo, ok := fs.Val.(*ssa.BinOp); ok && bo.Op == token.SUB {
				addSize = normExpr(bo.Y, add, 0)
			}
		}
	}
	for _, site := range c.callsTo(w2g, func(n string) bool { return n == "hdf5.globalHeapCollectionBuilder.hasSpace" }) {
		args := site.Common().Args
		callerSize = normExpr(args[len(args)-1], w2g, 0)
	}
	// parameters differ in position (method receiver): compare with the parameter index removed
	strip := func(s string) string {
		for _, p := range []string{"param0:", "param1:", "param2:"} {
			s = strings.ReplaceAll(s, p, "param:")
		}
		return s
	}
	r.Check(addSize != "" && strip(addSize) == strip(callerSize), "C12.2", c.Name(add)+"#same-size-expression", c.Pos(add.Pos()),
		"size charged by addObject = "+addSize+"; size tested by WriteToGlobalHeap = "+callerSize)
	r.Floor("C12.2", 5)

	// C12.3 a new collection has room for its first object
	fb := c.FB(cnh)
	found := false
	instrs(cnh, func(in ssa.Instruction) {
		st, ok := in.(*ssa.Store)
		if !ok {
			return
		}
		fa, ok := st.Addr.(*ssa.FieldAddr)
		if !ok {
			return
		}
		f, base := fieldOfAddr(fa)
		if f == nil || fieldKey(base.Type(), f) != B+"freeSpace" {
			return
		}
		found = true
		need := fb.lin(cnh.Params[1])
		ok2 := fb.ProveGE0At(fb.lin(st.Val).add(need, -1), st)
		r.Check(ok2, "C12.3", c.Name(cnh)+"#new-collection-fits-object", c.InstrPos(st), "freeSpace of the new collection ("+fb.linString(fb.lin(st.Val))+") is proven >= the requested object size")
	})
	if !found {
		r.Viol("C12.3", c.Name(cnh)+"#freeSpace-not-initialised", c.Pos(cnh.Pos()), "createNewHeap does not set freeSpace")
	}
	r.Floor("C12.3", 1)

	// C12.4 addObject only behind the fit test or a creation for the same size
	for _, site := range c.callsTo(w2g, func(n string) bool { return n == "hdf5.globalHeapCollectionBuilder.addObject" }) {
		in := site.(ssa.Instruction)
		var total ssa.Value
		for _, s2 := range c.callsTo(w2g, func(n string) bool { return n == "hdf5.globalHeapCollectionBuilder.hasSpace" }) {
			args := s2.Common().Args
			total = args[len(args)-1]
		}
		okCreate := true
		for _, s2 := range c.callsTo(w2g, func(n string) bool { return n == "hdf5.globalHeapWriter.createNewHeap" }) {
			args := s2.Common().Args
			if args[len(args)-1] != total {
				okCreate = false
			}
		}
		// every path to addObject passes hasSpace; the no-space / no-heap edge passes createNewHeap
		viaTest := total != nil && mustPrecede(in, func(i2 ssa.Instruction) bool {
			call, ok := i2.(*ssa.Call)
			if !ok {
				return false
			}
			n := c.calleeName(call)
			return n == "hdf5.globalHeapCollectionBuilder.hasSpace" || n == "hdf5.globalHeapWriter.createNewHeap"
		})
		r.Check(viaTest && okCreate, "C12.4", c.Name(w2g)+"#addObject-behind-fit-test", c.InstrPos(in), "addObject is preceded by hasSpace(n) or createNewHeap(n) with the same n on every path")
	}
	r.Floor("C12.4", 1)
}
