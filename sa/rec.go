package main

import (
	"sort"

	"golang.org/x/tools/go/ssa"
)

// SCCs of the call graph restricted to a function set (Tarjan). Returns components with a cycle.
func (c *Ctx) cyclicSCCs(set map[*ssa.Function]bool) [][]*ssa.Function {
	index := map[*ssa.Function]int{}
	low := map[*ssa.Function]int{}
	onStack := map[*ssa.Function]bool{}
	var stack []*ssa.Function
	var out [][]*ssa.Function
	n := 0
	succs := func(f *ssa.Function) []*ssa.Function {
		var s []*ssa.Function
		seen := map[*ssa.Function]bool{}
		if node := c.CG.Nodes[f]; node != nil {
			for _, e := range node.Out {
				g := e.Callee.Func
				if set[g] && !seen[g] {
					seen[g] = true
					s = append(s, g)
				}
			}
		}
		for _, af := range f.AnonFuncs {
			if set[af] && !seen[af] {
				seen[af] = true
				s = append(s, af)
			}
		}
		sort.Slice(s, func(i, j int) bool { return c.Name(s[i]) < c.Name(s[j]) })
		return s
	}
	var strong func(v *ssa.Function)
	strong = func(v *ssa.Function) {
		index[v] = n
		low[v] = n
		n++
		stack = append(stack, v)
		onStack[v] = true
		for _, w := range succs(v) {
			if _, ok := index[w]; !ok {
				strong(w)
				if low[w] < low[v] {
					low[v] = low[w]
				}
			} else if onStack[w] && index[w] < low[v] {
				low[v] = index[w]
			}
		}
		if low[v] == index[v] {
			var comp []*ssa.Function
			for {
				w := stack[len(stack)-1]
				stack = stack[:len(stack)-1]
				onStack[w] = false
				comp = append(comp, w)
				if w == v {
					break
				}
			}
			cyc := len(comp) > 1
			if !cyc {
				for _, w := range succs(v) {
					if w == v {
						cyc = true
					}
				}
			}
			if cyc {
				sort.Slice(comp, func(i, j int) bool { return c.Name(comp[i]) < c.Name(comp[j]) })
				out = append(out, comp)
			}
		}
	}
	var fns []*ssa.Function
	for f := range set {
		fns = append(fns, f)
	}
	sort.Slice(fns, func(i, j int) bool { return c.Name(fns[i]) < c.Name(fns[j]) })
	for _, f := range fns {
		if _, ok := index[f]; !ok {
			strong(f)
		}
	}
	sort.Slice(out, func(i, j int) bool { return c.Name(out[i][0]) < c.Name(out[j][0]) })
	return out
}
