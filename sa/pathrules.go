package main

import (
	"go/constant"
	"go/token"
	"go/types"
	"sort"
	"strings"

	"golang.org/x/tools/go/ssa"
)

// errorSources: the calls / constructors from which the error operand of a return derives.
// Each source is either a *ssa.Call (an operation that failed) or nil for a freshly constructed error.
type errSource struct {
	Call  *ssa.Call // nil = constructed here (fmt.Errorf/errors.New without a wrapped cause, sentinel)
	Fresh bool
}

func errorSources(v ssa.Value) []errSource {
	var out []errSource
	seen := map[ssa.Value]bool{}
	var walk func(v ssa.Value)
	walk = func(v ssa.Value) {
		if seen[v] {
			return
		}
		seen[v] = true
		switch x := v.(type) {
		case *ssa.Const:
		case *ssa.Phi:
			for _, e := range x.Edges {
				walk(e)
			}
		case *ssa.Extract:
			walk(x.Tuple)
		case *ssa.MakeInterface:
			walk(x.X)
		case *ssa.ChangeInterface:
			walk(x.X)
		case *ssa.UnOp:
			// sentinel global or spilled variable
			if al, ok := x.X.(*ssa.Alloc); ok {
				for _, ref := range *al.Referrers() {
					if st, ok := ref.(*ssa.Store); ok && st.Addr == ssa.Value(al) {
						walk(st.Val)
					}
				}
				return
			}
			out = append(out, errSource{Fresh: true})
		case *ssa.Call:
			f := x.Call.StaticCallee()
			name := ""
			if f != nil {
				name = f.String()
			}
			wrapper := name == "fmt.Errorf" || name == modPath+"/internal/utils.WrapError" || name == "errors.Join"
			if wrapper || name == "errors.New" {
				wrapped := false
				for _, a := range x.Call.Args {
					if isErrorType(a.Type()) {
						walk(a)
						wrapped = true
					} else if sl, ok := a.(*ssa.Slice); ok {
						// variadic ...interface{}: look at stored elements
						if al, ok := sl.X.(*ssa.Alloc); ok {
							for _, ref := range *al.Referrers() {
								if ia, ok := ref.(*ssa.IndexAddr); ok {
									for _, r2 := range *ia.Referrers() {
										if st, ok := r2.(*ssa.Store); ok {
											if mi, ok := st.Val.(*ssa.MakeInterface); ok && isErrorType(mi.X.Type()) {
												walk(mi.X)
												wrapped = true
											}
											if ci, ok := st.Val.(*ssa.ChangeInterface); ok && isErrorType(ci.X.Type()) {
												walk(ci.X)
												wrapped = true
											}
											if isErrorType(st.Val.Type()) {
												walk(st.Val)
												wrapped = true
											}
										}
									}
								}
							}
						}
					}
				}
				if !wrapped {
					out = append(out, errSource{Fresh: true})
				}
				return
			}
			out = append(out, errSource{Call: x})
		default:
			out = append(out, errSource{Fresh: true})
		}
	}
	walk(v)
	return out
}

// ioPrimitive: callee performs file I/O or allocation in the writer layer / os / io interfaces.
func (c *Ctx) ioPrimitiveCall(call *ssa.Call) bool {
	name := c.calleeName(call)
	if strings.HasPrefix(name, "writer.FileWriter.") || strings.HasPrefix(name, "writer.Allocator.") {
		return true
	}
	if strings.HasPrefix(name, "(*os.File).") || strings.HasPrefix(name, "os.") {
		return true
	}
	if call.Call.IsInvoke() {
		switch call.Call.Method.Name() {
		case "ReadAt", "WriteAt", "WriteAtAddress", "Allocate", "Read", "Write", "Sync", "Flush", "Close", "Seek", "Stat", "Truncate":
			return true
		}
	}
	return false
}

// errorReturns: returns of fn whose error operand is definitely non-nil (error exits).
func errorReturns(fn *ssa.Function) []*ssa.Return {
	idx := errResultIndex(fn.Signature)
	if idx < 0 {
		return nil
	}
	var out []*ssa.Return
	for _, r := range returnsOf(fn) {
		op := retOperand(r, idx)
		if isNilConst(op) {
			continue
		}
		out = append(out, r)
	}
	return out
}

// successReturns: returns whose error operand is the nil constant (or fn has no error result).
func successReturns(fn *ssa.Function) []*ssa.Return {
	idx := errResultIndex(fn.Signature)
	var out []*ssa.Return
	for _, r := range returnsOf(fn) {
		if idx < 0 || isNilConst(retOperand(r, idx)) {
			out = append(out, r)
		}
	}
	return out
}

// mustPrecede: on every path from entry to `to`, some instruction satisfying pred occurs before `to`.
// Decided by removing the satisfying instructions' blocks... precisely: search backwards from `to`
// for a path to the entry that avoids every satisfying instruction.
func mustPrecede(to ssa.Instruction, pred func(ssa.Instruction) bool) bool {
	fn := to.Parent()
	// instructions in to's block before `to`
	b := to.Block()
	for i := instrIndex(to) - 1; i >= 0; i-- {
		if pred(b.Instrs[i]) {
			return true
		}
	}
	// blocks that contain a satisfying instruction act as barriers
	barrier := map[*ssa.BasicBlock]bool{}
	for _, blk := range fn.Blocks {
		for _, in := range blk.Instrs {
			if pred(in) {
				barrier[blk] = true
				break
			}
		}
	}
	// backward reachability from b's predecessors avoiding barriers; reaching the entry block = a path without pred.
	// Infeasible two-step paths are pruned: if block X branches on a phi of its own whose value along the edge P->X is a
	// boolean constant, then P->X->S is only feasible for the successor S that the constant selects
	// (short-circuit conditions such as `a == nil || !f(a)` compile to exactly this shape).
	type st struct{ blk, via *ssa.BasicBlock } // via = successor through which blk was left (nil for the start)
	seen := map[st]bool{}
	var work []st
	feasible := func(p, x, s *ssa.BasicBlock) bool {
		if s == nil || len(x.Instrs) == 0 {
			return true
		}
		ifi, ok := x.Instrs[len(x.Instrs)-1].(*ssa.If)
		if !ok {
			return true
		}
		cond, neg := ifi.Cond, false
		for {
			u, isNot := cond.(*ssa.UnOp)
			if !isNot || u.Op != token.NOT || u.Block() != x {
				break
			}
			cond, neg = u.X, !neg
		}
		phi, ok := cond.(*ssa.Phi)
		if !ok || phi.Block() != x {
			return true
		}
		for i, pp := range x.Preds {
			if pp != p {
				continue
			}
			k, ok := phi.Edges[i].(*ssa.Const)
			if !ok || k.Value == nil || k.Value.Kind() != constant.Bool {
				return true
			}
			taken := x.Succs[1]
			if constant.BoolVal(k.Value) != neg {
				taken = x.Succs[0]
			}
			return taken == s
		}
		return true
	}
	if b == fn.Blocks[0] {
		return false
	}
	for _, p := range b.Preds {
		if !barrier[p] {
			work = append(work, st{p, b})
		}
	}
	for len(work) > 0 {
		x := work[len(work)-1]
		work = work[:len(work)-1]
		if seen[x] {
			continue
		}
		seen[x] = true
		if x.blk == fn.Blocks[0] {
			return false
		}
		for _, p := range x.blk.Preds {
			if barrier[p] || !feasible(p, x.blk, x.via) {
				continue
			}
			work = append(work, st{p, x.blk})
		}
	}
	return true
}

// canFollow: some path from `from` reaches `to` (from executes before to).
func canFollow(from, to ssa.Instruction) bool { return canReach(from, to) }

// callsTo: call instructions in fn (incl. anonymous functions when deep) whose resolved callee name matches.
func (c *Ctx) callsTo(fn *ssa.Function, match func(name string) bool) []ssa.CallInstruction {
	var out []ssa.CallInstruction
	for _, site := range callsIn(fn) {
		if match(c.calleeName(site)) {
			out = append(out, site)
			continue
		}
		for _, g := range c.Callees(site) {
			if match(c.Name(g)) {
				out = append(out, site)
				break
			}
		}
	}
	return out
}

// reachesCallee: does fn reach (transitively, within the library) a function satisfying match?
func (c *Ctx) reachesCallee(fn *ssa.Function, match func(name string) bool) bool {
	for f := range c.Reach([]*ssa.Function{fn}, func(f *ssa.Function) bool { return !libPackage(fnPkgPath(f)) }) {
		if f != fn && match(c.Name(f)) {
			return true
		}
	}
	return false
}

// siteReaches: the call site's callee is, or transitively reaches, a function satisfying match.
func (c *Ctx) siteReaches(site ssa.CallInstruction, match func(name string) bool) bool {
	if match(c.calleeName(site)) {
		return true
	}
	for _, g := range c.Callees(site) {
		if match(c.Name(g)) || (libPackage(fnPkgPath(g)) && c.reachesCallee(g, match)) {
			return true
		}
	}
	return false
}

// sortInstrs sorts by position.
func sortInstrs[T ssa.Instruction](xs []T) {
	sort.SliceStable(xs, func(i, j int) bool { return posLess(xs[i], xs[j]) })
}

// valueReadsField: the backward slice of v (arithmetic, conversions, phis, simple calls) contains a load of the field.
func valueReadsField(v ssa.Value, key string, depth int) bool {
	if depth > 10 {
		return false
	}
	switch x := v.(type) {
	case *ssa.UnOp:
		if fa, ok := x.X.(*ssa.FieldAddr); ok {
			if f, base := fieldOfAddr(fa); f != nil && fieldKey(base.Type(), f) == key {
				return true
			}
		}
		return valueReadsField(x.X, key, depth+1)
	case *ssa.Field:
		if f, base := fieldOfAddr(x); f != nil && fieldKey(base.Type(), f) == key {
			return true
		}
		return valueReadsField(x.X, key, depth+1)
	case *ssa.BinOp:
		return valueReadsField(x.X, key, depth+1) || valueReadsField(x.Y, key, depth+1)
	case *ssa.Convert:
		return valueReadsField(x.X, key, depth+1)
	case *ssa.ChangeType:
		return valueReadsField(x.X, key, depth+1)
	case *ssa.Phi:
		for _, e := range x.Edges {
			if valueReadsField(e, key, depth+1) {
				return true
			}
		}
	case *ssa.Call:
		for _, a := range x.Call.Args {
			if valueReadsField(a, key, depth+1) {
				return true
			}
		}
	case *ssa.Extract:
		return valueReadsField(x.Tuple, key, depth+1)
	}
	return false
}

// fieldsReadBy: all field keys loaded in the backward slice of v.
func fieldsReadBy(v ssa.Value) map[string]bool {
	out := map[string]bool{}
	seen := map[ssa.Value]bool{}
	var walk func(v ssa.Value, d int)
	walk = func(v ssa.Value, d int) {
		if v == nil || seen[v] || d > 12 {
			return
		}
		seen[v] = true
		switch x := v.(type) {
		case *ssa.UnOp:
			if fa, ok := x.X.(*ssa.FieldAddr); ok {
				if f, base := fieldOfAddr(fa); f != nil {
					out[fieldKey(base.Type(), f)] = true
				}
				// nested path a.b.c: keep the leaf only
				return
			}
			walk(x.X, d+1)
		case *ssa.Field:
			if f, base := fieldOfAddr(x); f != nil {
				out[fieldKey(base.Type(), f)] = true
			}
			walk(x.X, d+1)
		case *ssa.BinOp:
			walk(x.X, d+1)
			walk(x.Y, d+1)
		case *ssa.Convert:
			walk(x.X, d+1)
		case *ssa.ChangeType:
			walk(x.X, d+1)
		case *ssa.Phi:
			for _, e := range x.Edges {
				walk(e, d+1)
			}
		}
	}
	walk(v, 0)
	return out
}

var _ = types.Identical
