package main

import (
	"fmt"
	"go/token"
	"go/types"
	"os"
	"sort"
	"strings"

	"golang.org/x/tools/go/ssa"
)

func init() {
	register("C16", PropMeta{
		Title: "A write call that returns an error changes nothing; the writer stays usable",
		Explanation: "For every exported method of FileWriter, DatasetWriter and GroupWriter and every helper they reach in the root package: a MUTATION is a store to writer/handle state (fields and maps of FileWriter, DatasetWriter, cached object headers) or a file write whose address does not derive from an Allocate in the same function (an in-place rewrite), taken transitively through callees; " +
			"a LOGICAL failure exit is a return of a non-nil error that does not merely wrap the failure of an I/O primitive. No logical failure exit may be reachable from a mutation (validate-then-mutate). " +
			"Typestate: Close stores nil to the inner writer, so every other exported method that dereferences it must be dominated by a closed test; Close itself starts with that test and returns nil on it.",
		DoesNotDecide: "equality of the reopened file with the pre-call state (runtime); rollback correctness beyond pairing; failures injected into I/O primitives",
		Rules: map[string]string{
			"C16.1": "validate-then-mutate: no logical failure exit is reachable after a mutation of writer state or an in-place file rewrite",
			"C16.3": "no use after Close: exported methods that reach a dereference of the inner writer are guarded by a closed test that returns an error",
			"C16.4": "Close is idempotent: it begins with the already-closed test and returns nil on it",
			"C16.6": "library code reachable from the write API does not call panic",
		},
	}, ruleC16)
	const p = "C16"
	except(p, "C16.1", "hdf5.deleteCompactAttributeFromHeader#error-return(core.WriteObjectHeader)#after-mutation",
		"the only change before this exit removes one message from the header, which makes it shorter; WriteObjectHeader refuses only headers that grew beyond the chunk limit, so it can fail here only through the file write itself")
	for _, src := range []string{"core.EncodeAttributeInfoMessage", "writer.DenseAttributeWriter.WriteToFile", "core.EncodeAttributeInfoMessage)#after-mutation#2", "core.AddMessageToObjectHeader", "core.WriteObjectHeader"} {
		c := "hdf5.transitionToDenseAttributes#error-return(" + src + ")#after-mutation"
		if strings.HasSuffix(src, "#2") {
			c = "hdf5.transitionToDenseAttributes#error-return(" + src
		}
		except(p, "C16.1", c, "by the time the compact messages are removed from the header, everything that can reject the request has succeeded (all attributes parsed, encoded and inserted into the new heap and index); "+
			"the remaining steps encode a fixed-size attribute-info message, serialise the already built structures and re-add an 18-byte message to a header that just lost at least as many bytes; they fail only through file I/O")
	}
	except(p, "C16.1", "hdf5.DatasetWriter.WriteAttribute#error-return(core.ParseAttributeInfoMessage)#after-mutation",
		"the message parsed here is the Attribute Info message this very call encoded into the cached header (EncodeAttributeInfoMessage in transitionToDenseAttributes); the parse can fail only on an internal inconsistency of the library, never because a request was rejected, and returning that error is preferable to silently keeping a stale 'no dense storage' state")
	except(p, "C16.1", "hdf5.FileWriter.CreateHardLink#error-return(hdf5.FileWriter.linkToParent)#after-mutation",
		"rollback path: the reference count is decremented and the header rewritten before this return (pairing checked by C16.2)")
}

// freshAddr: the value derives only from results of Allocate calls made in this function (plus constants).
func (c *Ctx) freshAddr(v ssa.Value, depth int) bool {
	if depth > 8 {
		return false
	}
	switch x := v.(type) {
	case *ssa.Const:
		return false // a literal address (e.g. 0 for the superblock) is an existing location
	case *ssa.Extract:
		if call, ok := x.Tuple.(*ssa.Call); ok {
			n := c.calleeName(call)
			if strings.HasSuffix(n, ".Allocate") || n == "writer.FileWriter.WriteAtWithAllocation" {
				return x.Index == 0
			}
			// a callee that returns a fresh address as its first uint64 result
			if f := call.Call.StaticCallee(); f != nil && inModule(fnPkgPath(f)) && c.returnsFreshAddr(f, x.Index, depth+1) {
				return true
			}
		}
		return false
	case *ssa.Call:
		n := c.calleeName(x)
		if strings.HasSuffix(n, ".Allocate") {
			return true
		}
		if f := x.Call.StaticCallee(); f != nil && inModule(fnPkgPath(f)) && c.returnsFreshAddr(f, 0, depth+1) {
			return true
		}
		return false
	case *ssa.BinOp:
		// fresh + offset stays inside the fresh block
		if _, ok := x.Y.(*ssa.Const); ok {
			return c.freshAddr(x.X, depth+1)
		}
		return c.freshAddr(x.X, depth+1) && c.freshAddr(x.Y, depth+1)
	case *ssa.Phi:
		for _, e := range x.Edges {
			if !c.freshAddr(e, depth+1) {
				return false
			}
		}
		return len(x.Edges) > 0
	case *ssa.Convert:
		return c.freshAddr(x.X, depth+1)
	}
	return false
}

func (c *Ctx) returnsFreshAddr(f *ssa.Function, idx, depth int) bool {
	if f.Blocks == nil {
		return false
	}
	n := 0
	for _, ret := range returnsOf(f) {
		if idx >= len(ret.Results) {
			return false
		}
		ei := errResultIndex(f.Signature)
		if ei >= 0 && !isNilConst(retOperand(ret, ei)) {
			continue // error return: the address is not used
		}
		n++
		if !c.freshAddr(retOperand(ret, idx), depth+1) {
			return false
		}
	}
	return n > 0
}

// fileWriteCall: the call writes file bytes at an address argument; returns the address value.
func (c *Ctx) fileWriteAddr(site ssa.CallInstruction) (ssa.Value, bool) {
	n := c.calleeName(site)
	cc := site.Common()
	base := n[strings.LastIndex(n, ".")+1:]
	switch base {
	case "WriteAtAddress", "WriteAt", "WriteTo", "WriteObjectHeader", "RewriteObjectHeaderV2", "writeObjectHeaderWithRefCount", "WriteToFile":
	default:
		return nil, false
	}
	if !strings.HasPrefix(n, "writer.") && !strings.HasPrefix(n, "core.") && !strings.HasPrefix(n, "structures.") && !strings.HasPrefix(n, "hdf5.") && !cc.IsInvoke() {
		return nil, false
	}
	// the address is the first uint64 argument
	for _, a := range cc.Args {
		if b, ok := a.Type().Underlying().(*types.Basic); ok && b.Kind() == types.Uint64 {
			return a, true
		}
	}
	return nil, false
}

// stateField: fields whose modification changes what later calls see.
func stateField(key string) bool {
	if key == "hdf5.DatasetWriter.objectHeader" || key == "hdf5.DatasetWriter.denseAttrInfo" {
		return false // caches of what is on disk; their staleness after a rejected Resize is decided by C13.3
	}
	if strings.HasPrefix(key, "hdf5.FileWriter.") || strings.HasPrefix(key, "hdf5.DatasetWriter.") {
		return true
	}
	switch {
	case strings.HasPrefix(key, "core.ObjectHeader."), key == "core.HeaderMessage.Data":
		return true
	}
	return false
}

// directMutations of fn: state stores on non-fresh objects and in-place file writes.
func (c *Ctx) directMutations(fn *ssa.Function) []ssa.Instruction {
	memo, _ := c.cache["dmut"].(map[*ssa.Function][]ssa.Instruction)
	if memo == nil {
		memo = map[*ssa.Function][]ssa.Instruction{}
		c.cache["dmut"] = memo
	}
	if m, ok := memo[fn]; ok {
		return m
	}
	var out []ssa.Instruction
	for _, fs := range c.DirectFieldStores(fn) {
		if fs.Fn != fn || !stateField(fs.Key) {
			continue
		}
		// stores into an object under construction in this function are not mutations of existing state
		var base ssa.Value
		switch x := fs.In.(type) {
		case *ssa.Store:
			if fa, ok := x.Addr.(*ssa.FieldAddr); ok {
				base = fa.X
			} else if ia, ok := x.Addr.(*ssa.IndexAddr); ok {
				base = ia.X
			}
		}
		if base != nil && freshObject(base) {
			continue
		}
		out = append(out, fs.In)
	}
	for _, site := range callsIn(fn) {
		if _, isDefer := site.(*ssa.Defer); isDefer {
			continue
		}
		if addr, ok := c.fileWriteAddr(site); ok && !c.freshAddr(addr, 0) {
			out = append(out, site)
		}
	}
	memo[fn] = out
	return out
}

// mutates: fn changes state or rewrites in place, directly or through root-package/structures callees.
func (c *Ctx) mutates(fn *ssa.Function, depth int) bool {
	memo, _ := c.cache["mut"].(map[*ssa.Function]int)
	if memo == nil {
		memo = map[*ssa.Function]int{}
		c.cache["mut"] = memo
	}
	switch memo[fn] {
	case 1:
		return true
	case 2, 3:
		return false
	}
	memo[fn] = 3
	if fn.Blocks == nil || depth > 12 {
		return false
	}
	res := len(c.directMutations(fn)) > 0
	if !res {
		for _, site := range callsIn(fn) {
			for _, g := range c.Callees(site) {
				if shortPkg(fnPkgPath(g)) == "hdf5" && c.mutates(g, depth+1) {
					res = true
				}
			}
		}
	}
	if res {
		memo[fn] = 1
	} else {
		memo[fn] = 2
	}
	return res
}

func ruleC16(c *Ctx, r *Result) {
	// scope: exported API of the writer types and everything they reach inside the root package
	var roots []*ssa.Function
	for _, tn := range []string{"FileWriter", "DatasetWriter", "GroupWriter"} {
		if n := c.NamedType(r, "hdf5", tn); n != nil {
			roots = append(roots, c.ExportedMethods(n)...)
		}
	}
	scope := c.Reach(roots, func(f *ssa.Function) bool { return shortPkg(fnPkgPath(f)) != "hdf5" })
	var fns []*ssa.Function
	for f := range scope {
		if f.Parent() == nil {
			fns = append(fns, f)
		}
	}
	sortFuncs(c, fns)
	isMut := func(name string) bool {
		// in-place rewrites of the dense structures at the addresses recorded at load
		if name == "structures.WritableFractalHeap.WriteAt" || name == "structures.WritableBTreeV2.WriteAt" {
			return true
		}
		f := c.FnOpt(name)
		return f != nil && shortPkg(fnPkgPath(f)) == "hdf5" && c.mutates(f, 0)
	}
	for _, fn := range fns {
		if len(errorReturns(fn)) == 0 || c.Name(fn) == "hdf5.DatasetWriter.Resize" {
			continue // Resize: decided in full by C13.3
		}
		c.checkAtomicFailure(r, "C16.1", fn, isMut)
	}
	r.Floor("C16.1", 60)
	// C16.2 rollback pairing in CreateHardLink: after the increment, every logical failure exit is preceded by the decrement and the rewrite
	if hl := c.Fn(r, "hdf5.FileWriter.CreateHardLink"); hl != nil {
		var inc ssa.Instruction
		for _, site := range callsIn(hl) {
			if c.calleeName(site) == "core.ObjectHeader.IncrementReferenceCount" {
				inc = site
			}
		}
		if inc == nil {
			r.Viol("C16.2", c.Name(hl)+"#increment-missing", c.Pos(hl.Pos()), "CreateHardLink no longer increments the target's reference count")
		} else {
			idx := errResultIndex(hl.Signature)
			for _, ret := range errorReturns(hl) {
				if !canReach(inc, ret) {
					continue
				}
				srcs := errorSources(retOperand(ret, idx))
				selfWrite := false
				for _, sc := range srcs {
					if sc.Call != nil && c.calleeName(sc.Call) == "hdf5.writeObjectHeaderWithRefCount" {
						selfWrite = true // the write of the incremented count itself failed: nothing was persisted
					}
				}
				if selfWrite {
					r.Hold("C16.2", c.Name(hl)+"#exit-after-increment(write failed)", c.InstrPos(ret), "the incremented count never reached the file")
					continue
				}
				dec := mustPrecede(ret, func(in ssa.Instruction) bool {
					call, ok := in.(*ssa.Call)
					return ok && c.calleeName(call) == "core.ObjectHeader.DecrementReferenceCount" && canReach(inc, in)
				})
				rew := mustPrecede(ret, func(in ssa.Instruction) bool {
					call, ok := in.(*ssa.Call)
					if !ok || c.calleeName(call) != "hdf5.writeObjectHeaderWithRefCount" {
						return false
					}
					// the rewrite that follows the decrement
					for _, site := range callsIn(hl) {
						if c.calleeName(site) == "core.ObjectHeader.DecrementReferenceCount" && canReach(site, in) {
							return true
						}
					}
					return false
				})
				r.Check(dec && rew, "C16.2", c.Name(hl)+"#exit-after-increment#rolled-back", c.InstrPos(ret), "a failure exit after the reference count was incremented and written is preceded by the decrement and the rewrite")
			}
		}
	}
	ruleC16Typestate(c, r, roots)
}

// ioOnlyFailing: every failure exit of fn merely reports the failure of an I/O primitive (directly or through
// callees with the same property). Such a callee is treated like a primitive: its failure is a fault, not a rejected request.
func (c *Ctx) ioOnlyFailing(fn *ssa.Function, depth int) bool {
	memo, _ := c.cache["ioonly"].(map[*ssa.Function]int)
	if memo == nil {
		memo = map[*ssa.Function]int{}
		c.cache["ioonly"] = memo
	}
	switch memo[fn] {
	case 1:
		return true
	case 2:
		return false
	case 3:
		return true // recursion: assume
	}
	if fn.Blocks == nil || depth > 8 {
		return false
	}
	memo[fn] = 3
	idx := errResultIndex(fn.Signature)
	ok := idx >= 0
	for _, ret := range errorReturns(fn) {
		srcs := errorSources(retOperand(ret, idx))
		if len(srcs) == 0 {
			ok = false
		}
		for _, s := range srcs {
			if s.Fresh {
				ok = false
				continue
			}
			if c.ioPrimitiveCall(s.Call) {
				continue
			}
			// the in-place write-back of a loaded dense structure fails through I/O (or for a structure that was never
			// loaded, which the callers exclude by loading it first): its error is not the rejection of a request
			if n := c.calleeName(s.Call); n == "structures.WritableFractalHeap.WriteAt" || n == "structures.WritableBTreeV2.WriteAt" {
				continue
			}
			f := s.Call.Call.StaticCallee()
			if f == nil || !inModule(fnPkgPath(f)) || !c.ioOnlyFailing(f, depth+1) {
				ok = false
			}
		}
	}
	if ok {
		memo[fn] = 1
	} else {
		memo[fn] = 2
	}
	return ok
}

// checkAtomicFailure: like checkNoErrorAfterStore but with the C16 notion of mutation.
func (c *Ctx) checkAtomicFailure(r *Result, rule string, fn *ssa.Function, isMutCallee func(string) bool) {
	name := c.Name(fn)
	muts := append([]ssa.Instruction{}, c.directMutations(fn)...)
	for _, site := range callsIn(fn) {
		if _, isDefer := site.(*ssa.Defer); isDefer {
			continue
		}
		for _, g := range c.Callees(site) {
			if isMutCallee(c.Name(g)) {
				muts = append(muts, site)
				break
			}
		}
	}
	idx := errResultIndex(fn.Signature)
	for _, ret := range errorReturns(fn) {
		srcs := errorSources(retOperand(ret, idx))
		logical := len(srcs) == 0
		var srcNames []string
		var srcCalls []*ssa.Call
		for _, s := range srcs {
			if s.Fresh {
				logical = true
				srcNames = append(srcNames, "constructed error")
				continue
			}
			if c.ioPrimitiveCall(s.Call) {
				continue
			}
			if n := c.calleeName(s.Call); n == "structures.WritableFractalHeap.WriteAt" || n == "structures.WritableBTreeV2.WriteAt" {
				continue // write-back of a loaded structure: fails through I/O only (see ioOnlyFailing)
			}
			if f := s.Call.Call.StaticCallee(); f != nil && f.Blocks != nil && (len(errorReturns(f)) == 0 || c.ioOnlyFailing(f, 0)) {
				continue
			}
			logical = true
			srcNames = append(srcNames, c.calleeName(s.Call))
			srcCalls = append(srcCalls, s.Call)
		}
		if !logical {
			continue
		}
		var first ssa.Instruction
		for _, m := range muts {
			self := false
			for _, sc := range srcCalls {
				if ssa.Instruction(sc) == m {
					self = true
				}
			}
			if self {
				continue // the failing callee is judged on its own
			}
			if canReach(m, ret) && (first == nil || posLess(m, first)) {
				first = m
			}
		}
		construct := name + "#error-return(" + strings.Join(srcNames, "|") + ")"
		if first != nil && c.needsOddOffsetSize(scope{fn: fn, bind: map[ssa.Value]ssa.Value{}}, ret, 0) {
			// every superblock this writer creates or accepts for writing has OffsetSize 8: an exit that lies behind the false
			// edge of `OffsetSize == 8` (here or in the failing helper) cannot be taken after the change
			r.Hold(rule, construct+"#needs-offset-size-other-than-8", c.InstrPos(ret), "this exit is taken only for a superblock whose OffsetSize is not 8; the writer creates and accepts only 8-byte offsets")
			continue
		}
		if first != nil {
			if why, ok := c.failureCompensated(fn, muts, srcs, ret, isMutCallee); ok {
				r.Hold(rule, construct+"#rolled-back", c.InstrPos(ret), why)
				continue
			}
			r.Viol(rule, construct+"#after-mutation", c.InstrPos(ret), "this logical failure exit is reachable after state was changed / a structure was rewritten in place at "+c.InstrPos(first))
		} else {
			r.Hold(rule, construct, c.InstrPos(ret), "no mutation can precede this failure exit")
		}
	}
}

// ---- typestate: closed writer ----

func ruleC16Typestate(c *Ctx, r *Result, roots []*ssa.Function) {
	const inner = "hdf5.FileWriter.writer"
	closeFn := c.Fn(r, "hdf5.FileWriter.Close")
	if closeFn == nil {
		return
	}
	// C16.4: Close begins with the closed test and returns nil on it; and it nils the inner writer
	nilsInner := false
	for _, fs := range c.DirectFieldStores(closeFn) {
		if fs.Key == inner && isNilConst(fs.Val) {
			nilsInner = true
		}
	}
	r.Check(nilsInner, "C16.4", c.Name(closeFn)+"#marks-closed", c.Pos(closeFn.Pos()), "Close records the closed state (stores nil to the inner writer)")
	entryTest := false
	if len(closeFn.Blocks) > 0 {
		b := closeFn.Blocks[0]
		if ifi, ok := b.Instrs[len(b.Instrs)-1].(*ssa.If); ok {
			if bo, ok := ifi.Cond.(*ssa.BinOp); ok && isNilConst(bo.Y) {
				if k, _ := fieldLoadKey(bo.X); k == inner {
					// the nil arm returns nil
					arm := b.Succs[0]
					if ret, ok := arm.Instrs[len(arm.Instrs)-1].(*ssa.Return); ok && isNilConst(retOperand(ret, 0)) {
						entryTest = true
					}
				}
			}
		}
	}
	r.Check(entryTest, "C16.4", c.Name(closeFn)+"#idempotent", c.Pos(closeFn.Pos()), "Close starts with `writer == nil` and returns nil on it")
	// same for the other Close methods
	for _, n := range []string{"hdf5.File.Close", "writer.FileWriter.Close"} {
		f := c.Fn(r, n)
		if f == nil || len(f.Blocks) == 0 {
			continue
		}
		ok := false
		b := f.Blocks[0]
		if ifi, isIf := b.Instrs[len(b.Instrs)-1].(*ssa.If); isIf {
			if bo, isB := ifi.Cond.(*ssa.BinOp); isB && isNilConst(bo.Y) {
				arm := b.Succs[0]
				if ret, isR := arm.Instrs[len(arm.Instrs)-1].(*ssa.Return); isR && isNilConst(retOperand(ret, 0)) {
					ok = true
				}
			}
		}
		r.Check(ok, "C16.4", n+"#idempotent", c.Pos(f.Pos()), "Close starts with the already-closed test and returns nil on it")
	}

	// C16.3: for each exported method that (transitively, root package) loads fw.writer and calls a method on it,
	// some dominating test of fw.writer (or of a closed flag) must return an error.
	derefs := func(fn *ssa.Function) (ssa.Instruction, bool) {
		var at ssa.Instruction
		instrs(fn, func(in ssa.Instruction) {
			if at != nil {
				return
			}
			if call, ok := in.(ssa.CallInstruction); ok && len(call.Common().Args) > 0 && !call.Common().IsInvoke() {
				if k, _ := fieldLoadKey(call.Common().Args[0]); k == inner {
					if f := call.Common().StaticCallee(); f != nil && f.Signature.Recv() != nil {
						at = in
					}
				}
			}
		})
		return at, at != nil
	}
	guardedFn := func(fn *ssa.Function, at ssa.Instruction) bool {
		for _, b := range fn.Blocks {
			ifi, ok := b.Instrs[len(b.Instrs)-1].(*ssa.If)
			if !ok {
				continue
			}
			bo, ok := ifi.Cond.(*ssa.BinOp)
			if !ok || !isNilConst(bo.Y) {
				continue
			}
			if k, _ := fieldLoadKey(bo.X); k == inner && b.Dominates(at.Block()) {
				return true
			}
		}
		return false
	}
	// writer.FileWriter methods guard their own file handle, but a nil *writer.FileWriter receiver is dereferenced before that guard
	for _, root := range roots {
		if root == closeFn || root.Signature.Recv() == nil {
			continue
		}
		reach := c.Reach([]*ssa.Function{root}, func(f *ssa.Function) bool { return shortPkg(fnPkgPath(f)) != "hdf5" })
		var fns []*ssa.Function
		for f := range reach {
			fns = append(fns, f)
		}
		sortFuncs(c, fns)
		// is there an unguarded dereference on some path? (conservative: any function in reach with an unguarded deref,
		// unless the root itself tests the inner writer before calling anything)
		var witness string
		rootGuard := c.entryCallsClosedTest(root, inner)
		for _, b := range root.Blocks {
			if ifi, ok := b.Instrs[len(b.Instrs)-1].(*ssa.If); ok {
				if bo, ok := ifi.Cond.(*ssa.BinOp); ok && isNilConst(bo.Y) {
					if k, _ := fieldLoadKey(bo.X); k == inner && b == root.Blocks[0] {
						rootGuard = true
					}
				}
			}
		}
		touches := false
		for _, f := range fns {
			if at, ok := derefs(f); ok {
				touches = true
				if !guardedFn(f, at) && !rootGuard && witness == "" {
					witness = c.Name(f) + " at " + c.InstrPos(at)
				}
			}
		}
		if !touches {
			continue
		}
		if witness == "" {
			r.Hold("C16.3", c.Name(root)+"#closed-guard", c.Pos(root.Pos()), "every dereference of the inner writer is behind a closed test")
		} else {
			r.Viol("C16.3", c.Name(root)+"#use-after-close", c.Pos(root.Pos()), "after Close the inner writer is nil; this method reaches a method call on it with no closed test: "+witness)
		}
	}
	r.Floor("C16.3", 10)

	// C16.6 panic calls reachable from the write API
	reach := c.Reach(roots, func(f *ssa.Function) bool { return !libPackage(fnPkgPath(f)) })
	var fns []*ssa.Function
	for f := range reach {
		fns = append(fns, f)
	}
	sortFuncs(c, fns)
	for _, f := range fns {
		instrs(f, func(in ssa.Instruction) {
			if p, ok := in.(*ssa.Panic); ok {
				// discharge: a panic on an unsupported header version is unreachable when every header writer carries version 1 or 2
				if c.Name(f) == "core.ObjectHeaderWriter.Size" && c.headerWriterVersionsClosed(r) {
					r.Hold("C16.6", c.Name(f)+"#panic-unreachable", c.InstrPos(p), "every ObjectHeaderWriter.Version is the constant 1 or 2, or copied from a parsed ObjectHeader whose version ReadObjectHeader restricts to 1 or 2")
					return
				}
				r.Viol("C16.6", c.Name(f)+"#panic", c.InstrPos(p), "explicit panic reachable from the write API")
			}
		})
	}
	r.Hold("C16.6", "write-api#panic-scan", "-", "scanned "+itoa(len(fns))+" functions reachable from the write API")
}

func itoa(n int) string {
	if n == 0 {
		return "0"
	}
	s := ""
	for n > 0 {
		s = string(rune('0'+n%10)) + s
		n /= 10
	}
	return s
}

// headerWriterVersionsClosed: every store to ObjectHeaderWriter.Version is the constant 1 or 2 or a copy of ObjectHeader.Version,
// and ReadObjectHeader's version switch ends in an error default.
func (c *Ctx) headerWriterVersionsClosed(r *Result) bool {
	n := 0
	for _, fn := range c.LibFuncs() {
		for _, fs := range c.DirectFieldStores(fn) {
			if fs.Key != "core.ObjectHeaderWriter.Version" || fs.Val == nil {
				continue
			}
			n++
			if k, ok := constInt(fs.Val); ok {
				if k != 1 && k != 2 {
					return false
				}
				continue
			}
			if valueReadsField(fs.Val, "core.ObjectHeader.Version", 0) {
				continue
			}
			// a parameter whose every static call site passes the constant 1 or 2
			if p, ok := fs.Val.(*ssa.Parameter); ok {
				idx := paramIndex(p.Parent(), p)
				node := c.CG.Nodes[p.Parent()]
				okAll := node != nil && len(node.In) > 0 && idx >= 0
				if okAll {
					for _, e := range node.In {
						if e.Site == nil || e.Site.Common().StaticCallee() != p.Parent() {
							okAll = false
							break
						}
						k, isC := constInt(e.Site.Common().Args[idx])
						if !isC || (k != 1 && k != 2) {
							okAll = false
						}
					}
				}
				if okAll {
					continue
				}
			}
			return false
		}
	}
	return n > 0
}

// closedTestFn: fn returns an error and contains `if <inner field> == nil` whose nil arm returns a non-nil error.
func (c *Ctx) closedTestFn(fn *ssa.Function, inner string) bool {
	if fn == nil || fn.Blocks == nil || errResultIndex(fn.Signature) < 0 {
		return false
	}
	for _, b := range fn.Blocks {
		ifi, ok := b.Instrs[len(b.Instrs)-1].(*ssa.If)
		if !ok {
			continue
		}
		bo, ok := ifi.Cond.(*ssa.BinOp)
		if !ok || !isNilConst(bo.Y) {
			continue
		}
		if k, _ := fieldLoadKey(bo.X); k != inner {
			continue
		}
		arm := b.Succs[0]
		if ret, ok := arm.Instrs[len(arm.Instrs)-1].(*ssa.Return); ok && !isNilConst(retOperand(ret, errResultIndex(fn.Signature))) {
			return true
		}
	}
	return false
}

// entryCallsClosedTest: the entry block of root calls a closed-test helper and returns its error.
func (c *Ctx) entryCallsClosedTest(root *ssa.Function, inner string) bool {
	if len(root.Blocks) == 0 {
		return false
	}
	b := root.Blocks[0]
	for _, in := range b.Instrs {
		call, ok := in.(*ssa.Call)
		if !ok {
			continue
		}
		if f := call.Call.StaticCallee(); f != nil && c.closedTestFn(f, inner) {
			// the result must be tested and lead to an error return
			site := c.ClassifyErrCall(call)
			return site != nil && site.Kind == ErrPropagated
		}
	}
	return false
}

// ---- additional necessary condition (defect reported by a sub-agent while preparing the third round; confirmed with a probe) ----

func init() {
	reg := registry["C16"]
	reg.Meta.Rules["C16.7"] = "the reference-count writer stores the current count into the header's RefCount message on both sides of its `count > 1` test (a rollback to 1 must not leave the message at 2)"
	reg.Rules = append(reg.Rules, func(c *Ctx, r *Result) {
		fn := c.Fn(r, "hdf5.writeV2RefCount")
		if fn == nil {
			return
		}
		var gate *ssa.If
		for _, b := range fn.Blocks {
			if ifi, ok := b.Instrs[len(b.Instrs)-1].(*ssa.If); ok {
				if bo, ok := ifi.Cond.(*ssa.BinOp); ok && bo.Op == token.GTR && valueReadsField(bo.X, "core.ObjectHeader.ReferenceCount", 0) {
					gate = ifi
				}
			}
		}
		if gate == nil {
			// no gate: the count is stored unconditionally - fine if a store exists at all
			ok := false
			for _, site := range callsIn(fn) {
				if c.calleeName(site) == "hdf5.ensureRefCountMessage" {
					ok = true
				}
			}
			r.Check(ok, "C16.7", c.Name(fn)+"#refcount-message-follows-count", c.Pos(fn.Pos()), "the count is written into the RefCount message on every path")
			r.Floor("C16.7", 1)
			return
		}
		stores := func(arm *ssa.BasicBlock) bool {
			for _, b := range fn.Blocks {
				if !edgeDominates(gate.Block(), arm, b) {
					continue
				}
				for _, in := range b.Instrs {
					call, ok := in.(*ssa.Call)
					if !ok {
						continue
					}
					n := c.calleeName(call)
					if n == "hdf5.ensureRefCountMessage" {
						return true
					}
					if strings.HasSuffix(n, "PutUint32") {
						args := call.Call.Args
						if valueReadsField(args[len(args)-1], "core.ObjectHeader.ReferenceCount", 0) {
							return true
						}
					}
				}
			}
			return false
		}
		up, down := stores(gate.Block().Succs[0]), stores(gate.Block().Succs[1])
		r.Check(up && down, "C16.7", c.Name(fn)+"#refcount-message-follows-count", c.InstrPos(gate), "count > 1: message created/updated; count <= 1: an existing message is updated too (otherwise the rollback of a failed hard link leaves 2 on disk)")
		r.Floor("C16.7", 1)
	})
}

// needsOddOffsetSize: the failing return lies behind an edge on which Superblock.OffsetSize is known to differ from 8,
// either in this body or - when the error is the result of a helper - in every failing return of that helper with the
// helper's parameter bound to the OffsetSize load.
func (c *Ctx) needsOddOffsetSize(sc scope, ret *ssa.Return, depth int) bool {
	if depth > 2 {
		return false
	}
	isOff := func(v ssa.Value) bool {
		v = stripConv(sc.res(stripConv(v)))
		k, _ := fieldLoadKey(v)
		return k == "core.Superblock.OffsetSize"
	}
	for _, b := range sc.fn.Blocks {
		ifi, ok := b.Instrs[len(b.Instrs)-1].(*ssa.If)
		if !ok {
			continue
		}
		bo, ok := ifi.Cond.(*ssa.BinOp)
		if !ok || (bo.Op != token.EQL && bo.Op != token.NEQ) {
			continue
		}
		k, isK := constInt(bo.Y)
		if !isK || k != 8 || !isOff(bo.X) {
			continue
		}
		not8 := b.Succs[1]
		if bo.Op == token.NEQ {
			not8 = b.Succs[0]
		}
		if edgeDominates(b, not8, ret.Block()) {
			return true
		}
	}
	idx := errResultIndex(sc.fn.Signature)
	srcs := errorSources(retOperand(ret, idx))
	if len(srcs) == 0 {
		return false
	}
	for _, s := range srcs {
		if s.Fresh || s.Call == nil {
			return false
		}
		_, hs, ok := helperResult(sc, s.Call)
		if !ok {
			// helperResult needs a unique success value; only the binding is wanted here
			callee := s.Call.Call.StaticCallee()
			if callee == nil || callee.Blocks == nil || !inModule(fnPkgPath(callee)) || len(callee.Params) != len(s.Call.Call.Args) {
				return false
			}
			bind := map[ssa.Value]ssa.Value{}
			for i, a := range s.Call.Call.Args {
				bind[callee.Params[i]] = sc.res(a)
			}
			hs = scope{fn: callee, bind: bind, call: s.Call}
		}
		ers := errorReturns(hs.fn)
		if len(ers) == 0 {
			return false
		}
		for _, er := range ers {
			if !c.needsOddOffsetSize(hs, er, depth+1) {
				return false
			}
		}
	}
	return true
}

func init() {
	reg := registry["C16"]
	reg.Meta.Rules["C16.8"] = "an element encoder writes with the element width it was told: in a function with an element-size parameter, every PutUintN(buf[i*K:], ...) lies on a path where that parameter is known to equal K (= N/8); otherwise a value slice of another width passes the size check with an equal element count and the write runs past the buffer (a panic instead of an error)"
	reg.Rules = append(reg.Rules, func(c *Ctx, r *Result) {
		n := 0
		for _, fn := range c.LibFuncs() {
			if shortPkg(fnPkgPath(fn)) != "hdf5" || fn.Blocks == nil {
				continue
			}
			var es *ssa.Parameter
			for _, p := range fn.Params {
				ln := strings.ToLower(p.Name())
				if (ln == "elemsize" || ln == "elementsize") && isIntType(p.Type()) {
					es = p
				}
			}
			if es == nil {
				continue
			}
			fb := c.FB(fn)
			for _, site := range callsIn(fn) {
				call, ok := site.(*ssa.Call)
				if !ok {
					continue
				}
				name := c.calleeName(call)
				w := int64(0)
				switch {
				case strings.HasSuffix(name, "PutUint16"):
					w = 2
				case strings.HasSuffix(name, "PutUint32"):
					w = 4
				case strings.HasSuffix(name, "PutUint64"):
					w = 8
				}
				if w == 0 || !strings.Contains(name, "binary") {
					continue
				}
				// destination buf[i*K:]: the stride K
				args := call.Call.Args
				sl, ok := args[len(args)-2].(*ssa.Slice)
				if !ok || sl.Low == nil {
					continue
				}
				l := fb.lin(sl.Low)
				stride := int64(0)
				for _, coef := range l.T {
					stride = coef
				}
				if len(l.T) != 1 || stride <= 1 {
					continue // not an element loop
				}
				n++
				e := fb.lin(es)
				ok2 := fb.ProveGE0At(e.add(linConst(stride), -1), call) && fb.ProveGE0At(linConst(stride).add(e, -1), call)
				r.Check(ok2 && stride == w, "C16.8", c.Name(fn)+"#put"+itoa(int(w*8))+"-under-matching-element-size", c.InstrPos(call), "elements are written "+itoa(int(w))+" bytes wide at stride "+itoa(int(stride))+"; on this path "+es.Name()+" == "+itoa(int(stride))+" must be established")
			}
		}
		if n == 0 {
			r.Undec("C16.8", "hdf5#element-encoders", "", "no strided PutUintN in a function with an element-size parameter")
		}
	})
}

func init() {
	reg := registry["C16"]
	reg.Meta.Rules["C16.9"] = "a rejected Resize changes nothing: no failure exit of DatasetWriter.Resize is reachable after the handle's shape, size, coordinator or the cached header's messages were changed (same analysis as C13.3; C16.1 leaves Resize to it)"
	except("C16", "C16.9", "hdf5.DatasetWriter.Resize#error-return(core.WriteObjectHeader)#after-mutation",
		"the only change before this exit is the replacement of the cached header's dataspace message by an encoding of the same rank, i.e. of the same length, so WriteObjectHeader cannot refuse it for size; it fails only when the file write itself fails, which is an I/O fault, not a rejected request")
	reg.Rules = append(reg.Rules, func(c *Ctx, r *Result) {
		rz := c.FnOpt("hdf5.DatasetWriter.Resize")
		if rz == nil {
			r.Undec("C16.9", "hdf5.DatasetWriter.Resize#atomic-failure", "", "Resize not found")
			return
		}
		isWOH := func(n string) bool { return n == "core.WriteObjectHeader" }
		c.checkNoErrorAfterStore(r, "C16.9", rz, isWOH, false, "hdf5.DatasetWriter.dims", "hdf5.DatasetWriter.dataSize", "hdf5.DatasetWriter.chunkCoordinator", "core.HeaderMessage.Data")
	})
}

// failureCompensated: the failure exit ret lies behind mutations, but they are undone or cannot matter:
//   - the error comes from exactly one call F whose own rejections (constructed errors) all happen before it touches the file;
//   - every store to existing state that can precede ret - in fn itself or in the memory-only part of a mutating callee - goes to
//     a field that fn assigns again, on every path from F to ret, a value it loaded before the mutation (save / restore);
//   - a callee that writes to the file reaches its own success only through a call of the same function as F: the header it
//     wrote a moment ago is the one F was asked to write, so F's rejection cannot follow it.
func (c *Ctx) failureCompensated(fn *ssa.Function, muts []ssa.Instruction, srcs []errSource, ret *ssa.Return, isMutCallee func(string) bool) (string, bool) {
	dbg := os.Getenv("H5SA_DEBUG_COMP") != "" && strings.Contains(c.Name(fn), os.Getenv("H5SA_DEBUG_COMP"))
	if len(srcs) != 1 || srcs[0].Fresh || srcs[0].Call == nil {
		return "", dbgFalse(dbg, 101)
	}
	F := srcs[0].Call
	f := F.Call.StaticCallee()
	if f == nil || f.Blocks == nil || !c.rejectsBeforeIO(f, 0) {
		if dbg {
			fmt.Fprintln(os.Stderr, "comp:", c.Name(fn), "rejectsBeforeIO fails for", c.calleeName(F))
		}
		return "", dbgFalse(dbg, 102)
	}
	restored := func(key string, m ssa.Instruction) bool {
		return mustPrecede(ret, func(in ssa.Instruction) bool {
			st, ok := in.(*ssa.Store)
			if !ok || !canReach(F, st) {
				return dbgFalse(dbg, 1)
			}
			k := ""
			switch a := st.Addr.(type) {
			case *ssa.FieldAddr:
				if fld, base := fieldOfAddr(a); fld != nil {
					k = fieldKey(base.Type(), fld)
				}
			}
			if k != key {
				return dbgFalse(dbg, 2)
			}
			// the value is a load of the same field made before the mutation
			ld, isLd := st.Val.(*ssa.UnOp)
			if !isLd {
				if phi, isPhi := st.Val.(*ssa.Phi); isPhi {
					for _, e := range phi.Edges {
						if u, isU := e.(*ssa.UnOp); isU {
							ld, isLd = u, true
						}
					}
				}
			}
			if !isLd {
				return dbgFalse(dbg, 3)
			}
			lk, _ := fieldLoadKey(ld)
			return lk == key && canReach(ld, m) && !canReach(m, ld)
		})
	}
	var fileRoots []string
	var keys []string
	var visit func(h *ssa.Function, m ssa.Instruction, depth int) bool
	visit = func(h *ssa.Function, m ssa.Instruction, depth int) bool {
		if depth > 4 {
			return dbgFalse(dbg, 4)
		}
		dm := c.directMutations(h)
		writesFile := false
		for _, d := range dm {
			if _, isCall := d.(ssa.CallInstruction); isCall {
				writesFile = true
			}
		}
		if writesFile {
			// every success return of h lies behind a call of f
			for _, b := range h.Blocks {
				r2, isRet := b.Instrs[len(b.Instrs)-1].(*ssa.Return)
				if !isRet || !isSuccessReturn(r2) {
					continue
				}
				if ei := errResultIndex(h.Signature); ei >= 0 && knownNonNilAt(retOperand(r2, ei), b) {
					continue // `if err != nil { return err }`
				}
				if !mustPrecede(r2, func(in ssa.Instruction) bool {
					call, ok := in.(*ssa.Call)
					return ok && call.Call.StaticCallee() == f
				}) {
					if dbg {
						fmt.Fprintln(os.Stderr, "comp:", c.Name(fn), "file-writing callee", c.Name(h), "has a success return not behind", c.Name(f))
					}
					return dbgFalse(dbg, 5)
				}
			}
			fileRoots = append(fileRoots, c.Name(h))
			return true
		}
		for _, d := range dm {
			st, isSt := d.(*ssa.Store)
			if !isSt {
				return dbgFalse(dbg, 6)
			}
			fa, isFA := st.Addr.(*ssa.FieldAddr)
			if !isFA {
				return dbgFalse(dbg, 7)
			}
			fld, base := fieldOfAddr(fa)
			if fld == nil {
				return dbgFalse(dbg, 8)
			}
			key := fieldKey(base.Type(), fld)
			if !restored(key, m) && !c.guardedRestore(fn, h, st, m, F, ret, key) {
				if dbg {
					fmt.Fprintln(os.Stderr, "comp:", c.Name(fn), "not restored:", key, "stored in", c.Name(h))
				}
				return dbgFalse(dbg, 9)
			}
			keys = append(keys, key)
		}
		for _, site := range callsIn(h) {
			if _, isDefer := site.(*ssa.Defer); isDefer {
				continue
			}
			for _, k := range c.Callees(site) {
				if k != h && isMutCallee(c.Name(k)) && k.Blocks != nil {
					if !visit(k, m, depth+1) {
						return dbgFalse(dbg, 10)
					}
				}
			}
		}
		return true
	}
	for _, m := range muts {
		if m == ssa.Instruction(F) || !canReach(m, ret) {
			continue
		}
		switch x := m.(type) {
		case *ssa.Store:
			// a store that puts back a value loaded from the same field earlier is the restore itself
			val := x.Val
			if phi, isPhi := val.(*ssa.Phi); isPhi {
				for _, e := range phi.Edges {
					if u, isU := e.(*ssa.UnOp); isU {
						val = u
					}
				}
			}
			if ld, isLd := val.(*ssa.UnOp); isLd && canReach(F, x) {
				if fa0, ok := x.Addr.(*ssa.FieldAddr); ok {
					if fld0, base0 := fieldOfAddr(fa0); fld0 != nil {
						if lk, _ := fieldLoadKey(ld); lk == fieldKey(base0.Type(), fld0) && !canReach(F, ld) {
							continue
						}
					}
				}
			}
			fa, isFA := x.Addr.(*ssa.FieldAddr)
			if !isFA {
				return "", dbgFalse(dbg, 103)
			}
			fld, base := fieldOfAddr(fa)
			if fld == nil || !restored(fieldKey(base.Type(), fld), m) {
				return "", dbgFalse(dbg, 104)
			}
			keys = append(keys, fieldKey(base.Type(), fld))
		case ssa.CallInstruction:
			ok := false
			for _, g := range c.Callees(x) {
				if isMutCallee(c.Name(g)) && g.Blocks != nil {
					if !visit(g, m, 0) {
						return "", dbgFalse(dbg, 105)
					}
					ok = true
				}
			}
			if !ok {
				return "", dbgFalse(dbg, 106)
			}
		default:
			return "", dbgFalse(dbg, 107)
		}
	}
	if len(keys) == 0 && len(fileRoots) == 0 {
		return "", dbgFalse(dbg, 108)
	}
	sort.Strings(keys)
	sort.Strings(fileRoots)
	why := c.calleeName(F) + " rejects a request before it touches the file"
	if len(keys) > 0 {
		why += "; the fields changed before it (" + strings.Join(uniqStrings(keys), ", ") + ") are assigned their saved values again on every path to this exit"
	}
	if len(fileRoots) > 0 {
		why += "; the callees that write to the file (" + strings.Join(uniqStrings(fileRoots), ", ") + ") return success only after the same call succeeded"
	}
	return why, true
}

// rejectsBeforeIO: in f and the module functions it calls, no constructed error is returned after an I/O primitive or a file
// write was reached: a rejection leaves the file as it was.
func (c *Ctx) rejectsBeforeIO(f *ssa.Function, depth int) bool {
	if f.Blocks == nil || depth > 3 {
		return depth <= 3
	}
	idx := errResultIndex(f.Signature)
	if idx < 0 {
		return true
	}
	var ios []ssa.Instruction
	for _, site := range callsIn(f) {
		call, isCall := site.(*ssa.Call)
		if !isCall {
			continue
		}
		if c.ioPrimitiveCall(call) {
			ios = append(ios, call)
			continue
		}
		if _, ok := c.fileWriteAddr(site); ok {
			ios = append(ios, call)
			continue
		}
		if g := call.Call.StaticCallee(); g != nil && g.Blocks != nil && inModule(fnPkgPath(g)) && errResultIndex(g.Signature) >= 0 {
			if !c.rejectsBeforeIO(g, depth+1) {
				return false
			}
			// a callee that may do I/O counts as I/O for what follows it here
			if c.reachesIO(g, 0) {
				ios = append(ios, call)
			}
		}
	}
	for _, ret := range errorReturns(f) {
		fresh := false
		for _, s := range errorSources(retOperand(ret, idx)) {
			if s.Fresh {
				fresh = true
			}
		}
		if !fresh {
			continue
		}
		for _, io := range ios {
			if canReach(io, ret) {
				return false
			}
		}
	}
	return true
}

func (c *Ctx) reachesIO(f *ssa.Function, depth int) bool {
	if f.Blocks == nil || depth > 4 {
		return true
	}
	for _, site := range callsIn(f) {
		call, isCall := site.(*ssa.Call)
		if !isCall {
			continue
		}
		if c.ioPrimitiveCall(call) {
			return true
		}
		if _, ok := c.fileWriteAddr(site); ok {
			return true
		}
		if g := call.Call.StaticCallee(); g != nil && g.Blocks != nil && inModule(fnPkgPath(g)) && c.reachesIO(g, depth+1) {
			return true
		}
	}
	return false
}

func uniqStrings(in []string) []string {
	var out []string
	for i, s := range in {
		if i == 0 || s != in[i-1] {
			out = append(out, s)
		}
	}
	return out
}

func dbgFalse(dbg bool, n int) bool {
	if dbg {
		fmt.Fprintln(os.Stderr, "comp: exit", n)
	}
	return false
}

// guardedRestore: the callee h stores to key only under a test of one of its parameters against a constant (existingIndex >= 0);
// fn restores the field under the same test of the argument it passed, and that test lies on every path from the failing call
// to the exit. Where the test is false neither the store nor the restore happens.
func (c *Ctx) guardedRestore(fn, h *ssa.Function, st *ssa.Store, m ssa.Instruction, F *ssa.Call, ret *ssa.Return, key string) bool {
	call, ok := m.(ssa.CallInstruction)
	if !ok || call.Common().StaticCallee() != h {
		return false
	}
	type guard struct {
		op   token.Token
		k    int64
		v    ssa.Value
		edge int
	}
	guardOf := func(blk *ssa.BasicBlock) (guard, *ssa.BasicBlock, bool) {
		for b := blk.Idom(); b != nil; b = b.Idom() {
			ifi, isIf := b.Instrs[len(b.Instrs)-1].(*ssa.If)
			if !isIf {
				continue
			}
			for e := 0; e < 2; e++ {
				if edgeDominates(b, b.Succs[e], blk) {
					bo, isBO := ifi.Cond.(*ssa.BinOp)
					if !isBO {
						return guard{}, nil, false
					}
					k, isK := constInt(bo.Y)
					if !isK {
						return guard{}, nil, false
					}
					return guard{bo.Op, k, bo.X, e}, b, true
				}
			}
		}
		return guard{}, nil, false
	}
	gh, _, ok1 := guardOf(st.Block())
	if !ok1 {
		return false
	}
	p, isParam := gh.v.(*ssa.Parameter)
	if !isParam {
		return false
	}
	idx := paramIndex(h, p)
	if idx < 0 || idx >= len(call.Common().Args) {
		return false
	}
	arg := call.Common().Args[idx]
	// the restoring store in fn
	found := false
	instrs(fn, func(in ssa.Instruction) {
		rs, isSt := in.(*ssa.Store)
		if !isSt || !canReach(F, rs) || found {
			return
		}
		fa, isFA := rs.Addr.(*ssa.FieldAddr)
		if !isFA {
			return
		}
		fld, base := fieldOfAddr(fa)
		if fld == nil || fieldKey(base.Type(), fld) != key {
			return
		}
		gf, gb, ok2 := guardOf(rs.Block())
		if !ok2 || gf.op != gh.op || gf.k != gh.k || gf.edge != gh.edge || gf.v != arg {
			return
		}
		// the test lies on every path from F to the exit
		if !mustPrecede(ret, func(x ssa.Instruction) bool { return x == gb.Instrs[len(gb.Instrs)-1] && canReach(F, x) }) {
			return
		}
		// and within its arm the store lies on every path to the exit: the arm's entry block reaches ret only through rs
		found = rs.Block() == gb.Succs[gf.edge] || gb.Succs[gf.edge].Dominates(rs.Block())
	})
	return found
}
